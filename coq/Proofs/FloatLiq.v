(* FloatLiq.v — C10 (liquidation raises enough) at the IEEE binary64 instance for whole-unit data: integer bids,
   whole-share long positions, an integer request. No rounding gap: the sells queued are worth, in exact
   integers, at least the request.
   Layout: (L1) [div_ceil_int]: float_ceil (a / b) on integer-valued floats, 0 <= a < 2^53, 0 < b <= 2^1022, is
   the float of the mathematical ceiling [zcdiv a b]. (L2) the integer loop [zliq] and its facts [zliq_spec],
   [zliq_rest]; the relation [lrel]; [liq_loop_sim]: the float loop is, at every point (any remaining amount, any
   accumulator), the image of the integer loop; [liq_loop_float]. (L3) the gate on the sells
   [gate_sell_float], [send_sells_float]; the call [liquidation_float] — for ANY cost list, the liquidation value
   is not used by the conclusions; (L4) [rebalance_float], [check_float]; (L3') without costs the verdict is the
   integer verdict [liquidation_float_verdict]. (L5) kernel-evaluated examples, the zero-share edge and the
   fractional counterexample. *)
From Coq Require Import ZArith NArith List Bool String Floats Reals Lra Lia Permutation.
From Flocq Require Import Core.Raux Core.Generic_fmt Core.FLT Core.Round_NE.
From Flocq Require Import Relative.
From Flocq Require Import IEEE754.BinarySingleNaN IEEE754.PrimFloat.
From Alator Require Import Model.Num Model.Quirks Model.Cost Model.Exchange Model.Uist Model.Broker.
From Alator Require Import Proofs.BrokerLedgerProofs Proofs.BrokerLiqProofs Proofs.FloatExact Proofs.FloatCash
  Proofs.FloatWorth.
Import ListNotations.

Local Existing Instance PrimFloat.Hprec.
Local Existing Instance PrimFloat.Hmax.

(* ------------------------------------------------------------------------------------------- *)
(* (L1) integer division through floats                                                          *)

(* the ceiling of a / b for b > 0, in Z *)
Definition zcdiv (a b : Z) : Z := ((a + b - 1) / b)%Z.

Lemma zcdiv_spec a b : (0 < b)%Z -> (a <= zcdiv a b * b < a + b)%Z.
Proof.
  intros Hb. unfold zcdiv.
  pose proof (Z.div_mod (a + b - 1) b ltac:(lia)) as E.
  pose proof (Z.mod_pos_bound (a + b - 1) b Hb) as M. nia.
Qed.

Lemma zcdiv_unique a b k : (0 < b)%Z -> (a <= k * b < a + b)%Z -> zcdiv a b = k.
Proof.
  intros Hb Hk. pose proof (zcdiv_spec a b Hb) as S. nia.
Qed.

Lemma Zceil_div_IZR a b : (0 < b)%Z -> Zceil (IZR a / IZR b) = zcdiv a b.
Proof.
  intros Hb. pose proof (zcdiv_spec a b Hb) as [S1 S2].
  assert (Pb : (0 < IZR b)%R) by (apply IZR_lt; exact Hb).
  apply Zceil_imp. rewrite minus_IZR. split.
  - apply Rmult_lt_reg_r with (IZR b); [exact Pb |].
    unfold Rdiv. rewrite Rmult_assoc, Rinv_l, Rmult_1_r by lra.
    rewrite <- minus_IZR, <- mult_IZR. apply IZR_lt. lia.
  - apply Rmult_le_reg_r with (IZR b); [exact Pb |].
    unfold Rdiv. rewrite Rmult_assoc, Rinv_l, Rmult_1_r by lra.
    rewrite <- mult_IZR. apply IZR_le. lia.
Qed.

(* the rounded quotient of two integers, 0 <= a < 2^53, 0 < b, stays strictly between the integers
   around a / b, and is a / b itself when b divides a *)
Lemma round_div_int a b : (0 <= a < 2 ^ 53)%Z -> (0 < b <= 2 ^ 1022)%Z ->
  let r := round Zaux.radix2 (SpecFloat.fexp prec emax) (round_mode mode_NE) (IZR a / IZR b) in
  Zceil r = zcdiv a b /\ (0 <= r <= IZR a)%R.
Proof.
  intros [Ha0 Ha] [Hb Hb2] r.
  assert (Pb : (0 < IZR b)%R) by (apply IZR_lt; exact Hb).
  assert (B1 : (1 <= IZR b)%R) by (apply IZR_le; lia).
  pose proof (Z.div_mod a b ltac:(lia)) as E.
  pose proof (Z.mod_pos_bound a b Hb) as M.
  set (n := (a / b)%Z) in *. set (m := (a mod b)%Z) in *.
  assert (Hn0 : (0 <= n)%Z) by (apply Z.div_pos; lia).
  assert (Hna : (n <= a)%Z) by nia.
  assert (X : (IZR a / IZR b = IZR n + IZR m / IZR b)%R).
  { rewrite E, plus_IZR, mult_IZR. field. lra. }
  destruct (Z.eq_dec m 0) as [M0 | M0].
  - (* exact *)
    assert (Xn : (IZR a / IZR b = IZR n)%R) by (rewrite X, M0; unfold Rdiv; lra).
    assert (R : r = IZR n).
    { unfold r. rewrite Xn. apply round_int. lia. }
    rewrite R. split.
    + rewrite Zceil_IZR. symmetry. apply zcdiv_unique; lia.
    + split; apply IZR_le; lia.
  - (* inexact: at least 1 / b away from n and from n + 1 *)
    assert (Hm1 : (1 <= m <= b - 1)%Z) by lia.
    assert (Lo : (IZR n + / IZR b <= IZR a / IZR b)%R).
    { rewrite X. apply Rplus_le_compat_l. unfold Rdiv. rewrite <- (Rmult_1_l (/ IZR b)) at 1.
      apply Rmult_le_compat_r; [left; apply Rinv_0_lt_compat; exact Pb | apply IZR_le; lia]. }
    assert (Hi : (IZR a / IZR b <= IZR n + 1 - / IZR b)%R).
    { rewrite X. replace (IZR n + 1 - / IZR b)%R with (IZR n + (IZR b - 1) / IZR b)%R by (field; lra).
      apply Rplus_le_compat_l. unfold Rdiv.
      apply Rmult_le_compat_r; [left; apply Rinv_0_lt_compat; exact Pb |].
      rewrite <- minus_IZR. apply IZR_le. lia. }
    assert (Pinv : (0 < / IZR b)%R) by (apply Rinv_0_lt_compat; exact Pb).
    assert (Px : (0 < IZR a / IZR b)%R).
    { apply Rlt_le_trans with (2 := Lo). apply IZR_le in Hn0. lra. }
    (* relative error of rounding to nearest *)
    assert (Err : (Rabs (r - IZR a / IZR b) <= / 2 * bpow Zaux.radix2 (- 53 + 1) * Rabs (IZR a / IZR b))%R).
    { unfold r. change (SpecFloat.fexp prec emax) with (FLT_exp (-1074) 53).
      apply (relative_error_N_FLT Zaux.radix2 (-1074) 53 ltac:(lia) (fun x => negb (Z.even x))).
      rewrite Rabs_pos_eq by lra.
      apply Rle_trans with (/ IZR b)%R; [| apply IZR_le in Hn0; lra].
      (* the quotient is at least 1 / b >= 2^-1022: in the normal range *)
      change (-1074 + 53 - 1)%Z with (Z.opp 1022). rewrite bpow_opp.
      apply Rinv_le; [exact Pb |]. rewrite <- (IZR_pow2 1022) by lia. apply IZR_le. exact Hb2. }
    rewrite (Rabs_pos_eq (IZR a / IZR b)) in Err by lra.
    assert (Small : (/ 2 * bpow Zaux.radix2 (- 53 + 1) * (IZR a / IZR b) < / IZR b)%R).
    { replace (/ 2 * bpow Zaux.radix2 (- 53 + 1))%R with (/ IZR (2 ^ 53))%R.
      - unfold Rdiv. rewrite <- Rmult_assoc. rewrite <- (Rmult_1_l (/ IZR b)) at 2.
        apply Rmult_lt_compat_r; [exact Pinv |].
        apply Rmult_lt_reg_l with (IZR (2 ^ 53)); [apply IZR_lt; lia |].
        rewrite <- Rmult_assoc, Rinv_r, Rmult_1_l, Rmult_1_r by (apply not_0_IZR; lia).
        apply IZR_lt. exact Ha.
      - rewrite (IZR_pow2 53) by lia. rewrite <- bpow_opp.
        change (/ 2)%R with (bpow Zaux.radix2 (-1)). rewrite <- bpow_plus. reflexivity. }
    apply Rabs_le_inv in Err.
    assert (Rl : (IZR n < r)%R) by lra.
    assert (Rh : (r < IZR n + 1)%R) by lra.
    split.
    + replace (zcdiv a b) with (n + 1)%Z by (symmetry; apply zcdiv_unique; lia).
      apply Zceil_imp. rewrite plus_IZR, minus_IZR, plus_IZR. lra.
    + apply IZR_le in Hn0. split; [lra |].
      apply Rle_trans with (IZR n + 1)%R; [lra |]. rewrite <- plus_IZR. apply IZR_le. nia.
Qed.

Theorem div_ceil_int x y a b : int_float x a -> int_float y b ->
  (0 <= a < 2 ^ 53)%Z -> (0 < b <= 2 ^ 1022)%Z ->
  int_float (float_ceil (PrimFloat.div x y)) (zcdiv a b) /\ zcdiv a b = Zceil (IZR a / IZR b).
Proof.
  intros [Fx Rx] [Fy Ry] Ha Hb.
  split; [| symmetry; apply Zceil_div_IZR; apply Hb].
  destruct (round_div_int a b Ha Hb) as [C [R0 R1]].
  assert (Ny : B2R (Prim2B y) <> 0%R) by (rewrite Ry; apply not_0_IZR; lia).
  pose proof (Bdiv_correct prec emax _ _ mode_NE (Prim2B x) (Prim2B y) Ny) as D.
  rewrite Rx, Ry in D.
  rewrite Rlt_bool_true in D.
  - destruct D as (D1 & D2 & _).
    assert (Fd : ffin (PrimFloat.div x y)) by (unfold ffin; rewrite div_equiv, D2; exact Fx).
    pose proof (float_ceil_int _ Fd) as H. unfold FR in H. rewrite div_equiv, D1, C in H. exact H.
  - rewrite Rabs_pos_eq by exact R0. apply Rle_lt_trans with (1 := R1).
    rewrite <- (Rabs_pos_eq (IZR a)) by (apply IZR_le; lia). apply int_below_emax. lia.
Qed.


(* ------------------------------------------------------------------------------------------- *)
(* (L2) the loop                                                                                  *)

Lemma Forall2_rev' {A B : Type} (R : A -> B -> Prop) l l' : Forall2 R l l' -> Forall2 R (rev l) (rev l').
Proof.
  induction 1 as [| a b l l' Hab _ IH]; cbn [rev]; [constructor |].
  apply Forall2_app; [exact IH | constructor; [exact Hab | constructor]].
Qed.

Section ZLiq.
(* the whole-unit bid of each symbol *)
Variable zb : string -> Z.

(* the loop over the integer readings: (amount still to raise, (symbol, shares) sold in order) *)
Fixpoint zliq (zh : smap Z) (ord : list string) (rem : Z) : Z * list (string * Z) :=
  match ord with
  | [] => (rem, [])
  | t :: r =>
      match sget zh t with
      | None => zliq zh r rem
      | Some q =>
          if (zb t * q <=? rem)%Z
          then let '(x, l) := zliq zh r (rem - zb t * q) in (x, (t, q) :: l)
          else (0%Z, [(t, zcdiv rem (zb t))])
      end
  end.

(* the value of a list of (symbol, shares) at the bids *)
Definition zvalue (l : list (string * Z)) : Z :=
  fold_right (fun sq acc => (snd sq * zb (fst sq) + acc)%Z) 0%Z l.

(* the sales of a non-zero number of shares *)
Definition znz (l : list (string * Z)) : list (string * Z) :=
  filter (fun sq => negb (snd sq =? 0)%Z) l.

Lemma zvalue_znz l : zvalue (znz l) = zvalue l.
Proof.
  induction l as [| [s q] l IH]; cbn [znz filter zvalue fold_right fst snd]; [reflexivity |].
  fold (znz l). fold (zvalue l).
  destruct (Z.eqb_spec q 0) as [-> | NE]; cbn [negb zvalue fold_right fst snd]; fold (zvalue (znz l)); lia.
Qed.

(* long whole-share holdings at bids of at least one unit *)
Definition zlong (zh : smap Z) : Prop :=
  forall s q, sget zh s = Some q -> (0 < q)%Z /\ (1 <= zb s)%Z.

(* the integer loop: what is left is between 0 and the request; every sale is of a distinct held symbol of
   [ord], for between 0 shares and the position; the sales are worth at least the request minus what is left;
   in particular at least the request when nothing is left *)
Lemma zliq_spec zh : zlong zh -> forall ord rem, NoDup ord -> (0 <= rem)%Z ->
  (0 <= fst (zliq zh ord rem) <= rem)%Z /\
  Forall (fun sq => exists h, sget zh (fst sq) = Some h /\ (0 <= snd sq <= h)%Z) (snd (zliq zh ord rem)) /\
  incl (map fst (snd (zliq zh ord rem))) ord /\
  NoDup (map fst (snd (zliq zh ord rem))) /\
  (rem - fst (zliq zh ord rem) <= zvalue (snd (zliq zh ord rem)))%Z.
Proof.
  intros Hl. induction ord as [| t r IH]; intros rem ND Hr; cbn [zliq].
  - cbn [fst snd map zvalue fold_right]. repeat split; try lia; try constructor. apply incl_refl.
  - inversion ND as [| ? ? Nin ND']; subst.
    destruct (sget zh t) as [q |] eqn:Gq.
    + destruct (Hl t q Gq) as [Q0 B1].
      destruct (Z.leb_spec (zb t * q) rem) as [L | L].
      * destruct (IH (rem - zb t * q)%Z ND') as (I1 & I2 & I3 & I4 & I5); [lia |].
        destruct (zliq zh r (rem - zb t * q)) as [x l]. cbn [fst snd map zvalue fold_right] in *.
        fold (zvalue l) in *. repeat split; try lia.
        -- constructor; [| exact I2]. exists q. cbn [fst snd]. split; [exact Gq | lia].
        -- intros y [Hy | Hy]; [left; exact Hy | right; apply I3; exact Hy].
        -- constructor; [| exact I4]. intros Hin. apply Nin, I3, Hin.
      * pose proof (zcdiv_spec rem (zb t) ltac:(lia)) as [S1 S2].
        cbn [fst snd map zvalue fold_right]. repeat split; try lia.
        -- constructor; [| constructor]. exists q. cbn [fst snd]. split; [exact Gq | nia].
        -- intros y [Hy | []]. left. exact Hy.
        -- constructor; [intros [] | constructor].
    + destruct (IH rem ND' Hr) as (I1 & I2 & I3 & I4 & I5). repeat split; try assumption; try lia.
      intros y Hy. right. apply I3, Hy.
Qed.

(* what is left is the request minus the worth of every position of [ord], when that is positive *)
Definition zpos_sum (zh : smap Z) (ord : list string) : Z :=
  fold_right (fun a acc => (zcur zh a * zb a + acc)%Z) 0%Z ord.

Lemma zpos_sum_nonneg zh ord : zlong zh -> (0 <= zpos_sum zh ord)%Z.
Proof.
  intros Hl. induction ord as [| t r IH]; cbn [zpos_sum fold_right]; [lia |]. fold (zpos_sum zh r).
  unfold zcur. destruct (sget zh t) as [q |] eqn:G; [| lia]. destruct (Hl t q G). nia.
Qed.

Lemma zliq_rest zh : zlong zh -> forall ord rem, (0 <= rem)%Z ->
  fst (zliq zh ord rem) = Z.max 0 (rem - zpos_sum zh ord).
Proof.
  intros Hl. induction ord as [| t r IH]; intros rem Hr; cbn [zliq zpos_sum fold_right].
  - cbn [fst]. lia.
  - fold (zpos_sum zh r). pose proof (zpos_sum_nonneg zh r Hl) as N. unfold zcur.
    destruct (sget zh t) as [q |] eqn:G.
    + destruct (Z.leb_spec (zb t * q) rem) as [L | L].
      * specialize (IH (rem - zb t * q)%Z ltac:(lia)).
        destruct (zliq zh r (rem - zb t * q)) as [x l]. cbn [fst] in *. rewrite IH. lia.
      * cbn [fst]. lia.
    + rewrite (IH rem Hr). lia.
Qed.

End ZLiq.

Section AtFloatLiq.
Context (tbl : libm_table).
Let NFl : Num float := FloatNum tbl.
Local Existing Instance NFl.
Local Open Scope num_scope.

Variable zb : string -> Z.

(* the broker and its integer reading: the holdings are, key by key, the floats of [zh]; every held symbol
   is held long, has a last-seen quote whose bid is the float of the whole-unit bid [zb s] >= 1, and the
   position is worth less than 2^53 *)
Definition lrel (b : broker float) (zh : smap Z) : Prop :=
  hrel (b_holdings b) zh /\
  forall s q, sget zh s = Some q ->
    (0 < q)%Z /\ (1 <= zb s)%Z /\ (zb s * q < 2 ^ 53)%Z /\
    exists qt, sget (b_quotes b) s = Some qt /\ int_float (q_bid qt) (zb s).

Lemma lrel_zlong b zh : lrel b zh -> zlong zb zh.
Proof. intros [_ H] s q G. destruct (H s q G) as (A & B & _). split; assumption. Qed.

(* a market sell order for the float of an integer number of shares *)
Definition sell_reads (o : uorder float) (sq : string * Z) : Prop :=
  uo_type o = MarketSell /\ uo_symbol o = fst sq /\ uo_price o = None /\ int_float (uo_shares o) (snd sq).

Lemma sell_reads_mk t (x : float) q : int_float x q -> sell_reads (mkUOrder MarketSell t x None) (t, q).
Proof. intros H. split; [reflexivity | split; [reflexivity | split; [reflexivity | exact H]]]. Qed.

(* the float loop is the image of the integer loop: at every point the float amount still to raise is the float
   of the integer amount, the orders created are the images of the integer sales *)
Lemma liq_loop_sim (b : broker float) zh : lrel b zh -> forall ord c zrem acc zacc rest sells,
  int_float c zrem -> (0 <= zrem < 2 ^ 53)%Z -> Forall2 sell_reads acc zacc ->
  liq_loop clean b ord c acc = Ok (rest, sells) ->
  int_float rest (fst (zliq zb zh ord zrem)) /\
  Forall2 sell_reads sells (rev zacc ++ snd (zliq zb zh ord zrem)).
Proof.
  intros [Hh Hq]. induction ord as [| t r IH]; intros c zrem acc zacc rest sells Hc Hb Ha H;
    cbn [liq_loop zliq] in *.
  - inversion H; subst. cbn [fst snd]. rewrite app_nil_r. split; [exact Hc | apply Forall2_rev', Ha].
  - unfold position_value, position_qty in H.
    pose proof (hrel_sget _ _ t Hh) as G.
    destruct (sget (b_holdings b) t) as [x |] eqn:Gx; destruct (sget zh t) as [q |] eqn:Gq; try contradiction.
    + destruct (Hq t q Gq) as (Q0 & B1 & Bv & qt & Gt & Hbid). rewrite Gt in H.
      assert (Hpv : int_float (q_bid qt * x) (zb t * q)).
      { cbn [fmul NFl FloatNum]. apply mul_int_exact_strong; [exact Hbid | exact G |]. rewrite Z.abs_eq; nia. }
      change (@fleb float NFl) with PrimFloat.leb in H. change (@fmul float NFl) with PrimFloat.mul in H.
      rewrite (int_float_leb _ _ _ _ Hpv Hc) in H.
      destruct (Z.leb_spec (zb t * q) zrem) as [L | L].
      * assert (Hc' : int_float (c - q_bid qt * x) (zrem - zb t * q)).
        { cbn [fsub NFl FloatNum]. apply sub_int_exact_strong; [exact Hc | exact Hpv | lia]. }
        assert (Ha' : Forall2 sell_reads (mkUOrder MarketSell t x None :: acc) ((t, q) :: zacc)).
        { constructor; [| exact Ha]. apply sell_reads_mk, G. }
        assert (Hb' : (0 <= zrem - zb t * q < 2 ^ 53)%Z) by lia.
        destruct (IH _ _ _ _ _ _ Hc' Hb' Ha' H) as [I1 I2].
        destruct (zliq zb zh r (zrem - zb t * q)) as [x' l]. cbn [fst snd rev] in *.
        rewrite <- app_assoc in I2. split; [exact I1 | exact I2].
      * cbn [q_liq_ceil_precedence clean] in H. inversion H; subst rest sells. cbn [fst snd rev].
        split; [exact int_float_zero |].
        apply Forall2_app; [apply Forall2_rev', Ha |]. constructor; [| constructor].
        apply sell_reads_mk. change (@fceil float NFl) with float_ceil. change (@fdiv float NFl) with PrimFloat.div.
        apply div_ceil_int; [exact Hc | exact Hbid | lia |].
        split; [lia |]. apply Z.le_trans with (2 ^ 53)%Z; [nia |]. apply Z.pow_le_mono_r; lia.
    + assert (E : (match (match sget (b_quotes b) t with Some _ => @None float | None => None end) with
                   | Some v => v | None => fzero end) = fzero) by (destruct (sget (b_quotes b) t); reflexivity).
      rewrite E in H. change (@fleb float NFl) with PrimFloat.leb in H. change (@fzero float NFl) with 0%float in H.
      rewrite (int_float_leb _ _ _ _ int_float_zero Hc) in H.
      destruct (Z.leb_spec 0 zrem) as [_ | L]; [| lia].
      exact (IH _ _ _ _ _ _ Hc Hb Ha H).
Qed.

(* (L2) the loop at binary64 on whole-unit data *)
Theorem liq_loop_float (b : broker float) zh ord c zr rest sells :
  lrel b zh -> NoDup ord -> int_float c zr -> (0 <= zr < 2 ^ 53)%Z ->
  liq_loop clean b ord c [] = Ok (rest, sells) ->
  let zrest := fst (zliq zb zh ord zr) in
  let zl := snd (zliq zb zh ord zr) in
  (* the float outputs are the images of the integer outputs *)
  int_float rest zrest /\ Forall2 sell_reads sells zl /\
  (* what is left *)
  (0 <= zrest <= zr)%Z /\ (rest ==? fzero) = (zrest =? 0)%Z /\
  (* the sales: distinct held symbols of [ord], between 0 shares and the position *)
  Forall (fun sq => exists h, sget zh (fst sq) = Some h /\ (0 <= snd sq <= h)%Z) zl /\
  incl (map fst zl) ord /\ NoDup (map fst zl) /\
  (* worth, in whole units, at least the request when nothing is left *)
  (zr - zrest <= zvalue zb zl)%Z /\
  ((rest ==? fzero) = true -> (zr <= zvalue zb zl)%Z /\ (zr <= zvalue zb (znz zl))%Z).
Proof.
  intros W ND Hc Hr H zrest zl.
  destruct (liq_loop_sim b zh W ord c zr [] [] rest sells Hc Hr (Forall2_nil _) H) as [S1 S2].
  cbn [rev Datatypes.app] in S2.
  destruct (zliq_spec zb zh (lrel_zlong b zh W) ord zr ND (proj1 Hr)) as (Z1 & Z2 & Z3 & Z4 & Z5).
  fold zrest in S1, Z1, Z5. fold zl in S2, Z2, Z3, Z4, Z5.
  assert (E : (rest ==? fzero) = (zrest =? 0)%Z).
  { cbn [feqb fzero NFl FloatNum]. exact (eqb_zero_int _ _ S1). }
  split; [exact S1 |]. split; [exact S2 |]. split; [exact Z1 |]. split; [exact E |].
  split; [exact Z2 |]. split; [exact Z3 |]. split; [exact Z4 |]. split; [exact Z5 |].
  intros E0. rewrite E in E0. apply Z.eqb_eq in E0. rewrite zvalue_znz. lia.
Qed.


(* ------------------------------------------------------------------------------------------- *)
(* (L3) the call                                                                                  *)

(* the orders of a non-zero quantity (float ==) *)
Definition fnz (l : list (uorder float)) : list (uorder float) :=
  filter (fun o => negb (uo_shares o ==? fzero)) l.

Lemma lrel_frame (b b1 : broker float) zh :
  b_holdings b1 = b_holdings b -> b_quotes b1 = b_quotes b -> lrel b zh -> lrel b1 zh.
Proof. unfold lrel. intros -> ->. exact (fun H => H). Qed.

Lemma gate_add_pending qk (b : broker float) o o' : gate qk (add_pending b o) o' = gate qk b o'.
Proof. reflexivity. Qed.

(* the gate of a Ready broker on a market sell of between 0 shares and the position: refused exactly when the
   quantity is zero *)
Lemma gate_sell_float (b : broker float) zh o sq h :
  lrel b zh -> b_failed b = false -> sell_reads o sq -> sget zh (fst sq) = Some h -> (0 <= snd sq <= h)%Z ->
  gate clean b o = if (snd sq =? 0)%Z then GInvalid else GForward.
Proof.
  intros [Hh Hq] Hf Ho Gh Hr. destruct o as [ty sym x pr]. destruct sq as [s q].
  destruct Ho as (Ht & Hs & Hp & Hx). cbn [uo_type uo_symbol uo_shares uo_price fst snd] in *. subst ty sym pr.
  destruct (Hq s h Gh) as (_ & _ & _ & qt & Gt & _).
  pose proof (hrel_sget _ _ s Hh) as G. rewrite Gh in G.
  destruct (sget (b_holdings b) s) as [hx |] eqn:Gx; [| contradiction].
  unfold gate, position_qty, order_is_buy. cbn [uo_type uo_symbol uo_shares otype_is_sell negb].
  rewrite Hf, Gt, Gx.
  change (@fleb float NFl) with PrimFloat.leb. change (@feqb float NFl) with PrimFloat.eqb.
  change (@fzero float NFl) with 0%float.
  rewrite (int_float_leb _ _ _ _ Hx G), (eqb_zero_int _ _ Hx).
  destruct (Z.leb_spec q h) as [_ | L]; [| lia]. cbn [negb]. reflexivity.
Qed.

Definition zwithin (zh : smap Z) (sq : string * Z) : Prop :=
  exists h, sget zh (fst sq) = Some h /\ (0 <= snd sq <= h)%Z.

(* sending the sells of the loop: exactly those of a non-zero quantity are forwarded, each accepted by the gate *)
Lemma send_sells_float zh sells zl : Forall2 sell_reads sells zl -> Forall (zwithin zh) zl ->
  forall (b b' : broker float) evs fw,
  lrel b zh -> b_failed b = false -> send_orders clean b sells = Ok (b', evs, fw) ->
  fw = fnz sells /\ Forall2 sell_reads fw (znz zl) /\ Forall (fun o => gate clean b o = GForward) fw.
Proof.
  induction 1 as [| o sq sells zl Ho _ IH]; intros Hw b b' evs fw W Hf H.
  - cbn [send_orders] in H. inversion H; subst. cbn [fnz znz filter]. repeat split; constructor.
  - inversion Hw as [| ? ? [h [Gh Hr]] Hw']; subst.
    apply send_orders_cons in H. destruct H as (b1 & ev1 & fw1 & evs2 & fw2 & Hs & Hrest & -> & ->).
    pose proof (gate_sell_float b zh o sq h W Hf Ho Gh Hr) as Hg.
    assert (Ez : (uo_shares o ==? fzero) = (snd sq =? 0)%Z).
    { change (@feqb float NFl) with PrimFloat.eqb. change (@fzero float NFl) with 0%float.
      apply eqb_zero_int. apply Ho. }
    cbn [fnz znz filter]. fold (fnz sells). fold (znz zl). rewrite Ez.
    apply send_order_cases in Hs.
    destruct Hs as [(Hg' & -> & _ & ->) | (Hg' & -> & _ & ->)]; rewrite Hg' in Hg;
      destruct (snd sq =? 0)%Z; try discriminate; cbn [negb Datatypes.app].
    + exact (IH Hw' _ _ _ _ W Hf Hrest).
    + destruct (IH Hw' (add_pending b o) b' evs2 fw2) as (I1 & I2 & I3); [| exact Hf | exact Hrest |].
      { apply (lrel_frame b); [reflexivity | reflexivity | exact W]. }
      split; [rewrite I1; reflexivity |]. split; [constructor; [exact Ho | exact I2] |].
      constructor; [exact Hg' |]. exact I3.
Qed.

Lemma znz_in l sq : In sq (znz l) -> In sq l /\ snd sq <> 0%Z.
Proof.
  unfold znz. rewrite filter_In. intros [H1 H2]. split; [exact H1 |].
  destruct (Z.eqb_spec (snd sq) 0); [discriminate | assumption].
Qed.

Lemma znz_nodup l : NoDup (map fst l) -> NoDup (map fst (znz l)).
Proof.
  induction l as [| sq l IH]; cbn [znz filter map]; intros ND; [constructor |].
  inversion ND as [| ? ? Nin ND']; subst. fold (znz l).
  destruct (negb (snd sq =? 0)%Z); cbn [map]; [| exact (IH ND')].
  constructor; [| exact (IH ND')]. intros Hin. apply Nin.
  apply in_map_iff in Hin. destruct Hin as (sq' & E & Hin). apply znz_in in Hin.
  rewrite <- E. apply in_map. apply Hin.
Qed.

(* (L3) withdraw-with-liquidation at binary64 on whole-unit data, no trade costs needed: the request is compared
   with the liquidation value whatever that float is; what decides is the loop *)
Theorem liquidation_float (b : broker float) zh c zr ord b' ev fw :
  lrel b zh -> b_failed b = false -> int_float c zr -> (0 <= zr < 2 ^ 53)%Z ->
  withdraw_cash_with_liquidation clean b c ord = Ok (b', ev, fw) ->
  let zrest := fst (zliq zb zh ord zr) in
  let zl := snd (zliq zb zh ord zr) in
  match ev with
  | WithdrawSuccess x =>
      x = c /\ zrest = 0%Z /\
      (* [fw] are exactly the non-zero-quantity sells of the loop *)
      (exists rest sells, liq_loop clean b ord c [] = Ok (rest, sells) /\ (rest ==? fzero) = true /\
                          Forall2 sell_reads sells zl /\ fw = fnz sells) /\
      (* they are market sells for the floats of the non-zero integer sales, all accepted by the gate *)
      Forall2 sell_reads fw (znz zl) /\
      Forall (fun o => gate clean b o = GForward) fw /\
      (* each for at least one share and at most the position, of distinct held symbols of [ord] *)
      Forall (fun sq => exists h, sget zh (fst sq) = Some h /\ (0 < snd sq <= h)%Z) (znz zl) /\
      NoDup (map fst (znz zl)) /\ incl (map fst (znz zl)) ord /\
      (* worth, in whole units, at least the request *)
      (zr <= zvalue zb (znz zl))%Z
  | WithdrawFailure x => x = c /\ fw = [] /\ b' = b
  | _ => False
  end.
Proof.
  intros W Hf Hc Hr H zrest zl. unfold withdraw_cash_with_liquidation in H.
  destruct (is_order_of ord (b_holdings b)) eqn:Ho; cbn [negb] in H; [| discriminate].
  destruct (is_order_of_spec _ _ Ho) as (_ & ND & _).
  change (liq_failure clean b c) with b in H.
  destruct (c >? liquidation_value b ord).
  - inversion H; subst. repeat split; reflexivity.
  - destruct (liq_loop clean b ord c []) as [[rest sells] | m |] eqn:Hl; cbn [bind] in H; try discriminate.
    destruct (liq_loop_float b zh ord c zr rest sells W ND Hc Hr Hl)
      as (S1 & S2 & Z1 & E & Z2 & Z3 & Z4 & Z5 & Z6).
    fold zrest in S1, Z1, E, Z5. fold zl in S2, Z2, Z3, Z4, Z5, Z6.
    destruct (rest ==? fzero) eqn:E0.
    + destruct (send_orders clean b sells) as [[[b1 evs] fw1] | m |] eqn:Hs; cbn [bind] in H; try discriminate.
      inversion H; subst b1 ev fw1; clear H.
      destruct (send_sells_float zh sells zl S2 Z2 b b' evs fw W Hf Hs) as (F1 & F2 & F3).
      split; [reflexivity |]. split; [symmetry in E; apply Z.eqb_eq in E; exact E |].
      split; [exists rest, sells; repeat split; assumption |].
      split; [exact F2 |]. split; [exact F3 |]. split; [| split; [| split]].
      * apply Forall_forall. intros sq Hin. apply znz_in in Hin. destruct Hin as [Hin NZ].
        rewrite Forall_forall in Z2. destruct (Z2 sq Hin) as (h & Gh & Hq). exists h. split; [exact Gh | lia].
      * apply znz_nodup, Z4.
      * intros s Hin. apply Z3. apply in_map_iff in Hin. destruct Hin as (sq & Es & Hin).
        apply znz_in in Hin. rewrite <- Es. apply in_map, Hin.
      * apply (Z6 eq_refl).
    + inversion H; subst. repeat split; reflexivity.
Qed.

(* (L4) the request of the cash rebalancing: shortfall + 1000 for a whole-unit negative cash *)
Theorem rebalance_float (b : broker float) zh z ord b' fw :
  lrel b zh -> b_failed b = false -> int_float (b_cash b) z -> (z < 0)%Z -> (- z + 1000 < 2 ^ 53)%Z ->
  rebalance_cash clean b ord = Ok (b', fw) ->
  let zl := snd (zliq zb zh ord (- z + 1000)) in
  (b_failed b' = false ->
     Forall2 sell_reads fw (znz zl) /\ Forall (fun o => gate clean b o = GForward) fw /\
     Forall (fun sq => exists h, sget zh (fst sq) = Some h /\ (0 < snd sq <= h)%Z) (znz zl) /\
     NoDup (map fst (znz zl)) /\ (- z + 1000 <= zvalue zb (znz zl))%Z) /\
  (b_failed b' = true -> fw = []).
Proof.
  intros W Hf Hz Hneg Hb H zl. unfold rebalance_cash in H.
  change (@fltb float NFl) with PrimFloat.ltb in H. change (@fzero float NFl) with 0%float in H.
  rewrite (int_float_ltb _ _ _ _ Hz int_float_zero) in H.
  destruct (Z.ltb_spec z 0) as [_ | L]; [| lia].
  assert (Hreq : int_float (b_cash b * - fone + fofZ 1000) (- z + 1000)).
  { change (@fadd float NFl) with PrimFloat.add. change (@fmul float NFl) with PrimFloat.mul.
    change (@fneg float NFl) with PrimFloat.opp. change (@fone float NFl) with 1%float.
    change (@fofZ float NFl) with float_ofZ.
    replace (- z + 1000)%Z with (z * -1 + 1000)%Z by lia.
    apply add_int_exact_strong; [| exact int_float_1000 | lia].
    apply mul_int_exact_strong; [exact Hz | exact (int_float_opp _ _ int_float_one) | lia]. }
  match type of H with bind ?w _ = _ => destruct w as [[[b1 ev] fw1] | m |] eqn:Hw end;
    cbn [bind] in H; try discriminate.
  pose proof (liq_frame _ _ _ _ _ _ _ Hw) as (_ & _ & _ & Ff & _).
  pose proof (liquidation_float b zh _ (- z + 1000)%Z ord b1 ev fw1 W Hf Hreq ltac:(lia) Hw) as L3.
  cbv zeta in L3. fold zl in L3.
  destruct ev as [x | x | x | x]; try contradiction.
  - inversion H; subst b1 fw1; clear H. destruct L3 as (_ & _ & _ & A1 & A2 & A3 & A4 & _ & A6).
    split; [intros _; repeat split; assumption |]. intros Ht. congruence.
  - inversion H; subst; clear H. destruct L3 as (_ & -> & ->).
    split; [cbn [set_failed b_failed]; discriminate | reflexivity].
Qed.

(* … and as [check] makes it, on the state after the tick's trades are booked *)
Corollary check_float (b : broker float) resp zh z ord b' fw :
  let b1 := booked b resp in
  lrel b1 zh -> b_failed b1 = false -> int_float (b_cash b1) z -> (z < 0)%Z -> (- z + 1000 < 2 ^ 53)%Z ->
  check clean b resp ord = Ok (b', fw) ->
  let zl := snd (zliq zb zh ord (- z + 1000)) in
  (b_failed b' = false ->
     Forall2 sell_reads fw (znz zl) /\ Forall (fun o => gate clean b1 o = GForward) fw /\
     Forall (fun sq => exists h, sget zh (fst sq) = Some h /\ (0 < snd sq <= h)%Z) (znz zl) /\
     NoDup (map fst (znz zl)) /\ (- z + 1000 <= zvalue zb (znz zl))%Z) /\
  (b_failed b' = true -> fw = []).
Proof.
  intros b1 W Hf Hz Hneg Hb H. unfold check in H. fold (booked b resp) in H. fold b1 in H.
  change (@fltb float NFl) with PrimFloat.ltb in H. change (@fzero float NFl) with 0%float in H.
  rewrite (int_float_ltb _ _ _ _ Hz int_float_zero) in H.
  destruct (Z.ltb_spec z 0) as [_ | L]; [| lia].
  exact (rebalance_float b1 zh z ord b' fw W Hf Hz Hneg Hb H).
Qed.


(* ------------------------------------------------------------------------------------------- *)
(* (L3') the verdict, without trade costs: success exactly when the request is at most the worth of the
   positions (and at most cash + positions, which matters only for a negative cash)              *)

Lemma position_value_lrel (b : broker float) zh a q : lrel b zh -> sget zh a = Some q ->
  exists pv, position_value b a = Some pv /\ int_float pv (zb a * q).
Proof.
  intros [Hh Hq] G. destruct (Hq a q G) as (Q0 & B1 & Bv & qt & Gt & Hbid).
  pose proof (hrel_sget _ _ a Hh) as Gs. rewrite G in Gs.
  unfold position_value, position_qty. rewrite Gt.
  destruct (sget (b_holdings b) a) as [x |]; [| contradiction].
  exists (q_bid qt * x). split; [reflexivity |].
  change (@fmul float NFl) with PrimFloat.mul. apply mul_int_exact_strong; [exact Hbid | exact Gs |].
  rewrite Z.abs_eq; nia.
Qed.

Lemma total_value_lrel_fold (b : broker float) zh : lrel b zh -> forall l v z, int_float v z ->
  (forall a, In a l -> sget zh a <> None) ->
  (Z.abs z + zpos_sum zb zh l < 2 ^ 53)%Z ->
  int_float (fold_left (fun v a => match position_value b a with Some pv => v + pv | None => v end) l v)
            (z + zpos_sum zb zh l)%Z.
Proof.
  intros W. induction l as [| a l IH]; intros v z Hv Hin B; cbn [fold_left zpos_sum fold_right] in *.
  - replace (z + 0)%Z with z by lia. exact Hv.
  - fold (zpos_sum zb zh l) in *. pose proof (zpos_sum_nonneg zb zh l (lrel_zlong b zh W)) as N.
    destruct (sget zh a) as [q |] eqn:G; [| exfalso; exact (Hin a (or_introl eq_refl) G)].
    destruct (position_value_lrel b zh a q W G) as (pv & -> & Hpv).
    destruct (proj2 W a q G) as (Q0 & B1 & _).
    unfold zcur in *. rewrite G in *.
    replace (z + (q * zb a + zpos_sum zb zh l))%Z with ((z + zb a * q) + zpos_sum zb zh l)%Z by lia.
    apply IH.
    + change (@fadd float NFl) with PrimFloat.add. apply add_int_exact_strong; [exact Hv | exact Hpv |]. nia.
    + intros x Hx. apply Hin. right. exact Hx.
    + nia.
Qed.

Lemma zpos_sum_perm zh l1 l2 : Permutation l1 l2 -> zpos_sum zb zh l1 = zpos_sum zb zh l2.
Proof. unfold zpos_sum. induction 1; cbn [fold_right] in *; lia. Qed.

Lemma zpos_sum_keys zh : NoDup (map fst zh) -> zpos_sum zb zh (map fst zh) = zhsum zb zh.
Proof.
  intros ND. exact (zsumk_keys (fun v k => (v * zb k)%Z) zh ND).
Qed.

Theorem total_value_lrel (b : broker float) zh zc ord :
  lrel b zh -> NoDup (map fst zh) -> int_float (b_cash b) zc -> is_order_of ord (b_holdings b) = true ->
  (Z.abs zc + zhsum zb zh < 2 ^ 53)%Z ->
  int_float (total_value b ord) (zworth zb zc zh) /\ zpos_sum zb zh ord = zhsum zb zh.
Proof.
  intros W ND Hc Ho B. pose proof W as [Hh _].
  assert (Pm : Permutation ord (map fst zh)).
  { rewrite <- (hrel_keys _ _ Hh). apply is_order_of_perm; [| exact Ho]. rewrite (hrel_keys _ _ Hh). exact ND. }
  assert (E : zpos_sum zb zh ord = zhsum zb zh) by (rewrite (zpos_sum_perm zh _ _ Pm); apply zpos_sum_keys, ND).
  split; [| exact E]. unfold total_value, zworth. rewrite <- E.
  apply (total_value_lrel_fold b zh W); [exact Hc | | rewrite E; exact B].
  intros a Ha. destruct (in_keys_sget zh a (Permutation_in _ Pm Ha)) as [v Gv]. congruence.
Qed.

Theorem liquidation_float_verdict (b : broker float) zh zc c zr ord b' ev fw :
  lrel b zh -> NoDup (map fst zh) -> b_costs b = [] -> int_float (b_cash b) zc ->
  (Z.abs zc + zhsum zb zh < 2 ^ 53)%Z ->
  int_float c zr -> (0 <= zr < 2 ^ 53)%Z ->
  withdraw_cash_with_liquidation clean b c ord = Ok (b', ev, fw) ->
  ev = (if ((zr <=? zc + zhsum zb zh) && (zr <=? zhsum zb zh))%Z%bool then WithdrawSuccess c else WithdrawFailure c).
Proof.
  intros W ND Hk Hcash B Hc Hr H. unfold withdraw_cash_with_liquidation in H.
  destruct (is_order_of ord (b_holdings b)) eqn:Ho; cbn [negb] in H; [| discriminate].
  destruct (total_value_lrel b zh zc ord W ND Hcash Ho B) as [Tv Es].
  rewrite (liq_eq_total_nocosts b ord Hk) in H.
  change (@fltb float NFl) with PrimFloat.ltb in H.
  rewrite (int_float_ltb _ _ _ _ Tv Hc) in H. unfold zworth in H.
  rewrite Z.ltb_antisym in H.
  destruct (zr <=? zc + zhsum zb zh)%Z; cbn [negb andb] in *; [| inversion H; reflexivity].
  destruct (liq_loop clean b ord c []) as [[rest sells] | m |] eqn:Hl; cbn [bind] in H; try discriminate.
  destruct (is_order_of_spec _ _ Ho) as (_ & NDo & _).
  destruct (liq_loop_float b zh ord c zr rest sells W NDo Hc Hr Hl) as (_ & _ & _ & E & _).
  rewrite E in H. rewrite (zliq_rest zb zh (lrel_zlong b zh W) ord zr (proj1 Hr)), Es in H.
  destruct (Z.leb_spec zr (zhsum zb zh)) as [L | L].
  - replace (Z.max 0 (zr - zhsum zb zh) =? 0)%Z with true in H by (symmetry; apply Z.eqb_eq; lia).
    destruct (send_orders clean b sells) as [[[b1 evs] fw1] | m |]; cbn [bind] in H; try discriminate.
    inversion H; reflexivity.
  - replace (Z.max 0 (zr - zhsum zb zh) =? 0)%Z with false in H by (symmetry; apply Z.eqb_neq; lia).
    inversion H; reflexivity.
Qed.

End AtFloatLiq.

(* ------------------------------------------------------------------------------------------- *)
(* (L5) non-vacuity, evaluated by the kernel                                                      *)

Definition exl_q (s : string) (bid : float) : quote float := mkQuote bid bid 1%Z s.
Definition exl_b : broker float :=
  mkBroker 165%float [("ABC"%string, 5%float); ("BCD"%string, 30%float)] []
           [("ABC"%string, exl_q "ABC" 100%float); ("BCD"%string, exl_q "BCD" 10%float)] [] [] false.
Definition exl_zh : smap Z := [("ABC"%string, 5%Z); ("BCD"%string, 30%Z)].
Definition exl_zb (s : string) : Z := if String.eqb s "ABC" then 100%Z else 10%Z.
Definition exl_ord : list string := ["ABC"%string; "BCD"%string].
Definition exl_sells : list (uorder float) :=
  [mkUOrder MarketSell "ABC" 5%float None; mkUOrder MarketSell "BCD" 15%float None].

(* the float run: holdings ABC 5 @ 100, BCD 30 @ 10, cash 165, request 650 -> sells ABC 5, BCD 15 *)
Example exl_loop : liq_loop (NF := FloatNum []) clean exl_b exl_ord 650%float [] = Ok (0%float, exl_sells).
Proof. vm_compute. reflexivity. Qed.

Example exl_run :
  withdraw_cash_with_liquidation (NF := FloatNum []) clean exl_b 650%float exl_ord =
  Ok (mkBroker 165%float (b_holdings exl_b) [("ABC"%string, (-5)%float); ("BCD"%string, (-15)%float)]
               (b_quotes exl_b) [] [] false,
      WithdrawSuccess 650%float, exl_sells).
Proof. vm_compute. reflexivity. Qed.

(* the integer run: nothing left, ABC 5 and BCD 15, worth exactly 650 *)
Example exl_zrun :
  zliq exl_zb exl_zh exl_ord 650 = (0%Z, [("ABC"%string, 5%Z); ("BCD"%string, 15%Z)]) /\
  zvalue exl_zb (snd (zliq exl_zb exl_zh exl_ord 650)) = 650%Z.
Proof. vm_compute. split; reflexivity. Qed.

(* the premises of the theorems hold at the example *)
Example exl_lrel : lrel exl_zb exl_b exl_zh.
Proof.
  split.
  - unfold hrel, exl_b, exl_zh. cbn [b_holdings].
    constructor; [split; [reflexivity | exact (int_float_ofZ 5 eq_refl)] |].
    constructor; [split; [reflexivity | exact (int_float_ofZ 30 eq_refl)] | constructor].
  - intros s q G. unfold exl_zh in G. cbn [sget] in G. unfold exl_zb.
    destruct (String.eqb_spec s "ABC") as [-> | N1].
    + inversion G; subst q. repeat split; try lia.
      exists (exl_q "ABC" 100%float). split; [reflexivity | exact (int_float_ofZ 100 eq_refl)].
    + destruct (String.eqb_spec s "BCD") as [-> | N2]; [| discriminate].
      inversion G; subst q. repeat split; try lia.
      exists (exl_q "BCD" 10%float). split; [reflexivity | exact (int_float_ofZ 10 eq_refl)].
Qed.

(* (L3) at the example: its conclusion, with the integer side computed *)
Example exl_theorem_instance :
  Forall2 sell_reads exl_sells [("ABC"%string, 5%Z); ("BCD"%string, 15%Z)] /\
  Forall (fun o => gate (NF := FloatNum []) clean exl_b o = GForward) exl_sells /\
  (650 <= zvalue exl_zb [("ABC"%string, 5%Z); ("BCD"%string, 15%Z)])%Z.
Proof.
  pose proof (liquidation_float [] exl_zb exl_b exl_zh 650%float 650 exl_ord _ _ _
                exl_lrel eq_refl (int_float_ofZ 650 eq_refl) ltac:(lia) exl_run) as H.
  cbv zeta in H. destruct H as (_ & _ & _ & H1 & H2 & _ & _ & _ & H3).
  replace (znz (snd (zliq exl_zb exl_zh exl_ord 650))) with [("ABC"%string, 5%Z); ("BCD"%string, 15%Z)] in *
    by (vm_compute; reflexivity).
  split; [exact H1 | split; [exact H2 | exact H3]].
Qed.

(* the zero-share edge at binary64 (as c10_zero_share_edge): one share of A and of B at bid 1, request 1: A is
   sold whole, a sell of ceil(0 / 1) = 0 shares of B is created, the gate refuses it, success, worth 1 *)
Definition exz_b : broker float :=
  mkBroker 0%float [("A"%string, 1%float); ("B"%string, 1%float)] []
           [("A"%string, exl_q "A" 1%float); ("B"%string, exl_q "B" 1%float)] [] [] false.
Example exz_edge :
  liq_loop (NF := FloatNum []) clean exz_b ["A"%string; "B"%string] 1%float [] =
    Ok (0%float, [mkUOrder MarketSell "A" 1%float None; mkUOrder MarketSell "B" 0%float None]) /\
  (exists b', withdraw_cash_with_liquidation (NF := FloatNum []) clean exz_b 1%float ["A"%string; "B"%string] =
     Ok (b', WithdrawSuccess 1%float, [mkUOrder MarketSell "A" 1%float None])) /\
  zliq (fun _ => 1%Z) [("A"%string, 1%Z); ("B"%string, 1%Z)] ["A"%string; "B"%string] 1 =
    (0%Z, [("A"%string, 1%Z); ("B"%string, 0%Z)]).
Proof.
  split; [vm_compute; reflexivity |]. split; [eexists; vm_compute; reflexivity | vm_compute; reflexivity].
Qed.

(* why whole units are needed: bid 147.2, 1000 shares, 47840 to raise. In binary64 47840 / 147.2 evaluates to
   exactly 325, so 325 shares are sold and the call reports success — but 325 * 147.2 evaluates to
   47839.99999999999 < 47840 (and over the reals 325 * 147.2 = 47840 exactly for the decimal 147.2, but the
   binary64 number nearest 147.2 is below it) *)
Definition exf_bid : float := 0x1.2666666666666p+7%float.   (* the binary64 number nearest 147.2 *)
Definition exf_b : broker float :=
  mkBroker 0%float [("ABC"%string, 1000%float)] [] [("ABC"%string, exl_q "ABC" exf_bid)] [] [] false.
Example exf_fractional_shortfall :
  liq_loop (NF := FloatNum []) clean exf_b ["ABC"%string] 47840%float [] =
    Ok (0%float, [mkUOrder MarketSell "ABC" 325%float None]) /\
  (exists b', withdraw_cash_with_liquidation (NF := FloatNum []) clean exf_b 47840%float ["ABC"%string] =
     Ok (b', WithdrawSuccess 47840%float, [mkUOrder MarketSell "ABC" 325%float None])) /\
  PrimFloat.div 47840 exf_bid = 325%float /\
  PrimFloat.ltb (PrimFloat.mul 325 exf_bid) 47840 = true /\
  PrimFloat.mul 325 exf_bid = 0x1.75bffffffffffp+15%float.
Proof.
  split; [vm_compute; reflexivity |]. split; [eexists; vm_compute; reflexivity |].
  repeat split; vm_compute; reflexivity.
Qed.

Print Assumptions div_ceil_int.
Print Assumptions liq_loop_float.
Print Assumptions liquidation_float.
Print Assumptions rebalance_float.
Print Assumptions check_float.
Print Assumptions liquidation_float_verdict.
Print Assumptions exl_theorem_instance.
Print Assumptions exf_fractional_shortfall.
