(* C06 — order gatekeeping: valid orders forwarded exactly once; refusals are inert. Statements only; for every Num F and EVERY broker state (reachable or not). 'Well-formed' is read as: for a symbol the broker has seen a quote for (the affordability clause speaks of the last seen ask). *)
From Coq Require Import ZArith NArith List Bool String Permutation Reals.
From Flocq Require Import Raux.
From Alator Require Import Model.Num Model.Quirks Model.Cost Model.Exchange Model.Uist Model.Broker
  Proofs.CostProofs Proofs.BrokerLedgerProofs.
Import ListNotations.
Local Open Scope num_scope.

(* Forwarded iff Ready, quantity non-zero, a buy costs less than cash at the last seen ask, and a market sell of a held symbol does not exceed the holding — for all six order types; never a panic. *)
Theorem c06_gate_iff :
  forall (F : Type) (NF : Num F) (b : broker F) (o : uorder F) (q : quote F),
         sget (b_quotes b) (uo_symbol o) = Some q ->
         gate clean b o = (if gate_conditions b o q then GForward else GInvalid).
Proof. exact @gate_iff. Qed.

(* A Failed broker refuses every order. *)
Theorem c06_failed_refuses :
  forall (F : Type) (NF : Num F) (b : broker F) (o : uorder F) (qk : quirks),
         b_failed b = true -> gate qk b o = GInvalid.
Proof. exact @gate_failed. Qed.

(* A refused order leaves the broker state unchanged and nothing is handed to the client. *)
Theorem c06_refusal_inert :
  forall (F : Type) (NF : Num F) (b : broker F) (o : uorder F) 
           (qk : quirks) (b' : broker F) (ev : order_event F) (fw : list (uorder F)),
         send_order qk b o = Ok (b', ev, fw) ->
         gate qk b o = GInvalid -> b' = b /\ ev = OrderInvalid o /\ fw = [].
Proof. exact @refusal_inert. Qed.

(* A forwarded order is handed to the client exactly once, unchanged; only pending exposure moves. *)
Theorem c06_forward_once :
  forall (F : Type) (NF : Num F) (b : broker F) (o : uorder F) 
           (qk : quirks) (b' : broker F) (ev : order_event F) (fw : list (uorder F)),
         send_order qk b o = Ok (b', ev, fw) ->
         gate qk b o = GForward ->
         fw = [o] /\
         ev = OrderSentToExchange o /\
         b' = add_pending b o /\
         b_cash b' = b_cash b /\
         b_holdings b' = b_holdings b /\
         b_log b' = b_log b /\ b_quotes b' = b_quotes b /\ b_failed b' = b_failed b.
Proof. exact @forward_once. Qed.

(* … and it reaches the exchange whichever conforming client carries it — eager, or lazy (effect at first poll: the broker drives the future). *)
Theorem c06_delivered_any_client :
  forall (F : Type) (lazy : bool) (fw : list (uorder F)), delivered clean lazy fw = fw.
Proof. exact @delivered_clean. Qed.

(* Refuted for the code as it was: send_order dropped the future returned by insert_order, so with a lazily polled client nothing ever reached the exchange. *)
Theorem c06_refuted_q_send_dropped_future :
  forall (F : Type) (fw : list (uorder F)) (qk : quirks),
         q_send_dropped_future qk = true ->
         delivered qk true fw = [] /\ delivered qk false fw = fw.
Proof. exact @delivered_dropped. Qed.

(* Refuted for the code as it was: limit and stop orders hit unreachable!() in client_has_sufficient_cash. *)
Theorem c06_refuted_q_limit_panics :
  forall (F : Type) (NF : Num F) (b : broker F) (o : uorder F) (q : quote F) (qk : quirks),
         q_limit_panics qk = true ->
         b_failed b = false ->
         sget (b_quotes b) (uo_symbol o) = Some q ->
         match uo_type o with
         | MarketSell | MarketBuy => False
         | _ => True
         end -> exists s : string, gate qk b o = GPanic s.
Proof. exact @limit_panics. Qed.

Print Assumptions c06_gate_iff.
Print Assumptions c06_failed_refuses.
Print Assumptions c06_refusal_inert.
Print Assumptions c06_forward_once.
Print Assumptions c06_delivered_any_client.
Print Assumptions c06_refuted_q_send_dropped_future.
Print Assumptions c06_refuted_q_limit_panics.
