//! UistBroker over the harness client: deposit / withdraw / liquidation / send_order / check / diff /
//! getters, with a snapshot of the broker (through its public getters) and of the exchange after
//! every step, and the log of client calls made during the step.
use crate::client::*;
use crate::comp_cost::costs_of;
use crate::comp_exch::*;
use crate::util::*;
use alator::broker::uist::{UistBroker, UistBrokerBuilder};
use alator::broker::*;
use crate::util::drive as block_on;
use rotala::http::uist::AppState;
use rotala::input::penelope::Penelope;
use serde_json::{json, Value};
use std::cell::RefCell;
use std::collections::HashMap;
use std::rc::Rc;

pub fn dataset_of(v: &Value) -> Penelope {
    let mut p = Penelope::new();
    for q in arr(v) {
        p.add_quote(bf(&q[0]), bf(&q[1]), i(&q[2]), s(&q[3]));
    }
    p
}

fn cash_event_json(e: &BrokerCashEvent) -> Value {
    match e {
        BrokerCashEvent::WithdrawSuccess(x) => json!({"ev": "WithdrawSuccess", "x": fb(*x)}),
        BrokerCashEvent::WithdrawFailure(x) => json!({"ev": "WithdrawFailure", "x": fb(*x)}),
        BrokerCashEvent::DepositSuccess(x) => json!({"ev": "DepositSuccess", "x": fb(*x)}),
        BrokerCashEvent::OperationFailure(x) => json!({"ev": "OperationFailure", "x": fb(*x)}),
    }
}

pub fn order_event_json(e: &BrokerEvent<rotala::exchange::uist_v1::Order>) -> Value {
    match e {
        BrokerEvent::OrderSentToExchange(o) => json!({"ev": "OrderSentToExchange", "order": uist_order_json(o)}),
        BrokerEvent::OrderInvalid(o) => json!({"ev": "OrderInvalid", "order": uist_order_json(o)}),
        BrokerEvent::OrderCreated(o) => json!({"ev": "OrderCreated", "order": uist_order_json(o)}),
        BrokerEvent::OrderFailure(o) => json!({"ev": "OrderFailure", "order": uist_order_json(o)}),
    }
}

fn sorted_keys(m: &HashMap<String, f64>) -> Vec<String> {
    let mut k: Vec<String> = m.keys().cloned().collect();
    k.sort();
    k
}

fn sorted_map(m: &HashMap<String, f64>) -> Value {
    let mut v: Vec<(&String, &f64)> = m.iter().collect();
    v.sort_by(|a, b| a.0.cmp(b.0));
    Value::Array(v.iter().map(|(k, x)| json!([k, fb(**x)])).collect())
}

pub fn broker_snap(b: &UistBroker<HClient>, syms: &[String]) -> Value {
    let holdings = b.get_holdings();
    // iteration order of the holdings map (what get_positions() returns)
    let positions = b.get_positions();
    // (robust against a positions list that is not an enumeration of the holdings map: stale entries are dropped
    // here and duplicates kept, keys missing from it are appended; `positions_consistent` says whether it was one)
    let mut hold_ord: Vec<Value> = positions.iter().filter_map(|k| holdings.get(k).map(|v| json!([k, fb(*v)]))).collect();
    let mut extra: Vec<&String> = holdings.keys().filter(|k| !positions.contains(k)).collect();
    extra.sort();
    for k in extra {
        hold_ord.push(json!([k, fb(holdings[k])]));
    }
    let mut uniq = positions.clone();
    uniq.sort();
    uniq.dedup();
    let positions_consistent = uniq.len() == positions.len() && positions.len() == holdings.len() && positions.iter().all(|k| holdings.contains_key(k));
    let mut quotes: Vec<Value> = b
        .get_quotes()
        .unwrap_or_default()
        .iter()
        .map(|q| json!({"key": q.symbol, "bid": fb(q.bid), "ask": fb(q.ask), "date": q.date, "symbol": q.symbol}))
        .collect();
    quotes.sort_by(|a, b| a["key"].as_str().unwrap().cmp(b["key"].as_str().unwrap()));
    let log: Vec<Value> = b.trades_between(&i64::MIN, &i64::MAX).iter().map(uist_trade_json).collect();
    let per_sym: Vec<Value> = syms
        .iter()
        .map(|sy| {
            json!({
                "sym": sy,
                "qty": opt_fb(b.get_position_qty(sy)),
                "value": opt_fb(b.get_position_value(sy)),
                "liq": opt_fb(b.get_position_liquidation_value(sy)),
                "profit": opt_fb(b.get_position_profit(sy)),
                "cost_basis": opt_fb(b.cost_basis(sy)),
                "with_pending": opt_fb(b.get_holdings_with_pending().get(sy).copied()),
            })
        })
        .collect();
    json!({
        "cash": fb(b.get_cash_balance()),
        "holdings": hold_ord,
        "positions_consistent": positions_consistent,
        "pending": sorted_map(&b.get_pending_orders()),
        "with_pending_keys": sorted_keys(&b.get_holdings_with_pending()),
        "quotes": quotes,
        "log": log,
        "failed": matches!(b.get_broker_state(), BrokerState::Failed),
        "total_value": fb(b.get_total_value()),
        "liquidation_value": fb(b.get_liquidation_value()),
        "values_keys": sorted_keys(&b.get_values()),
        "per_sym": per_sym,
    })
}

pub fn exch_snap_of(st: &Shared, id: u64) -> Value {
    let a = st.borrow();
    match a.backtests.get(&id) {
        Some(b) => json!({"exch": uist_snap(&b.exchange), "date": b.date, "pos": b.pos}),
        None => Value::Null,
    }
}

pub struct Rig {
    pub state: Shared,
    pub log: Log,
    pub id: u64,
    pub syms: Vec<String>,
}

pub fn make_rig(sc: &Value) -> (Rig, UistBroker<HClient>) {
    let data = dataset_of(&sc["dataset"]);
    let mut syms: Vec<String> = arr(&sc["dataset"]).iter().map(|q| s(&q[3])).collect();
    if let Some(extra) = sc.get("extra_syms").and_then(|x| x.as_array()) {
        for e in extra {
            syms.push(s(e));
        }
    }
    syms.sort();
    syms.dedup();
    let state: Shared = Rc::new(RefCell::new(AppState::single("D", data)));
    let log: Log = Rc::new(RefCell::new(Vec::new()));
    let lazy = sc["lazy"].as_bool().unwrap_or(false);
    let id = 0u64;
    let yields = sc.get("yields").and_then(|x| x.as_u64()).unwrap_or(0) as u32;
    let client = HClient { state: state.clone(), log: log.clone(), lazy, yields };
    // one configured builder may serve several brokers (two backtests sharing one cost configuration): when the
    // scenario says so, the broker under test is the SECOND one built from the builder
    let mut builder = UistBrokerBuilder::new();
    builder.with_trade_costs(costs_of(&sc["costs"]));
    if sc.get("builder_reuse").and_then(|x| x.as_bool()).unwrap_or(false) {
        let other: Shared = Rc::new(RefCell::new(AppState::single("D", dataset_of(&sc["dataset"]))));
        let other_log: Log = Rc::new(RefCell::new(Vec::new()));
        let first = HClient { state: other, log: other_log, lazy: false, yields: 0 };
        let _first_broker = block_on(builder.with_client(first, id).build());
    }
    let brkr = block_on(builder.with_client(client, id).build());
    log.borrow_mut().clear();
    (Rig { state, log, id, syms }, brkr)
}

pub fn weights_of(v: &Value) -> (HashMap<String, f64>, Vec<Value>) {
    let mut m = HashMap::new();
    for w in arr(v) {
        m.insert(s(&w[0]), bf(&w[1]));
    }
    let ord: Vec<Value> = m.iter().map(|(k, x)| json!([k, fb(*x)])).collect();
    (m, ord)
}

/// an amount placed relative to the broker's current cash balance (boundary probing: the driver cannot know the
/// balance in advance); falls back to the literal "x"
fn amount_of(op: &Value, cash: f64, liq: f64, total: f64, posvals: &[f64]) -> f64 {
    match op.get("rel").and_then(|r| r.as_str()) {
        None => bf(&op["x"]),
        // exactly the value of the first position(s) in the order the liquidation will walk them: full sales that use
        // the request up to the last bit, with positions still to come
        Some("posval_1") => posvals.first().copied().unwrap_or(cash),
        Some("posval_2") => if posvals.len() >= 2 { posvals[0] + posvals[1] } else { posvals.first().copied().unwrap_or(cash) },
        Some("posval_1_half") => posvals.first().map(|v| v / 2.0).unwrap_or(cash),
        // relative to the portfolio's liquidation value / total value (they differ by the selling costs): the band
        // in which a request is coverable gross but not net
        Some("liq_eq") => liq,
        Some("liq_up") => f64::from_bits(if liq > 0.0 { liq.to_bits().wrapping_add(1) } else { liq.to_bits().wrapping_sub(1) }),
        Some("liq_down") => f64::from_bits(if liq > 0.0 { liq.to_bits().wrapping_sub(1) } else { liq.to_bits().wrapping_add(1) }),
        Some("liq_mid_total") => (liq + total) / 2.0,
        Some("total_eq") => total,
        Some("liq_half") => liq / 2.0,
        Some("eq") => cash,
        Some("ulp_up") => f64::from_bits(if cash > 0.0 { cash.to_bits().wrapping_add(1) } else { cash.to_bits().wrapping_sub(1) }),
        Some("ulp_down") => f64::from_bits(if cash > 0.0 { cash.to_bits().wrapping_sub(1) } else { cash.to_bits().wrapping_add(1) }),
        Some("ulps_up_8") => f64::from_bits(if cash > 0.0 { cash.to_bits().wrapping_add(8) } else { cash.to_bits().wrapping_sub(8) }),
        Some("plus_1e-9") => cash + 1e-9,
        Some("plus_1e-7") => cash + 1e-7,
        Some("plus_1e-3") => cash + 1e-3,
        Some("times_1p1e-12") => cash * (1.0 + 1e-12),
        Some("half") => cash / 2.0,
        Some(other) => panic!("bad rel {}", other),
    }
}

pub fn run(sc: &Value) -> Value {
    let (rig, mut b) = make_rig(sc);
    let mut snaps = vec![json!({"broker": broker_snap(&b, &rig.syms), "server": exch_snap_of(&rig.state, rig.id)})];
    let mut results = Vec::new();
    for op in arr(&sc["ops"]) {
        rig.log.borrow_mut().clear();
        let x_used = if op.get("x").is_some() || op.get("rel").is_some() {
            let posvals: Vec<f64> = b.get_positions().iter().map(|p| b.get_position_value(p).unwrap_or(0.0)).collect();
            amount_of(op, b.get_cash_balance(), b.get_liquidation_value(), b.get_total_value(), &posvals)
        } else { 0.0 };
        let r = catch(|| match s(&op["op"]).as_str() {
            "deposit" => cash_event_json(&b.deposit_cash(&x_used)),
            "withdraw" => cash_event_json(&b.withdraw_cash(&x_used)),
            "liq" => cash_event_json(&b.withdraw_cash_with_liquidation(&x_used)),
            "send" => order_event_json(&b.send_order(uist_order_of(&op["order"]))),
            "check" => {
                block_on(b.check());
                Value::Null
            }
            "diff" => {
                // weights given literally, plus optionally weights placed relative to the current state: for
                // ["sym", factor] the weight is chosen so that the gap (target value - current value) is
                // factor x price (ask for factor > 0, bid otherwise) — boundary probing around one share
                let mut wv: Vec<Value> = arr(&op["weights"]).clone();
                if let Some(rel) = op.get("rel_weights").and_then(|x| x.as_array()) {
                    let total = b.get_liquidation_value();
                    for rw in rel {
                        let sym = s(&rw[0]);
                        let f = bf(&rw[1]);
                        if let Some(q) = b.get_quote(&sym) {
                            let px = if f > 0.0 { q.ask } else { q.bid };
                            let curr = b.get_position_value(&sym).unwrap_or(0.0);
                            let w = (curr + f * px) / total;
                            wv.retain(|x| s(&x[0]) != sym);
                            wv.push(json!([sym, fb(w)]));
                        }
                    }
                }
                let (m, ord) = weights_of(&Value::Array(wv));
                let orders = b.diff_brkr_against_target_weights(&m);
                json!({"orders": orders.iter().map(uist_order_json).collect::<Vec<_>>(), "weights_order": ord})
            }
            "trade_costs" => {
                let t = rotala::exchange::uist_v1::Trade::new("X", bf(&op["value"]), bf(&op["qty"]), 0, rotala::exchange::uist_v1::TradeType::Buy);
                // the broker's own view of the cost model: fees of a trade, and the (net budget, net price) of sizing a
                // trade with budget = value at price = value / qty (qty 0: price 1), for a buy and for a sell
                let budget = bf(&op["value"]);
                let price = if bf(&op["qty"]) == 0.0 { 1.0 } else { budget / bf(&op["qty"]) };
                let ib = b.calc_trade_impact(&budget, &price, true);
                let is = b.calc_trade_impact(&budget, &price, false);
                json!({"costs": fb(b.calculate_trade_costs(t)), "price": fb(price),
                       "impact_buy": [fb(ib.0), fb(ib.1)], "impact_sell": [fb(is.0), fb(is.1)]})
            }
            "getters" => Value::Null,
            _ => panic!("bad op"),
        });
        match r {
            Ok(v) => {
                results.push(json!({"res": v, "calls": rig.log.borrow().clone(), "x_used": fb(x_used)}));
                snaps.push(json!({"broker": broker_snap(&b, &rig.syms), "server": exch_snap_of(&rig.state, rig.id)}));
            }
            Err(m) => {
                results.push(json!({"panic": m, "calls": rig.log.borrow().clone(), "x_used": fb(x_used)}));
                break;
            }
        }
    }
    json!({ "snaps": snaps, "results": results })
}
