(* Jura.v — JuraV1 (exchange/jura_v1.rs): Hyperliquid-flavoured orders, fills, the per-order
   decision of OrderBook::execute_orders, and the exchange as an instance of the skeleton.
   Definitions only. *)
From Coq Require Import ZArith NArith List Bool String DecimalString.
From Alator Require Import Model.Num Model.Quirks Model.Exchange Model.Uist.
Import ListNotations.
Local Open Scope num_scope.

Inductive tif := Alo | Ioc | Gtc.
Inductive tpsl := Tp | Sl.

Definition N_to_string (n : N) : string := NilZero.string_of_uint (N.to_uint n).

Section Jura.
Context {F : Type} {NF : Num F}.
Context (qk : quirks).

Inductive jtype :=
| JLimit (t : tif)
| JTrigger (trigger_px : F) (is_market : bool) (k : tpsl).

Record jorder := mkJOrder {
  jo_asset : N;
  jo_is_buy : bool;
  jo_limit_px : option F;     (* limit_px.parse::<f64>() ; None = does not parse *)
  jo_sz : option F;           (* sz.parse::<f64>() ; None = does not parse *)
  jo_reduce_only : bool;
  jo_cloid : option string;
  jo_type : jtype;
}.

Record fill := mkFill {
  f_coin : string;      (* asset.to_string() *)
  f_oid : N;
  f_px : F;
  f_side_ask : bool;    (* "A" (a buy, filled at the ask) / "B" *)
  f_sz : F;
  f_time : Z;
}.

Definition slippage : F := ftenth.

Definition jura_sym (o : jorder) : string := N_to_string (jo_asset o).

Definition jura_fill_buy (id : N) (o : jorder) (q : quote F) : action jorder fill :=
  match jo_sz o with
  | None => APanic     (* get_shares().unwrap() *)
  | Some sz => AFill (mkFill (jura_sym o) id (q_ask q) true sz (q_date q))
  end.

Definition jura_fill_sell (id : N) (o : jorder) (q : quote F) : action jorder fill :=
  match jo_sz o with
  | None => APanic
  | Some sz => AFill (mkFill (jura_sym o) id (q_bid q) false sz (q_date q))
  end.

Definition trigger_child (o : jorder) (t : tif) : jorder :=
  mkJOrder (jo_asset o) (jo_is_buy o) (jo_limit_px o) (jo_sz o) (jo_reduce_only o) (jo_cloid o)
           (JLimit t).

(* when does a trigger order fire *)
Definition trigger_fires (o : jorder) (trig : F) (k : tpsl) (q : quote F) : bool :=
  match k, jo_is_buy o with
  | Sl, true => trig <=? q_ask q                         (* ask >= trigger *)
  | Sl, false => if q_jura_sell_triggers_inverted qk
                 then trig <=? q_bid q                   (* as the defect had it: bid >= trigger *)
                 else q_bid q <=? trig                   (* bid <= trigger *)
  | Tp, true => q_ask q <=? trig                         (* ask <= trigger *)
  | Tp, false => if q_jura_sell_triggers_inverted qk
                 then q_bid q <=? trig
                 else trig <=? q_bid q                   (* bid >= trigger *)
  end.

Definition jura_decide (e : entry jorder) (q : quote F) : action jorder fill :=
  let o := e_ord e in
  match jo_type o with
  | JLimit Ioc =>
      if e_flag e then AExpire
      else match jo_limit_px o with
           | None => APanic
           | Some price =>
               if jo_is_buy o then
                 if q_ask q <=? price * (fone + slippage) then jura_fill_buy (e_id e) o q else AMark
               else
                 if price * (fone - slippage) <=? q_bid q then jura_fill_sell (e_id e) o q else AMark
           end
  | JLimit Gtc =>
      match jo_limit_px o with
      | None => APanic
      | Some price =>
          if jo_is_buy o then
            if q_ask q <=? price then jura_fill_buy (e_id e) o q else ARest
          else
            if price <=? q_bid q then jura_fill_sell (e_id e) o q else ARest
      end
  | JLimit Alo => APanic       (* unimplemented!() *)
  | JTrigger trig is_market k =>
      if trigger_fires o trig k q
      then ATrigger (trigger_child o (if is_market then Ioc else Gtc))
      else ARest
  end.

Definition jura_is_sell (o : jorder) : bool := negb (jo_is_buy o).

Definition jexch := exch jorder fill.
Definition jop := op jorder (quote F).
Definition jout := out jorder fill.

Definition jura_step : jexch -> jop -> jexch * jout :=
  step jo_asset jura_sym jura_is_sell jura_decide.
Definition jura_tick : jexch -> quotes (quote F) -> list nat -> jexch * jout :=
  tick jo_asset jura_sym jura_is_sell jura_decide.
Definition jura_run : jexch -> list jop -> jexch * list jout :=
  run jo_asset jura_sym jura_is_sell jura_decide.

End Jura.

Arguments jtype F : clear implicits.
Arguments jorder F : clear implicits.
Arguments fill F : clear implicits.
Arguments jexch F : clear implicits.
Arguments jop F : clear implicits.
Arguments jout F : clear implicits.
