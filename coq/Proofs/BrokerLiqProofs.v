(* BrokerLiqProofs.v — C09 (reconciliation verdict), C10 (liquidation raises enough), C11 (valuation
   identities, cost basis) for the broker model, at the real-number instance. Proofs only. *)
From Coq Require Import ZArith NArith List Bool String Reals Lra Lia Permutation.
From Flocq Require Import Raux.
From Alator Require Import Model.Num Model.Quirks Model.Cost Model.Exchange Model.Uist Model.Broker
  Proofs.CostProofs.
Import ListNotations.
Local Existing Instance RNum.
Local Open Scope R_scope.

Definition pv (b : broker R) (s : string) : R := match position_value b s with Some v => v | None => 0 end.
Definition plv (b : broker R) (s : string) : R :=
  match position_liquidation_value b s with Some v => v | None => 0 end.
Definition sumR {A} (f : A -> R) (l : list A) : R := fold_right (fun a acc => f a + acc) 0 l.

(* well-formed long portfolio: keys unique, every held symbol quoted with a bid >= 0, quantities > 0 *)
Definition long_portfolio (b : broker R) : Prop :=
  NoDup (map fst (b_holdings b)) /\
  Forall (fun kv => 0 < snd kv /\ exists q, sget (b_quotes b) (fst kv) = Some q /\ 0 <= q_bid q) (b_holdings b).
(* costs admissible for selling: non-negative, percentages <= 1 *)
Definition cost_ok1 (c : cost R) : Prop :=
  match c with PerShare v => 0 <= v | PctOfValue p => 0 <= p <= 1 | Flat v => 0 <= v end.

(* ------------------------------------------------------------------------------------------- *)
(* generic helpers                                                                              *)

Lemma sumR_app {A} (f : A -> R) l1 l2 : sumR f (l1 ++ l2) = sumR f l1 + sumR f l2.
Proof. induction l1 as [|a l1 IH]; simpl; [lra|]. rewrite IH. lra. Qed.

Lemma sumR_cons {A} (f : A -> R) a l : sumR f (a :: l) = f a + sumR f l.
Proof. reflexivity. Qed.

Lemma sumR_perm {A} (f : A -> R) l1 l2 : Permutation l1 l2 -> sumR f l1 = sumR f l2.
Proof.
  induction 1 as [|a l l' _ IH|a a' l|l l' l'' _ IH1 _ IH2]; simpl.
  - reflexivity.
  - rewrite IH. reflexivity.
  - lra.
  - congruence.
Qed.

Lemma sumR_le {A} (f g : A -> R) l : (forall a, In a l -> f a <= g a) -> sumR f l <= sumR g l.
Proof.
  induction l as [|a l IH]; intros H; simpl; [lra|].
  pose proof (H a (or_introl eq_refl)).
  assert (sumR f l <= sumR g l) by (apply IH; intros; apply H; right; assumption). lra.
Qed.

Lemma sget_in {A} (m : smap A) k v : sget m k = Some v -> In (k, v) m.
Proof.
  induction m as [|[k' a] m IH]; simpl; [discriminate|].
  destruct (String.eqb k k') eqn:E.
  - apply String.eqb_eq in E. subst. intros H; inversion H; subst. left; reflexivity.
  - intros H. right. apply IH. exact H.
Qed.

Lemma in_keys_sget {A} (m : smap A) k : In k (map fst m) -> exists v, sget m k = Some v.
Proof.
  induction m as [|[k' a] m IH]; simpl; [tauto|].
  intros [H|H].
  - subst. rewrite String.eqb_refl. eauto.
  - destruct (String.eqb k k'); eauto.
Qed.

Lemma smem_in k l : smem k l = true <-> In k l.
Proof.
  induction l as [|x l IH]; simpl; [split; [discriminate|tauto]|].
  rewrite orb_true_iff, IH, String.eqb_eq. split; intros [H|H]; auto.
Qed.

Lemma snodup_NoDup l : snodup l = true -> NoDup l.
Proof.
  induction l as [|x l IH]; simpl; [constructor|].
  rewrite andb_true_iff, negb_true_iff. intros [H1 H2]. constructor; [|auto].
  intros Hin. apply smem_in in Hin. congruence.
Qed.

Lemma is_order_of_spec {A} ord (m : smap A) :
  is_order_of ord m = true ->
  List.length ord = List.length m /\ NoDup ord /\ forall s, In s ord -> In s (map fst m).
Proof.
  unfold is_order_of. rewrite !andb_true_iff. intros [[H1 H2] H3].
  apply Nat.eqb_eq in H1. split; [exact H1|]. split; [apply snodup_NoDup; exact H2|].
  intros s Hs. rewrite forallb_forall in H3. apply smem_in. apply H3. exact Hs.
Qed.

(* with unique keys the enumeration is a permutation of the keys *)
Lemma is_order_of_perm {A} ord (m : smap A) :
  NoDup (map fst m) -> is_order_of ord m = true -> Permutation ord (map fst m).
Proof.
  intros Hnd H. destruct (is_order_of_spec _ _ H) as (Hl & Hnd' & Hin).
  apply NoDup_Permutation_bis; auto. rewrite map_length. lia.
Qed.

(* ---------------- C11 ---------------- *)
Lemma position_value_spec (b : broker R) s q qty :
  sget (b_quotes b) s = Some q -> sget (b_holdings b) s = Some qty -> position_value b s = Some (q_bid q * qty).
Proof. intros H1 H2. unfold position_value, position_qty. rewrite H1, H2. reflexivity. Qed.

Lemma fold_opt_sum (g : string -> option R) ord a :
  fold_left (fun v x => match g x with Some p => fadd v p | None => v end) ord a
  = a + sumR (fun x => match g x with Some v => v | None => 0 end) ord.
Proof.
  revert a; induction ord as [|x ord IH]; intros a; simpl; [lra|].
  rewrite IH. destruct (g x); lra.
Qed.

Lemma total_value_sum (b : broker R) ord : total_value b ord = b_cash b + sumR (pv b) ord.
Proof. exact (fold_opt_sum (position_value b) ord (b_cash b)). Qed.

Lemma liquidation_value_sum (b : broker R) ord : liquidation_value b ord = b_cash b + sumR (plv b) ord.
Proof. exact (fold_opt_sum (position_liquidation_value b) ord (b_cash b)). Qed.

(* sums over any two enumerations of the holdings agree *)
Lemma total_value_perm (b : broker R) o1 o2 : Permutation o1 o2 -> total_value b o1 = total_value b o2.
Proof. intros H. rewrite !total_value_sum, (sumR_perm _ _ _ H). reflexivity. Qed.

Lemma liquidation_value_perm (b : broker R) o1 o2 : Permutation o1 o2 -> liquidation_value b o1 = liquidation_value b o2.
Proof. intros H. rewrite !liquidation_value_sum, (sumR_perm _ _ _ H). reflexivity. Qed.

(* budget_le of CostProofs with percentages up to and including 100 % *)
Lemma budget_nonpos1 cs b p ib :
  Forall cost_ok1 cs -> b <= 0 -> fst (trade_impact_total cs b p ib) <= 0.
Proof.
  unfold trade_impact_total. revert b p.
  induction cs as [|c cs IH]; intros b p Hok Hb; simpl; [lra|].
  inversion Hok as [|c' cs' Hc Hcs]; subst.
  destruct c as [v|x|v]; simpl in *; apply IH; try assumption; nra.
Qed.

Lemma budget_le1 cs b p ib :
  Forall cost_ok1 cs -> 0 <= b -> fst (trade_impact_total cs b p ib) <= b.
Proof.
  revert b p.
  induction cs as [|c cs IH]; intros b p Hok Hb; [unfold trade_impact_total; simpl; lra|].
  inversion Hok as [|c' cs' Hc Hcs]; subst.
  destruct c as [v|x|v]; simpl in Hc.
  - change (trade_impact_total (PerShare v :: cs) b p ib)
      with (trade_impact_total cs b (if ib then p + v else p - v) ib).
    apply IH; assumption.
  - change (trade_impact_total (PctOfValue x :: cs) b p ib)
      with (trade_impact_total cs (b * (1 - x)) p ib).
    assert (Hnn : 0 <= b * (1 - x)) by nra.
    specialize (IH (b * (1 - x)) p Hcs Hnn). nra.
  - change (trade_impact_total (Flat v :: cs) b p ib)
      with (trade_impact_total cs (b - v) p ib).
    destruct (Rle_dec 0 (b - v)) as [Hnn|Hneg].
    + specialize (IH (b - v) p Hcs Hnn). lra.
    + pose proof (budget_nonpos1 cs (b - v) p ib Hcs). lra.
Qed.

(* liquidation value never exceeds total value for a long portfolio *)
Lemma plv_le_pv (b : broker R) s :
  long_portfolio b -> Forall cost_ok1 (b_costs b) -> plv b s <= pv b s.
Proof.
  intros [_ Hl] Hc. unfold plv, pv, position_liquidation_value.
  destruct (position_value b s) as [v|] eqn:Hv; [|lra].
  unfold position_value, position_qty in *.
  destruct (sget (b_quotes b) s) as [q|] eqn:Hq; [|discriminate].
  destruct (sget (b_holdings b) s) as [qty|] eqn:Hh; [|discriminate].
  inversion Hv; subst v; clear Hv.
  apply sget_in in Hh. rewrite Forall_forall in Hl. specialize (Hl _ Hh). cbn [fst snd] in Hl.
  destruct Hl as [Hqty [q' [Hq' Hbid]]]. rewrite Hq in Hq'. inversion Hq'; subst q'.
  apply budget_le1; [exact Hc|]. cbn. nra.
Qed.

Lemma liq_le_total (b : broker R) ord :
  long_portfolio b -> Forall cost_ok1 (b_costs b) -> liquidation_value b ord <= total_value b ord.
Proof.
  intros Hl Hc. rewrite liquidation_value_sum, total_value_sum.
  assert (sumR (plv b) ord <= sumR (pv b) ord) by (apply sumR_le; intros; apply plv_le_pv; assumption).
  lra.
Qed.

(* and equals it without trade costs — this one for EVERY Num F (same computation) *)
Lemma liq_eq_total_nocosts {F} {NF : Num F} (b : broker F) ord :
  b_costs b = [] -> liquidation_value b ord = total_value b ord.
Proof.
  intros Hc. unfold liquidation_value, total_value.
  assert (E : forall a, position_liquidation_value b a = position_value b a).
  { intros a. unfold position_liquidation_value. rewrite Hc.
    destruct (position_value b a) as [v|] eqn:Hv; [|reflexivity].
    unfold position_value in Hv.
    destruct (sget (b_quotes b) a); [|discriminate].
    destruct (position_qty b a); [|discriminate]. reflexivity. }
  generalize (b_cash b). induction ord as [|x ord IH]; intros a; simpl; [reflexivity|].
  rewrite E. apply IH.
Qed.

(* profit = value - qty x cost basis *)
Lemma profit_spec (b : broker R) s cost qty v :
  cost_basis (b_log b) s = Some cost -> position_qty b s = Some qty -> position_value b s = Some v ->
  qty <> 0 -> position_profit b s = Some (v - qty * cost).
Proof.
  intros H1 H2 H3 Hq. unfold position_profit. rewrite H1, H2, H3. f_equal. cbn. field. exact Hq.
Qed.

(* cost basis: running signed quantity and value of symbol s since the position was last flat *)
Definition sq (s : string) (t : trade R) : R :=
  if String.eqb (t_symbol t) s then (match t_side t with Buy => t_quantity t | Sell => - t_quantity t end) else 0.
Definition sv (s : string) (t : trade R) : R :=
  if String.eqb (t_symbol t) s then (match t_side t with Buy => t_value t | Sell => - t_value t end) else 0.
(* [flat_split log s l1 l2]: log = l1 ++ l2, the running quantity is 0 at the end of l1, and never 0
   at the end of a prefix of l2 that ends with a trade of s *)
Definition flat_split (s : string) (log l1 l2 : list (trade R)) : Prop :=
  log = l1 ++ l2 /\ sumR (sq s) l1 = 0 /\
  forall p t r, l2 = p ++ t :: r -> String.eqb (t_symbol t) s = true -> sumR (sq s) (p ++ [t]) <> 0.

(* one step of the fold of cost_basis_fold *)
Definition cb_step (s : string) (acc : R * R) (t : trade R) : R * R :=
  if String.eqb (t_symbol t) s then
    let '(q, v) := acc in
    let '(q', v') := match t_side t with
                     | Buy => (q + t_quantity t, v + t_value t)
                     | Sell => (q - t_quantity t, v - t_value t)
                     end in
    if Req_bool q' 0 then (q', 0) else (q', v')
  else acc.

Lemma cost_basis_fold_eq log s : cost_basis_fold log s = fold_left (cb_step s) log (0, 0).
Proof. reflexivity. Qed.

Lemma cb_step_spec s q v t :
  cb_step s (q, v) t =
  if String.eqb (t_symbol t) s
  then (if Req_bool (q + sq s t) 0 then (q + sq s t, 0) else (q + sq s t, v + sv s t))
  else (q, v).
Proof.
  unfold cb_step, sq, sv. destruct (String.eqb (t_symbol t) s); [|reflexivity].
  destruct (t_side t).
  - reflexivity.
  - replace (q - t_quantity t) with (q + - t_quantity t) by lra.
    replace (v - t_value t) with (v + - t_value t) by lra. reflexivity.
Qed.

(* the quantity component is the running signed quantity; the value component is 0 whenever it is 0 *)
Lemma cb_fold_inv s log q v :
  (q = 0 -> v = 0) ->
  fst (fold_left (cb_step s) log (q, v)) = q + sumR (sq s) log /\
  (fst (fold_left (cb_step s) log (q, v)) = 0 -> snd (fold_left (cb_step s) log (q, v)) = 0).
Proof.
  revert q v. induction log as [|t log IH]; intros q v Hqv.
  - simpl. split; [lra|exact Hqv].
  - cbn [fold_left]. rewrite !sumR_cons, cb_step_spec.
    assert (Hsq : String.eqb (t_symbol t) s = false -> sq s t = 0)
      by (intros E; unfold sq; rewrite E; reflexivity).
    destruct (String.eqb (t_symbol t) s) eqn:E.
    + destruct (Req_bool_spec (q + sq s t) 0) as [Z|NZ].
      * destruct (IH (q + sq s t) 0 (fun _ => eq_refl)) as [I1 I2]. split; [rewrite I1; lra|exact I2].
      * destruct (IH (q + sq s t) (v + sv s t)) as [I1 I2]; [intros; contradiction|].
        split; [rewrite I1; lra|exact I2].
    + destruct (IH q v Hqv) as [I1 I2]. split; [rewrite I1, (Hsq eq_refl); lra|exact I2].
Qed.

(* when the running quantity never returns to 0 (at a trade of s), both components are plain sums *)
Lemma cb_fold_nonflat s log q v :
  (forall p t r, log = p ++ t :: r -> String.eqb (t_symbol t) s = true -> q + sumR (sq s) (p ++ [t]) <> 0) ->
  fold_left (cb_step s) log (q, v) = (q + sumR (sq s) log, v + sumR (sv s) log).
Proof.
  revert q v. induction log as [|t log IH]; intros q v Hnf.
  - simpl. f_equal; lra.
  - cbn [fold_left]. rewrite !sumR_cons, cb_step_spec.
    destruct (String.eqb (t_symbol t) s) eqn:E.
    + pose proof (Hnf [] t log eq_refl E) as H0. simpl in H0.
      rewrite Req_bool_false by (intros Z; apply H0; lra).
      rewrite IH.
      * f_equal; lra.
      * intros p t' r Hlog Et'. specialize (Hnf (t :: p) t' r). simpl in Hnf.
        rewrite Hlog in Hnf. specialize (Hnf eq_refl Et'). intros Z. apply Hnf. lra.
    + assert (Hq0 : sq s t = 0) by (unfold sq; rewrite E; reflexivity).
      assert (Hv0 : sv s t = 0) by (unfold sv; rewrite E; reflexivity).
      rewrite IH.
      * f_equal; lra.
      * intros p t' r Hlog Et'. specialize (Hnf (t :: p) t' r). simpl in Hnf.
        rewrite Hlog in Hnf. specialize (Hnf eq_refl Et'). intros Z. apply Hnf. lra.
Qed.

Lemma flat_split_exists (s : string) log : exists l1 l2, flat_split s log l1 l2.
Proof.
  induction log as [|t log IH] using rev_ind.
  - exists [], []. split; [reflexivity|]. split; [reflexivity|].
    intros p t r H. destruct p; discriminate.
  - destruct IH as (l1 & l2 & Hlog & Hz & Hnf).
    assert (Hkeep : (String.eqb (t_symbol t) s = true -> sumR (sq s) (l2 ++ [t]) <> 0) ->
                    flat_split s (log ++ [t]) l1 (l2 ++ [t])).
    { intros Hlast. split; [rewrite Hlog, app_assoc; reflexivity|]. split; [exact Hz|].
      intros p t' r Hsplit Et'.
      destruct r as [|x r'] using rev_ind.
      - apply app_inj_tail in Hsplit. destruct Hsplit as [Hp Ht]. subst p t'. apply Hlast. exact Et'.
      - clear IHr'. change (t' :: r' ++ [x]) with ((t' :: r') ++ [x]) in Hsplit.
        rewrite app_assoc in Hsplit. apply app_inj_tail in Hsplit. destruct Hsplit as [Hp Ht].
        apply (Hnf p t' r'); [exact Hp|exact Et']. }
    destruct (String.eqb (t_symbol t) s) eqn:E.
    + destruct (Req_dec (sumR (sq s) (l2 ++ [t])) 0) as [Z|NZ].
      * exists (log ++ [t]), []. split; [rewrite app_nil_r; reflexivity|]. split.
        -- rewrite Hlog, <- app_assoc, sumR_app, Hz, Z. lra.
        -- intros p t' r H. destruct p; discriminate.
      * exists l1, (l2 ++ [t]). apply Hkeep. intros _. exact NZ.
    + exists l1, (l2 ++ [t]). apply Hkeep. intros; discriminate.
Qed.

Lemma cost_basis_spec (s : string) log l1 l2 :
  flat_split s log l1 l2 ->
  cost_basis log s = if Req_bool (sumR (sq s) l2) 0 then None else Some (sumR (sv s) l2 / sumR (sq s) l2).
Proof.
  intros (Hlog & Hz & Hnf). unfold cost_basis. rewrite cost_basis_fold_eq, Hlog, fold_left_app.
  destruct (fold_left (cb_step s) l1 (0, 0)) as [q1 v1] eqn:E1.
  destruct (cb_fold_inv s l1 0 0 (fun _ => eq_refl)) as [I1 I2]. rewrite E1 in I1, I2. cbn [fst snd] in I1, I2.
  assert (Hq1 : q1 = 0) by lra. specialize (I2 Hq1). clear I1 E1. subst q1 v1.
  rewrite cb_fold_nonflat.
  - cbn [feqb fdiv fzero RNum]. rewrite !Rplus_0_l. reflexivity.
  - intros p t r Hl2 Et. rewrite Rplus_0_l. apply (Hnf p t r Hl2 Et).
Qed.

(* flat position <-> undefined *)
Lemma cost_basis_none_iff (s : string) log : cost_basis log s = None <-> sumR (sq s) log = 0.
Proof.
  unfold cost_basis. rewrite cost_basis_fold_eq.
  destruct (cb_fold_inv s log 0 0 (fun _ => eq_refl)) as [I1 _].
  destruct (fold_left (cb_step s) log (0, 0)) as [q v]. cbn [fst] in I1.
  cbn [feqb fzero RNum]. destruct (Req_bool_spec q 0) as [Z|NZ].
  - split; [intros _; lra|reflexivity].
  - split; [discriminate|intros; exfalso; apply NZ; lra].
Qed.

(* ---------------- C10 ---------------- *)
(* whole-share long portfolio with strictly positive bids *)
Definition whole_long (b : broker R) : Prop :=
  NoDup (map fst (b_holdings b)) /\
  Forall (fun kv => (exists n : Z, (0 < n)%Z /\ snd kv = IZR n) /\
                    exists q, sget (b_quotes b) (fst kv) = Some q /\ 0 < q_bid q) (b_holdings b).
Definition bid_of (b : broker R) (s : string) : R := match sget (b_quotes b) s with Some q => q_bid q | None => 0 end.
Definition is_market_sell (o : uorder R) : Prop := uo_type o = MarketSell /\ uo_price o = None.

(* the value of a list of sells at the last seen bids, and the sells with a non-zero quantity *)
Definition sells_value (b : broker R) (l : list (uorder R)) : R :=
  sumR (fun o => uo_shares o * bid_of b (uo_symbol o)) l.
Definition nz_sells (l : list (uorder R)) : list (uorder R) :=
  filter (fun o => negb (Req_bool (uo_shares o) 0)) l.

Lemma nz_sells_value b l : sells_value b (nz_sells l) = sells_value b l.
Proof.
  unfold sells_value, nz_sells. induction l as [|o l IH]; simpl; [reflexivity|].
  destruct (Req_bool_spec (uo_shares o) 0) as [E|E]; simpl; rewrite IH; [rewrite E|]; lra.
Qed.

Lemma nz_sells_id l : Forall (fun o : uorder R => 0 < uo_shares o) l -> nz_sells l = l.
Proof.
  unfold nz_sells. induction 1 as [|o l Ho _ IH]; simpl; [reflexivity|].
  rewrite Req_bool_false by lra. simpl. rewrite IH. reflexivity.
Qed.

Lemma nz_sells_in l o : In o (nz_sells l) -> In o l /\ uo_shares o <> 0.
Proof.
  unfold nz_sells. rewrite filter_In. intros [H1 H2]. split; [exact H1|].
  destruct (Req_bool_spec (uo_shares o) 0); [discriminate|assumption].
Qed.

(* --- the loop, one step at a time --- *)
Definition liq_app (o : list (uorder R)) (r : res (R * list (uorder R))) : res (R * list (uorder R)) :=
  match r with Ok (x, s) => Ok (x, o ++ s) | Panic m => Panic m | BadOracle => BadOracle end.

Lemma liq_loop_acc qk (b : broker R) ord c acc :
  liq_loop qk b ord c acc = liq_app (rev acc) (liq_loop qk b ord c []).
Proof.
  revert c acc. induction ord as [|t r IH]; intros c acc.
  - simpl. rewrite app_nil_r. reflexivity.
  - cbn [liq_loop].
    destruct (fleb _ c).
    + destruct (position_qty b t) as [qty|].
      * rewrite (IH _ (_ :: acc)), (IH _ [_]).
        destruct (liq_loop qk b r _ []) as [[x s]|m|]; simpl; try reflexivity.
        rewrite <- app_assoc. reflexivity.
      * apply IH.
    + destruct (sget (b_quotes b) t) as [q|]; [|reflexivity].
      simpl. reflexivity.
Qed.

Definition no_quote_panic {A} : res A := Panic "withdraw_cash_with_liquidation: get_quote(..).unwrap()".

Lemma liq_loop_cons (b : broker R) t r c :
  liq_loop clean b (t :: r) c [] =
  if Rle_bool (pv b t) c then
    match sget (b_holdings b) t with
    | Some qty => liq_app [mkUOrder MarketSell t qty None] (liq_loop clean b r (c - pv b t) [])
    | None => liq_loop clean b r c []
    end
  else
    match sget (b_quotes b) t with
    | None => no_quote_panic
    | Some q => Ok (0, [mkUOrder MarketSell t (IZR (Zceil (c / q_bid q))) None])
    end.
Proof.
  cbn [liq_loop]. change (match position_value b t with Some v => v | None => fzero end) with (pv b t).
  cbn [fleb RNum]. destruct (Rle_bool (pv b t) c).
  - unfold position_qty. destruct (sget (b_holdings b) t); [|reflexivity].
    rewrite liq_loop_acc. reflexivity.
  - reflexivity.
Qed.

Lemma pv_not_held b s : sget (b_holdings b) s = None -> pv b s = 0.
Proof.
  intros H. unfold pv, position_value, position_qty. rewrite H.
  destruct (sget (b_quotes b) s); reflexivity.
Qed.

Lemma whole_long_held b s h :
  whole_long b -> sget (b_holdings b) s = Some h ->
  exists n q, (0 < n)%Z /\ h = IZR n /\ sget (b_quotes b) s = Some q /\ 0 < q_bid q /\
              pv b s = q_bid q * h /\ bid_of b s = q_bid q.
Proof.
  intros [_ Hw] Hh. pose proof (sget_in _ _ _ Hh) as Hin.
  rewrite Forall_forall in Hw. specialize (Hw _ Hin). cbn [fst snd] in Hw.
  destruct Hw as [[n [Hn Hhn]] [q [Hq Hbid]]].
  exists n, q. repeat split; auto.
  - unfold pv. rewrite (position_value_spec b s q h Hq Hh). reflexivity.
  - unfold bid_of. rewrite Hq. reflexivity.
Qed.

(* generic facts about the loop (no hypothesis on the broker) *)
Lemma liq_loop_shape (b : broker R) ord c rest sells :
  liq_loop clean b ord c [] = Ok (rest, sells) ->
  Forall is_market_sell sells /\
  incl (map (@uo_symbol R) sells) ord /\
  (NoDup ord -> NoDup (map (@uo_symbol R) sells)) /\
  (rest = 0 \/ rest = c - sumR (pv b) ord) /\
  (rest = 0 -> 0 < c -> sells <> []).
Proof.
  revert c rest sells. induction ord as [|t r IH]; intros c rest sells H.
  - simpl in H. inversion H; subst. simpl.
    refine (conj _ (conj _ (conj _ (conj _ _)))).
    + constructor.
    + apply incl_refl.
    + intros _. constructor.
    + right. lra.
    + intros; lra.
  - rewrite liq_loop_cons in H.
    destruct (Rle_bool (pv b t) c).
    + destruct (sget (b_holdings b) t) as [qty|] eqn:Hh.
      * destruct (liq_loop clean b r (c - pv b t) []) as [[x s]|m|] eqn:Hr; simpl in H; try discriminate.
        inversion H; subst; clear H.
        destruct (IH _ _ _ Hr) as (I1 & I2 & I3 & I4 & I5).
        refine (conj _ (conj _ (conj _ (conj _ _)))).
        -- constructor; [split; reflexivity|exact I1].
        -- simpl. intros y [Hy|Hy]; [left; exact Hy|right; apply I2; exact Hy].
        -- intros Hnd. inversion Hnd; subst. simpl. constructor; [|auto].
           intros Hin. apply I2 in Hin. contradiction.
        -- destruct I4 as [I4|I4]; [left; exact I4|right]. simpl. lra.
        -- intros _ _. discriminate.
      * destruct (IH _ _ _ H) as (I1 & I2 & I3 & I4 & I5).
        refine (conj _ (conj _ (conj _ (conj _ _)))).
        -- exact I1.
        -- intros y Hy. right. apply I2. exact Hy.
        -- intros Hnd. inversion Hnd; auto.
        -- destruct I4 as [I4|I4]; [left; exact I4|right]. simpl. rewrite (pv_not_held _ _ Hh). lra.
        -- exact I5.
    + destruct (sget (b_quotes b) t) as [q|]; [|discriminate].
      inversion H; subst; clear H.
      refine (conj _ (conj _ (conj _ (conj _ _)))).
      * constructor; [split; reflexivity|constructor].
      * simpl. intros y [Hy|[]]. left; exact Hy.
      * intros _. simpl. constructor; [intros []|constructor].
      * left; reflexivity.
      * intros _ _. discriminate.
Qed.

(* the quantitative part, for a whole-share portfolio with positive bids *)
Lemma liq_loop_amounts (b : broker R) ord c rest sells :
  whole_long b -> 0 <= c ->
  liq_loop clean b ord c [] = Ok (rest, sells) ->
  Forall (fun o => exists h, sget (b_holdings b) (uo_symbol o) = Some h /\ 0 <= uo_shares o <= h) sells /\
  (rest = 0 -> c <= sells_value b sells).
Proof.
  intros Hw. revert c rest sells. induction ord as [|t r IH]; intros c rest sells Hc H.
  - simpl in H. inversion H; subst. split; [constructor|]. intros ->. unfold sells_value; simpl. lra.
  - rewrite liq_loop_cons in H.
    destruct (Rle_bool_spec (pv b t) c) as [Hle|Hgt].
    + destruct (sget (b_holdings b) t) as [qty|] eqn:Hh.
      * destruct (liq_loop clean b r (c - pv b t) []) as [[x s]|m|] eqn:Hr; simpl in H; try discriminate.
        inversion H; subst; clear H.
        destruct (whole_long_held _ _ _ Hw Hh) as (n & q & Hn & Hqn & Hq & Hbid & Hpv & Hbo).
        assert (Hc' : 0 <= c - pv b t) by lra.
        destruct (IH _ _ _ Hc' Hr) as [I1 I2]. split.
        -- constructor; [|exact I1]. exists qty. cbn [uo_symbol uo_shares]. split; [exact Hh|].
           apply IZR_lt in Hn. lra.
        -- intros E. specialize (I2 E). unfold sells_value in *. simpl. rewrite Hbo. lra.
      * apply IH; assumption.
    + destruct (sget (b_holdings b) t) as [qty|] eqn:Hh.
      2:{ rewrite (pv_not_held _ _ Hh) in Hgt. lra. }
      destruct (whole_long_held _ _ _ Hw Hh) as (n & q & Hn & Hqn & Hq & Hbid & Hpv & Hbo).
      rewrite Hq in H. inversion H; subst rest sells; clear H.
      assert (Hx : 0 <= c / q_bid q).
      { apply Rmult_le_pos; [lra|]. left. apply Rinv_0_lt_compat. exact Hbid. }
      assert (Hlt : c / q_bid q <= IZR n).
      { rewrite <- Hqn. apply Rmult_le_reg_r with (q_bid q); [exact Hbid|].
        unfold Rdiv. rewrite Rmult_assoc, Rinv_l by lra. lra. }
      pose proof (Zceil_ub (c / q_bid q)) as Hub.
      pose proof (Zceil_glb _ _ Hlt) as Hglb. apply IZR_le in Hglb.
      split.
      * constructor; [|constructor]. exists qty. cbn [uo_symbol uo_shares]. split; [exact Hh|]. lra.
      * intros _. unfold sells_value. simpl. rewrite Hbo.
        assert (c / q_bid q * q_bid q = c) by (field; lra).
        assert (c / q_bid q * q_bid q <= IZR (Zceil (c / q_bid q)) * q_bid q) by nra.
        lra.
Qed.

(* liq_loop_spec as given is false: when the amount still to raise is exactly 0 on entering the
   partial-sale branch (c = 0, or the full sales so far matched the request exactly, with a further
   position left), the order created has ceil(0/bid) = 0 shares, so [0 < uo_shares o] fails for it.
   Adjusted: quantities are [0 <= uo_shares o <= h] on the created list, and the ORIGINAL four
   conclusions (with the strict [0 < uo_shares o]) hold for the created sells of non-zero quantity
   [nz_sells sells], which are worth exactly as much ([nz_sells_value]) and are what the gate forwards
   ([send_sells_forwarded_nz]). The hypothesis that every symbol of [ord] is held is not needed. *)
Lemma liq_loop_spec_adj (b : broker R) ord c rest sells :
  whole_long b -> NoDup ord -> (forall s, In s ord -> sget (b_holdings b) s <> None) -> 0 <= c ->
  liq_loop clean b ord c [] = Ok (rest, sells) ->
  (Forall is_market_sell sells /\
   Forall (fun o => exists h, sget (b_holdings b) (uo_symbol o) = Some h /\ 0 <= uo_shares o <= h) sells /\
   NoDup (map (@uo_symbol R) sells) /\
   (rest = 0 -> c <= sumR (fun o => uo_shares o * bid_of b (uo_symbol o)) sells)) /\
  (Forall is_market_sell (nz_sells sells) /\
   Forall (fun o => exists h, sget (b_holdings b) (uo_symbol o) = Some h /\ 0 < uo_shares o <= h) (nz_sells sells) /\
   NoDup (map (@uo_symbol R) (nz_sells sells)) /\
   (rest = 0 -> c <= sumR (fun o => uo_shares o * bid_of b (uo_symbol o)) (nz_sells sells))).
Proof.
  intros Hw Hnd _ Hc H.
  destruct (liq_loop_shape _ _ _ _ _ H) as (S1 & S2 & S3 & _ & _).
  destruct (liq_loop_amounts _ _ _ _ _ Hw Hc H) as [A1 A2].
  split; [repeat split; auto|].
  repeat split.
  - rewrite Forall_forall in *. intros o Ho. apply S1. apply nz_sells_in in Ho. tauto.
  - rewrite Forall_forall in *. intros o Ho. apply nz_sells_in in Ho. destruct Ho as [Ho Hnz].
    destruct (A1 _ Ho) as [h [Hh Hr]]. exists h. split; [exact Hh|]. lra.
  - specialize (S3 Hnd). unfold nz_sells. clear -S3.
    induction sells as [|o l IH]; simpl in *; [constructor|].
    inversion S3; subst. destruct (negb _); simpl; [|auto]. constructor; [|auto].
    intros Hin. apply in_map_iff in Hin. destruct Hin as [o' [E Ho']].
    apply filter_In in Ho'. destruct Ho' as [Ho' _]. apply H1. rewrite <- E. apply in_map. exact Ho'.
  - intros E. specialize (A2 E). fold (sells_value b (nz_sells sells)). rewrite nz_sells_value. exact A2.
Qed.

(* why liq_loop_spec needed adjusting, even for a request c > 0: one share of A and one of B, both
   bid at 1, request 1: A is sold in full, which matches the request exactly; B is then worth more
   than the 0 left, so the partial branch creates a sell of ceil(0/1) = 0 shares of B. *)
Lemma liq_loop_spec_counterexample :
  let q := fun s => mkQuote 1 1 1%Z s in
  let b := mkBroker 0 [("A"%string, 1); ("B"%string, 1)] []
                      [("A"%string, q "A"%string); ("B"%string, q "B"%string)] [] [] false in
  whole_long b /\ NoDup ["A"%string; "B"%string] /\ 0 < 1 /\
  liq_loop clean b ["A"%string; "B"%string] 1 []
  = Ok (0, [mkUOrder MarketSell "A"%string 1 None; mkUOrder MarketSell "B"%string 0 None]).
Proof.
  intros q b.
  assert (Hnd : NoDup ["A"%string; "B"%string]).
  { constructor; [intros [H|[]]; discriminate|]. constructor; [intros []|constructor]. }
  split; [|split; [exact Hnd|split; [lra|]]].
  - split; [exact Hnd|].
    constructor; [|constructor; [|constructor]]; cbn [fst snd]; (split; [exists 1%Z; split; [lia|reflexivity]|]).
    + exists (q "A"%string). split; [reflexivity|]. cbn [q q_bid]. lra.
    + exists (q "B"%string). split; [reflexivity|]. cbn [q q_bid]. lra.
  - assert (HA : pv b "A"%string = 1 * 1) by reflexivity.
    assert (HB : pv b "B"%string = 1 * 1) by reflexivity.
    rewrite liq_loop_cons, HA, Rle_bool_true by lra.
    replace (sget (b_holdings b) "A"%string) with (Some 1) by reflexivity.
    rewrite liq_loop_cons, HB, Rle_bool_false by lra.
    replace (sget (b_quotes b) "B"%string) with (Some (q "B"%string)) by reflexivity.
    cbn [q q_bid liq_app app].
    replace ((1 - 1 * 1) / 1) with 0 by lra. rewrite Zceil_IZR. reflexivity.
Qed.

(* --- the gate --- *)
Lemma add_pending_fields (b : broker R) o :
  b_failed (add_pending b o) = b_failed b /\ b_holdings (add_pending b o) = b_holdings b /\
  b_quotes (add_pending b o) = b_quotes b /\ b_cash (add_pending b o) = b_cash b.
Proof. unfold add_pending, set_pending. simpl. auto. Qed.

Lemma send_order_fields qk (b : broker R) o b' ev fw :
  send_order qk b o = Ok (b', ev, fw) ->
  b_failed b' = b_failed b /\ b_holdings b' = b_holdings b /\ b_quotes b' = b_quotes b /\
  b_cash b' = b_cash b /\ (fw = [] \/ fw = [o]).
Proof.
  unfold send_order. destruct (gate qk b o); intros H; inversion H; subst.
  - repeat split; auto.
  - destruct (add_pending_fields b o) as (H1 & H2 & H3 & H4). repeat split; auto.
Qed.

Lemma send_orders_fields qk (b : broker R) os b' evs fw :
  send_orders qk b os = Ok (b', evs, fw) ->
  b_failed b' = b_failed b /\ b_holdings b' = b_holdings b /\ b_quotes b' = b_quotes b /\
  b_cash b' = b_cash b /\ incl fw os.
Proof.
  revert b b' evs fw. induction os as [|o r IH]; intros b b' evs fw H.
  - simpl in H. inversion H; subst. repeat split; auto. apply incl_refl.
  - cbn [send_orders] in H.
    destruct (send_order qk b o) as [[[b1 ev1] fw1]|s|] eqn:H1; cbn [bind] in H; try discriminate.
    destruct (send_orders qk b1 r) as [[[b2 evs2] fw2]|s|] eqn:H2; cbn [bind] in H; try discriminate.
    inversion H; subst; clear H.
    destruct (send_order_fields _ _ _ _ _ _ H1) as (F1 & F2 & F3 & F4 & F5).
    destruct (IH _ _ _ _ H2) as (G1 & G2 & G3 & G4 & G5).
    repeat split; try congruence.
    intros x Hx. apply in_app_or in Hx. destruct Hx as [Hx|Hx].
    + destruct F5 as [F5|F5]; subst fw1; [destruct Hx|]. destruct Hx as [Hx|[]]. left; exact Hx.
    + right. apply G5. exact Hx.
Qed.

(* a market sell within the holdings of a Ready broker: forwarded iff its quantity is non-zero
   (whatever the quirks: none of them is consulted for a market sell) *)
Lemma gate_market_sell qk (b : broker R) o h q :
  b_failed b = false -> is_market_sell o ->
  sget (b_holdings b) (uo_symbol o) = Some h -> uo_shares o <= h ->
  sget (b_quotes b) (uo_symbol o) = Some q ->
  gate qk b o = if Req_bool (uo_shares o) 0 then GInvalid else GForward.
Proof.
  intros Hf [Ht Hp] Hh Hle Hq. unfold gate. rewrite Hf, Hq, Ht. unfold position_qty. rewrite Hh.
  cbn [fleb feqb fzero RNum]. rewrite (Rle_bool_true _ _ Hle). simpl. reflexivity.
Qed.

Lemma send_sells_forwarded_nz (b : broker R) sells b' evs fw :
  b_failed b = false ->
  Forall is_market_sell sells ->
  Forall (fun o => exists h, sget (b_holdings b) (uo_symbol o) = Some h /\ uo_shares o <= h) sells ->
  send_orders clean b sells = Ok (b', evs, fw) -> fw = nz_sells sells.
Proof.
  revert b b' evs fw. induction sells as [|o r IH]; intros b b' evs fw Hf Hm Hh H.
  - simpl in H. inversion H; subst. reflexivity.
  - inversion Hm as [|? ? Hmo Hmr]; subst. inversion Hh as [|? ? Hho Hhr]; subst.
    destruct Hho as [h [Hho Hle]].
    cbn [send_orders] in H.
    destruct (send_order clean b o) as [[[b1 ev1] fw1]|s|] eqn:H1; cbn [bind] in H; try discriminate.
    destruct (send_orders clean b1 r) as [[[b2 evs2] fw2]|s|] eqn:H2; cbn [bind] in H; try discriminate.
    inversion H; subst; clear H.
    destruct (send_order_fields _ _ _ _ _ _ H1) as (F1 & F2 & F3 & F4 & F5).
    assert (Hr : fw2 = nz_sells r).
    { apply (IH b1 b' evs2 fw2); [congruence|exact Hmr| |exact H2].
      rewrite F2. exact Hhr. }
    subst fw2. unfold send_order in H1.
    destruct (sget (b_quotes b) (uo_symbol o)) as [q|] eqn:Hq.
    + rewrite (gate_market_sell clean b o h q Hf Hmo Hho Hle Hq) in H1.
      unfold nz_sells at 2. cbn [filter]. fold (nz_sells r).
      destruct (Req_bool (uo_shares o) 0); inversion H1; subst; reflexivity.
    + unfold gate in H1. rewrite Hf, Hq in H1. discriminate.
Qed.

(* the gate accepts every such sell of a Ready broker *)
Lemma send_sells_all_forwarded (b : broker R) sells b' evs fw :
  b_failed b = false ->
  Forall is_market_sell sells ->
  Forall (fun o => (exists h, sget (b_holdings b) (uo_symbol o) = Some h /\ 0 < uo_shares o <= h) /\
                   sget (b_quotes b) (uo_symbol o) <> None) sells ->
  send_orders clean b sells = Ok (b', evs, fw) -> fw = sells.
Proof.
  intros Hf Hm Hh H.
  rewrite (send_sells_forwarded_nz b sells b' evs fw Hf Hm); [| |exact H].
  - apply nz_sells_id. rewrite Forall_forall in *. intros o Ho.
    destruct (Hh o Ho) as [[h [_ Hr]] _]. lra.
  - rewrite Forall_forall in *. intros o Ho.
    destruct (Hh o Ho) as [[h [Hs Hr]] _]. exists h. split; [exact Hs|lra].
Qed.

(* C10: success => enough, within holdings, only sells, all forwarded; failure => nothing queued.
   True as stated: [fw] is what the gate forwarded, i.e. the created sells of non-zero quantity. *)
Lemma liquidation_sufficient (b : broker R) c ord b' ev fw :
  whole_long b -> b_failed b = false -> 0 <= c ->
  withdraw_cash_with_liquidation clean b c ord = Ok (b', ev, fw) ->
  match ev with
  | WithdrawSuccess _ =>
      Forall is_market_sell fw /\
      Forall (fun o => exists h, sget (b_holdings b) (uo_symbol o) = Some h /\ 0 < uo_shares o <= h) fw /\
      c <= sumR (fun o => uo_shares o * bid_of b (uo_symbol o)) fw
  | WithdrawFailure _ => fw = [] /\ b' = b
  | _ => False
  end.
Proof.
  intros Hw Hf Hc H. unfold withdraw_cash_with_liquidation in H.
  destruct (is_order_of ord (b_holdings b)) eqn:Ho; cbn [negb] in H; [|discriminate].
  destruct (is_order_of_spec _ _ Ho) as (_ & Hnd & Hin).
  change (liq_failure clean b c) with b in H.
  destruct (fltb (liquidation_value b ord) c).
  - inversion H; subst. split; reflexivity.
  - destruct (liq_loop clean b ord c []) as [[x sells]|m|] eqn:Hl; cbn [bind] in H; try discriminate.
    cbn [feqb fzero RNum] in H.
    destruct (Req_bool_spec x 0) as [E|E].
    + destruct (send_orders clean b sells) as [[[b1 evs] fw1]|m|] eqn:Hs; cbn [bind] in H; try discriminate.
      inversion H; subst b1 ev fw1; clear H.
      assert (Hheld : forall s, In s ord -> sget (b_holdings b) s <> None).
      { intros s Hs'. destruct (in_keys_sget _ _ (Hin s Hs')) as [v Hv]. congruence. }
      destruct (liq_loop_spec_adj b ord c x sells Hw Hnd Hheld Hc Hl)
        as [(A1 & A2 & A3 & A4) (B1 & B2 & B3 & B4)].
      assert (Hfw : fw = nz_sells sells).
      { apply (send_sells_forwarded_nz b sells b' evs fw Hf A1); [|exact Hs].
        rewrite Forall_forall in *. intros o Hoo. destruct (A2 o Hoo) as [h [Hh Hr]].
        exists h. split; [exact Hh|lra]. }
      subst fw. split; [exact B1|]. split; [exact B2|]. apply B4. exact E.
    + inversion H; subst. split; reflexivity.
Qed.

(* the same for the request made by rebalance_cash (x = -cash + 1000) *)
Lemma rebalance_sufficient (b : broker R) ord b' fw :
  whole_long b -> b_failed b = false -> b_cash b < 0 ->
  rebalance_cash clean b ord = Ok (b', fw) ->
  (b_failed b' = false ->
     Forall is_market_sell fw /\ - b_cash b + 1000 <= sumR (fun o => uo_shares o * bid_of b (uo_symbol o)) fw) /\
  (b_failed b' = true -> fw = []).
Proof.
  intros Hw Hf Hneg H. unfold rebalance_cash in H.
  cbn [fltb fzero RNum] in H. rewrite (Rlt_bool_true _ _ Hneg) in H.
  assert (Ec : fadd (fmul (b_cash b) (fneg fone)) (fofZ 1000) = - b_cash b + 1000)
    by (cbn [fadd fmul fneg fone fofZ RNum]; lra).
  rewrite Ec in H.
  destruct (withdraw_cash_with_liquidation clean b (- b_cash b + 1000) ord)
    as [[[b1 ev] fw1]|m|] eqn:Hwd; cbn [bind] in H; try discriminate.
  assert (Hc : 0 <= - b_cash b + 1000) by lra.
  pose proof (liquidation_sufficient b _ ord b1 ev fw1 Hw Hf Hc Hwd) as L.
  destruct ev as [x|x|x|x]; try contradiction.
  - inversion H; subst b1 fw1; clear H. destruct L as (L1 & L2 & L3).
    split; [intros _; split; assumption|].
    intros Hfl. exfalso.
    (* success: the broker that comes back is the Ready one *)
    unfold withdraw_cash_with_liquidation in Hwd.
    destruct (negb (is_order_of ord (b_holdings b))); [discriminate|].
    destruct (fltb (liquidation_value b ord) (- b_cash b + 1000)); [discriminate|].
    destruct (liq_loop clean b ord (- b_cash b + 1000) []) as [[y sells]|m|]; cbn [bind] in Hwd; try discriminate.
    destruct (feqb y fzero); [|discriminate].
    destruct (send_orders clean b sells) as [[[b2 evs] fw2]|m|] eqn:Hs; cbn [bind] in Hwd; try discriminate.
    inversion Hwd; subst. destruct (send_orders_fields _ _ _ _ _ _ Hs) as (F1 & _). congruence.
  - inversion H; subst; clear H. destruct L as [L1 L2]. subst.
    split; [|reflexivity]. simpl. intros; discriminate.
Qed.

(* refutation with the precedence defect: bid 10.5, 105 to raise, 100 shares held: sells 105/11 shares
   worth 100.2 < 105 and reports success *)
Definition ceil_defect : quirks := mkQuirks false false false false false true false false false false false false.
Lemma c10_refuted_q_liq_ceil_precedence :
  let b := mkBroker 0 [("ABC"%string, 100)] [] [("ABC"%string, mkQuote (21/2) 11 1%Z "ABC"%string)] [] [] false in
  exists b' o, withdraw_cash_with_liquidation ceil_defect b 105 ["ABC"%string] = Ok (b', WithdrawSuccess 105, [o]) /\
               uo_shares o * (21/2) < 105.
Proof.
  intros b.
  assert (Hceil : Zceil (21/2) = 11%Z) by (apply Zceil_imp; simpl; lra).
  set (o := mkUOrder MarketSell "ABC"%string (105 / 11) (@None R)).
  exists (add_pending b o), o.
  split; [|unfold o; cbn [uo_shares]; lra].
  unfold withdraw_cash_with_liquidation.
  replace (is_order_of ["ABC"%string] (b_holdings b)) with true by reflexivity.
  cbn [negb].
  assert (Hlv : liquidation_value b ["ABC"%string] = 0 + 21/2 * 100) by reflexivity.
  rewrite Hlv. cbn [fltb RNum]. rewrite Rlt_bool_false by lra.
  assert (Hl : liq_loop ceil_defect b ["ABC"%string] 105 []
               = if Rle_bool (21/2 * 100) 105
                 then liq_loop ceil_defect b [] (105 - 21/2 * 100) [mkUOrder MarketSell "ABC"%string 100 None]
                 else Ok (0, [mkUOrder MarketSell "ABC"%string (105 / IZR (Zceil (21/2))) None]))
    by reflexivity.
  rewrite Hl, Rle_bool_false by lra. rewrite Hceil. fold o. cbn [bind].
  cbn [feqb fzero RNum]. rewrite Req_bool_true by reflexivity.
  cbn [send_orders]. unfold send_order.
  rewrite (gate_market_sell ceil_defect b o 100 (mkQuote (21/2) 11 1%Z "ABC"%string));
    [|reflexivity|split; reflexivity|reflexivity|unfold o; cbn [uo_shares]; lra|reflexivity].
  rewrite Req_bool_false by (unfold o; cbn [uo_shares]; lra).
  cbn [bind app]. reflexivity.
Qed.

(* ---------------- C09 ---------------- *)
Lemma liq_loop_rest_nonneg (b : broker R) ord c rest sells :
  0 <= c -> liq_loop clean b ord c [] = Ok (rest, sells) -> 0 <= rest.
Proof.
  revert c rest sells. induction ord as [|t r IH]; intros c rest sells Hc H.
  - simpl in H. inversion H; subst. exact Hc.
  - rewrite liq_loop_cons in H.
    destruct (Rle_bool_spec (pv b t) c) as [Hle|Hgt].
    + destruct (sget (b_holdings b) t) as [qty|].
      * destruct (liq_loop clean b r (c - pv b t) []) as [[x s]|m|] eqn:Hr; simpl in H; try discriminate.
        inversion H; subst; clear H. apply (IH (c - pv b t) rest s); [lra|exact Hr].
      * apply (IH c rest sells); assumption.
    + destruct (sget (b_quotes b) t) as [q|]; [|discriminate].
      inversion H; subst. lra.
Qed.

Lemma liq_loop_ok (b : broker R) ord c :
  (forall s, In s ord -> sget (b_quotes b) s <> None) -> exists r, liq_loop clean b ord c [] = Ok r.
Proof.
  revert c. induction ord as [|t r IH]; intros c Hq.
  - simpl. eauto.
  - rewrite liq_loop_cons.
    assert (Hq' : forall s, In s r -> sget (b_quotes b) s <> None) by (intros; apply Hq; right; assumption).
    destruct (Rle_bool (pv b t) c).
    + destruct (sget (b_holdings b) t) as [qty|]; [|apply IH; exact Hq'].
      destruct (IH (c - pv b t) Hq') as [[x s] Hr]. rewrite Hr. simpl. eauto.
    + destruct (sget (b_quotes b) t) as [q|] eqn:E; [eauto|].
      exfalso. apply (Hq t); [left; reflexivity|exact E].
Qed.

Lemma send_order_ok (b : broker R) o :
  sget (b_quotes b) (uo_symbol o) <> None -> exists r, send_order clean b o = Ok r.
Proof.
  intros Hq. unfold send_order, gate.
  destruct (b_failed b); [eauto|].
  destruct (sget (b_quotes b) (uo_symbol o)) as [q|]; [|contradiction].
  change (q_limit_panics clean) with false. cbv iota.
  destruct (uo_type o); cbv iota;
    repeat match goal with |- context [if ?x then _ else _] => destruct x end; eauto.
Qed.

Lemma send_orders_ok (b : broker R) os :
  (forall o, In o os -> sget (b_quotes b) (uo_symbol o) <> None) -> exists r, send_orders clean b os = Ok r.
Proof.
  revert b. induction os as [|o r IH]; intros b Hq.
  - simpl. eauto.
  - cbn [send_orders].
    destruct (send_order_ok b o (Hq o (or_introl eq_refl))) as [[[b1 ev1] fw1] H1]. rewrite H1. cbn [bind].
    destruct (send_order_fields _ _ _ _ _ _ H1) as (_ & _ & F3 & _).
    destruct (IH b1) as [[[b2 evs2] fw2] H2].
    { intros o' Ho'. rewrite F3. apply Hq. right. exact Ho'. }
    rewrite H2. cbn [bind]. eauto.
Qed.

Lemma long_portfolio_quoted (b : broker R) ord s :
  long_portfolio b -> is_order_of ord (b_holdings b) = true -> In s ord -> sget (b_quotes b) s <> None.
Proof.
  intros [_ Hl] Ho Hs. destruct (is_order_of_spec _ _ Ho) as (_ & _ & Hin).
  destruct (in_keys_sget _ _ (Hin s Hs)) as [v Hv]. apply sget_in in Hv.
  rewrite Forall_forall in Hl. destruct (Hl _ Hv) as [_ [q [Hq _]]]. cbn [fst] in Hq. congruence.
Qed.

(* the reconciliation step: Failed iff negative cash and shortfall + 1000 exceeds the liquidation value;
   otherwise, with negative cash, the broker stays Ready and at least one sell order — and only
   market sells — were created. (long_portfolio: quantities > 0, bids >= 0, every holding quoted.) *)
Lemma rebalance_failed_iff (b : broker R) ord b' fw :
  long_portfolio b -> Forall cost_ok1 (b_costs b) -> b_failed b = false ->
  is_order_of ord (b_holdings b) = true ->
  rebalance_cash clean b ord = Ok (b', fw) ->
  (b_failed b' = true <-> (b_cash b < 0 /\ liquidation_value b ord < - b_cash b + 1000)) /\
  (b_cash b < 0 -> b_failed b' = false ->
     exists sells, liq_loop clean b ord (- b_cash b + 1000) [] = Ok (0, sells) /\ sells <> [] /\
                   Forall is_market_sell sells /\ (forall o, In o fw -> In o sells)).
Proof.
  intros Hl Hc Hf Ho H. unfold rebalance_cash in H. cbn [fltb fzero RNum] in H.
  destruct (Rlt_bool_spec (b_cash b) 0) as [Hneg|Hpos].
  2:{ inversion H; subst. split; [split; [congruence|lra]|lra]. }
  assert (Ec : fadd (fmul (b_cash b) (fneg fone)) (fofZ 1000) = - b_cash b + 1000)
    by (cbn [fadd fmul fneg fone fofZ RNum]; lra).
  rewrite Ec in H. set (c := - b_cash b + 1000) in *.
  assert (Hc0 : 0 < c) by (unfold c; lra).
  unfold withdraw_cash_with_liquidation in H. rewrite Ho in H. cbn [negb] in H.
  change (liq_failure clean b c) with b in H. cbn [fltb RNum] in H.
  destruct (Rlt_bool_spec (liquidation_value b ord) c) as [Hlt|Hge].
  - cbn [bind] in H. inversion H; subst. simpl. split; [tauto|]. intros; discriminate.
  - destruct (liq_loop clean b ord c []) as [[x sells]|m|] eqn:Hloop; cbn [bind] in H; try discriminate.
    destruct (liq_loop_shape _ _ _ _ _ Hloop) as (S1 & S2 & S3 & S4 & S5).
    cbn [feqb fzero RNum] in H.
    destruct (Req_bool_spec x 0) as [E|E].
    + destruct (send_orders clean b sells) as [[[b1 evs] fw1]|m|] eqn:Hs; cbn [bind] in H; try discriminate.
      inversion H; subst b1 fw1; clear H.
      destruct (send_orders_fields _ _ _ _ _ _ Hs) as (F1 & _ & _ & _ & F5).
      split.
      * split; [intros; congruence|intros [_ Hlt]; lra].
      * intros _ _. exists sells. subst x. split; [reflexivity|]. split; [apply S5; [reflexivity|exact Hc0]|].
        split; [exact S1|]. intros o Hin. apply F5. exact Hin.
    + exfalso.
      pose proof (liq_loop_rest_nonneg _ _ _ _ _ (Rlt_le _ _ Hc0) Hloop) as Hx.
      destruct S4 as [S4|S4]; [contradiction|].
      pose proof (liq_le_total b ord Hl Hc) as Hle. rewrite total_value_sum in Hle. lra.
Qed.

(* rebalance on a broker with a long portfolio never panics (Ready or not) *)
Lemma rebalance_no_panic (b : broker R) ord :
  long_portfolio b -> is_order_of ord (b_holdings b) = true ->
  exists r, rebalance_cash clean b ord = Ok r.
Proof.
  intros Hl Ho. unfold rebalance_cash.
  destruct (fltb (b_cash b) fzero); [|eauto].
  set (c := fadd _ _). unfold withdraw_cash_with_liquidation. rewrite Ho. cbn [negb].
  destruct (fltb (liquidation_value b ord) c); [cbn [bind]; eauto|].
  assert (Hq : forall s, In s ord -> sget (b_quotes b) s <> None)
    by (intros s Hs; apply (long_portfolio_quoted b ord s Hl Ho Hs)).
  destruct (liq_loop_ok b ord c Hq) as [[x sells] Hloop]. rewrite Hloop. cbn [bind].
  destruct (feqb x fzero); [|cbn [bind]; eauto].
  destruct (liq_loop_shape _ _ _ _ _ Hloop) as (_ & S2 & _).
  destruct (send_orders_ok b sells) as [[[b1 evs] fw1] Hs].
  { intros o Hin. apply Hq. apply S2. apply in_map. exact Hin. }
  rewrite Hs. cbn [bind]. eauto.
Qed.
