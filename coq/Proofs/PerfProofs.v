(* PerfProofs.v — C14, C15: theorems about perf/mod.rs (Model/Perf.v) at the real-number instance. *)
From Coq Require Import ZArith NArith List Bool String Reals Lra Lia Permutation.
From Flocq Require Import Raux.
From Alator Require Import Model.Num Model.Quirks Model.Broker Model.Perf.
Import ListNotations.
Local Existing Instance RNum.
Local Open Scope R_scope.

Definition sumR (l : list R) : R := fold_right Rplus 0 l.
Definition prodR (l : list R) : R := fold_right Rmult 1 l.

Ltac rn :=
  cbn [fadd fsub fmul fdiv fneg fabs fzero fone feqb fltb fleb fsqrt fofZ fln fexp fpow RNum] in *.

(* ------------------------------ C14 ------------------------------ *)
Lemma fold_left_Rplus_acc (l : list R) (a : R) : fold_left Rplus l a = a + sumR l.
Proof.
  revert a; induction l as [|x l IH]; intros a; simpl.
  - lra.
  - rewrite IH. lra.
Qed.

Lemma fsum_sumR (l : list R) : fsum l = sumR l.
Proof.
  unfold fsum; rn. rewrite fold_left_Rplus_acc. lra.
Qed.

Lemma period_return_nz start end_ cf infl :
  start + cf <> 0 ->
  period_return start end_ cf infl = (1 + (end_ - (start + cf)) / (start + cf)) / (1 + infl) - 1.
Proof.
  intros H. unfold period_return; rn.
  destruct (Req_bool_spec (start + cf) 0); [contradiction|reflexivity].
Qed.

Lemma period_return_z start end_ cf infl :
  start + cf = 0 -> period_return start end_ cf infl = 0.
Proof.
  intros H. unfold period_return; rn.
  destruct (Req_bool_spec (start + cf) 0); [reflexivity|contradiction].
Qed.

(* each period return r satisfies  value_next = (value_prev + flow) x (1 + r) x (1 + inflation) *)
Lemma period_identity start end_ cf infl :
  start + cf <> 0 -> 1 + infl <> 0 ->
  end_ = (start + cf) * (1 + period_return start end_ cf infl) * (1 + infl).
Proof.
  intros H1 H2. rewrite period_return_nz by assumption. field. split; assumption.
Qed.

Lemma returns_from_length (rest : list (R * R * R)) prev is_log :
  List.length (returns_from prev rest is_log) = List.length rest.
Proof.
  revert prev; induction rest as [|[[v cf] infl] r IH]; intros prev; simpl; [reflexivity|].
  now rewrite IH.
Qed.

Lemma zip3_length (a b c : list R) :
  List.length b = List.length a -> List.length c = List.length a ->
  List.length (zip3 a b c) = List.length a.
Proof.
  revert b c; induction a as [|x a IH]; intros [|y b] [|z c]; simpl; intros Hb Hc;
    try reflexivity; try discriminate.
  f_equal. apply IH; lia.
Qed.

Lemma get_returns_length values cfs infls is_log :
  List.length cfs = List.length values -> List.length infls = List.length values ->
  List.length (get_returns values cfs infls is_log) = (List.length values - 1)%nat.
Proof.
  intros Hc Hi. unfold get_returns.
  destruct values as [|v0 vs]; [reflexivity|].
  destruct cfs as [|c0 cfs]; [discriminate|]. destruct infls as [|i0 infls]; [discriminate|].
  simpl in *. rewrite returns_from_length, zip3_length by lia. lia.
Qed.

Lemma returns_from_nth (vs cfs infls : list R) : forall prev i v0 v1 cf infl,
  nth_error (prev :: vs) i = Some v0 -> nth_error vs i = Some v1 ->
  nth_error cfs i = Some cf -> nth_error infls i = Some infl ->
  nth_error (returns_from prev (zip3 vs cfs infls) false) i = Some (period_return v0 v1 cf infl).
Proof.
  revert cfs infls; induction vs as [|v vs IH]; intros cfs infls prev i v0 v1 cf infl H0 H1 Hc Hi.
  - destruct i; discriminate.
  - destruct cfs as [|c cfs]; [destruct i; discriminate|].
    destruct infls as [|n infls]; [destruct i; discriminate|].
    destruct i as [|i]; simpl in *.
    + congruence.
    + eapply IH; eauto.
Qed.

Lemma get_returns_nth values cfs infls i v0 v1 cf infl :
  List.length cfs = List.length values -> List.length infls = List.length values ->
  nth_error values i = Some v0 -> nth_error values (S i) = Some v1 ->
  nth_error cfs (S i) = Some cf -> nth_error infls (S i) = Some infl ->
  nth_error (get_returns values cfs infls false) i = Some (period_return v0 v1 cf infl).
Proof.
  intros _ _ H0 H1 Hc Hi. unfold get_returns.
  destruct values as [|a vs]; [destruct i; discriminate|].
  destruct cfs as [|c0 cfs]; [discriminate|]. destruct infls as [|i0 infls]; [discriminate|].
  simpl in H1, Hc, Hi. eapply returns_from_nth; eauto.
Qed.

Lemma returns_from_log (rest : list (R * R * R)) prev :
  returns_from prev rest true = map (fun r => ln (1 + r)) (returns_from prev rest false).
Proof.
  revert prev; induction rest as [|[[v cf] infl] r IH]; intros prev; simpl; [reflexivity|].
  rn. now rewrite IH.
Qed.

Lemma log_returns_are_logs values cfs infls :
  get_returns values cfs infls true = map (fun r => ln (1 + r)) (get_returns values cfs infls false).
Proof.
  unfold get_returns. destruct values; [reflexivity|]. destruct cfs; [reflexivity|].
  destruct infls; [reflexivity|]. apply returns_from_log.
Qed.

Lemma ncf_diffs_length (r : list R) prev : List.length (ncf_diffs prev r) = List.length r.
Proof. revert prev; induction r; intros; simpl; [reflexivity|now rewrite IHr]. Qed.

Lemma cash_flows_length (ncfs : list R) : ncfs <> [] -> List.length (cash_flows_of ncfs) = List.length ncfs.
Proof.
  intros H. destruct ncfs; [contradiction|]. simpl. now rewrite ncf_diffs_length.
Qed.

Lemma ncf_diffs_nth (r : list R) : forall prev i a b,
  nth_error (prev :: r) i = Some a -> nth_error r i = Some b ->
  nth_error (ncf_diffs prev r) i = Some (b - a).
Proof.
  induction r as [|c r IH]; intros prev i a b Ha Hb.
  - destruct i; discriminate.
  - destruct i as [|i]; simpl in *.
    + rn. congruence.
    + eapply IH; eauto.
Qed.

(* cash flow i (i >= 1) is the difference of the cumulative net cash flow; the first is 0 *)
Lemma cash_flows_nth (ncfs : list R) i a b :
  nth_error ncfs i = Some a -> nth_error ncfs (S i) = Some b -> nth_error (cash_flows_of ncfs) (S i) = Some (b - a).
Proof.
  intros Ha Hb. destruct ncfs as [|c0 r]; [destruct i; discriminate|].
  simpl in *. eapply ncf_diffs_nth; eauto.
Qed.

(* total return is the compounded product of (1 + r) minus 1 *)
Lemma prodR_pos (l : list R) : Forall (fun x => 0 < x) l -> 0 < prodR l.
Proof.
  induction 1; simpl; [lra|]. apply Rmult_lt_0_compat; assumption.
Qed.

Lemma exp_sum_ln (rets : list R) :
  Forall (fun r => 0 < 1 + r) rets ->
  exp (sumR (map (fun r => ln (1 + r)) rets)) = prodR (map (fun r => 1 + r) rets).
Proof.
  induction 1 as [|r rets Hr _ IH]; simpl.
  - apply exp_0.
  - rewrite exp_plus, IH, exp_ln by assumption. reflexivity.
Qed.

Lemma total_return_product (rets : list R) :
  Forall (fun r => 0 < 1 + r) rets ->
  get_portfolio_return (map (fun r => ln (1 + r)) rets) = prodR (map (fun r => 1 + r) rets) - 1.
Proof.
  intros H. unfold get_portfolio_return; rn. rewrite fsum_sumR, exp_sum_ln by assumption. reflexivity.
Qed.

Lemma last_cons_default (v d : R) (vs : list R) : last (v :: vs) d = last vs v.
Proof.
  revert v d; induction vs as [|w vs IH]; intros v d; [reflexivity|].
  change (last (v :: w :: vs) d) with (last (w :: vs) d). rewrite !IH. reflexivity.
Qed.

(* = last/first - 1 without flows and inflation, for positive values *)
Lemma no_flow_product (v0 : R) (vs : list R) :
  Forall (fun v => 0 < v) (v0 :: vs) ->
  prodR (map (fun r => 1 + r)
             (returns_from v0 (map (fun v => (v, 0, 0)) vs) false)) = last vs v0 / v0.
Proof.
  revert v0; induction vs as [|v vs IH]; intros v0 H.
  - simpl. inversion H; subst. field. lra.
  - inversion H as [|? ? H0 Hr]; subst. inversion Hr as [|? ? Hv Hvs]; subst.
    cbn [map returns_from prodR fold_right].
    change (fold_right Rmult 1 ?l) with (prodR l).
    rewrite IH by assumption.
    rewrite period_return_nz by lra.
    rewrite last_cons_default.
    field. lra.
Qed.

(* best and worst are the extreme period returns (and never undefined over R) *)
Lemma comparable_R (a b : R) : comparable a b = true.
Proof.
  unfold comparable; rn.
  destruct (Rlt_bool_spec a b); [reflexivity|].
  destruct (Rlt_bool_spec b a); [reflexivity|].
  destruct (Req_bool_spec a b); [reflexivity|]. lra.
Qed.

Lemma fold_max_spec (r0 : R) (rr : list R) :
  exists m, fold_max r0 rr = Some m /\ In m (r0 :: rr) /\ forall x, In x (r0 :: rr) -> x <= m.
Proof.
  revert r0; induction rr as [|x rr IH]; intros r0.
  - exists r0; simpl; repeat split; auto. intros x [<-|[]]; lra.
  - cbn [fold_max]. rewrite comparable_R. cbn [negb]. rn.
    destruct (Rlt_bool_spec x r0) as [Hlt|Hge].
    + destruct (IH r0) as (m & Hm & Hin & Hmax). exists m; split; [assumption|]. split.
      * destruct Hin as [<-|Hin]; [left; reflexivity|right; right; assumption].
      * intros y [<-|[<-|Hy]].
        -- apply Hmax; left; reflexivity.
        -- assert (r0 <= m) by (apply Hmax; left; reflexivity). lra.
        -- apply Hmax; right; assumption.
    + destruct (IH x) as (m & Hm & Hin & Hmax). exists m; split; [assumption|]. split.
      * right; assumption.
      * intros y [<-|Hy].
        -- assert (x <= m) by (apply Hmax; left; reflexivity). lra.
        -- apply Hmax; assumption.
Qed.

Lemma fold_min_spec (r0 : R) (rr : list R) :
  exists m, fold_min r0 rr = Some m /\ In m (r0 :: rr) /\ forall x, In x (r0 :: rr) -> m <= x.
Proof.
  revert r0; induction rr as [|x rr IH]; intros r0.
  - exists r0; simpl; repeat split; auto. intros x [<-|[]]; lra.
  - cbn [fold_min]. rewrite comparable_R. cbn [negb]. rn.
    destruct (Rlt_bool_spec x r0) as [Hlt|Hge].
    + destruct (IH x) as (m & Hm & Hin & Hmin). exists m; split; [assumption|]. split.
      * right; assumption.
      * intros y [<-|Hy].
        -- assert (m <= x) by (apply Hmin; left; reflexivity). lra.
        -- apply Hmin; assumption.
    + destruct (IH r0) as (m & Hm & Hin & Hmin). exists m; split; [assumption|]. split.
      * destruct Hin as [<-|Hin]; [left; reflexivity|right; right; assumption].
      * intros y [<-|[<-|Hy]].
        -- apply Hmin; left; reflexivity.
        -- assert (m <= r0) by (apply Hmin; left; reflexivity). lra.
        -- apply Hmin; right; assumption.
Qed.

(* volatility = sqrt(252) x population standard deviation *)
Lemma flen_INR (l : list R) : flen l = INR (List.length l).
Proof. unfold flen; rn. symmetry. apply INR_IZR_INZ. Qed.

Lemma Rpowf_2 (x : R) : Rpowf x 2 = x ^ 2.
Proof. unfold Rpowf. destruct (Req_EM_T 2 2) as [_|N]; [simpl; ring|contradiction N; reflexivity]. Qed.

Lemma var_spec_gen (rets : list R) :
  var rets = sumR (map (fun r => (r - sumR rets / INR (List.length rets)) ^ 2) rets) / INR (List.length rets).
Proof.
  unfold var. rewrite flen_INR. rn. rewrite !fsum_sumR. f_equal. f_equal.
  apply map_ext. intros r. apply Rpowf_2.
Qed.

Lemma var_spec (rets : list R) :
  rets <> [] ->
  var rets = sumR (map (fun r => (r - sumR rets / INR (List.length rets)) ^ 2) rets) / INR (List.length rets).
Proof. intros _. apply var_spec_gen. Qed.

Lemma vol_spec (rets : list R) :
  rets <> [] ->
  get_vol rets = sqrt 252 * sqrt (sumR (map (fun r => (r - sumR rets / INR (List.length rets)) ^ 2) rets)
                                  / INR (List.length rets)).
Proof.
  intros _. unfold get_vol, annualize_volatility, vol. rewrite var_spec_gen. rn. apply Rmult_comm.
Qed.

(* CAGR = (1 + total)^(365/n) - 1 *)
Lemma exponent_not_two (n : Z) : (0 < n)%Z -> 365 / IZR n <> 2.
Proof.
  intros Hn H.
  assert (Hnz : IZR n <> 0) by (apply not_0_IZR; lia).
  assert (H2 : IZR 365 = IZR (2 * n)).
  { rewrite mult_IZR. apply (f_equal (fun x => x * IZR n)) in H.
    unfold Rdiv in H. rewrite Rmult_assoc, Rinv_l, Rmult_1_r in H by assumption. exact H. }
  apply eq_IZR in H2. lia.
Qed.

Lemma cagr_spec (log_rets : list R) (n : Z) :
  (0 < n)%Z -> get_cagr log_rets n = Rpower (1 + get_portfolio_return log_rets) (365 / IZR n) - 1.
Proof.
  intros Hn. unfold get_cagr, annualize_returns. rn. unfold Rpowf.
  destruct (Req_EM_T (365 / IZR n) 2) as [E|_]; [exfalso; exact (exponent_not_two n Hn E)|reflexivity].
Qed.

(* Sharpe = CAGR / volatility (CAGR when volatility is 0) *)
Lemma sharpe_spec (rets log_rets : list R) (n : Z) :
  get_sharpe rets log_rets n =
  if Req_bool (get_vol rets) 0 then get_cagr log_rets n else get_cagr log_rets n / get_vol rets.
Proof.
  unfold get_sharpe. rn.
  destruct (Req_bool (get_vol rets) 0); [|reflexivity].
  destruct (Req_bool_spec (get_cagr log_rets n) 0) as [E|_]; simpl; [symmetry; exact E|reflexivity].
Qed.

(* ------------------------------ C15 ------------------------------ *)
Lemma div_le_num (a b p : R) : 0 < p -> a <= b -> a / p <= b / p.
Proof.
  intros Hp H. unfold Rdiv. apply Rmult_le_compat_r; [|assumption].
  left. apply Rinv_0_lt_compat. assumption.
Qed.

Lemma div_le_den (a p q : R) : 0 < a -> 0 < p -> p <= q -> a / q <= a / p.
Proof.
  intros Ha Hp H. unfold Rdiv. apply Rmult_le_compat_l; [lra|].
  apply Rinv_le_contravar; assumption.
Qed.

Lemma div_self (a : R) : 0 < a -> a / a = 1.
Proof. intros. field. lra. Qed.

Section Scan.
Context (f : nat -> R).

(* the scan has processed positions 0 .. pos-1 of the path f *)
Definition Inv (st : ddstate R) (pos : nat) : Prop :=
  (dd_peak_pos st < pos)%nat /\ dd_peak st = f (dd_peak_pos st) /\
  (forall i, (i < pos)%nat -> f i <= dd_peak st) /\
  (dd_peak_pos st <= dd_trough_pos st < pos)%nat /\ dd_trough st = f (dd_trough_pos st) /\
  (forall j, (dd_peak_pos st <= j < pos)%nat -> dd_trough st <= f j) /\
  (dd_start st <= dd_end st < pos)%nat /\ dd_max st = f (dd_end st) / f (dd_start st) - 1 /\
  (forall i j, (i <= j < pos)%nat -> dd_max st <= f j / f i - 1).

Lemma step_inv (st : ddstate R) (pos : nat) :
  (forall i, (i <= pos)%nat -> 0 < f i) -> (1 <= pos)%nat ->
  Inv st pos -> Inv (dd_step st pos (f pos)) (S pos).
Proof.
  intros Hpos Hp (Hpp & Hpk & Hpmax & Htp & Htr & Htmin & Hse & Hmx & Hmin).
  assert (Hmax0 : dd_max st <= 0).
  { specialize (Hmin 0%nat 0%nat ltac:(lia)). rewrite div_self in Hmin by (apply Hpos; lia). lra. }
  assert (Hpeakpos : 0 < dd_peak st) by (rewrite Hpk; apply Hpos; lia).
  assert (Hfp : 0 < f pos) by (apply Hpos; lia).
  (* the best candidate ending at pos against any start *)
  assert (Hcand : f pos <= dd_peak st ->
                  forall i, (i <= pos)%nat -> f pos / dd_peak st - 1 <= f pos / f i - 1).
  { intros Hle i Hi.
    assert (0 < f i) by (apply Hpos; lia).
    assert (f i <= dd_peak st).
    { destruct (Nat.eq_dec i pos) as [->|]; [assumption|apply Hpmax; lia]. }
    pose proof (div_le_den (f pos) (f i) (dd_peak st) Hfp H H0). lra. }
  unfold dd_step. rn.
  destruct (Rlt_bool_spec (dd_peak st) (f pos)) as [Hgt|Hle].
  - (* new peak *)
    unfold Inv; cbn [dd_max dd_peak dd_peak_pos dd_trough dd_trough_pos dd_start dd_end].
    repeat split; try lia; try assumption.
    + intros i Hi. destruct (Nat.eq_dec i pos) as [->|]; [lra|].
      specialize (Hpmax i ltac:(lia)). lra.
    + intros j Hj. replace j with pos by lia. lra.
    + intros i j Hij. destruct (Nat.eq_dec j pos) as [->|]; [|apply Hmin; lia].
      assert (0 < f i) by (apply Hpos; lia).
      assert (f i <= f pos).
      { destruct (Nat.eq_dec i pos) as [->|]; [lra|]. specialize (Hpmax i ltac:(lia)). lra. }
      pose proof (div_le_num (f i) (f pos) (f i) H H0). rewrite div_self in H1 by assumption. lra.
  - destruct (Rlt_bool_spec (f pos) (dd_trough st)) as [Hlt|Hge].
    + (* new trough *)
      assert (Hpk' : forall i, (i < S pos)%nat -> f i <= dd_peak st).
      { intros i Hi. destruct (Nat.eq_dec i pos) as [->|]; [assumption|apply Hpmax; lia]. }
      assert (Htr' : forall j, (dd_peak_pos st <= j < S pos)%nat -> f pos <= f j).
      { intros j Hj. destruct (Nat.eq_dec j pos) as [->|]; [lra|].
        specialize (Htmin j ltac:(lia)). lra. }
      destruct (Rlt_bool_spec (f pos / dd_peak st - 1) (dd_max st)) as [Hnew|Hold].
      * unfold Inv; cbn [dd_max dd_peak dd_peak_pos dd_trough dd_trough_pos dd_start dd_end].
        repeat split; try lia; try assumption.
        -- rewrite Hpk. reflexivity.
        -- intros i j Hij. destruct (Nat.eq_dec j pos) as [->|].
           ++ apply Hcand; [assumption|lia].
           ++ specialize (Hmin i j ltac:(lia)). lra.
      * unfold Inv; cbn [dd_max dd_peak dd_peak_pos dd_trough dd_trough_pos dd_start dd_end].
        repeat split; try lia; try assumption.
        intros i j Hij. destruct (Nat.eq_dec j pos) as [->|].
        -- specialize (Hcand Hle i ltac:(lia)). lra.
        -- apply Hmin; lia.
    + (* nothing changes *)
      unfold Inv. repeat split; try lia; try assumption.
      * intros i Hi. destruct (Nat.eq_dec i pos) as [->|]; [assumption|apply Hpmax; lia].
      * intros j Hj. destruct (Nat.eq_dec j pos) as [->|]; [assumption|apply Htmin; lia].
      * intros i j Hij. destruct (Nat.eq_dec j pos) as [->|]; [|apply Hmin; lia].
        specialize (Hcand Hle i ltac:(lia)).
        specialize (Hmin (dd_peak_pos st) (dd_trough_pos st) ltac:(lia)).
        rewrite <- Hpk, <- Htr in Hmin.
        pose proof (div_le_num (dd_trough st) (f pos) (dd_peak st) Hpeakpos Hge). lra.
Qed.
End Scan.

Lemma scan_inv (vs : list R) :
  (forall i, (i < List.length vs)%nat -> 0 < nth i vs 0) ->
  forall rest pre st, vs = pre ++ rest -> (1 <= List.length pre)%nat ->
    Inv (fun i => nth i vs 0) st (List.length pre) ->
    Inv (fun i => nth i vs 0) (dd_scan st (List.length pre) rest) (List.length vs).
Proof.
  intros Hpos. induction rest as [|v rest IH]; intros pre st Hvs Hlen Hinv.
  - rewrite app_nil_r in Hvs. subst pre. exact Hinv.
  - cbn [dd_scan].
    assert (Hv : v = nth (List.length pre) vs 0).
    { rewrite Hvs, app_nth2, Nat.sub_diag by lia. reflexivity. }
    assert (Hl : List.length vs = (List.length pre + S (List.length rest))%nat).
    { rewrite Hvs, app_length. reflexivity. }
    replace (S (List.length pre)) with (List.length (pre ++ [v])) by (rewrite app_length; simpl; lia).
    apply IH.
    + rewrite <- app_assoc. exact Hvs.
    + rewrite app_length; simpl; lia.
    + rewrite app_length. cbn [List.length]. rewrite Nat.add_1_r. rewrite Hv.
      apply (step_inv (fun i => nth i vs 0)); [|assumption|assumption].
      intros i Hi. apply Hpos. lia.
Qed.

Lemma Forall_pos_nth (vs : list R) :
  Forall (fun v => 0 < v) vs -> forall i, (i < List.length vs)%nat -> 0 < nth i vs 0.
Proof.
  intros H i Hi. rewrite Forall_forall in H. apply H. apply nth_In. assumption.
Qed.

Lemma maxdd_inv (vs : list R) :
  vs <> [] -> Forall (fun v => 0 < v) vs ->
  Inv (fun i => nth i vs 0) (dd_scan dd_init 0 vs) (List.length vs).
Proof.
  intros Hne Hall. destruct vs as [|v rest]; [contradiction|].
  pose proof (Forall_pos_nth _ Hall) as Hpos.
  cbn [dd_scan].
  assert (Hv : 0 < v) by (inversion Hall; assumption).
  assert (Hstep : dd_step dd_init 0 v = mkDD 0 v 0 v 0 0 0).
  { unfold dd_step, dd_init. cbn [dd_max dd_peak dd_peak_pos dd_trough dd_trough_pos dd_start dd_end]. rn.
    rewrite Rlt_bool_true by assumption. reflexivity. }
  rewrite Hstep.
  apply (scan_inv (v :: rest) Hpos rest [v]); [reflexivity|simpl; lia|].
  unfold Inv; cbn [dd_max dd_peak dd_peak_pos dd_trough dd_trough_pos dd_start dd_end List.length nth].
  repeat split; try lia.
  - intros i Hi. replace i with 0%nat by lia. lra.
  - intros j Hj. replace j with 0%nat by lia. lra.
  - rewrite div_self by assumption. lra.
  - intros i j Hij. replace i with 0%nat by lia. replace j with 0%nat by lia.
    rewrite div_self by assumption. lra.
Qed.

Lemma nth_error_nth0 (vs : list R) i v : nth_error vs i = Some v -> nth i vs 0 = v /\ (i < List.length vs)%nat.
Proof.
  intros H. split; [apply nth_error_nth; assumption|]. apply nth_error_Some. congruence.
Qed.

(* the scan over a positive path: the reported value is the minimum over all i <= j of v_j / v_i - 1,
   and the reported positions realise it *)
Lemma maxdd_spec (vs : list R) m s e :
  vs <> [] -> Forall (fun v => 0 < v) vs -> maxdd clean vs = (m, s, e) ->
  (s <= e < List.length vs)%nat /\
  (exists vs_ ve, nth_error vs s = Some vs_ /\ nth_error vs e = Some ve /\ m = ve / vs_ - 1) /\
  (forall i j vi vj, (i <= j)%nat -> nth_error vs i = Some vi -> nth_error vs j = Some vj -> m <= vj / vi - 1).
Proof.
  intros Hne Hall Hm. pose proof (maxdd_inv vs Hne Hall) as Hinv.
  unfold maxdd in Hm. cbn [q_maxdd_last_positions clean] in Hm.
  injection Hm as <- <- <-.
  destruct Hinv as (_ & _ & _ & _ & _ & _ & Hse & Hmx & Hmin).
  split; [assumption|]. split.
  - exists (nth (dd_start (dd_scan dd_init 0 vs)) vs 0), (nth (dd_end (dd_scan dd_init 0 vs)) vs 0).
    repeat split; try (apply nth_error_nth'; lia). exact Hmx.
  - intros i j vi vj Hij Hi Hj.
    apply nth_error_nth0 in Hi. apply nth_error_nth0 in Hj.
    destruct Hi as [<- Hi]. destruct Hj as [<- Hj]. apply Hmin. lia.
Qed.

Lemma maxdd_bounds (vs : list R) m s e :
  vs <> [] -> Forall (fun v => 0 < v) vs -> maxdd clean vs = (m, s, e) -> -1 < m <= 0.
Proof.
  intros Hne Hall Hm. destruct (maxdd_spec vs m s e Hne Hall Hm) as (Hse & (a & b & Ha & Hb & ->) & Hmin).
  rewrite Forall_forall in Hall.
  assert (0 < a) by (apply Hall; eapply nth_error_In; eauto).
  assert (0 < b) by (apply Hall; eapply nth_error_In; eauto).
  split.
  - assert (0 < b / a) by (apply Rdiv_lt_0_compat; assumption). lra.
  - specialize (Hmin s s a a ltac:(lia) Ha Ha). rewrite div_self in Hmin by assumption. lra.
Qed.

Lemma maxdd_monotone_zero (vs : list R) m s e :
  vs <> [] -> Forall (fun v => 0 < v) vs -> maxdd clean vs = (m, s, e) ->
  (forall i j vi vj, (i <= j)%nat -> nth_error vs i = Some vi -> nth_error vs j = Some vj -> vi <= vj) -> m = 0.
Proof.
  intros Hne Hall Hm Hmono. pose proof (maxdd_bounds vs m s e Hne Hall Hm) as Hb.
  destruct (maxdd_spec vs m s e Hne Hall Hm) as (Hse & (a & b & Ha & Hb' & E) & _).
  rewrite Forall_forall in Hall.
  assert (0 < a) by (apply Hall; eapply nth_error_In; eauto).
  assert (a <= b) by (eapply Hmono; [|eassumption|eassumption]; lia).
  pose proof (div_le_num a b a H H0). rewrite div_self in H1 by assumption. lra.
Qed.

(* the compounded index is positive when all returns exceed -100 % *)
Lemma index_from_pos (rets : list R) : forall last, 0 < last ->
  Forall (fun r => 0 < 1 + r) rets -> Forall (fun v => 0 < v) (index_from last rets).
Proof.
  induction rets as [|r rets IH]; intros last Hl H; simpl; [constructor|].
  inversion H; subst. rn.
  assert (0 < last * (1 + r)) by (apply Rmult_lt_0_compat; assumption).
  constructor; [assumption|]. apply IH; assumption.
Qed.

Lemma index_from_length (rets : list R) last : List.length (index_from last rets) = List.length rets.
Proof. revert last; induction rets; intros; simpl; [reflexivity|now rewrite IHrets]. Qed.

Lemma index_of_length (rets : list R) : List.length (index_of rets) = S (List.length rets).
Proof. unfold index_of. simpl. now rewrite index_from_length. Qed.

Lemma index_positive (rets : list R) :
  Forall (fun r => 0 < 1 + r) rets -> Forall (fun v => 0 < v) (index_of rets) /\
  List.length (index_of rets) = S (List.length rets).
Proof.
  intros H. split; [|apply index_of_length].
  unfold index_of. rn. constructor; [lra|]. apply index_from_pos; [lra|assumption].
Qed.

Lemma index_from_nth (rets : list R) : forall last i vi r,
  nth_error (last :: index_from last rets) i = Some vi -> nth_error rets i = Some r ->
  nth_error (index_from last rets) i = Some (vi * (1 + r)).
Proof.
  induction rets as [|x rets IH]; intros last i vi r Hi Hr.
  - destruct i; discriminate.
  - destruct i as [|i]; simpl in *.
    + rn. congruence.
    + eapply IH; eauto.
Qed.

Lemma index_nth (rets : list R) i vi r :
  nth_error (index_of rets) i = Some vi -> nth_error rets i = Some r ->
  nth_error (index_of rets) (S i) = Some (vi * (1 + r)).
Proof.
  unfold index_of. intros Hi Hr. simpl. eapply index_from_nth; eauto.
Qed.

(* refutation with the defect (positions of the LAST peak / trough): path 100, 50, 200, 190 has
   maximum drawdown -1/2 between positions 0 and 1, the defective scan reports positions 2 and 3 *)
Definition dd_defect : quirks := mkQuirks false false false false false false false false false true false false.

Ltac decide_lt :=
  repeat match goal with
         | |- context [Rlt_bool ?a ?b] =>
             first [rewrite (Rlt_bool_true a b) by lra | rewrite (Rlt_bool_false a b) by lra]
         end.

Lemma witness_scan :
  dd_scan dd_init 0 [100; 50; 200; 190] = mkDD (50 / 100 - 1) 200 2 190 3 0 1.
Proof.
  unfold dd_init. cbn [dd_scan].
  unfold dd_step at 4. cbn [dd_max dd_peak dd_peak_pos dd_trough dd_trough_pos dd_start dd_end]. rn. decide_lt.
  unfold dd_step at 3. cbn [dd_max dd_peak dd_peak_pos dd_trough dd_trough_pos dd_start dd_end]. rn. decide_lt.
  unfold dd_step at 2. cbn [dd_max dd_peak dd_peak_pos dd_trough dd_trough_pos dd_start dd_end]. rn. decide_lt.
  unfold dd_step. cbn [dd_max dd_peak dd_peak_pos dd_trough dd_trough_pos dd_start dd_end]. rn. decide_lt.
  reflexivity.
Qed.

Lemma c15_refuted_q_maxdd_last_positions :
  maxdd dd_defect [100; 50; 200; 190] = (-1/2, 2%nat, 3%nat) /\
  maxdd clean [100; 50; 200; 190] = (-1/2, 0%nat, 1%nat).
Proof.
  unfold maxdd. rewrite witness_scan.
  cbn [q_maxdd_last_positions dd_defect clean dd_max dd_peak_pos dd_trough_pos dd_start dd_end].
  split; f_equal; f_equal; lra.
Qed.

(* ------------------------------ C14: scale invariance ------------------------------ *)
Definition scale (c : R) (s : snapshot R) : snapshot R :=
  mkSnap (sn_date s) (c * sn_value s) (c * sn_ncf s) (sn_infl s).

Lemma period_return_scale (c s e cf cf' i : R) :
  c <> 0 -> cf' = c * cf -> period_return (c * s) (c * e) cf' i = period_return s e cf i.
Proof.
  intros Hc ->. destruct (Req_dec (s + cf) 0) as [Hz|Hnz].
  - rewrite (period_return_z s e cf i Hz). apply period_return_z.
    replace (c * s + c * cf) with (c * (s + cf)) by ring. rewrite Hz. ring.
  - assert (Hnz' : c * s + c * cf <> 0).
    { replace (c * s + c * cf) with (c * (s + cf)) by ring. apply Rmult_integral_contrapositive_currified; assumption. }
    rewrite !period_return_nz by assumption.
    f_equal. f_equal. f_equal. field. split; assumption.
Qed.

Lemma returns_from_scale (c : R) is_log : c <> 0 ->
  forall vs cfs' cfs infls prev, Forall2 (fun x' x => x' = c * x) cfs' cfs ->
    returns_from (c * prev) (zip3 (map (Rmult c) vs) cfs' infls) is_log
    = returns_from prev (zip3 vs cfs infls) is_log.
Proof.
  intros Hc. induction vs as [|v vs IH]; intros cfs' cfs infls prev HF; [reflexivity|].
  destruct HF as [|x' x cfs' cfs Hx HF]; [reflexivity|].
  destruct infls as [|n infls]; [reflexivity|].
  cbn [map zip3 returns_from].
  rewrite (period_return_scale c prev v x x' n Hc Hx). f_equal. apply IH. assumption.
Qed.

Lemma ncf_diffs_scale (c : R) (r : list R) : forall prev,
  Forall2 (fun x' x => x' = c * x) (ncf_diffs (c * prev) (map (Rmult c) r)) (ncf_diffs prev r).
Proof.
  induction r as [|a r IH]; intros prev; simpl; constructor.
  - rn. ring.
  - apply IH.
Qed.

Lemma get_returns_scale (c : R) (values ncfs infls : list R) is_log :
  c <> 0 ->
  get_returns (map (Rmult c) values) (cash_flows_of (map (Rmult c) ncfs)) infls is_log
  = get_returns values (cash_flows_of ncfs) infls is_log.
Proof.
  intros Hc. unfold get_returns. destruct values as [|v0 vs]; [reflexivity|].
  cbn [map]. destruct ncfs as [|c0 r]; cbn [map cash_flows_of].
  - destruct infls as [|i0 infls]; [reflexivity|]. apply returns_from_scale; [assumption|constructor].
  - destruct infls as [|i0 infls]; [reflexivity|]. apply returns_from_scale; [assumption|].
    apply ncf_diffs_scale.
Qed.

Lemma map_value_scale c states : map sn_value (map (scale c) states) = map (Rmult c) (map sn_value states).
Proof. rewrite !map_map. reflexivity. Qed.
Lemma map_ncf_scale c states : map sn_ncf (map (scale c) states) = map (Rmult c) (map sn_ncf states).
Proof. rewrite !map_map. reflexivity. Qed.
Lemma map_infl_scale c states : map sn_infl (map (scale c) states) = map sn_infl states.
Proof. rewrite !map_map. reflexivity. Qed.
Lemma map_date_scale c states : map sn_date (map (scale c) states) = map sn_date states.
Proof. rewrite !map_map. reflexivity. Qed.

Lemma returns_scale (c : R) (states : list (snapshot R)) is_log :
  c <> 0 ->
  get_returns (map sn_value (map (scale c) states)) (cash_flows_of (map sn_ncf (map (scale c) states)))
              (map sn_infl (map (scale c) states)) is_log
  = get_returns (map sn_value states) (cash_flows_of (map sn_ncf states)) (map sn_infl states) is_log.
Proof.
  intros Hc. rewrite map_value_scale, map_ncf_scale, map_infl_scale. apply get_returns_scale. assumption.
Qed.

Lemma calculate_scale (c : R) (states : list (snapshot R)) qk :
  c <> 0 ->
  match calculate qk states, calculate qk (map (scale c) states) with
  | Ok o, Ok o' =>
      o_ret o' = o_ret o /\ o_cagr o' = o_cagr o /\ o_vol o' = o_vol o /\ o_mdd o' = o_mdd o /\
      o_sharpe o' = o_sharpe o /\ o_returns o' = o_returns o /\ o_best o' = o_best o /\
      o_worst o' = o_worst o /\ o_dd_start_date o' = o_dd_start_date o /\ o_dd_end_date o' = o_dd_end_date o /\
      o_dates o' = o_dates o /\ o_values o' = map (Rmult c) (o_values o)
  | Panic _, Panic _ => True
  | BadOracle, BadOracle => True
  | _, _ => False
  end.
Proof.
  intros Hc. unfold calculate. cbv zeta.
  rewrite !(returns_scale c states) by assumption.
  rewrite map_date_scale, map_value_scale.
  destruct (get_maxdd qk _) as [[mdd p0] p1].
  destruct (nth_error (map sn_date states) p0) as [d0|]; [|exact I].
  destruct (nth_error (map sn_date states) p1) as [d1|]; [|exact I].
  destruct (get_returns (map sn_value states) (cash_flows_of (map sn_ncf states)) (map sn_infl states) false)
    as [|r0 rr]; [exact I|].
  destruct (fold_max r0 rr) as [best|]; [|exact I].
  destruct (fold_min r0 rr) as [worst|]; [|exact I].
  destruct (map sn_date states) as [|first ds]; [exact I|].
  destruct (rev (first :: ds)) as [|last ds']; [exact I|].
  cbn [o_ret o_cagr o_vol o_mdd o_sharpe o_returns o_best o_worst o_dd_start_date o_dd_end_date o_dates o_values].
  repeat split; reflexivity.
Qed.

(* everything an Ok result of calculate tells *)
Lemma calculate_Ok_inv qk (states : list (snapshot R)) out :
  calculate qk states = Ok out ->
  let dates := map sn_date states in
  let values := map sn_value states in
  let cfs := cash_flows_of (map sn_ncf states) in
  let returns := get_returns values cfs (map sn_infl states) false in
  exists p0 p1,
    get_maxdd qk returns = (o_mdd out, p0, p1) /\
    nth_error dates p0 = Some (o_dd_start_date out) /\ nth_error dates p1 = Some (o_dd_end_date out) /\
    returns <> [] /\ o_returns out = returns /\ o_values out = values /\ o_dates out = dates /\
    o_cash_flows out = cfs /\
    (exists t, dates = o_first_date out :: t) /\ (exists t, rev dates = o_last_date out :: t).
Proof.
  unfold calculate. cbv zeta.
  destruct (get_maxdd qk _) as [[mdd p0] p1] eqn:Hdd.
  destruct (nth_error (map sn_date states) p0) as [d0|] eqn:Hd0; [|discriminate].
  destruct (nth_error (map sn_date states) p1) as [d1|] eqn:Hd1; [|discriminate].
  destruct (get_returns (map sn_value states) (cash_flows_of (map sn_ncf states)) (map sn_infl states) false)
    as [|r0 rr] eqn:Hret; [discriminate|].
  destruct (fold_max r0 rr) as [best|]; [|discriminate].
  destruct (fold_min r0 rr) as [worst|]; [|discriminate].
  destruct (map sn_date states) as [|first ds] eqn:Hdates; [discriminate|].
  destruct (rev (first :: ds)) as [|last ds'] eqn:Hrev; [discriminate|].
  intros H. injection H as <-.
  cbn [o_ret o_cagr o_vol o_mdd o_sharpe o_returns o_best o_worst o_dd_start_date o_dd_end_date o_dates
       o_values o_cash_flows o_first_date o_last_date].
  exists p0, p1. repeat split; try assumption; try reflexivity.
  - discriminate.
  - exists ds. reflexivity.
  - exists ds'. reflexivity.
Qed.

Lemma rev_head_nth (A : Type) (l : list A) x t :
  rev l = x :: t -> nth_error l (List.length l - 1) = Some x.
Proof.
  intros H. apply (f_equal (@rev A)) in H. rewrite rev_involutive in H. subst l.
  cbn [rev]. rewrite app_length. cbn [List.length].
  replace (List.length (rev t) + 1 - 1)%nat with (List.length (rev t)) by lia.
  rewrite nth_error_app2 by lia. rewrite Nat.sub_diag. reflexivity.
Qed.

Lemma returns_length_states (states : list (snapshot R)) is_log :
  List.length (get_returns (map sn_value states) (cash_flows_of (map sn_ncf states)) (map sn_infl states) is_log)
  = (List.length states - 1)%nat.
Proof.
  destruct states as [|s0 rest]; [reflexivity|].
  rewrite get_returns_length; rewrite ?cash_flows_length, ?map_length; try reflexivity.
  discriminate.
Qed.

(* the output vectors align one-to-one with the snapshots; fewer than two snapshots panic *)
Lemma calculate_lengths qk (states : list (snapshot R)) out :
  calculate qk states = Ok out ->
  let n := List.length states in
  (2 <= n)%nat /\ o_values out = map sn_value states /\ o_dates out = map sn_date states /\
  List.length (o_cash_flows out) = n /\ List.length (o_returns out) = (n - 1)%nat /\
  nth_error (map sn_date states) 0 = Some (o_first_date out) /\
  nth_error (map sn_date states) (n - 1) = Some (o_last_date out).
Proof.
  intros H n. subst n. apply calculate_Ok_inv in H. cbv zeta in H.
  destruct H as (p0 & p1 & _ & _ & _ & Hne & Hret & Hval & Hdat & Hcf & [t Hfirst] & [t' Hlast]).
  pose proof (returns_length_states states false) as Hlen.
  assert (Hn : (2 <= List.length states)%nat).
  { destruct (get_returns _ _ _ false); [contradiction|]. simpl in Hlen. lia. }
  repeat split; try assumption.
  - rewrite Hcf, cash_flows_length, map_length; [reflexivity|].
    destruct states; [simpl in Hn; lia|discriminate].
  - rewrite Hret. exact Hlen.
  - rewrite Hfirst. reflexivity.
  - apply rev_head_nth in Hlast. rewrite map_length in Hlast. exact Hlast.
Qed.

Lemma calculate_panics_below_two qk (states : list (snapshot R)) :
  (List.length states < 2)%nat -> exists s, calculate qk states = Panic s.
Proof.
  intros Hlen. unfold calculate. cbv zeta.
  assert (Hret : get_returns (map sn_value states) (cash_flows_of (map sn_ncf states)) (map sn_infl states) false = []).
  { pose proof (returns_length_states states false) as H.
    destruct (get_returns _ _ _ false); [reflexivity|simpl in H; lia]. }
  rewrite Hret.
  destruct (get_maxdd qk []) as [[mdd p0] p1].
  destruct (nth_error (map sn_date states) p0); [|eexists; reflexivity].
  destruct (nth_error (map sn_date states) p1); eexists; reflexivity.
Qed.

(* positions reported by the scan (with or without the defect) lie inside the path *)
Definition PosInv (st : ddstate R) (pos : nat) : Prop :=
  (dd_peak_pos st <= pred pos /\ dd_trough_pos st <= pred pos /\ dd_start st <= pred pos /\ dd_end st <= pred pos)%nat.

Lemma step_pos (st : ddstate R) pos v : PosInv st pos -> PosInv (dd_step st pos v) (S pos).
Proof.
  unfold PosInv, dd_step. intros (H1 & H2 & H3 & H4).
  destruct (_ <? _)%num; [|destruct (_ <? _)%num; [destruct (_ <? _)%num|]];
    cbn [dd_peak_pos dd_trough_pos dd_start dd_end]; repeat split; lia.
Qed.

Lemma scan_pos (vs : list R) : forall st pos,
  PosInv st pos -> PosInv (dd_scan st pos vs) (pos + List.length vs).
Proof.
  induction vs as [|v vs IH]; intros st pos H; cbn [dd_scan List.length].
  - rewrite Nat.add_0_r. assumption.
  - replace (pos + S (List.length vs))%nat with (S pos + List.length vs)%nat by lia.
    apply IH. apply step_pos. assumption.
Qed.

Lemma maxdd_positions qk (vs : list R) m s e :
  vs <> [] -> maxdd qk vs = (m, s, e) -> (s < List.length vs /\ e < List.length vs)%nat.
Proof.
  intros Hne H. unfold maxdd in H.
  assert (Hp : PosInv (dd_scan dd_init 0 vs) (0 + List.length vs)).
  { apply scan_pos. unfold PosInv, dd_init; simpl. lia. }
  destruct Hp as (H1 & H2 & H3 & H4).
  assert (0 < List.length vs)%nat by (destruct vs; [contradiction|simpl; lia]).
  destruct (q_maxdd_last_positions qk); injection H as <- <- <-; simpl in *; lia.
Qed.

Lemma calculate_ok qk (states : list (snapshot R)) :
  (2 <= List.length states)%nat -> exists out, calculate qk states = Ok out.
Proof.
  intros Hlen. unfold calculate. cbv zeta.
  pose proof (returns_length_states states false) as Hrl.
  destruct (get_maxdd qk _) as [[mdd p0] p1] eqn:Hdd.
  unfold get_maxdd in Hdd. apply maxdd_positions in Hdd; [|discriminate].
  rewrite index_of_length, Hrl in Hdd.
  assert (Hdl : List.length (map sn_date states) = List.length states) by apply map_length.
  destruct (nth_error (map sn_date states) p0) as [d0|] eqn:Hd0.
  2:{ apply nth_error_None in Hd0. lia. }
  destruct (nth_error (map sn_date states) p1) as [d1|] eqn:Hd1.
  2:{ apply nth_error_None in Hd1. lia. }
  destruct (get_returns (map sn_value states) (cash_flows_of (map sn_ncf states)) (map sn_infl states) false)
    as [|r0 rr]; [simpl in Hrl; lia|].
  destruct (fold_max_spec r0 rr) as (best & -> & _).
  destruct (fold_min_spec r0 rr) as (worst & -> & _).
  destruct (map sn_date states) as [|first ds] eqn:Hdates; [simpl in Hdl; lia|].
  destruct (rev (first :: ds)) as [|last ds'] eqn:Hrev.
  { apply (f_equal (@List.length Z)) in Hrev. rewrite rev_length in Hrev. simpl in Hrev. lia. }
  eexists. reflexivity.
Qed.

(* through calculate: the reported drawdown and its dates *)
Lemma calculate_drawdown (states : list (snapshot R)) out :
  calculate clean states = Ok out -> Forall (fun r => 0 < 1 + r) (o_returns out) ->
  let idx := index_of (o_returns out) in
  exists s e vs_ ve,
    (s <= e < List.length states)%nat /\
    nth_error (map sn_date states) s = Some (o_dd_start_date out) /\
    nth_error (map sn_date states) e = Some (o_dd_end_date out) /\
    nth_error idx s = Some vs_ /\ nth_error idx e = Some ve /\ o_mdd out = ve / vs_ - 1 /\
    (forall i j vi vj, (i <= j)%nat -> nth_error idx i = Some vi -> nth_error idx j = Some vj ->
                       o_mdd out <= vj / vi - 1) /\
    -1 < o_mdd out <= 0.
Proof.
  intros Hcalc Hall idx.
  pose proof (calculate_lengths clean states out Hcalc) as Hl. cbv zeta in Hl.
  destruct Hl as (Hn & _ & _ & _ & Hrl & _ & _).
  apply calculate_Ok_inv in Hcalc. cbv zeta in Hcalc.
  destruct Hcalc as (p0 & p1 & Hdd & Hd0 & Hd1 & _ & Hret & _).
  rewrite <- Hret in Hdd. unfold get_maxdd in Hdd. fold idx in Hdd.
  destruct (index_positive (o_returns out) Hall) as [Hpos Hlen]. fold idx in Hpos, Hlen.
  assert (Hne : idx <> []) by (unfold idx, index_of; discriminate).
  destruct (maxdd_spec idx _ _ _ Hne Hpos Hdd) as (Hse & (a & b & Ha & Hb & Hm) & Hmin).
  pose proof (maxdd_bounds idx _ _ _ Hne Hpos Hdd) as Hbd.
  exists p0, p1, a, b. rewrite Hlen, Hrl in Hse.
  repeat split; try assumption; try lia; apply Hbd.
Qed.
