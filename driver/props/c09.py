"""C09 — broker slice; see driver/broker.py and Props/C09.v"""
import broker


def run(res, tier, seed, replay):
    return broker.run_property(res, "C09", tier, seed, replay, ["C09", "C09sys", "C09float"])
