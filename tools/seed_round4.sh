#!/bin/sh
# tools/seed_round4.sh Cxx — confirm and test both round-4 changes (J, K) of one property (see seed_round3.sh)
p=$1; shift
for lab in J K; do
  SEED_WT=/tmp/seed4_$p python3 /verif/tools/seed.py $p $lab "$@" > /tmp/q/seed_${p}_$lab.log 2>&1
done
