(* C11, first sentence, as theorems about the composition strategy + broker + eager client + Uist server + Uist exchange (Model/Strategy.v) for EVERY number type: which quote the broker holds. `latest_upto d j s` is the quote for s in the row of the latest date index <= j that quotes s (written independently of the broker); `shown_index d k` the date index the clock shows after k ticks. Statements only; all closed under the global context. *)
From Coq Require Import ZArith NArith List Bool String Sorted.
From Alator Require Import Model.Num Model.Quirks Model.Cost Model.Exchange Model.Uist Model.Server Model.Broker
  Model.Perf Model.Strategy Proofs.ServerProofs Proofs.EndToEnd11.
Import ListNotations.

(* One update (tick, fetch_quotes, reconcile, rebalance, snapshot): if every stored quote is the most recent one up to the clock, it still is afterwards — one tick later. *)
Theorem c11q_update :
  forall (F : Type) (NF : Num F) (y : sys F) (perm : list nat) 
           (ord : list string) (y' : sys F) (d : dataset (quotes (quote F))) 
           (k : nat),
         @SInv (uexch F) (quotes (quote F)) (@sy_app F y) ->
         @rows_keyed_uniquely F d ->
         @quotes_current_at F y d k ->
         @sys_update F NF clean y perm ord = @Ok (sys F) y' ->
         @SInv (uexch F) (quotes (quote F)) (@sy_app F y') /\
         @sy_id F y' = @sy_id F y /\ @quotes_current_at F y' d (S k).
Proof. exact @sys_update_quotes_at. Qed.

(* Through run(): after the loop every stored quote is the most recent one up to the last date. *)
Theorem c11q_run :
  forall (F : Type) (NF : Num F) (fuel : nat) (y : sys F) (perms : nat -> list nat)
           (ords : nat -> list string) (i : nat) (y' : sys F) (n : nat)
           (d : dataset (quotes (quote F))) (k : nat),
         @SInv (uexch F) (quotes (quote F)) (@sy_app F y) ->
         @rows_keyed_uniquely F d ->
         @quotes_current_at F y d k ->
         k <= @Datatypes.length Z (@ds_dates (quotes (quote F)) d) ->
         @sys_run F NF clean fuel y perms ords i = @Ok (sys F * nat) (y', n) ->
         n = i + (@Datatypes.length Z (@ds_dates (quotes (quote F)) d) - k) /\
         @quotes_current_at F y' d (@Datatypes.length Z (@ds_dates (quotes (quote F)) d)) /\
         (forall s : string,
          @sget (quote F) (@b_quotes F (@st_brkr F (@sy_strat F y'))) s =
          @latest_upto F d (@Datatypes.length Z (@ds_dates (quotes (quote F)) d) - 1) s).
Proof. exact @sys_run_quotes_final. Qed.

(* END TO END from a fresh start (the broker stores the first date's row as UistBrokerBuilder::build does), init, then any number of updates: for every symbol the stored quote is latest_upto at the index the clock shows — a gap keeps the previous quote. *)
Theorem c11q_after_updates :
  forall (F : Type) (NF : Num F) (a : @uapp F) (id : N) (b : backtest (uexch F))
           (d : dataset (quotes (quote F))) (costs : list (cost F)) (q0 : smap (quote F))
           (ws : list (string * F)) (ncf0 : F) (h0 : list (snapshot F)) 
           (c : F) (ord0 : list string) (s1 : strategy F) (fw : list (uorder F))
           (ops : list (list nat * list string)) (y' : sys F),
         @SInv (uexch F) (quotes (quote F)) a ->
         @nlookup (backtest (uexch F)) (@backtests (uexch F) (quotes (quote F)) a) id =
         @Some (backtest (uexch F)) b ->
         @slookup (dataset (quotes (quote F))) (@datasets (uexch F) (quotes (quote F)) a)
           (@bt_dataset (uexch F) b) = @Some (dataset (quotes (quote F))) d ->
         @clock_ok (uexch F) (quotes (quote F)) d b 0 ->
         @rows_keyed_uniquely F d ->
         (forall s : string, @sget (quote F) q0 s = @latest_upto F d 0 s) ->
         @st_init F NF clean
           {|
             st_brkr := @broker_init F NF costs q0;
             st_weights := ws;
             st_ncf := ncf0;
             st_history := h0
           |} c ord0 = @Ok (strategy F * list (uorder F)) (s1, fw) ->
         @sys_updates F NF
           {| sy_strat := s1; sy_app := @forward F NF clean a id fw; sy_id := id |} ops =
         @Ok (sys F) y' ->
         @quotes_current_at F y' d (@Datatypes.length (list nat * list string) ops) /\
         (forall s : string,
          @sget (quote F) (@b_quotes F (@st_brkr F (@sy_strat F y'))) s =
          @latest_upto F d (@shown_index F d (@Datatypes.length (list nat * list string) ops)) s).
Proof. exact @c11_quotes_after_updates. Qed.

(* … hence a position is valued at quantity x the bid of that quote. *)
Theorem c11q_valuation :
  forall (F : Type) (NF : Num F) (y : sys F) (d : dataset (quotes (quote F))) 
           (k : nat) (s : string) (q : quote F) (qty : F),
         @quotes_current_at F y d k ->
         @latest_upto F d (@shown_index F d k) s = @Some (quote F) q ->
         @position_qty F (@st_brkr F (@sy_strat F y)) s = @Some F qty ->
         @position_value F NF (@st_brkr F (@sy_strat F y)) s = @Some F (@q_bid F q * qty)%num.
Proof. exact @position_value_current. Qed.

(* Never a later one: with increasing dates and rows carrying their own date, a stored quote is dated at or before the clock. *)
Theorem c11q_never_later :
  forall (F : Type) (y : sys F) (d : dataset (quotes (quote F))) 
           (k : nat) (s : string) (q : quote F),
         @rows_dated F d ->
         @StronglySorted Z Z.lt (@ds_dates (quotes (quote F)) d) ->
         @quotes_current_at F y d k ->
         @sget (quote F) (@b_quotes F (@st_brkr F (@sy_strat F y))) s = @Some (quote F) q ->
         exists b : backtest (uexch F),
           @nlookup (backtest (uexch F)) (@backtests (uexch F) (quotes (quote F)) (@sy_app F y))
             (@sy_id F y) = @Some (backtest (uexch F)) b /\
           (@q_date F q <= @bt_date (uexch F) b)%Z.
Proof. exact @stored_quote_not_later. Qed.

(* The most recent: no quoting row between the one used and the clock is skipped. *)
Theorem c11q_most_recent :
  forall (F : Type) (d : dataset (quotes (quote F))) (j : nat) (s : string) (q : quote F),
         @latest_upto F d j s = @Some (quote F) q ->
         forall i : nat,
         i <= j ->
         @row_quote F d i s <> @None (quote F) ->
         exists i' : nat, i <= i' /\ i' <= j /\ @row_quote F d i' s = @Some (quote F) q.
Proof. exact @latest_upto_most_recent. Qed.

(* latest_upto characterised: the quote of row i, i <= j, with no row in (i, j] quoting the symbol. *)
Theorem c11q_latest_spec :
  forall (F : Type) (d : dataset (quotes (quote F))) (j : nat) (s : string) (q : quote F),
         @latest_upto F d j s = @Some (quote F) q ->
         exists i : nat,
           i <= j /\
           @row_quote F d i s = @Some (quote F) q /\
           (forall i' : nat, i < i' -> i' <= j -> @row_quote F d i' s = @None (quote F)).
Proof. exact @latest_upto_spec. Qed.

(* What storing a fetched row does to the broker's quote map (rows keyed uniquely — proved of every Penelope dataset, c07_dataset_invariant). *)
Theorem c11q_update_quotes :
  forall (F : Type) (b : broker F) (row : list (string * quote F)) (s : string),
         @NoDup string (@map (string * quote F) string (@fst string (quote F)) row) ->
         @sget (quote F) (@b_quotes F (@update_quotes F b row)) s =
         match @lookup (quote F) row s with
         | Some q => @Some (quote F) q
         | None => @sget (quote F) (@b_quotes F b) s
         end.
Proof. exact @update_quotes_sget. Qed.

Print Assumptions c11q_update.
Print Assumptions c11q_run.
Print Assumptions c11q_after_updates.
Print Assumptions c11q_valuation.
Print Assumptions c11q_never_later.
Print Assumptions c11q_most_recent.
Print Assumptions c11q_latest_spec.
Print Assumptions c11q_update_quotes.
