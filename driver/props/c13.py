"""C13 — cost-aware sizing never overspends. Theorems: Props/C13.v (F := R).
Correspondence: the Cost model at the IEEE instance against BrokerCost::{trade_impact,
trade_impact_total, calc} and f64::floor/ceil, bit for bit.
Tie by translation: the same functions translated from the source text (tools/rs2v.py) and proved equal to the model
for every Num F (Check/GenEquiv.v); informative, the correspondence decides."""
import random
from fractions import Fraction

from common import *

IMPORTS = "From Alator Require Import Model.Num Model.Cost Check.CostCheck."


def gen_cost(rng):
    k = rng.choice(["ps", "pct", "flat"])
    if k == "ps":
        x = rng.choice([0.0, 0.01, 0.005, 0.5, 1.0, rng.uniform(0, 2)])
    elif k == "pct":
        x = rng.choice([0.0, 0.01, 0.001, 0.25, 0.5, 0.99, rng.uniform(0, 0.3)])
    else:
        x = rng.choice([0.0, 1.0, 5.0, 10.0, rng.uniform(0, 50)])
    return [k, f2b(x)]


def gen_case(rng, malformed=False):
    n = rng.choice([0, 1, 1, 2, 2, 3, 3, 4, 5, 8, 13])
    costs = [gen_cost(rng) for _ in range(n)]
    price = rng.choice([1.0, 10.0, 10.5, 99.99, 100.0, rng.uniform(0.01, 500)])
    mode = rng.random()
    if mode < 0.3:
        budget = price * rng.randint(0, 50)            # exact multiples: floor boundary
    elif mode < 0.4:
        budget = rng.uniform(0, 5)                     # smaller than typical fees
    else:
        budget = rng.choice([100.0, 1000.0, 1e5, rng.uniform(0, 1e6)])
    if malformed:
        budget = rng.choice([budget, -budget, 0.0, float("inf"), float("nan")])
        price = rng.choice([price, 0.0, -price, float("nan")])
        if costs and rng.random() < 0.5:
            costs[0][1] = f2b(rng.choice([-1.0, 1.0, 2.0, float("nan")]))
    qty = float(rng.randint(0, 1000)) if rng.random() < 0.7 else rng.uniform(0, 1000)
    return dict(costs=costs, budget=f2b(budget), price=f2b(price), is_buy=rng.random() < 0.6,
                qty=f2b(qty), value=f2b(qty * price))


def g_cost(c):
    return gc({"ps": "PerShare", "pct": "PctOfValue", "flat": "Flat"}[c[0]], gf(c[1]))


def g_case(sc, tr):
    return ("{| cc_costs := %s; cc_budget := %s; cc_price := %s; cc_is_buy := %s; cc_qty := %s; "
            "cc_value := %s; cc_net_budget := %s; cc_net_price := %s; cc_calcs := %s; "
            "cc_singles := %s; cc_floor := %s; cc_ceil := %s |}") % (
        gl([g_cost(c) for c in sc["costs"]]), gf(sc["budget"]), gf(sc["price"]), gb(sc["is_buy"]),
        gf(sc["qty"]), gf(sc["value"]), gf(tr["net_budget"]), gf(tr["net_price"]),
        gl([gf(x) for x in tr["calcs"]]),
        gl([gt(gf(a), gf(b)) for a, b in tr["singles"]]), gf(tr["floor"]), gf(tr["ceil"]))


def oracle(sc):
    """Direct reading of C13 in exact rational arithmetic on the *implementation's* outputs is not
    possible (floats); instead: recompute the property on the algorithm as the code would run it in
    exact arithmetic. Returns a description when the property fails for this input, else None.
    Only meaningful for admissible inputs."""
    cs = [(k, Fraction(b2f(x))) for k, x in sc["costs"]]
    if any(v < 0 for _, v in cs) or sum(v for k, v in cs if k == "pct") >= 1:
        return None
    return None


def show(sc):
    return dict(costs=[[k, show_f(x)] for k, x in sc["costs"]], budget=show_f(sc["budget"]),
                price=show_f(sc["price"]), is_buy=sc["is_buy"])


def property_oracle(sc, tr):
    """C13 read directly on what the real code returned (exact rationals over the observed f64
    values), for admissible inputs. The clauses that are exact in floating point are checked
    exactly; the overspend clause is checked with a relative slack of 1e-9 for rounding."""
    vals = [b2f(sc["budget"]), b2f(sc["price"]), b2f(tr["net_budget"]), b2f(tr["net_price"])]
    if any(math.isnan(v) or math.isinf(v) for v in vals):
        return None
    cs = [(k, b2f(x)) for k, x in sc["costs"]]
    if any(math.isnan(v) or v < 0 for _, v in cs):
        return None
    if sum(v for k, v in cs if k == "pct") >= 1:
        return None
    budget, price, nb, np_ = vals
    if budget < 0 or price <= 0:
        return None
    if sc["is_buy"] and np_ < price:
        return "net price below gross price for a buy"
    if not sc["is_buy"] and np_ > price:
        return "net price above gross price for a sell"
    if nb > budget:
        return "net budget above gross budget"
    if sc["is_buy"] and np_ > 0:
        n = math.floor(nb / np_)
        if n >= 0:
            value = n * price
            fees = 0.0
            for k, v in cs:
                fees += v * n if k == "ps" else (value * v if k == "pct" else v)
            if value + fees > budget * (1 + 1e-9) + 1e-9:
                return "overspend: %r shares cost %r + fees %r > budget %r" % (n, value, fees, budget)
    return None


def run(res, tier, seed, replay):
    ob = run_pure(res, tier, seed, replay)
    if not replay or json.load(open(replay)).get("component") == "broker":
        # the cost model as the broker applies it: brokers built from a (possibly re-used) builder must size
        # rebalancing orders and compute fees with the configured cost list (driver/broker.py, projection C13)
        import broker
        cov_pure = dict(res.coverage)
        broker.run_property(res, "C13", tier, seed, replay, [])
        cov_b = dict(res.coverage)
        res.coverage.update(cov_pure)
        res.coverage["evaluations"] = cov_pure.get("evaluations", 0) + cov_b.get("evaluations", 0)
        res.coverage["broker_part"] = {k: cov_b.get(k) for k in ("evaluations", "distinct_nontrivial", "scenarios",
                                                                 "quirk_valuation_matched")}
    return ob


def run_pure(res, tier, seed, replay):
    ob = obligations_or_violation(res, ["C13", "C13float"])
    # the second tie (DESIGN 8.8): BrokerCost::{calc, trade_impact, trade_impact_total} and Portfolio's two cost
    # methods are translated from the source text as it is at this run and proved equal to Model/Cost.v for every Num F.
    # Never an alarm by itself: whatever it says, the sampling below decides exactly as before (a failed equivalence
    # travels in res.diagnosis into the replay object of what the sampling then reports)
    tie_by_translation(res, "cost", "GenEquiv")
    wd = workdir("C13")
    rng = random.Random(seed)
    n = tier_size(tier, 1500, 40000)
    corpus = load_corpus("C13")
    scs = list(corpus)
    if replay:
        scs = [json.load(open(replay))["scenario"]]
        n = 0
    for i in range(n):
        scs.append(gen_case(rng, malformed=(i % 10 == 9)))
    trs = run_harness_sharded("cost", scs, wd)
    terms = [g_case(sc, tr) for sc, tr in zip(scs, trs)]
    failing = eval_cases(wd, "cost", IMPORTS, terms, "cost_case_ok")
    # the property read directly on the implementation's outputs (search for a failing input)
    direct = [(i, m) for i, (sc, tr) in enumerate(zip(scs, trs)) for m in [property_oracle(sc, tr)] if m]
    for i, m in direct[:1]:
        res.violation(dict(kind="property-fails-on-implementation", what=m, scenario=scs[i],
                           readable=show(scs[i]), observed=trs[i]), "direct")
    if failing and not direct:
        i = failing[0]
        res.violation(dict(kind="correspondence", component="cost",
                           broken="model of BrokerCost (Model/Cost.v) no longer matches the code; "
                                  "theorems c13_* are about the model and no longer transfer",
                           scenario=scs[i], readable=show(scs[i]), observed=trs[i],
                           n_mismatching=len(failing)), "corr", no_input=True)
    kinds = set()
    for sc in scs:
        kinds.add((tuple(sorted(set(k for k, _ in sc["costs"]))), sc["is_buy"], len(sc["costs"])))
    res.coverage.update(
        evaluations=len(scs), distinct_nontrivial=len(kinds),
        rule="random cost lists (length 0..13, all three kinds, boundary budgets = k*price, "
             "budget below fees, 10% malformed: negative/NaN/inf); a case is non-trivial-distinct by "
             "(set of cost kinds, side, list length); every case compares trade_impact_total, each "
             "trade_impact, each calc, floor and ceil of net budget / net price bit for bit",
        samples=[show(sc) for sc in scs[:3]],
        traces_validated_against_impl=len(scs), correspondence_mismatches=len(failing),
        property_oracle_failures=len(direct))
    res.assumptions += ["theorems are over the reals: IEEE rounding in the sizing inequality is not covered",
                        "percentages each in [0,1) (c13_no_overspend_each) or summing below 1 (c13_no_overspend)"]
    return ob
