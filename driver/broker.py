"""Broker slice (UistBroker over the harness client): generators, trace -> Gallina, step-wise
correspondence, direct readings of C04 / C05 / C06 / C09 / C10 / C11 / C12."""
import random

from common import *
import exch

IMPORTS = ("From Alator Require Import Model.Num Model.Quirks Model.Cost Model.Exchange Model.Uist Model.Broker "
           "Check.Eqb Check.ExchCheck Check.ServerCheck Check.BrokerCheck.")

BASPECTS = {0: "kind", 1: "event", 2: "cash", 3: "holdings", 4: "pending", 5: "quotes", 6: "log", 7: "failed",
            8: "calls", 9: "delivered", 10: "orders", 11: "getters", 12: "state_invariant"}
B_KIND, B_EVENT, B_CASH, B_HOLDINGS, B_PENDING, B_QUOTES, B_LOG, B_FAILED, B_CALLS, B_DELIVERED, B_ORDERS, B_GETTERS, \
    B_STATE = [1 << i for i in range(13)]
BROKER_FLAGS = ["q_send_dropped_future", "q_limit_panics", "q_liq_ceil_precedence", "q_diff_break",
                "q_diff_direction_flip", "q_liq_fail_debit"]
SYMS = ["ABC", "BCD", "XYZ"]


def bmask_names(m):
    return [n for b, n in BASPECTS.items() if m & (1 << b)]


# ------------------------------------------------------------------------------------------------
# generators


def gen_prices(rng, n, style):
    """per symbol list of (bid, ask) or None (gap), length n"""
    out = {}
    for s in SYMS:
        # mostly ordinary prices; sometimes a security that trades below one currency unit (a one-unit gap is then
        # several shares, and "less than one share" is less than one unit)
        p = rng.choice([10.0, 10.5, 25.0, 100.0, 101.25, 10.0, 25.0, 0.5, 0.25])
        penny = p < 1.0
        seq = []
        for i in range(n):
            if i > 0:
                if style == "const":
                    pass
                elif style == "jumpy" and rng.random() < 0.3:
                    p = p * rng.choice([2.0, 0.5, 3.0, 0.25])
                elif penny:
                    p = max(0.125, p + rng.choice([-0.125, 0.0, 0.125, 0.0625]))
                else:
                    p = max(0.5, p + rng.choice([-1.0, -0.5, 0.0, 0.5, 1.0, 0.25]))
            if i > 0 and rng.random() < (0.0 if style == "const" and s == "ABC" else 0.2):
                seq.append(None)
            else:
                spread = 0.0 if style == "const" else rng.choice([0.0, 0.5, 1.0]) * (0.125 if penny else 1.0)
                seq.append((p, p + spread))
        out[s] = seq
    return out


def dataset_from(prices, n, base=100):
    qs = []
    for i in range(n):
        for s in SYMS:
            pa = prices[s][i]
            if pa is not None:
                qs.append([f2b(pa[0]), f2b(pa[1]), base + i, s])
    return qs


def gen_date_base(rng):
    """first date of a generated dataset: mostly small positive numbers; sometimes before the epoch, crossing it, or
    real epoch seconds — dates are i64, nothing says they are positive"""
    return rng.choice([100, 100, 100, 100, -1000, -2, 0, 1, 1700000000])


def gen_costs(rng):
    if rng.random() < 0.2:
        # every kind at once, non-zero, in a random order: the cost model threads (budget, price) through the list
        # in order, so a flat fee before a percentage is not the same as after it
        cs = [["flat", f2b(rng.choice([5.0, 10.0, 50.0]))], ["pct", f2b(rng.choice([0.01, 0.1, 0.25]))]]
        if rng.random() < 0.6:
            cs.append(["ps", f2b(rng.choice([0.01, 0.5, 1.0]))])
        if rng.random() < 0.3:
            cs.append(["flat", f2b(1.0)])
        rng.shuffle(cs)
        return cs
    n = rng.choice([0, 0, 1, 1, 2, 3])
    cs = []
    for _ in range(n):
        k = rng.choice(["ps", "pct", "flat"])
        x = {"ps": rng.choice([0.0, 0.01, 0.1, 0.5, 1.0, 2.0]), "pct": rng.choice([0.0, 0.01, 0.001, 0.1]),
             "flat": rng.choice([0.0, 1.0, 5.0, 10.0, 50.0])}[k]
        cs.append([k, f2b(x)])
    return cs


def gen_weights(rng):
    n = rng.choice([1, 2, 2, 3, 3, 4])
    syms = rng.sample(SYMS + ["NOPE"], n)
    ws = []
    for s in syms:
        ws.append([s, f2b(rng.choice([0.0, 0.1, 0.25, 0.5, 0.5, 0.3, 1.0, rng.random()]))])
    return ws


def order(t, sym, shares, price=None):
    return dict(type=t, symbol=sym, shares=f2b(shares), price=None if price is None else f2b(price), via="json")


LIQ_REL_KINDS = ["liq_eq", "liq_up", "liq_down", "liq_mid_total", "total_eq", "liq_half", "posval_1", "posval_2", "posval_1_half"]
REL_KINDS = ["eq", "ulp_up", "ulp_down", "ulps_up_8", "plus_1e-9", "plus_1e-7", "plus_1e-3", "times_1p1e-12", "half"]


def gen_broker_scenario(rng, lazy=False, style=None, malformed=False, limit_orders=True):
    n = rng.choice([4, 6, 8, 12])
    style = style or rng.choice(["calm", "calm", "jumpy", "const"])
    prices = gen_prices(rng, n, style)
    ds = dataset_from(prices, n, gen_date_base(rng))
    costs = gen_costs(rng)
    ops = []
    first = {s: prices[s][0] for s in SYMS}
    cash = rng.choice([100.0, 1000.0, 10000.0, 100000.0])
    if rng.random() < 0.04:
        cash = rng.choice([1e22, 4e19, 3e300])      # share counts beyond every integer type, values near overflow
    ops.append(dict(op="deposit", x=f2b(cash)))
    pat = rng.random()
    s0 = rng.choice(SYMS)
    ask0 = first[s0][1]
    if pat < 0.2:
        # boundary: shares * ask == cash exactly (refused: strict), one share fewer accepted
        k = math.floor(cash / ask0)
        if k * ask0 == cash and k > 1:
            ops.append(dict(op="send", order=order("MarketBuy", s0, float(k))))
            ops.append(dict(op="send", order=order("MarketBuy", s0, float(k - 1))))
        else:
            ops.append(dict(op="send", order=order("MarketBuy", s0, float(max(1, k)))))
        ops += [dict(op="check"), dict(op="check")]
        ops.append(dict(op="send", order=order("MarketSell", s0, float(max(1, k - 1)))))
        ops.append(dict(op="send", order=order("MarketSell", s0, float(max(1, k)))))
    elif pat < 0.45:
        # spend almost everything, then let prices move: cash may go negative on execution
        k = max(1, math.floor(cash / ask0) - rng.choice([0, 1, 1]))
        if k * ask0 >= cash:
            k = max(1, k - 1)
        ops.append(dict(op="send", order=order("MarketBuy", s0, float(k))))
        s1 = rng.choice([s for s in SYMS if s != s0])
        if rng.random() < 0.5:
            ops.append(dict(op="send", order=order("MarketBuy", s1, float(max(1, math.floor(cash / first[s1][1] / 2))))))
    elif pat < 0.6:
        ops.append(dict(op="diff", weights=gen_weights(rng)))
    elif pat < 0.78:
        # round trips through a flat position, long and short, then a new position: the cost basis must restart
        # from the point the position was last flat whichever side closed it
        k = float(rng.choice([1, 5, 10]))
        m = float(rng.choice([2, 3, 7]))
        open_side, close_side = rng.choice([("MarketSell", "MarketBuy"), ("MarketBuy", "MarketSell")])
        reopen = rng.choice(["MarketBuy", "MarketBuy", "MarketSell"])
        legs = [(open_side, k), (close_side, k), (reopen, m)]
        if rng.random() < 0.4:
            # flat TWICE before the position that is open at the end (with prices moving in between, the second round
            # trip realises a profit or loss that must not leak into the new basis)
            k2 = float(rng.choice([2, 4, 9]))
            legs = [(open_side, k), (close_side, k), (open_side, k2), (close_side, k2), (reopen, m)]
        for t, q in legs:
            ops.append(dict(op="send", order=order(t, s0, q)))
            ops += [dict(op="check"), dict(op="getters")]
        if rng.random() < 0.5:
            ops.append(dict(op="send", order=order(rng.choice(["MarketBuy", "MarketSell"]), s0, float(rng.choice([1, 2, 4])))))
            ops += [dict(op="check"), dict(op="getters")]
    elif pat < 0.9:
        # offsetting resting orders in one symbol (pending nets to exactly 0 while both still rest), a third order
        # that fills at once, then ticks until the price path — known to the generator — crosses the resting ones:
        # pending exposure must keep tracking what is accepted but unfilled, entry present or not
        path = [x for x in prices[s0][1:] if x is not None]
        if path:
            k = float(rng.choice([5, 10, 100]))
            lo = min(a for _, a in path)
            hi = max(b for b, _ in path)
            kind = rng.choice(["limits", "limit_stop", "limits"])
            if kind == "limits":
                ops.append(dict(op="send", order=order("LimitBuy", s0, k, lo)))
                ops.append(dict(op="send", order=order("LimitSell", s0, k, hi)))
            else:
                ops.append(dict(op="send", order=order("LimitBuy", s0, k, lo)))
                ops.append(dict(op="send", order=order("StopSell", s0, k, lo)))
            ops.append(dict(op="send", order=order("MarketBuy", s0, float(rng.choice([1, 5])))))
            for _ in range(n):
                ops += [dict(op="check"), dict(op="getters")]
    n_ops = rng.randint(8, 30) if pat < 0.78 or pat >= 0.9 else rng.randint(0, 6)
    for _ in range(n_ops):
        r = rng.random()
        if r < 0.26:
            ops.append(dict(op="check"))
        elif r < 0.34:
            ops.append(dict(op="deposit", x=f2b(rng.choice([0.0, 50.0, 1000.0, -20.0 if malformed else 500.0]))))
        elif r < 0.42:
            if rng.random() < 0.35:
                # at the boundary of the current balance (computed by the harness from the broker's own cash): exactly
                # the balance, a few ulps or a tiny amount either side of it
                ops.append(dict(op="withdraw", x=0, rel=rng.choice(REL_KINDS)))
            else:
                ops.append(dict(op="withdraw", x=f2b(rng.choice([10.0, 50.0, cash / 2, cash * 3, 0.0]))))
        elif r < 0.52:
            if rng.random() < 0.4:
                ops.append(dict(op="liq", x=0, rel=rng.choice(REL_KINDS + LIQ_REL_KINDS * 2)))
            else:
                ops.append(dict(op="liq", x=f2b(rng.choice([10.0, 105.0, cash / 2, cash, cash * 1.5, cash * 4, 1e9,
                                                            rng.uniform(0, 2 * cash)]))))
        elif r < 0.76:
            types = exch.UTYPES if limit_orders else ["MarketBuy", "MarketSell"]
            t = rng.choice(["MarketBuy", "MarketSell"] * 2 + types)
            sym = rng.choice(SYMS + (["NOPE"] if malformed and rng.random() < 0.3 else []))
            shares = rng.choice([0.0, 1.0, 5.0, 10.0, 100.0, float(rng.randint(1, 2000))])
            if malformed and rng.random() < 0.3:
                shares = rng.choice([-5.0, float("nan"), 0.5])
            price = None if t.startswith("Market") else rng.choice(exch.GRID + [5.0, 10.0, 26.0])
            o = order(t, sym, shares, price)
            if rng.random() < 0.12:
                # an Order object that already carries an id (re-submitted after it came back from a tick, or built
                # from JSON): the id of a possibly still resting order of this backtest; the exchange assigns its own
                o["order_id"] = rng.choice([0, 0, 1, 2, 3])
            ops.append(dict(op="send", order=o))
        elif r < 0.86:
            d = dict(op="diff", weights=gen_weights(rng))
            if rng.random() < 0.4:
                # one or two symbols whose gap to target is a chosen multiple of the price: just under / over one
                # share either way, under one share net of per-share costs, exactly zero, several shares
                d["rel_weights"] = [[sy, f2b(rng.choice([0.0, 0.5, 0.93, 0.97, 0.999, 1.0, 1.001, 1.03, 1.6, 2.5, 7.25,
                                                         -0.5, -0.93, -0.97, -0.999, -1.0, -1.001, -1.03, -1.6, -2.5, -7.25]))]
                                    for sy in rng.sample(SYMS, rng.choice([1, 2]))]
            ops.append(d)
        elif r < 0.96:
            ops.append(dict(op="getters"))
        else:
            q = float(rng.randint(0, 500))
            ops.append(dict(op="trade_costs", qty=f2b(q), value=f2b(q * rng.choice([1.0, 10.5, 99.0]))))
    ops.append(dict(op="getters"))
    # a lazy client may also not be ready at the first poll (as any client over a real transport): the broker has to
    # drive the future to completion, not poll it once
    return dict(dataset=ds, costs=costs, lazy=lazy, yields=(rng.choice([0, 1, 1, 3]) if lazy else 0), ops=ops,
                extra_syms=["NOPE"], builder_reuse=(rng.random() < 0.3))


# ------------------------------------------------------------------------------------------------
# trace -> Gallina


def g_smap(pairs, enc):
    return gl([gt(gs(k), enc(v)) for k, v in pairs])


def g_bquote(q):
    return gc("mkQuote", gf(q["bid"]), gf(q["ask"]), gz(q["date"]), gs(q["symbol"]))


def g_broker(b, costs_term):
    return gc("mkBroker", gf(b["cash"]), g_smap(b["holdings"], gf), g_smap(b["pending"], gf),
              gl([gt(gs(q["key"]), g_bquote(q)) for q in b["quotes"]]),
              gl([exch.g_trade(t) for t in b["log"]]), costs_term, gb(b["failed"]))


def g_cost(c):
    return gc({"ps": "PerShare", "pct": "PctOfValue", "flat": "Flat"}[c[0]], gf(c[1]))


def g_cash_event(e):
    return gc(e["ev"], gf(e["x"]))


def g_uo(o):
    return exch.g_uorder(o)


def positions(b):
    return [k for k, _ in b["holdings"]]


def g_strs(l):
    return gl([gs(x) for x in l])


def check_resp(calls):
    """(trades, row) when both the tick and the fetch_quotes of a check succeeded, else None"""
    tick = [c for c in calls if c.get("effect") == "tick"]
    fetch = [c for c in calls if c.get("effect") == "fetch_quotes"]
    if not tick or tick[0].get("err") or not fetch or fetch[0].get("err"):
        return None
    return tick[0]["trades"], fetch[0]["row"]


def per_sym_term(b, syms):
    by = {p["sym"]: p for p in b["per_sym"]}
    out = []
    for s in syms:
        p = by[s]
        out.append(gt(go(p["qty"], gf), go(p["value"], gf), go(p["liq"], gf), go(p["profit"], gf),
                      go(p["cost_basis"], gf), go(p["with_pending"], gf)))
    return gl(out)


def broker_steps(sc, tr, idx):
    costs_name = "costs_%d" % idx
    costs_def = "Definition %s : list (cost float) := %s." % (costs_name, gl([g_cost(c) for c in sc["costs"]]))
    terms, steps = [], []
    syms = sorted(set(q[3] for q in sc["dataset"]) | set(sc.get("extra_syms", [])))
    for k, r in enumerate(tr["results"]):
        op = sc["ops"][k]
        pre = tr["snaps"][k]["broker"]
        panic = "panic" in r
        post = pre if panic else tr["snaps"][k + 1]["broker"]
        calls = r["calls"]
        o = op["op"]
        res = r.get("res")
        if "rel" in op:
            op["x"] = r["x_used"]       # the amount the harness derived from the broker's balance at that moment
        if o == "deposit":
            gop, gobs = gc("BDeposit", gf(op["x"])), (None if panic else gc("OCash", g_cash_event(res)))
        elif o == "withdraw":
            gop, gobs = gc("BWithdraw", gf(op["x"])), (None if panic else gc("OCash", g_cash_event(res)))
        elif o == "liq":
            gop = gc("BLiq", gf(op["x"]), g_strs(positions(pre)))
            gobs = None if panic else gc("OCash", g_cash_event(res))
        elif o == "send":
            oo = op["order"]
            gop = gc("BSend", g_uo(oo))
            gobs = None if panic else gc("OOrder", gc(res["ev"], g_uo(res["order"])))
        elif o == "check":
            resp = check_resp(calls)
            gresp = "None" if resp is None else "(Some %s)" % gt(gl([exch.g_trade(t) for t in resp[0]]),
                                                                 gl([exch.g_quote(q) for q in resp[1]]))
            gop = gc("BCheck", gresp, g_strs(positions(post)))
            gobs = None if panic else "OUnit"
        elif o == "diff":
            ws = res["weights_order"] if not panic else op["weights"]
            if not panic:
                op["weights_used"] = ws
            gop = gc("BDiff", gl([gt(gs(w[0]), gf(w[1])) for w in ws]), g_strs(positions(pre)))
            gobs = None if panic else gc("OOrders", gl([g_uo(x) for x in res["orders"]]))
        elif o == "getters":
            gop = gc("BGetters", g_strs(syms), g_strs(positions(pre)))
            gobs = gc("OGetters", gf(pre["total_value"]), gf(pre["liquidation_value"]), per_sym_term(pre, syms))
        elif o == "trade_costs":
            gop = gc("BTradeCosts", gf(op["qty"]), gf(op["value"]))
            gobs = None if panic else gc("OCosts", gf(res["costs"]), gf(res["price"]),
                                         gt(gf(res["impact_buy"][0]), gf(res["impact_buy"][1])),
                                         gt(gf(res["impact_sell"][0]), gf(res["impact_sell"][1])))
        else:
            raise ValueError(o)
        if gobs is None:
            gobs = "OPanic"
        g_calls = gl([g_uo(c["order"]) for c in calls if c.get("call") == "insert_order"])
        # what reached the exchange: what its buffer gained over the step as the hook shows it (a check's tick admits the
        # whole buffer first, so everything buffered afterwards arrived during the step); the client's own record of its
        # effects only when the step panicked and there is no post-state
        effects = [c["order"] for c in calls if c.get("effect") == "insert_order"]
        if not panic and tr["snaps"][k]["server"] and tr["snaps"][k + 1]["server"]:
            buf_pre = tr["snaps"][k]["server"]["exch"]["buffer"]
            buf_post = tr["snaps"][k + 1]["server"]["exch"]["buffer"]
            if o == "check" or buf_post[:len(buf_pre)] != buf_pre:
                arrived = buf_post
            else:
                arrived = buf_post[len(buf_pre):]
        else:
            arrived = effects
        g_deliv = gl([g_uo(x) for x in arrived])
        terms.append(gc("mkBStep", g_broker(pre, costs_name), gop, gobs, g_broker(post, costs_name),
                        gb(sc["lazy"]), g_calls, g_deliv))
        steps.append(dict(pre=pre, post=post, op=op, res=res, panic=panic, calls=calls,
                          server_pre=tr["snaps"][k]["server"],
                          server_post=tr["snaps"][k + 1]["server"] if not panic else None,
                          costs=sc["costs"], lazy=sc["lazy"], panic_msg=r.get("panic")))
    return costs_def, terms, steps


def run_brokers(wd, scs):
    trs = run_harness_sharded("broker", scs, wd)
    defs, terms, steps = [], [], []
    for i, (sc, tr) in enumerate(zip(scs, trs)):
        if "snaps" not in tr:
            if isinstance(tr, dict) and "panic" in tr:
                raise ImplementationPanic(tr["panic"], sc, "setting up broker scenario %d (builder, client, dataset)" % i)
            raise RuntimeError("harness-level failure on broker scenario %d: %s" % (i, str(tr)[:500]))
        d, t, s = broker_steps(sc, tr, i)
        defs.append(d)
        terms.append(t)
        steps.append(s)
    return trs, defs, terms, steps


def make_eval(wd, defs, terms, project):
    cache = {}

    def eval_fn(val):
        val = frozenset(val)
        if val not in cache:
            r = eval_steps(wd, "b", IMPORTS, terms, "bstep_mask %s" % g_quirks(val), sc_defs=defs)
            cache[val] = project(sorted(r))
        return cache[val]
    return eval_fn


# ------------------------------------------------------------------------------------------------
# direct readings of the properties on observed traces


def F(b):
    return b2f(b)


def close(a, b, rel=1e-9, ab=1e-9):
    if math.isnan(a) or math.isnan(b):
        return math.isnan(a) and math.isnan(b)
    if math.isinf(a) or math.isinf(b):
        return a == b
    return abs(a - b) <= ab + rel * max(abs(a), abs(b))


def trades_of(calls):
    t = [c for c in calls if c.get("effect") == "tick" and not c.get("err")]
    f = [c for c in calls if c.get("effect") == "fetch_quotes" and not c.get("err")]
    return t[0]["trades"] if (t and f) else []


LIQ_FAIL_DEBIT_OPEN = any(o["flag"] == "q_liq_fail_debit" for o in known_findings()[0])


def oracle_c04(sc, steps, include_known=False):
    for k, st in enumerate(steps):
        if st["panic"]:
            break
        pre, post, op, res = F(st["pre"]["cash"]), F(st["post"]["cash"]), st["op"], st["res"]
        o = op["op"]
        failed = st["pre"]["failed"]
        if o == "deposit":
            want = pre + F(op["x"]) if res["ev"] == "DepositSuccess" else pre
            if failed and res["ev"] != "OperationFailure":
                return dict(step=k, what="deposit in Failed state was not refused", event=res["ev"])
        elif o == "withdraw":
            want = pre - F(op["x"]) if res["ev"] == "WithdrawSuccess" else pre
            if res["ev"] == "WithdrawSuccess" and (failed or F(op["x"]) > pre):
                return dict(step=k, what="withdrawal succeeded although it should have been refused")
        elif o == "check":
            want = pre
            for t in trades_of(st["calls"]):
                want = want - F(t["value"]) if t["side"] == "Buy" else F(t["value"]) + want
        else:
            want = pre
            if o == "liq" and LIQ_FAIL_DEBIT_OPEN and not include_known and res["ev"] == "WithdrawFailure" and F(op["x"]) <= pre \
                    and post == pre - F(op["x"]):
                # exactly the recorded open finding q_liq_fail_debit (known_findings.txt): reported as KNOWN-FINDING by
                # the check, not as the failing input of some other deviation
                continue
        if not (post == want or (math.isnan(post) and math.isnan(want))):
            return dict(step=k, op=o, what="cash moved from %r to %r; the ledger demands %r" % (pre, post, want),
                        event=res if isinstance(res, dict) and "ev" in res else None, request=show_f(op["x"]) if "x" in op else None)
    return None


def oracle_c05(sc, steps):
    for k, st in enumerate(steps):
        if st["panic"]:
            break
        pre, post, op, res = st["pre"], st["post"], st["op"], st["res"]
        o = op["op"]
        hold = {s: F(v) for s, v in pre["holdings"]}
        pend = {s: F(v) for s, v in pre["pending"]}
        log = list(pre["log"])
        if o == "check":
            for t in trades_of(st["calls"]):
                q = F(t["quantity"])
                s = t["symbol"]
                h = hold.get(s, 0.0) + (q if t["side"] == "Buy" else -q)
                if h == 0.0:
                    hold.pop(s, None)
                else:
                    hold[s] = h
                p = pend.get(s, 0.0) + (-q if t["side"] == "Buy" else q)
                if p == 0.0:
                    pend.pop(s, None)
                else:
                    pend[s] = p
                log.append(t)
        accepted = [c["order"] for c in st["calls"] if c.get("call") == "insert_order"]
        if o == "send" and (res["ev"] == "OrderSentToExchange") != (len(accepted) == 1):
            return dict(step=k, what="event %s but %d orders handed to the client" % (res["ev"], len(accepted)))
        for a in accepted:
            s = a["symbol"]
            eff = F(a["shares"]) * (-1.0 if a["type"].endswith("Sell") else 1.0)
            pend[s] = pend.get(s, 0.0) + eff if s in pend else eff
        got_h = {s: F(v) for s, v in post["holdings"]}
        got_p = {s: F(v) for s, v in post["pending"]}

        def same(a, b):
            return set(a) == set(b) and all(a[x] == b[x] or (math.isnan(a[x]) and math.isnan(b[x])) for x in a)
        if not same(hold, got_h):
            return dict(step=k, op=o, what="holdings do not reconcile with the executed trades", expected=hold, got=got_h)
        if any(v == 0.0 for v in got_h.values()):
            return dict(step=k, what="a zero position is present in holdings")
        if not same(pend, got_p):
            return dict(step=k, op=o, what="pending exposure is not the signed quantity of accepted, unfilled orders",
                        expected=pend, got=got_p)
        if json.dumps(log, sort_keys=True) != json.dumps(post["log"], sort_keys=True):
            return dict(step=k, what="trade log differs from the trades executed, in order")
        for p in post["per_sym"]:
            s = p["sym"]
            want = (got_h.get(s, 0.0) + got_p.get(s, 0.0)) if (s in got_h or s in got_p) else None
            got = None if p["with_pending"] is None else F(p["with_pending"])
            if (want is None) != (got is None) or (want is not None and not (want == got or (math.isnan(want) and math.isnan(got)))):
                return dict(step=k, what="holdings-with-pending is not holdings + pending", sym=s, want=want, got=got)
    return None


def gate_expected(pre, o):
    """C06's reading: 'forward' | 'refuse' | None (no last-seen quote: outside the statement)"""
    q = [x for x in pre["quotes"] if x["key"] == o["symbol"]]
    if pre["failed"]:
        return "refuse"
    if not q:
        return None
    shares = F(o["shares"])
    if math.isnan(shares):
        return None
    if shares == 0.0:
        return "refuse"
    buy = not o["type"].endswith("Sell")
    if buy and not (shares * F(q[0]["ask"]) < F(pre["cash"])):
        return "refuse"
    if o["type"] == "MarketSell":
        held = dict((s, F(v)) for s, v in pre["holdings"]).get(o["symbol"])
        # a symbol is held when its position is non-zero (C05: flat positions are absent)
        if held is not None and held != 0.0 and not (shares <= held):
            return "refuse"
    return "forward"


def oracle_c06(sc, steps):
    for k, st in enumerate(steps):
        op = st["op"]
        if op["op"] != "send":
            if st["panic"]:
                break
            continue
        exp = gate_expected(st["pre"], op["order"])
        if exp is None:
            if st["panic"]:
                break
            continue
        if st["panic"]:
            return dict(step=k, what="send_order panicked on a well-formed %s order for a quoted symbol: %s" % (
                op["order"]["type"], st["panic_msg"]), order=op["order"])
        res = st["res"]
        calls = [c["order"] for c in st["calls"] if c.get("call") == "insert_order"]
        effects = [c["order"] for c in st["calls"] if c.get("effect") == "insert_order"]
        if exp == "forward":
            if res["ev"] != "OrderSentToExchange":
                return dict(step=k, what="an order meeting all four conditions was refused", order=op["order"], event=res["ev"])
            buf_pre = st["server_pre"]["exch"]["buffer"]
            buf_post = st["server_post"]["exch"]["buffer"]
            want = exch.ukey(dict(op["order"], id=None, via=None))
            reached = [exch.ukey(dict(x, via=None)) for x in buf_post[len(buf_pre):]]
            if reached != [want]:
                return dict(step=k, what="forwarded order reached the exchange %d times (client %s); it must arrive exactly once, unchanged"
                            % (len(reached), "lazy" if st["lazy"] else "eager"), order=op["order"],
                            client_calls=len(calls), client_effects=len(effects))
        else:
            if res["ev"] != "OrderInvalid":
                return dict(step=k, what="an order that must be refused was forwarded", order=op["order"], event=res["ev"])
            keep = ("cash", "holdings", "pending", "log", "failed")
            if any(json.dumps(st["pre"][x], sort_keys=True) != json.dumps(st["post"][x], sort_keys=True) for x in keep) \
                    or calls or effects or json.dumps(st["server_pre"], sort_keys=True) != json.dumps(st["server_post"], sort_keys=True):
                return dict(step=k, what="a refused order left a trace (cash/holdings/pending/exchange changed)", order=op["order"])
    return None


def long_only(b):
    return all(F(v) > 0 for _, v in b["holdings"])


def bids_of(b):
    return {q["key"]: F(q["bid"]) for q in b["quotes"]}


def admissible_costs(costs):
    return all(F(x) >= 0 and (k != "pct" or F(x) <= 1) for k, x in costs)


def oracle_c09(sc, steps):
    for k, st in enumerate(steps):
        if st["panic"]:
            break
        pre, post, op, res = st["pre"], st["post"], st["op"], st["res"]
        o = op["op"]
        if pre["failed"]:
            if not post["failed"]:
                return dict(step=k, what="broker left the Failed state")
            if o in ("deposit", "withdraw") and (res["ev"] != "OperationFailure" or pre["cash"] != post["cash"]):
                return dict(step=k, what="%s in Failed state was not refused without effect" % o)
            if o == "send" and (res["ev"] != "OrderInvalid" or st["calls"]):
                return dict(step=k, what="order in Failed state was not refused without effect")
            continue
        if o != "check":
            if post["failed"]:
                return dict(step=k, what="broker became Failed outside the reconciliation of a tick", op=o)
            continue
        if not long_only(post) or not admissible_costs(st["costs"]) or any(b < 0 for b in bids_of(post).values()):
            continue
        cash, liq = F(post["cash"]), F(post["liquidation_value"])
        if math.isnan(cash) or math.isnan(liq):
            continue
        should_fail = cash < 0 and (cash * -1.0 + 1000.0) > liq
        if post["failed"] != should_fail:
            return dict(step=k, what="after reconciliation cash=%r, liquidation value=%r: Failed should be %s" % (cash, liq, should_fail))
        sent = [c["order"] for c in st["calls"] if c.get("call") == "insert_order"]
        if cash < 0 and not should_fail:
            if not sent or any(x["type"] != "MarketSell" for x in sent):
                return dict(step=k, what="negative balance left the broker Ready without (only) sell orders queued", sent=sent)
    return None


def oracle_c10(sc, steps):
    for k, st in enumerate(steps):
        if st["panic"]:
            break
        pre, post, op, res = st["pre"], st["post"], st["op"], st["res"]
        o = op["op"]
        sent = [c["order"] for c in st["calls"] if c.get("call") == "insert_order"]
        if o == "liq":
            if pre["failed"]:
                continue
            request, success, state = F(op["x"]), res["ev"] == "WithdrawSuccess", pre
            if not (request > F(pre["cash"])):
                continue
        elif o == "check":
            if pre["failed"] or not (F(post["cash"]) < 0):
                continue
            request, success, state = F(post["cash"]) * -1.0 + 1000.0, not post["failed"], post
        else:
            continue
        held = {s: F(v) for s, v in state["holdings"]}
        bids = bids_of(state)
        if not all(v > 0 and v == math.floor(v) for v in held.values()) or any(s not in bids or not bids[s] > 0 for s in held):
            continue
        if not admissible_costs(st["costs"]):
            continue
        if not success:
            if sent:
                return dict(step=k, what="liquidation reported failure but queued orders", sent=sent)
            continue
        if any(x["type"] != "MarketSell" for x in sent):
            return dict(step=k, what="liquidation created a non-sell order", sent=sent)
        raised = 0.0
        for x in sent:
            if F(x["shares"]) > held.get(x["symbol"], 0.0) * (1 + 1e-12):
                return dict(step=k, what="liquidation sells more than the position held", order=x, held=held.get(x["symbol"]))
            raised += F(x["shares"]) * bids[x["symbol"]]
        if raised < request * (1 - 1e-9) - 1e-9:
            return dict(step=k, what="liquidation reported success for %r but the queued sales are worth only %r at the last seen bids" % (request, raised),
                        sent=[(x["symbol"], F(x["shares"])) for x in sent], bids=bids, held=held)
    return None


def oracle_c11(sc, steps):
    last_bid = {}
    if steps:
        for q in steps[0]["pre"]["quotes"]:
            last_bid[q["key"]] = (F(q["bid"]), q["date"])
    for k, st in enumerate(steps):
        if st["panic"]:
            break
        for c in st["calls"]:
            if c.get("effect") == "fetch_quotes" and not c.get("err"):
                tick_ok = any(x.get("effect") == "tick" and not x.get("err") for x in st["calls"])
                if tick_ok:
                    for q in c["row"]:
                        last_bid[q["key"]] = (F(q["bid"]), q["date"])
        b = st["post"]
        clock = st["server_post"]["date"] if st["server_post"] else None
        held = {s: F(v) for s, v in b["holdings"]}
        total = F(b["cash"])
        for p in b["per_sym"]:
            s = p["sym"]
            if s in held and s in last_bid:
                want = last_bid[s][0] * held[s]
                if p["value"] is None or not close(F(p["value"]), want, 1e-12, 0):
                    return dict(step=k, what="position %s is not valued at quantity x last seen bid" % s, want=want,
                                got=None if p["value"] is None else F(p["value"]))
                if clock is not None and last_bid[s][1] > clock:
                    return dict(step=k, what="valuation uses a quote dated after the clock")
                total += want
            if p["cost_basis"] is not None and p["value"] is not None and p["qty"] is not None and p["profit"] is not None:
                want = F(p["value"]) - F(p["qty"]) * F(p["cost_basis"])
                if not close(F(p["profit"]), want, 1e-9, 1e-6):
                    return dict(step=k, what="position profit is not value - quantity x cost basis", sym=s)
            # cost basis from the log: trades since the position was last flat
            qn, vn = 0.0, 0.0
            for t in b["log"]:
                if t["symbol"] == s:
                    sgn = 1.0 if t["side"] == "Buy" else -1.0
                    qn += sgn * F(t["quantity"])
                    vn += sgn * F(t["value"])
                    if qn == 0.0:
                        vn = 0.0
            want_cb = None if qn == 0.0 else vn / qn
            got_cb = None if p["cost_basis"] is None else F(p["cost_basis"])
            if (want_cb is None) != (got_cb is None) or (want_cb is not None and not close(want_cb, got_cb, 1e-9, 1e-9)):
                return dict(step=k, what="cost basis of %s is not net amount paid / net quantity since last flat" % s,
                            want=want_cb, got=got_cb)
        if not close(F(b["total_value"]), total, 1e-9, 1e-6):
            return dict(step=k, what="total value is not cash + sum of position values", want=total, got=F(b["total_value"]))
        if long_only(b) and admissible_costs(st["costs"]) and all(v[0] >= 0 for v in last_bid.values()):
            if F(b["liquidation_value"]) > F(b["total_value"]) * (1 + 1e-12) + 1e-9:
                return dict(step=k, what="liquidation value exceeds total value for a long portfolio")
            if not st["costs"] and not close(F(b["liquidation_value"]), F(b["total_value"]), 1e-12, 1e-9):
                return dict(step=k, what="liquidation value differs from total value without trade costs")
    return None


def impact_total(costs, budget, price, is_buy):
    for k, x in costs:
        v = F(x)
        if k == "ps":
            price = price + v if is_buy else price - v
        elif k == "pct":
            budget = budget * (1.0 - v)
        else:
            budget = budget - v
    return budget, price


def oracle_c12(sc, steps):
    for k, st in enumerate(steps):
        if st["panic"]:
            break
        op = st["op"]
        if op["op"] != "diff":
            continue
        pre, res = st["pre"], st["res"]
        total = F(pre["liquidation_value"])
        if total == 0.0 or math.isnan(total) or not admissible_costs(st["costs"]):
            continue
        quotes = {q["key"]: q for q in pre["quotes"]}
        vals = {p["sym"]: p["value"] for p in pre["per_sym"]}
        want = {}
        side_only = {}
        for sym, w in (op.get("weights_used") or res.get("weights_order") or op["weights"]):
            cur = F(vals[sym]) if vals.get(sym) is not None else 0.0
            gap = total * F(w) - cur
            if sym not in quotes or gap == 0.0 or math.isnan(gap):
                continue
            q = quotes[sym]
            if gap > 0:
                nb, np_ = impact_total(st["costs"], abs(gap), F(q["ask"]), True)
            else:
                nb, np_ = impact_total(st["costs"], abs(gap), F(q["bid"]), False)
            if not np_ > 0:
                continue_ok = True
                want[sym] = None      # non-positive net price: the sizing formula is outside the statement ...
                side_only[sym] = "MarketBuy" if gap > 0 else "MarketSell"   # ... the direction and non-zero size are not
                continue
            n = math.floor(nb / np_)
            if n >= 1:
                want[sym] = ("MarketBuy" if gap > 0 else "MarketSell", float(n))
        got = {}
        seen_buy = False
        for o in res["orders"]:
            if o["symbol"] in got:
                return dict(step=k, what="more than one order for target symbol %s" % o["symbol"])
            got[o["symbol"]] = (o["type"], F(o["shares"]))
            if o["type"] == "MarketBuy":
                seen_buy = True
            elif seen_buy:
                return dict(step=k, what="a sell follows a buy in the rebalancing orders")
        for sym in set(want) | set(got):
            if sym in want and want[sym] is None:
                g = got.get(sym)
                if g is not None and (g[0] != side_only[sym] or g[1] == 0.0):
                    return dict(step=k, what="order for %s: the gap to the target calls for a %s (if anything), the broker "
                                "produced %s — an order in the opposite direction or of size zero" % (sym, side_only[sym], g),
                                weights=[(s, F(w)) for s, w in res["weights_order"]])
                continue
            if want.get(sym) != got.get(sym):
                return dict(step=k, what="order for %s: the property demands %s, the broker produced %s" % (
                    sym, want.get(sym), got.get(sym)), weights=[(s, F(w)) for s, w in res["weights_order"]],
                    weights_iteration_order=[x[0] for x in res["weights_order"]])
    return None


def oracle_c13_broker(sc, steps):
    """C13 read on the broker: the fees it computes for a trade are additive over the configured cost list, and a
    buy it sizes toward a target never costs more than the gap it was given, fees included"""
    costs = [(k, F(x)) for k, x in sc["costs"]]
    if not admissible_costs(sc["costs"]):
        return None
    for k, st in enumerate(steps):
        if st["panic"]:
            break
        op, res, pre = st["op"], st["res"], st["pre"]
        if op["op"] == "trade_costs":
            q, v = F(op["qty"]), F(op["value"])
            want = sum((x * q if kk == "ps" else x * v if kk == "pct" else x) for kk, x in costs)
            got = F(res["costs"])
            if not close(got, want, 1e-9, 1e-9):
                return dict(step=k, what="fees of a trade are not the sum over the configured cost list "
                            "(per-share x quantity, percentage x value, flat)", configured=[(a, b) for a, b in costs],
                            quantity=q, value=v, got=got, want=want)
        if op["op"] == "diff":
            total = F(pre["liquidation_value"])
            if total == 0.0 or math.isnan(total):
                continue
            quotes = {q["key"]: q for q in pre["quotes"]}
            vals = {p["sym"]: p["value"] for p in pre["per_sym"]}
            ws = dict((s_, F(w)) for s_, w in res["weights_order"])
            for o in res["orders"]:
                if o["type"] != "MarketBuy" or o["symbol"] not in quotes or o["symbol"] not in ws:
                    continue
                cur = F(vals[o["symbol"]]) if vals.get(o["symbol"]) is not None else 0.0
                gap = total * ws[o["symbol"]] - cur
                n, ask = F(o["shares"]), F(quotes[o["symbol"]]["ask"])
                spent = n * ask + sum((x * n if kk == "ps" else x * n * ask if kk == "pct" else x) for kk, x in costs)
                if gap > 0 and spent > gap * (1 + 1e-9) + 1e-6:
                    return dict(step=k, what="a buy sized toward the target costs more than its budget once the configured fees "
                                "are added", symbol=o["symbol"], shares=n, ask=ask, cost_with_fees=spent, budget=gap,
                                configured=[(a, b) for a, b in costs])
    return None


BORACLES = dict(C13=oracle_c13_broker, C04=oracle_c04, C05=oracle_c05, C06=oracle_c06, C09=oracle_c09, C10=oracle_c10, C11=oracle_c11,
                C12=oracle_c12)

BPROJ = {
    # property: (ops considered or None, aspect mask)
    "C04": (None, B_KIND | B_EVENT | B_CASH | B_FAILED),
    # B_STATE: the observed states must satisfy the model's reachable-state invariant (no zero position stored, keys
    # unique) wherever the property's theorems speak of "a held symbol" / "a long portfolio" / "the positions"
    "C05": (None, B_KIND | B_HOLDINGS | B_PENDING | B_LOG | B_GETTERS | B_STATE),
    "C06": (("send",), B_KIND | B_EVENT | B_CALLS | B_DELIVERED | B_CASH | B_HOLDINGS | B_PENDING | B_STATE),
    "C09": (None, B_KIND | B_FAILED | B_EVENT | B_CALLS | B_CASH | B_HOLDINGS | B_STATE),
    "C10": (("liq", "check"), B_KIND | B_EVENT | B_CALLS | B_PENDING | B_STATE),
    "C11": (("getters", "check", "trade_costs"), B_KIND | B_GETTERS | B_QUOTES | B_STATE),
    "C12": (("diff", "trade_costs"), B_KIND | B_ORDERS | B_GETTERS | B_STATE),
    # C13 as the broker uses the cost model (the configured list must be the one applied)
    "C13": (("diff", "trade_costs"), B_KIND | B_ORDERS | B_GETTERS),
}
# flags whose presence leaves the property's theorems true (decision-level quirks of other properties)


def gen_broker_suite(prop, tier, rng):
    n = tier_size(tier, 140, 3000)
    scs = []
    for i in range(n):
        lazy = (prop == "C06" and i % 3 == 0) or (prop in ("C05",) and i % 8 == 0)
        scs.append(gen_broker_scenario(rng, lazy=lazy, malformed=(i % 7 == 6),
                                       style="jumpy" if (prop in ("C09", "C10") and i % 2 == 0) else None))
    return scs


def classify_broker(prop, sc, steps):
    keys = set()
    for st in steps:
        op = st["op"]
        o = op["op"]
        if st["panic"]:
            keys.add((o, "panic"))
            continue
        pre, post, res = st["pre"], st["post"], st["res"]
        if o in ("deposit", "withdraw", "liq"):
            sent = len([c for c in st["calls"] if c.get("call") == "insert_order"])
            keys.add((o, res["ev"], "failed" if pre["failed"] else "ready", "le-cash" if F(op["x"]) <= F(pre["cash"]) else "gt-cash",
                      min(sent, 3)))
        elif o == "send":
            oo = op["order"]
            exp = gate_expected(pre, oo)
            keys.add((o, oo["type"], res["ev"], str(exp), "lazy" if st["lazy"] else "eager"))
        elif o == "check":
            n = len(trades_of(st["calls"]))
            sent = len([c for c in st["calls"] if c.get("call") == "insert_order"])
            keys.add((o, min(n, 3), "neg" if F(post["cash"]) < 0 else "pos", "failed" if post["failed"] else "ready",
                      "was-failed" if pre["failed"] else "was-ready", min(sent, 3)))
        elif o == "diff":
            kinds = tuple(sorted(set(x["type"] for x in res["orders"])))
            keys.add((o, len(op["weights"]), kinds, len(st["costs"])))
        elif o == "getters":
            keys.add((o, len(pre["holdings"]), len(st["costs"]), "flat" if not pre["log"] else "traded"))
        else:
            keys.add((o,))
    return keys


def run_property(res, prop, tier, seed, replay, prop_files):
    ob = obligations_or_violation(res, prop_files)
    wd = workdir(prop + "_brk")
    rng = random.Random(seed + 11)
    only_ops, amask = BPROJ[prop]
    if replay and json.load(open(replay)).get("component") == "broker":
        scs = [json.load(open(replay))["scenario"]]
    else:
        scs = [s for s in load_corpus(prop) if "dataset" in s] + gen_broker_suite(prop, tier, rng)
    trs, defs, terms, steps = run_brokers(wd, scs)

    def project(mism):
        out = []
        for sc, st, m in mism:
            if only_ops and steps[sc][st]["op"]["op"] not in only_ops:
                continue
            if m & amask:
                out.append((sc, st, bmask_names(m & amask)))
        return out
    eval_fn = make_eval(wd, defs, terms, project)

    def run_witness(sc):
        tr = run_harness("broker", [sc], wd, tag="w")[0]
        return broker_steps(sc, tr, 0)[2]
    oracle = BORACLES[prop]

    def shrink(sc, f):
        best, bestf = sc, f
        changed = True
        while changed and len(best["ops"]) > 1:
            changed = False
            for i in range(len(best["ops"]) - 1, -1, -1):
                cand = dict(best, ops=best["ops"][:i] + best["ops"][i + 1:])
                try:
                    ff = oracle(cand, run_witness(cand))
                except Exception:
                    ff = None
                if ff:
                    best, bestf, changed = cand, ff, True
                    break
        return best, bestf

    slice_verdict(res, prop, eval_fn=eval_fn, relevant=BROKER_FLAGS, scenarios=scs, traces_steps=steps,
                  oracle=oracle, run_witness=run_witness, component="broker",
                  theorem_hint="Props/%s.v (theorems about Model/Broker.v)" % prop, shrink=shrink)
    if prop in ("C04", "C05") and not replay:
        # the ledgers are built from what the ticks report: one backtest driven through more than 11 000 executed trades,
        # read directly ("one reported trade per executed order"); in the thorough tier also in lockstep with the model
        import server
        res.coverage.update(server.run_long_history(res, prop, wd, seed, 225, 50, lockstep=(tier == "thorough")))
    keys = set()
    n_steps = 0
    for sc, st in zip(scs, steps):
        keys |= classify_broker(prop, sc, st)
        n_steps += len(st)
    s0 = scs[len(scs) // 2]
    res.coverage.update(
        evaluations=n_steps, distinct_nontrivial=len(keys),
        rule="seeded random broker histories (deposit / withdraw / liquidation request / send_order of all six types / "
             "check / diff / getters) over generated datasets (4-12 dates, gaps, calm / jumpy / constant price paths), "
             "random cost lists, eager and lazy clients, boundary prefixes (shares x ask == cash, held == shares, "
             "almost-all-in before a price jump); each step compared with the model step from the implementation's "
             "own pre-state (projection: %s). distinct_nontrivial counts distinct (operation, event, state class, "
             "...) situations" % bmask_names(amask),
        samples=[dict(costs=[[k, show_f(x)] for k, x in s0["costs"]], lazy=s0["lazy"],
                      ops=[{k: (show_f(v) if k == "x" else v) for k, v in o.items()} for o in s0["ops"][:8]])],
        traces_validated_against_impl=len(scs), scenarios=len(scs),
        op_mix={k: sum(1 for sc in scs for o in sc["ops"] if o["op"] == k)
                for k in ("deposit", "withdraw", "liq", "send", "check", "diff", "getters", "trade_costs")},
        situations=sorted("/".join(str(x) for x in k) for k in keys)[:500])
    return ob
