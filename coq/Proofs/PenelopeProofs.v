(* PenelopeProofs.v — what every dataset built by Penelope::add_quote looks like: the premises the clock
   theorems (C07, C01, C11, C16) make about datasets, proved for all loading scripts. *)
From Coq Require Import ZArith NArith List Bool String Lia Sorted Permutation.
From Alator Require Import Model.Num Model.Exchange Model.Uist Model.Server Model.Penelope.
Import ListNotations.

Section PP.
Context {F : Type}.
Notation call := (F * F * Z * string)%type.

Definition c_date (c : call) : Z := snd (fst c).
Definition c_sym (c : call) : string := snd c.
Definition c_quote (c : call) : quote F := let '(b, a, d, s) := c in mkQuote b a d s.

(* specification, written independently: the quote in force for (date, symbol) is the LAST one added for it *)
Fixpoint last_call (calls : list call) (d : Z) (s : string) : option (quote F) :=
  match calls with
  | [] => None
  | c :: r =>
      match last_call r d s with
      | Some q => Some q
      | None => if Z.eqb d (c_date c) && String.eqb s (c_sym c) then Some (c_quote c) else None
      end
  end.

(* what a server shows for (date, symbol) *)
Definition shown (p : penelope F) (d : Z) (s : string) : option (quote F) :=
  match get_quotes p d with Some row => lookup row s | None => None end.

(* ---- association-list facts ---- *)
Lemma zlookup_app {A} (l l' : list (Z * A)) k :
  zlookup (l ++ l') k = match zlookup l k with Some x => Some x | None => zlookup l' k end.
Proof.
  induction l as [|[k' a] l IH]; cbn [List.app zlookup]; [reflexivity|].
  destruct (Z.eqb k k'); [reflexivity | exact IH].
Qed.

Lemma zlookup_zupdate {A} (l : list (Z * A)) k f k' :
  zlookup (zupdate l k f) k' = if Z.eqb k' k then option_map f (zlookup l k') else zlookup l k'.
Proof.
  induction l as [|[k0 a] l IH]; cbn [zupdate zlookup option_map].
  - destruct (Z.eqb k' k); reflexivity.
  - destruct (Z.eqb k k0) eqn:Ek0; cbn [zlookup].
    + apply Z.eqb_eq in Ek0; subst k0.
      destruct (Z.eqb k' k) eqn:E; [reflexivity | reflexivity].
    + destruct (Z.eqb k' k0) eqn:E0.
      * apply Z.eqb_eq in E0; subst k0.
        destruct (Z.eqb k' k) eqn:E; [|reflexivity].
        apply Z.eqb_eq in E; subst k'. rewrite Z.eqb_refl in Ek0. discriminate.
      * exact IH.
Qed.

Lemma zupdate_keys {A} (l : list (Z * A)) k f : map fst (zupdate l k f) = map fst l.
Proof.
  induction l as [|[k0 a] l IH]; cbn [zupdate map fst]; [reflexivity|].
  destruct (Z.eqb k k0); cbn [map fst]; [reflexivity | f_equal; exact IH].
Qed.

Lemma zlookup_none_iff {A} (l : list (Z * A)) k : zlookup l k = None <-> ~ In k (map fst l).
Proof.
  induction l as [|[k0 a] l IH]; cbn [zlookup map fst In].
  - split; [intros _ H; exact H | reflexivity].
  - destruct (Z.eqb k k0) eqn:E.
    + apply Z.eqb_eq in E. split; [discriminate | intros H; exfalso; apply H; left; symmetry; exact E].
    + apply Z.eqb_neq in E. rewrite IH. split.
      * intros H [H1 | H1]; [apply E; symmetry; exact H1 | exact (H H1)].
      * intros H H1. apply H. right. exact H1.
Qed.

Lemma lookup_supsert {A} (row : list (string * A)) s q s' :
  lookup (supsert row s q) s' = if String.eqb s' s then Some q else lookup row s'.
Proof.
  induction row as [|[k a] row IH]; cbn [supsert lookup].
  - destruct (String.eqb s' s); reflexivity.
  - destruct (String.eqb s k) eqn:Ek; cbn [lookup].
    + apply String.eqb_eq in Ek; subst k. destruct (String.eqb s' s); reflexivity.
    + destruct (String.eqb s' k) eqn:E'.
      * apply String.eqb_eq in E'; subst k.
        destruct (String.eqb s' s) eqn:E; [|reflexivity].
        apply String.eqb_eq in E; subst s'. rewrite String.eqb_refl in Ek. discriminate.
      * exact IH.
Qed.

Lemma supsert_keys_nodup {A} (row : list (string * A)) s q :
  NoDup (map fst row) -> NoDup (map fst (supsert row s q)) /\
  (forall k, In k (map fst (supsert row s q)) <-> k = s \/ In k (map fst row)).
Proof.
  induction row as [|[k a] row IH]; cbn [supsert map fst]; intros Hnd.
  - split; [constructor; [intros H; exact H | constructor] |].
    intros k; cbn [In]; split; [intros [H|H]; [left; symmetry; exact H | destruct H] |
                                 intros [H|H]; [left; symmetry; exact H | destruct H]].
  - inversion Hnd as [|? ? Hnin Hnd']; subst.
    destruct (String.eqb s k) eqn:Ek; cbn [map fst].
    + apply String.eqb_eq in Ek; subst k. split; [constructor; assumption|].
      intros k; cbn [In]; split; [intros [H|H]; [left; symmetry; exact H | right; right; exact H] |
                                   intros [H|[H|H]]; [left; symmetry; exact H | left; exact H | right; exact H]].
    + apply String.eqb_neq in Ek. destruct (IH Hnd') as [IH1 IH2]. split.
      * constructor; [|exact IH1]. intros H. apply IH2 in H. destruct H as [H|H]; [apply Ek; symmetry; exact H | exact (Hnin H)].
      * intros k0; cbn [In]. rewrite IH2. tauto.
Qed.

Lemma supsert_forall {A} (P : string * A -> Prop) (row : list (string * A)) s q :
  Forall P row -> P (s, q) -> Forall P (supsert row s q).
Proof.
  induction row as [|[k a] row IH]; cbn [supsert]; intros Hf Hp.
  - constructor; [exact Hp | constructor].
  - inversion Hf as [|? ? H1 H2]; subst. destruct (String.eqb s k).
    + constructor; assumption.
    + constructor; [exact H1 | apply IH; assumption].
Qed.

Lemma zupdate_forall {A} (P : Z * A -> Prop) (l : list (Z * A)) k f :
  Forall P l -> (forall a, P (k, a) -> P (k, f a)) -> Forall P (zupdate l k f).
Proof.
  induction l as [|[k0 a] l IH]; cbn [zupdate]; intros Hf Hp; [constructor|].
  inversion Hf as [|? ? H1 H2]; subst. destruct (Z.eqb k k0) eqn:E.
  - apply Z.eqb_eq in E; subst k0. constructor; [apply Hp; exact H1 | exact H2].
  - constructor; [exact H1 | apply IH; assumption].
Qed.

Lemma zlookup_in {A} (l : list (Z * A)) k v : zlookup l k = Some v -> In (k, v) l.
Proof.
  induction l as [|[k0 a] l IH]; cbn [zlookup]; [discriminate|].
  destruct (Z.eqb k k0) eqn:E; intros H.
  - apply Z.eqb_eq in E; subst k0. injection H as ->. left. reflexivity.
  - right. exact (IH H).
Qed.

Lemma lookup_nodup_in {A} (row : list (string * A)) k q :
  NoDup (map fst row) -> In (k, q) row -> lookup row k = Some q.
Proof.
  induction row as [|[k0 q0] row IH]; intros Hnd Hin; [destruct Hin|].
  cbn [lookup]. cbn [map fst] in Hnd. inversion Hnd as [|? ? Hnin Hnd']; subst.
  destruct Hin as [Hin|Hin].
  - injection Hin as -> ->. rewrite String.eqb_refl. reflexivity.
  - destruct (String.eqb k k0) eqn:E; [|exact (IH Hnd' Hin)].
    apply String.eqb_eq in E; subst k0. exfalso. apply Hnin.
    change k with (fst (k, q)). apply in_map. exact Hin.
Qed.

Lemma nodup_snoc {A} (l : list A) x : NoDup l -> ~ In x l -> NoDup (l ++ [x]).
Proof.
  induction l as [|y l IH]; cbn [List.app]; intros Hnd Hnin.
  - constructor; [intros H; exact H | constructor].
  - inversion Hnd as [|? ? H1 H2]; subst. constructor.
    + intros H. apply in_app_or in H. destruct H as [H|[H|[]]]; [exact (H1 H) | apply Hnin; left; symmetry; exact H].
    + apply IH; [exact H2 | intros H; apply Hnin; right; exact H].
Qed.

(* ---- the invariant of every reachable Penelope ---- *)
Definition row_ok (dr : Z * prow F) : Prop :=
  NoDup (map fst (snd dr)) /\
  Forall (fun kq => q_date (snd kq) = fst dr /\ q_symbol (snd kq) = fst kq) (snd dr) /\
  snd dr <> [].

Definition PInv (p : penelope F) : Prop :=
  NoDup (ds_dates p) /\ map fst (ds_rows p) = ds_dates p /\ Forall row_ok (ds_rows p).

Lemma pinv_new : PInv penelope_new.
Proof. split; [constructor | split; [reflexivity | constructor]]. Qed.

Lemma supsert_nonempty {A} (row : list (string * A)) s q : supsert row s q <> [].
Proof. destruct row as [|[k a] row]; cbn [supsert]; [discriminate | destruct (String.eqb s k); discriminate]. Qed.

Lemma add_quote_inv p b a d s : PInv p -> PInv (add_quote p b a d s).
Proof.
  intros (Hnd & Hkeys & Hrows). unfold add_quote, PInv.
  destruct (zlookup (ds_rows p) d) as [row|] eqn:El; cbn [ds_dates ds_rows].
  - split; [exact Hnd | split; [rewrite zupdate_keys; exact Hkeys |]].
    apply zupdate_forall; [exact Hrows|].
    intros r (H1 & H2 & H3). unfold row_ok; cbn [fst snd] in *.
    split; [apply (supsert_keys_nodup r s _ H1) | split; [|apply supsert_nonempty]].
    apply supsert_forall; [exact H2 | cbn [fst snd q_date q_symbol]; split; reflexivity].
  - apply zlookup_none_iff in El. rewrite Hkeys in El.
    split; [| split].
    + apply nodup_snoc; assumption.
    + rewrite map_app, Hkeys. reflexivity.
    + apply Forall_app; split; [exact Hrows|]. constructor; [|constructor].
      unfold row_ok; cbn [fst snd map]. split; [constructor; [intros H; exact H | constructor]|].
      split; [|discriminate]. constructor; [|constructor]. cbn [fst snd q_date q_symbol]. split; reflexivity.
Qed.

(* ---- loading scripts ---- *)
Lemma load_snoc (calls : list call) c :
  load (calls ++ [c]) = add_quote (load calls) (fst (fst (fst c))) (snd (fst (fst c))) (c_date c) (c_sym c).
Proof.
  unfold load. rewrite fold_left_app. cbn [fold_left]. destruct c as [[[b a] d] s]. reflexivity.
Qed.

Theorem load_inv (calls : list call) : PInv (load calls).
Proof.
  induction calls as [|c calls IH] using rev_ind; [exact pinv_new|].
  rewrite load_snoc. apply add_quote_inv. exact IH.
Qed.

Lemma last_call_snoc (calls : list call) c d s :
  last_call (calls ++ [c]) d s =
  if Z.eqb d (c_date c) && String.eqb s (c_sym c) then Some (c_quote c) else last_call calls d s.
Proof.
  induction calls as [|c0 calls IH]; cbn [List.app last_call].
  - destruct (Z.eqb d (c_date c) && String.eqb s (c_sym c)); reflexivity.
  - rewrite IH. destruct (Z.eqb d (c_date c) && String.eqb s (c_sym c)); reflexivity.
Qed.

Lemma shown_add p b a d s d' s' :
  shown (add_quote p b a d s) d' s' =
  if Z.eqb d' d && String.eqb s' s then Some (mkQuote b a d s) else shown p d' s'.
Proof.
  unfold shown, get_quotes, add_quote.
  destruct (zlookup (ds_rows p) d) as [row|] eqn:El; cbn [ds_rows].
  - rewrite zlookup_zupdate. destruct (Z.eqb d' d) eqn:Ed; cbn [andb]; [|reflexivity].
    apply Z.eqb_eq in Ed; subst d'. rewrite El. cbn [option_map]. apply lookup_supsert.
  - rewrite zlookup_app. destruct (Z.eqb d' d) eqn:Ed; cbn [andb].
    + apply Z.eqb_eq in Ed; subst d'. rewrite El. cbn [zlookup]. rewrite Z.eqb_refl.
      cbn [lookup]. destruct (String.eqb s' s); reflexivity.
    + destruct (zlookup (ds_rows p) d'); [reflexivity|]. cbn [zlookup]. rewrite Ed. reflexivity.
Qed.

(* the dataset shows, for every (date, symbol), exactly the last quote added for that pair — and nothing for
   pairs never added *)
Theorem load_shows_last_call (calls : list call) d s : shown (load calls) d s = last_call calls d s.
Proof.
  induction calls as [|c calls IH] using rev_ind; [reflexivity|].
  rewrite load_snoc, last_call_snoc, shown_add, IH. destruct c as [[[b a] d0] s0]. reflexivity.
Qed.

(* the dates are the distinct dates of the script in order of first appearance *)
Theorem load_dates (calls : list call) :
  ds_dates (load calls) = rev (nodup Z.eq_dec (rev (map c_date calls))).
Proof.
  induction calls as [|c calls IH] using rev_ind; [reflexivity|].
  rewrite load_snoc, map_app, rev_app_distr. cbn [map rev List.app nodup].
  destruct (load_inv calls) as (_ & Hkeys & _).
  unfold add_quote. destruct (zlookup (ds_rows (load calls)) (c_date c)) as [row|] eqn:El; cbn [ds_dates].
  - assert (Hin : In (c_date c) (rev (map c_date calls))).
    { destruct (in_dec Z.eq_dec (c_date c) (rev (map c_date calls))) as [H|H]; [exact H|].
      exfalso. assert (Hn : zlookup (ds_rows (load calls)) (c_date c) = None).
      { apply zlookup_none_iff. rewrite Hkeys, IH. rewrite <- in_rev, nodup_In. exact H. }
      rewrite Hn in El. discriminate. }
    destruct (in_dec Z.eq_dec (c_date c) (rev (map c_date calls))) as [_|H]; [exact IH | contradiction].
  - apply zlookup_none_iff in El. rewrite Hkeys, IH, <- in_rev, nodup_In in El.
    destruct (in_dec Z.eq_dec (c_date c) (rev (map c_date calls))) as [H|_]; [contradiction|].
    cbn [rev]. rewrite IH. reflexivity.
Qed.

Lemma sorted_snoc (l : list Z) x :
  StronglySorted Z.lt l -> Forall (fun y => (y < x)%Z) l -> StronglySorted Z.lt (l ++ [x]).
Proof.
  induction l as [|y l IH]; cbn [List.app]; intros Hs Hf.
  - constructor; constructor.
  - inversion Hs as [|? ? H1 H2]; inversion Hf as [|? ? H3 H4]; subst.
    constructor; [apply IH; assumption|]. apply Forall_app; split; [exact H2 | constructor; [exact H3 | constructor]].
Qed.

(* a script whose dates never go back (any number of symbols per date, quotes re-added at will) yields
   strictly increasing dates *)
Theorem load_sorted (calls : list call) :
  StronglySorted Z.le (map c_date calls) -> StronglySorted Z.lt (ds_dates (load calls)).
Proof.
  induction calls as [|c calls IH] using rev_ind; intros Hs; [constructor|].
  rewrite map_app in Hs. cbn [map] in Hs.
  assert (Hs' : StronglySorted Z.le (map c_date calls) /\ Forall (fun y => (y <= c_date c)%Z) (map c_date calls)).
  { clear IH. induction (map c_date calls) as [|y l IHl]; cbn [List.app] in Hs; [split; constructor|].
    inversion Hs as [|? ? H1 H2]; subst. destruct (IHl H1) as [Ha Hb].
    apply Forall_app in H2. destruct H2 as [H2 H3]. inversion H3; subst.
    split; [constructor; assumption | constructor; assumption]. }
  destruct Hs' as [Hs1 Hs2]. specialize (IH Hs1).
  rewrite load_snoc. destruct (load_inv calls) as (_ & Hkeys & _).
  unfold add_quote. destruct (zlookup (ds_rows (load calls)) (c_date c)) as [row|] eqn:El; cbn [ds_dates]; [exact IH|].
  apply zlookup_none_iff in El. rewrite Hkeys in El.
  apply sorted_snoc; [exact IH|].
  apply Forall_forall. intros y Hy.
  assert (Hy' : In y (map c_date calls)).
  { rewrite load_dates in Hy. rewrite <- in_rev, nodup_In, <- in_rev in Hy. exact Hy. }
  rewrite Forall_forall in Hs2. specialize (Hs2 y Hy').
  assert (y <> c_date c) by (intros ->; exact (El Hy)). lia.
Qed.

(* every quote a row shows carries the row's own date and is filed under its own symbol; rows are keyed
   uniquely and are never empty *)
Theorem load_rows_own_date (calls : list call) date row k q :
  get_quotes (load calls) date = Some row -> In (k, q) row -> q_date q = date /\ q_symbol q = k.
Proof.
  intros Hg Hin. destruct (load_inv calls) as (_ & _ & Hrows).
  unfold get_quotes in Hg. rewrite Forall_forall in Hrows.
  assert (Hin' : In (date, row) (ds_rows (load calls))).
  { clear Hrows. induction (ds_rows (load calls)) as [|[d0 r0] l IHl]; cbn [zlookup] in Hg; [discriminate|].
    destruct (Z.eqb date d0) eqn:E; [apply Z.eqb_eq in E; subst d0; injection Hg as ->; left; reflexivity |
                                      right; exact (IHl Hg)]. }
  destruct (Hrows _ Hin') as (_ & H2 & _). cbn [fst snd] in H2. rewrite Forall_forall in H2.
  exact (H2 _ Hin).
Qed.

Lemma load_row_member_shown (calls : list call) date row k q :
  get_quotes (load calls) date = Some row -> In (k, q) row -> shown (load calls) date k = Some q.
Proof.
  intros Hg Hin. unfold shown. rewrite Hg.
  destruct (load_inv calls) as (_ & _ & Hrows). rewrite Forall_forall in Hrows.
  destruct (Hrows _ (zlookup_in _ _ _ Hg)) as (Hnd & _ & _). cbn [snd] in Hnd.
  apply lookup_nodup_in; assumption.
Qed.

(* a date has a row exactly when it is one of the dataset's dates (so a tick never meets a missing row) *)
Theorem load_row_iff_date (calls : list call) date :
  get_quotes (load calls) date <> None <-> In date (ds_dates (load calls)).
Proof.
  destruct (load_inv calls) as (_ & Hkeys & _). unfold get_quotes. rewrite <- Hkeys.
  split.
  - intros H. destruct (in_dec Z.eq_dec date (map fst (ds_rows (load calls)))) as [Hi|Hi]; [exact Hi|].
    exfalso. apply H. apply zlookup_none_iff. exact Hi.
  - intros Hi Hn. apply zlookup_none_iff in Hn. exact (Hn Hi).
Qed.

End PP.
