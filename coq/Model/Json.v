(* Json.v — the JSON tree layer of the two HTTP services (http/uist.rs, http/jura.rs): how the
   serde-derived request/response types map to JSON trees (externally tagged enums, Option as null,
   maps as objects, unit as null) and back, and the handler layer (status 200 + body, or 400 when
   the in-process call returns None). The text layer (serde_json printing/parsing) and actix
   routing are not modelled. Definitions only. *)
From Coq Require Import ZArith NArith List Bool String.
From Alator Require Import Model.Num Model.Quirks Model.Exchange Model.Uist Model.Jura Model.Server.
Import ListNotations.
Local Open Scope string_scope.

Section Json.
Context {F : Type}.

Inductive json :=
| JNull
| JBool (b : bool)
| JInt (z : Z)            (* integer literal: u64 / i64 / usize fields *)
| JNum (x : F)            (* float literal: f64 fields *)
| JStr (s : string)
| JArr (l : list json)
| JObj (fields : list (string * json)).

Fixpoint jget (fields : list (string * json)) (k : string) : option json :=
  match fields with
  | [] => None
  | (k', v) :: r => if String.eqb k k' then Some v else jget r k
  end.

Definition obind {A B} (o : option A) (f : A -> option B) : option B :=
  match o with Some a => f a | None => None end.

Fixpoint omap_all {A B} (f : A -> option B) (l : list A) : option (list B) :=
  match l with
  | [] => Some []
  | a :: r => obind (f a) (fun b => obind (omap_all f r) (fun bs => Some (b :: bs)))
  end.

(* primitives *)
Definition dec_num (j : json) : option F := match j with JNum x => Some x | _ => None end.
Definition dec_int (j : json) : option Z := match j with JInt z => Some z | _ => None end.
Definition dec_nat (j : json) : option N :=
  match j with JInt z => if (0 <=? z)%Z then Some (Z.to_N z) else None | _ => None end.
Definition dec_bool (j : json) : option bool := match j with JBool b => Some b | _ => None end.
Definition dec_str (j : json) : option string := match j with JStr s => Some s | _ => None end.
Definition enc_opt {A} (e : A -> json) (o : option A) : json :=
  match o with Some a => e a | None => JNull end.
Definition dec_opt {A} (d : json -> option A) (j : json) : option (option A) :=
  match j with JNull => Some None | _ => obind (d j) (fun a => Some (Some a)) end.
Definition enc_N (n : N) : json := JInt (Z.of_N n).

(* ---------------- Uist ---------------- *)
Definition otype_name (t : otype) : string :=
  match t with
  | MarketSell => "MarketSell" | MarketBuy => "MarketBuy" | LimitSell => "LimitSell"
  | LimitBuy => "LimitBuy" | StopSell => "StopSell" | StopBuy => "StopBuy"
  end.
Definition otype_of_name (s : string) : option otype :=
  if String.eqb s "MarketSell" then Some MarketSell else
  if String.eqb s "MarketBuy" then Some MarketBuy else
  if String.eqb s "LimitSell" then Some LimitSell else
  if String.eqb s "LimitBuy" then Some LimitBuy else
  if String.eqb s "StopSell" then Some StopSell else
  if String.eqb s "StopBuy" then Some StopBuy else None.

(* Order { order_id, order_type, symbol, shares, price } *)
Definition enc_uorder (o : option N * uorder F) : json :=
  JObj [("order_id", enc_opt enc_N (fst o));
        ("order_type", JStr (otype_name (uo_type (snd o))));
        ("symbol", JStr (uo_symbol (snd o)));
        ("shares", JNum (uo_shares (snd o)));
        ("price", enc_opt JNum (uo_price (snd o)))].
Definition dec_uorder (j : json) : option (option N * uorder F) :=
  match j with
  | JObj f =>
      obind (obind (jget f "order_id") (dec_opt dec_nat)) (fun id =>
      obind (obind (obind (jget f "order_type") dec_str) otype_of_name) (fun t =>
      obind (obind (jget f "symbol") dec_str) (fun sy =>
      obind (obind (jget f "shares") dec_num) (fun sh =>
      obind (obind (jget f "price") (dec_opt dec_num)) (fun p =>
      Some (id, mkUOrder t sy sh p))))))
  | _ => None
  end.

(* Trade { symbol, value, quantity, date, typ } *)
Definition enc_trade (t : trade F) : json :=
  JObj [("symbol", JStr (t_symbol t)); ("value", JNum (t_value t)); ("quantity", JNum (t_quantity t));
        ("date", JInt (t_date t)); ("typ", JStr (match t_side t with Buy => "Buy" | Sell => "Sell" end))].
Definition dec_trade (j : json) : option (trade F) :=
  match j with
  | JObj f =>
      obind (obind (jget f "symbol") dec_str) (fun sy =>
      obind (obind (jget f "value") dec_num) (fun v =>
      obind (obind (jget f "quantity") dec_num) (fun q =>
      obind (obind (jget f "date") dec_int) (fun d =>
      obind (obind (jget f "typ") dec_str) (fun ty =>
      if String.eqb ty "Buy" then Some (mkTrade sy v q d Buy)
      else if String.eqb ty "Sell" then Some (mkTrade sy v q d Sell) else None)))))
  | _ => None
  end.

(* PenelopeQuote { bid, ask, symbol, date } *)
Definition enc_quote (q : quote F) : json :=
  JObj [("bid", JNum (q_bid q)); ("ask", JNum (q_ask q)); ("symbol", JStr (q_symbol q)); ("date", JInt (q_date q))].
Definition dec_quote (j : json) : option (quote F) :=
  match j with
  | JObj f =>
      obind (obind (jget f "bid") dec_num) (fun b =>
      obind (obind (jget f "ask") dec_num) (fun a =>
      obind (obind (jget f "symbol") dec_str) (fun sy =>
      obind (obind (jget f "date") dec_int) (fun d => Some (mkQuote b a d sy)))))
  | _ => None
  end.

(* FetchQuotesResponse { quotes: HashMap<String, PenelopeQuote> } — a map is an object *)
Definition enc_row (r : quotes (quote F)) : json :=
  JObj [("quotes", JObj (map (fun kq => (fst kq, enc_quote (snd kq))) r))].
Definition dec_row (j : json) : option (quotes (quote F)) :=
  match j with
  | JObj f =>
      match jget f "quotes" with
      | Some (JObj kvs) => omap_all (fun kv => obind (dec_quote (snd kv)) (fun q => Some (fst kv, q))) kvs
      | _ => None
      end
  | _ => None
  end.

(* TickResponse { has_next, executed_trades, inserted_orders } *)
Definition utick : Type := (bool * (list (trade F) * list (N * uorder F)))%type.
Definition enc_utick (r : utick) : json :=
  JObj [("has_next", JBool (fst r));
        ("executed_trades", JArr (map enc_trade (fst (snd r))));
        ("inserted_orders", JArr (map (fun io => enc_uorder (Some (fst io), snd io)) (snd (snd r))))].
Definition dec_utick (j : json) : option utick :=
  match j with
  | JObj f =>
      obind (obind (jget f "has_next") dec_bool) (fun h =>
      match jget f "executed_trades", jget f "inserted_orders" with
      | Some (JArr ts), Some (JArr os) =>
          obind (omap_all dec_trade ts) (fun ts' =>
          obind (omap_all (fun j => obind (dec_uorder j) (fun io =>
                             match fst io with Some i => Some (i, snd io) | None => None end)) os) (fun os' =>
          Some (h, (ts', os'))))
      | _, _ => None
      end)
  | _ => None
  end.

(* InitResponse { backtest_id } ; InfoResponse { version, dataset } ; NowResponse { now, has_next } *)
Definition enc_init (i : N) : json := JObj [("backtest_id", enc_N i)].
Definition dec_init (j : json) : option N :=
  match j with JObj f => obind (jget f "backtest_id") dec_nat | _ => None end.
Definition enc_info (ds : string) : json := JObj [("version", JStr "v1"); ("dataset", JStr ds)].
Definition dec_info (j : json) : option string :=
  match j with
  | JObj f => obind (obind (jget f "version") dec_str) (fun v =>
              if String.eqb v "v1" then obind (jget f "dataset") dec_str else None)
  | _ => None
  end.
Definition enc_now (r : Z * bool) : json := JObj [("now", JInt (fst r)); ("has_next", JBool (snd r))].
Definition dec_now (j : json) : option (Z * bool) :=
  match j with
  | JObj f => obind (obind (jget f "now") dec_int) (fun n =>
              obind (obind (jget f "has_next") dec_bool) (fun h => Some (n, h)))
  | _ => None
  end.
Definition enc_unit (_ : unit) : json := JNull.
Definition dec_unit (j : json) : option unit := match j with JNull => Some tt | _ => None end.

(* requests *)
Definition enc_uinsert (o : uorder F) : json := JObj [("order", enc_uorder (None, o))].
Definition dec_uinsert (j : json) : option (uorder F) :=
  match j with JObj f => obind (obind (jget f "order") dec_uorder) (fun io => Some (snd io)) | _ => None end.
Definition enc_udelete (i : N) : json := JObj [("order_id", enc_N i)].
Definition dec_udelete (j : json) : option N :=
  match j with JObj f => obind (jget f "order_id") dec_nat | _ => None end.

(* ---------------- Jura ---------------- *)
(* the order as it travels: limit_px and sz are strings *)
Record jwire := mkJWire {
  jw_asset : N; jw_is_buy : bool; jw_limit_px : string; jw_sz : string; jw_reduce_only : bool;
  jw_cloid : option string; jw_type : jtype F }.

Definition tif_name (t : tif) : string := match t with Alo => "Alo" | Ioc => "Ioc" | Gtc => "Gtc" end.
Definition tif_of_name (s : string) : option tif :=
  if String.eqb s "Alo" then Some Alo else if String.eqb s "Ioc" then Some Ioc
  else if String.eqb s "Gtc" then Some Gtc else None.

(* externally tagged enum: {"Limit":{"tif":..}} | {"Trigger":{"trigger_px":..,"is_market":..,"tpsl":..}} *)
Definition enc_jtype (t : jtype F) : json :=
  match t with
  | JLimit tf => JObj [("Limit", JObj [("tif", JStr (tif_name tf))])]
  | JTrigger px m k =>
      JObj [("Trigger", JObj [("trigger_px", JNum px); ("is_market", JBool m);
                              ("tpsl", JStr (match k with Tp => "Tp" | Sl => "Sl" end))])]
  end.
Definition dec_jtype (j : json) : option (jtype F) :=
  match j with
  | JObj [("Limit", JObj f)] =>
      obind (obind (obind (jget f "tif") dec_str) tif_of_name) (fun tf => Some (JLimit tf))
  | JObj [("Trigger", JObj f)] =>
      obind (obind (jget f "trigger_px") dec_num) (fun px =>
      obind (obind (jget f "is_market") dec_bool) (fun m =>
      obind (obind (jget f "tpsl") dec_str) (fun k =>
      if String.eqb k "Tp" then Some (JTrigger px m Tp)
      else if String.eqb k "Sl" then Some (JTrigger px m Sl) else None)))
  | _ => None
  end.

Definition enc_jwire (o : jwire) : json :=
  JObj [("asset", enc_N (jw_asset o)); ("is_buy", JBool (jw_is_buy o)); ("limit_px", JStr (jw_limit_px o));
        ("sz", JStr (jw_sz o)); ("reduce_only", JBool (jw_reduce_only o));
        ("cloid", enc_opt JStr (jw_cloid o)); ("order_type", enc_jtype (jw_type o))].
Definition dec_jwire (j : json) : option jwire :=
  match j with
  | JObj f =>
      obind (obind (jget f "asset") dec_nat) (fun a =>
      obind (obind (jget f "is_buy") dec_bool) (fun b =>
      obind (obind (jget f "limit_px") dec_str) (fun px =>
      obind (obind (jget f "sz") dec_str) (fun sz =>
      obind (obind (jget f "reduce_only") dec_bool) (fun ro =>
      obind (obind (jget f "cloid") (dec_opt dec_str)) (fun cl =>
      obind (obind (jget f "order_type") dec_jtype) (fun t =>
      Some (mkJWire a b px sz ro cl t))))))))
  | _ => None
  end.

(* Fill as it travels: px and sz are strings; the constant fields *)
Record fwire := mkFWire { fw_coin : string; fw_oid : N; fw_px : string; fw_side : string; fw_sz : string; fw_time : Z }.
Definition enc_fwire (x : fwire) : json :=
  JObj [("closed_pnl", JStr "0.0"); ("coin", JStr (fw_coin x)); ("crossed", JBool false); ("dir", JBool false);
        ("hash", JBool false); ("oid", enc_N (fw_oid x)); ("px", JStr (fw_px x)); ("side", JStr (fw_side x));
        ("start_position", JBool false); ("sz", JStr (fw_sz x)); ("time", JInt (fw_time x))].
Definition dec_fwire (j : json) : option fwire :=
  match j with
  | JObj f =>
      obind (obind (jget f "coin") dec_str) (fun c =>
      obind (obind (jget f "oid") dec_nat) (fun o =>
      obind (obind (jget f "px") dec_str) (fun px =>
      obind (obind (jget f "side") dec_str) (fun sd =>
      obind (obind (jget f "sz") dec_str) (fun sz =>
      obind (obind (jget f "time") dec_int) (fun t => Some (mkFWire c o px sd sz t)))))))
  | _ => None
  end.

(* Jura TickResponse { has_next, executed_trades, inserted_orders [, triggered_order_ids] } *)
Context (qk : quirks).
Definition jtick : Type := (bool * (list fwire * list jwire * list N))%type.
Definition enc_jtick (r : jtick) : json :=
  let '(h, (fl, os, trig)) := r in
  JObj ([("has_next", JBool h); ("executed_trades", JArr (map enc_fwire fl));
         ("inserted_orders", JArr (map enc_jwire os))]
        ++ (if q_jura_http_drops_triggered qk then []      (* the defect: the ids are not transported *)
            else [("triggered_order_ids", JArr (map enc_N trig))])).
Definition dec_jtick (j : json) : option jtick :=
  match j with
  | JObj f =>
      obind (obind (jget f "has_next") dec_bool) (fun h =>
      match jget f "executed_trades", jget f "inserted_orders" with
      | Some (JArr fl), Some (JArr os) =>
          obind (omap_all dec_fwire fl) (fun fl' =>
          obind (omap_all dec_jwire os) (fun os' =>
          match jget f "triggered_order_ids" with
          | Some (JArr tr) => obind (omap_all dec_nat tr) (fun tr' => Some (h, (fl', os', tr')))
          | Some _ => None
          | None => Some (h, (fl', os', []))
          end))
      | _, _ => None
      end)
  | _ => None
  end.
Definition enc_jinsert (o : jwire) : json := JObj [("order", enc_jwire o)].
Definition dec_jinsert (j : json) : option jwire :=
  match j with JObj f => obind (jget f "order") dec_jwire | _ => None end.
Definition enc_jdelete (k : N * N) : json := JObj [("asset", enc_N (fst k)); ("order_id", enc_N (snd k))].
Definition dec_jdelete (j : json) : option (N * N) :=
  match j with
  | JObj f => obind (obind (jget f "asset") dec_nat) (fun a =>
              obind (obind (jget f "order_id") dec_nat) (fun i => Some (a, i)))
  | _ => None
  end.

(* ---------------- the handler layer ---------------- *)
(* a response: HTTP status and body *)
Definition response : Type := (nat * json)%type.
Definition bad_request (msg : string) : response := (400%nat, JStr msg).

(* handler = lock; call the AppState operation; Some x -> 200 + Json(x), None -> 400 *)
Definition respond {A} (e : A -> json) (err : string) (r : option A) : response :=
  match r with Some a => (200%nat, e a) | None => bad_request err end.
(* what a client gets back after JSON decoding: Some (Some x) = 200 with a decodable body,
   Some None = 400, None = undecodable *)
Definition receive {A} (d : json -> option A) (r : response) : option (option A) :=
  if Nat.eqb (fst r) 200 then obind (d (snd r)) (fun a => Some (Some a))
  else if Nat.eqb (fst r) 400 then Some None else None.

End Json.

Arguments json F : clear implicits.
Arguments jwire F : clear implicits.
