(* ExchangeCorollaries.v — consequences of Proofs/ExchangeProofs.v: the fate of a single resting
   order on a tick, admission facts, id monotonicity over a run, and the instantiations for the two
   concrete exchanges (Uist tick specification; Jura order lifecycles).
   Statements are those of Proofs/ExchCorTargets.txt. *)
From Coq Require Import ZArith NArith List Bool String Lia Permutation Sorted.
From Alator Require Import Model.Num Model.Quirks Model.Exchange Model.Uist Model.Jura
  Proofs.ListAux Proofs.ExchangeProofs Proofs.UistProofs Proofs.JuraProofs.
Import ListNotations.

Section SkelCor.
Context {Ord Qt T : Type}.
Context (asset_of : Ord -> N) (sym_of : Ord -> string) (is_sell : Ord -> bool).
Context (decide : entry Ord -> Qt -> action Ord T).

Local Notation tk := (tick asset_of sym_of is_sell decide).
Local Notation stp := (step asset_of sym_of is_sell decide).
Local Notation rn := (run asset_of sym_of is_sell decide).
Local Notation act := (action_of sym_of decide).
Local Notation kp := (keeps sym_of decide).
Local Notation aw := (after_walk sym_of decide).
Local Notation fo := (fill_of sym_of decide).
Local Notation co := (child_of sym_of decide).

(* ---- Insert only appends to the buffer; Delete only touches the book ---------------------- *)
Lemma insert_spec s o :
  step asset_of sym_of is_sell decide s (Insert o) = (mkExch (book s) (buffer s ++ [o]) (next_id s) (xlog s), OutUnit).
Proof. reflexivity. Qed.

Lemma matches_le1 k (b : list (entry Ord)) :
  NoDup (ids b) -> (List.length (filter (matches asset_of k) b) <= 1)%nat.
Proof.
  induction b as [|e b IH]; intros Hnd; [cbn; lia|].
  unfold ids in Hnd. cbn [map] in Hnd. inversion Hnd as [|? ? Hnin Hnd']; subst.
  cbn [filter]. destruct (matches asset_of k e) eqn:Hm.
  - assert (Hnone : filter (matches asset_of k) b = []).
    { destruct (filter (matches asset_of k) b) as [|x r] eqn:Hf; [reflexivity|].
      exfalso. assert (Hx : In x (filter (matches asset_of k) b)) by (rewrite Hf; left; reflexivity).
      apply filter_In in Hx. destruct Hx as [Hx Hmx]. apply Hnin.
      unfold matches in Hm, Hmx.
      apply andb_true_iff in Hm. apply andb_true_iff in Hmx.
      destruct Hm as [Hm _]. destruct Hmx as [Hmx _].
      apply N.eqb_eq in Hm. apply N.eqb_eq in Hmx.
      rewrite <- Hm, Hmx. apply in_map. exact Hx. }
    rewrite Hnone. cbn [List.length]. lia.
  - apply IH. exact Hnd'.
Qed.

Lemma delete_spec s k :
  Inv s ->
  step asset_of sym_of is_sell decide s (Delete k)
  = (mkExch (filter (fun e => negb (matches asset_of k e)) (book s)) (buffer s) (next_id s) (xlog s), OutUnit)
  /\ (List.length (filter (matches asset_of k) (book s)) <= 1)%nat.
Proof.
  intros [Hs _]. pose proof (SSorted_lt_NoDup _ Hs) as Hnd. split.
  - cbn [step]. rewrite (delete_first_filter asset_of k (book s) Hnd). reflexivity.
  - apply matches_le1. exact Hnd.
Qed.

(* ---- the book of every reachable state is sorted by id ------------------------------------ *)
Lemma reachable_inv ops : Inv (fst (run asset_of sym_of is_sell decide exch_init ops)).
Proof. apply inv_run. apply inv_init. Qed.

(* ---- helpers for the fate of one entry ---------------------------------------------------- *)
Lemma inv_id_inj (s : exch Ord T) e1 e2 :
  Inv s -> In e1 (book s) -> In e2 (book s) -> e_id e1 = e_id e2 -> e1 = e2.
Proof.
  intros [Hs _] H1 H2 Hid.
  apply (map_inj_in e_id (book s) e1 e2); try assumption.
  apply SSorted_lt_NoDup. exact Hs.
Qed.

Lemma inv_id_lt (s : exch Ord T) e : Inv s -> In e (book s) -> (e_id e < next_id s)%N.
Proof.
  intros [_ Hlt] He. rewrite Forall_forall in Hlt. apply Hlt. unfold ids. apply in_map. exact He.
Qed.

Lemma in_fill_inv qs (b : list (entry Ord)) i t :
  In (i, t) (flat_map (fo qs) b) ->
  exists e', In e' b /\ e_id e' = i /\ act qs e' = AFill t.
Proof.
  intros H. apply in_flat_map in H. destruct H as [e' [He' Hin]].
  exists e'. unfold fill_of in Hin.
  destruct (act qs e') as [| |t0| |c|] eqn:Ha; try (destruct Hin; fail).
  destruct Hin as [Hin|[]]. inversion Hin; subst. split; [exact He'|]. split; reflexivity.
Qed.

Lemma number_In_ex n (l : list Ord) o : In o l -> exists j, In (j, o) (number n l).
Proof.
  revert n. induction l as [|a l IH]; intros n H; [destruct H|].
  cbn [number]. destruct H as [H|H].
  - subst a. exists n. left. reflexivity.
  - destruct (IH (N.succ n) H) as [j Hj]. exists j. right. exact Hj.
Qed.

(* a successful tick met no panicking order *)
Lemma tick_ok_no_panic s qs perm s' fl adm trig e :
  tk s qs perm = (s', OutTick fl adm trig) -> In e (book s) -> act qs e <> APanic.
Proof.
  intros Ht He Ha. unfold tick in Ht. rewrite walk_spec in Ht.
  destruct (forallb (fun e => match act qs e with APanic => false | _ => true end) (book s)) eqn:Hp.
  - rewrite forallb_forall in Hp. specialize (Hp e He). rewrite Ha in Hp. discriminate.
  - inversion Ht.
Qed.

Lemma fate_nofill (s : exch Ord T) qs e :
  Inv s -> In e (book s) -> (forall t, act qs e <> AFill t) ->
  ~ In (e_id e) (map fst (flat_map (fo qs) (book s))).
Proof.
  intros HI He Hna Hin. apply in_map_iff in Hin. destruct Hin as [[i t] [Hi Hin]].
  cbn [fst] in Hi. subst i.
  apply in_fill_inv in Hin. destruct Hin as [e' [He' [Hid Ha]]].
  assert (Heq : e' = e) by (apply (inv_id_inj s); assumption). subst e'.
  exact (Hna t Ha).
Qed.

Lemma fate_gone s qs perm s' fl adm trig e :
  Inv s -> tk s qs perm = (s', OutTick fl adm trig) -> In e (book s) ->
  kp qs e = false -> ~ In (e_id e) (ids (book s')).
Proof.
  intros HI Ht He Hk Hin.
  destruct (tick_ids asset_of sym_of is_sell decide s qs perm s' fl adm trig HI Ht) as [m [Hids Hn]].
  rewrite Hids in Hin. apply in_app_or in Hin. destruct Hin as [Hin|Hin].
  - unfold ids in Hin. apply in_map_iff in Hin. destruct Hin as [e' [Hid He']].
    apply filter_In in He'. destruct He' as [He' Hk'].
    assert (Heq : e' = e) by (apply (inv_id_inj s); assumption). subst e'. congruence.
  - apply in_map_iff in Hin. destruct Hin as [j [Hj _]].
    pose proof (inv_id_lt s e HI He) as Hlt. lia.
Qed.

Lemma fate_stays s qs perm s' fl adm trig e :
  Inv s -> tk s qs perm = (s', OutTick fl adm trig) -> In e (book s) ->
  kp qs e = true -> In (aw qs e) (book s').
Proof.
  intros HI Ht He Hk.
  destruct (tick_spec asset_of sym_of is_sell decide s qs perm s' fl adm trig HI Ht)
    as [sorted [Hap [Hperm [Hsf Hrest]]]].
  cbv zeta in Hrest. destruct Hrest as [Hfl [Htrig [Hadm [Hbk _]]]].
  rewrite Hbk. apply in_or_app. left. apply in_map. apply filter_In. split; assumption.
Qed.

(* ---- the fate of one resting order on a successful tick ----------------------------------- *)
Lemma tick_entry_fate s qs perm s' fl adm trig e :
  Inv s -> tick asset_of sym_of is_sell decide s qs perm = (s', OutTick fl adm trig) -> In e (book s) ->
  match action_of sym_of decide qs e with
  | ARest => In e (book s') /\ ~ In (e_id e) (map fst fl)
  | AMark => In (mark e) (book s') /\ ~ In (e_id e) (map fst fl)
  | AFill t => ~ In (e_id e) (ids (book s')) /\ In (e_id e, t) fl /\
               (forall t', In (e_id e, t') fl -> t' = t)
  | AExpire => ~ In (e_id e) (ids (book s')) /\ ~ In (e_id e) (map fst fl)
  | ATrigger c => ~ In (e_id e) (ids (book s')) /\ ~ In (e_id e) (map fst fl) /\
                  exists j, In j trig /\ (next_id s <= j)%N /\ In (mkEntry j c false) (book s')
  | APanic => False
  end.
Proof.
  intros HI Ht He.
  pose proof (tick_ok_no_panic s qs perm s' fl adm trig e Ht He) as Hnp.
  pose proof (fate_gone s qs perm s' fl adm trig e HI Ht He) as Hgone.
  pose proof (fate_stays s qs perm s' fl adm trig e HI Ht He) as Hstay.
  pose proof (fate_nofill s qs e HI He) as Hnofill.
  destruct (tick_spec asset_of sym_of is_sell decide s qs perm s' fl adm trig HI Ht)
    as [sorted [Hap [Hperm [Hsf Hrest]]]].
  cbv zeta in Hrest. destruct Hrest as [Hfl [Htrig [Hadm [Hbk _]]]].
  rewrite <- Hfl in Hnofill.
  unfold keeps, after_walk in Hgone, Hstay.
  destruct (act qs e) as [| |t| |c|] eqn:Ha.
  - split; [apply Hstay; reflexivity|apply Hnofill; intros t; discriminate].
  - split; [apply Hstay; reflexivity|apply Hnofill; intros t; discriminate].
  - split; [apply Hgone; reflexivity|]. split.
    + rewrite Hfl. apply in_flat_map. exists e. split; [exact He|].
      unfold fill_of. rewrite Ha. left. reflexivity.
    + intros t' Hin. rewrite Hfl in Hin. apply in_fill_inv in Hin.
      destruct Hin as [e' [He' [Hid Ha']]].
      assert (Heq : e' = e) by (apply (inv_id_inj s); assumption). subst e'.
      rewrite Ha in Ha'. inversion Ha'. reflexivity.
  - split; [apply Hgone; reflexivity|apply Hnofill; intros t; discriminate].
  - split; [apply Hgone; reflexivity|]. split; [apply Hnofill; intros t; discriminate|].
    assert (Hc : In c (flat_map (co qs) (book s))).
    { apply in_flat_map. exists e. split; [exact He|]. unfold child_of. rewrite Ha. left. reflexivity. }
    destruct (number_In_ex (next_id s) _ c Hc) as [j Hj].
    exists j. split; [|split].
    + rewrite Htrig. apply in_map_iff. exists (j, c). split; [reflexivity|exact Hj].
    + apply number_In in Hj. lia.
    + rewrite Hbk. apply in_or_app. right. apply in_or_app. left.
      apply in_map_iff. exists (j, c). split; [reflexivity|exact Hj].
  - apply Hnp. reflexivity.
Qed.

(* an order whose symbol has no quote on this tick keeps resting unchanged *)
Lemma tick_unquoted_rests s qs perm s' fl adm trig e :
  Inv s -> tick asset_of sym_of is_sell decide s qs perm = (s', OutTick fl adm trig) -> In e (book s) ->
  lookup qs (sym_of (e_ord e)) = None -> In e (book s') /\ ~ In (e_id e) (map fst fl).
Proof.
  intros HI Ht He Hq.
  pose proof (tick_entry_fate s qs perm s' fl adm trig e HI Ht He) as H.
  unfold action_of in H. rewrite Hq in H. exact H.
Qed.

(* the orders admitted by a tick are resting, unflagged, after it; they were in the buffer *)
Lemma tick_admitted_rest s qs perm s' fl adm trig j o :
  Inv s -> tick asset_of sym_of is_sell decide s qs perm = (s', OutTick fl adm trig) -> In (j, o) adm ->
  In (mkEntry j o false) (book s') /\ In o (buffer s) /\ ~ In j (map fst fl) /\ (next_id s <= j < next_id s')%N.
Proof.
  intros HI Ht Hin.
  destruct (tick_fills_old asset_of sym_of is_sell decide s qs perm s' fl adm trig HI Ht)
    as [_ [Hold [Hnew _]]].
  destruct (tick_spec asset_of sym_of is_sell decide s qs perm s' fl adm trig HI Ht)
    as [sorted [Hap [Hperm [Hsf Hrest]]]].
  cbv zeta in Hrest. destruct Hrest as [Hfl [Htrig [Hadm [Hbk [Hbuf [Hn Hx]]]]]].
  split; [|split; [|split]].
  - rewrite Hbk. apply in_or_app. right. apply in_or_app. right.
    apply in_map_iff. exists (j, o). split; [reflexivity|exact Hin].
  - rewrite Hadm in Hin. apply number_In_snd in Hin.
    eapply Permutation_in; [exact Hperm|exact Hin].
  - intros Hj. apply in_map_iff in Hj. destruct Hj as [[i t] [Hi Hit]]. cbn [fst] in Hi. subst i.
    destruct (Hold j t Hit) as [Hlt _]. specialize (Hnew j o Hin). lia.
  - rewrite Hadm in Hin. apply number_In in Hin. rewrite Hn. lia.
Qed.

(* ids handed out over the life of the exchange grow strictly with admission order *)
Definition assigned (x : out Ord T) : list N :=
  match x with OutTick _ adm trig => trig ++ map fst adm | _ => [] end.

Lemma assigned_step s o :
  Inv s ->
  StronglySorted N.lt (assigned (snd (stp s o))) /\
  Forall (fun i => (next_id s <= i < next_id (fst (stp s o)))%N) (assigned (snd (stp s o))).
Proof.
  intros HI. destruct o as [x|k|qs perm]; cbn [step fst snd assigned]; try (split; constructor).
  destruct (tick_cases asset_of sym_of is_sell decide s qs perm) as [Hc|[Hc|[s' [fl [adm [trig Hc]]]]]];
    rewrite Hc; cbn [fst snd assigned]; try (split; constructor).
  destruct (tick_spec asset_of sym_of is_sell decide s qs perm s' fl adm trig HI Hc)
    as [sorted [Hap [Hperm [Hsf Hrest]]]].
  cbv zeta in Hrest. destruct Hrest as [Hfl [Htrig [Hadm [Hbk [Hbuf [Hn Hx]]]]]].
  rewrite number_length in Hadm, Hn.
  assert (Heq : trig ++ map fst adm =
                map (fun k => (next_id s + N.of_nat k)%N)
                    (seq 0 (List.length (flat_map (co qs) (book s) ++ sorted)))).
  { rewrite Htrig, Hadm, <- map_app, <- number_app, number_fst. reflexivity. }
  rewrite Heq. split; [apply SSorted_map_seq|].
  apply Forall_forall. intros y Hy. apply in_map_iff in Hy. destruct Hy as [i [Hi Hi2]].
  apply in_seq in Hi2. rewrite app_length in Hi2. rewrite Hn. lia.
Qed.

Lemma assigned_sorted s ops :
  Inv s ->
  StronglySorted N.lt (flat_map assigned (snd (run asset_of sym_of is_sell decide s ops))) /\
  Forall (fun i => (next_id s <= i)%N) (flat_map assigned (snd (run asset_of sym_of is_sell decide s ops))).
Proof.
  revert s. induction ops as [|o r IH]; intros s HI.
  - cbn [run snd flat_map]. split; constructor.
  - rewrite run_cons_snd. cbn [flat_map].
    destruct (assigned_step s o HI) as [Hs1 Hb1].
    destruct (IH _ (inv_step asset_of sym_of is_sell decide s o HI)) as [Hs2 Hb2].
    pose proof (next_id_mono asset_of sym_of is_sell decide s o) as Hm.
    rewrite Forall_forall in Hb1. rewrite Forall_forall in Hb2.
    split.
    + apply SSorted_app; [exact Hs1|exact Hs2|].
      intros x y Hx Hy. specialize (Hb1 x Hx). specialize (Hb2 y Hy). lia.
    + apply Forall_app. split; apply Forall_forall; intros i Hi.
      * specialize (Hb1 i Hi). lia.
      * specialize (Hb2 i Hi). lia.
Qed.

End SkelCor.

(* ------------------------- Uist (C02), for every Num F ------------------------- *)
Section UistTick.
Context {F : Type} {NF : Num F}.
(* which resting orders fire on a tick with quotes qs *)
Definition ufires (qs : quotes (quote F)) (e : entry (uorder F)) : bool :=
  match lookup qs (uo_symbol (e_ord e)) with
  | Some q => uist_fires (e_ord e) q
  | None => false
  end.
Definition utrade (qs : quotes (quote F)) (e : entry (uorder F)) : list (N * trade F) :=
  match lookup qs (uo_symbol (e_ord e)) with
  | Some q => if uist_fires (e_ord e) q then [(e_id e, uist_trade (e_ord e) q)] else []
  | None => []
  end.

Lemma uist_action qs (e : entry (uorder F)) :
  action_of uo_symbol uist_decide qs e =
  match lookup qs (uo_symbol (e_ord e)) with
  | Some q => if uist_fires (e_ord e) q then AFill (uist_trade (e_ord e) q) else ARest
  | None => ARest
  end.
Proof.
  unfold action_of. destruct (lookup qs (uo_symbol (e_ord e))) as [q|]; [|reflexivity].
  destruct (uist_decide_cases e q) as [[Hf Hd]|[Hf Hd]]; rewrite Hf, Hd; reflexivity.
Qed.

Lemma uist_fill_of qs (e : entry (uorder F)) : fill_of uo_symbol uist_decide qs e = utrade qs e.
Proof.
  unfold fill_of, utrade. rewrite uist_action.
  destruct (lookup qs (uo_symbol (e_ord e))) as [q|]; [|reflexivity].
  destruct (uist_fires (e_ord e) q); reflexivity.
Qed.

Lemma uist_child_of qs (e : entry (uorder F)) : child_of uo_symbol uist_decide qs e = [].
Proof.
  unfold child_of. rewrite uist_action.
  destruct (lookup qs (uo_symbol (e_ord e))) as [q|]; [|reflexivity].
  destruct (uist_fires (e_ord e) q); reflexivity.
Qed.

Lemma uist_keeps qs (e : entry (uorder F)) : keeps uo_symbol uist_decide qs e = negb (ufires qs e).
Proof.
  unfold keeps, ufires. rewrite uist_action.
  destruct (lookup qs (uo_symbol (e_ord e))) as [q|]; [|reflexivity].
  destruct (uist_fires (e_ord e) q); reflexivity.
Qed.

Lemma uist_after_walk qs (e : entry (uorder F)) : after_walk uo_symbol uist_decide qs e = e.
Proof.
  unfold after_walk. rewrite uist_action.
  destruct (lookup qs (uo_symbol (e_ord e))) as [q|]; [|reflexivity].
  destruct (uist_fires (e_ord e) q); reflexivity.
Qed.

Lemma flat_map_all_nil {A B : Type} (f : A -> list B) (l : list A) :
  (forall x, f x = []) -> flat_map f l = [].
Proof.
  intros H. induction l as [|a l IH]; [reflexivity|]. cbn [flat_map]. rewrite H, IH. reflexivity.
Qed.

(* a Uist tick never panics; its fills are exactly one per firing order, in book order; the orders
   that did not fire (condition not met, or no quote) keep resting unchanged, followed by the batch *)
Lemma uist_tick_spec (s : uexch F) qs perm s' fl adm trig :
  Inv s -> uist_tick s qs perm = (s', OutTick fl adm trig) ->
  fl = flat_map (utrade qs) (book s) /\
  trig = [] /\
  book s' = filter (fun e => negb (ufires qs e)) (book s) ++ map fresh_entry adm /\
  map snd adm = (match apply_perm (buffer s) perm with Some l => l | None => [] end).
Proof.
  intros HI Ht. unfold uist_tick in Ht.
  destruct (tick_spec uist_asset uo_symbol uist_is_sell uist_decide s qs perm s' fl adm trig HI Ht)
    as [sorted [Hap [Hperm [Hsf Hrest]]]].
  cbv zeta in Hrest. destruct Hrest as [Hfl [Htrig [Hadm [Hbk _]]]].
  assert (Hkids : flat_map (child_of uo_symbol uist_decide qs) (book s) = []).
  { apply flat_map_all_nil. intros e. apply uist_child_of. }
  rewrite Hkids in Htrig, Hadm, Hbk. cbn [number map app] in Htrig, Hbk.
  split; [|split; [|split]].
  - rewrite Hfl. apply flat_map_ext. intros e. apply uist_fill_of.
  - exact Htrig.
  - rewrite Hbk. f_equal.
    rewrite (map_ext _ (fun e => e) (uist_after_walk qs)), map_id.
    apply filter_ext. intros e. apply uist_keeps.
  - rewrite Hap, Hadm. apply number_snd.
Qed.

Lemma uist_tick_no_panic (s : uexch F) qs perm : snd (uist_tick s qs perm) <> OutPanic.
Proof.
  unfold uist_tick, tick. rewrite walk_spec.
  assert (Hp : forallb (fun e => match action_of uo_symbol uist_decide qs e with
                                 | APanic => false | _ => true end) (book s) = true).
  { apply forallb_forall. intros e _. rewrite uist_action.
    destruct (lookup qs (uo_symbol (e_ord e))) as [q|]; [|reflexivity].
    destruct (uist_fires (e_ord e) q); reflexivity. }
  rewrite Hp. cbv beta iota zeta.
  destruct (apply_perm (buffer s) perm) as [sorted|]; [|cbn [snd]; discriminate].
  destruct (sells_first uist_is_sell sorted); cbn [snd]; discriminate.
Qed.
End UistTick.

(* ------------------------- Jura lifecycle (C18), for every Num F, clean ------------------------- *)
Section JuraLife.
Context {F : Type} {NF : Num F}.
Notation jtick := (jura_tick (F:=F) clean).

Lemma jura_action_quoted qs (e : entry (jorder F)) q :
  lookup qs (N_to_string (jo_asset (e_ord e))) = Some q ->
  action_of jura_sym (jura_decide clean) qs e = jura_decide clean e q.
Proof. intros Hq. unfold action_of, jura_sym. rewrite Hq. reflexivity. Qed.

(* an IOC order that has not been tried: on a tick that quotes its asset it either fills (and leaves
   the book) or stays with the attempted flag set; on a tick without a quote nothing happens *)
Lemma ioc_lifecycle_first (s : jexch F) qs perm s' fl adm trig id o q price sz :
  Inv s -> jtick s qs perm = (s', OutTick fl adm trig) ->
  In (mkEntry id o false) (book s) ->
  jo_type o = JLimit Ioc -> jo_limit_px o = Some price -> jo_sz o = Some sz ->
  lookup qs (N_to_string (jo_asset o)) = Some q ->
  let cond := if jo_is_buy o then fleb (q_ask q) (fmul price (fadd fone ftenth))
              else fleb (fmul price (fsub fone ftenth)) (q_bid q) in
  if cond
  then ~ In id (ids (book s')) /\
       In (id, mkFill (N_to_string (jo_asset o)) id (if jo_is_buy o then q_ask q else q_bid q)
                      (jo_is_buy o) sz (q_date q)) fl
  else In (mkEntry id o true) (book s') /\ ~ In id (map fst fl).
Proof.
  intros HI Ht He Hty Hpx Hsz Hq. cbv zeta. unfold jura_tick in Ht.
  pose proof (tick_entry_fate jo_asset jura_sym jura_is_sell (jura_decide clean)
                s qs perm s' fl adm trig (mkEntry id o false) HI Ht He) as Hfate.
  rewrite (jura_action_quoted qs (mkEntry id o false) q Hq) in Hfate.
  rewrite (ioc_first_attempt id o q price sz Hty Hpx Hsz) in Hfate.
  cbn [e_id e_ord mark] in Hfate.
  destruct (jo_is_buy o).
  - destruct (fleb (q_ask q) (fmul price (fadd fone ftenth))).
    + destruct Hfate as [Hgone [Hin _]]. split; assumption.
    + exact Hfate.
  - destruct (fleb (fmul price (fsub fone ftenth)) (q_bid q)).
    + destruct Hfate as [Hgone [Hin _]]. split; assumption.
    + exact Hfate.
Qed.

(* once attempted: dropped without a fill at the next tick that quotes its asset *)
Lemma ioc_lifecycle_second (s : jexch F) qs perm s' fl adm trig id o q :
  Inv s -> jtick s qs perm = (s', OutTick fl adm trig) ->
  In (mkEntry id o true) (book s) -> jo_type o = JLimit Ioc ->
  lookup qs (N_to_string (jo_asset o)) = Some q ->
  ~ In id (ids (book s')) /\ ~ In id (map fst fl).
Proof.
  intros HI Ht He Hty Hq. unfold jura_tick in Ht.
  pose proof (tick_entry_fate jo_asset jura_sym jura_is_sell (jura_decide clean)
                s qs perm s' fl adm trig (mkEntry id o true) HI Ht He) as Hfate.
  rewrite (jura_action_quoted qs (mkEntry id o true) q Hq) in Hfate.
  rewrite (ioc_after_attempt id o q Hty) in Hfate.
  exact Hfate.
Qed.

(* a trigger order never fills; when its condition holds on a quoted tick it is replaced by a child
   with a fresh id, announced in that tick's result, resting unflagged *)
Lemma trigger_lifecycle (s : jexch F) qs perm s' fl adm trig id o fl0 q tp m k :
  Inv s -> jtick s qs perm = (s', OutTick fl adm trig) ->
  In (mkEntry id o fl0) (book s) -> jo_type o = JTrigger tp m k ->
  lookup qs (N_to_string (jo_asset o)) = Some q ->
  ~ In id (map fst fl) /\
  ((ShouldFire (jo_is_buy o) k tp q /\ ~ In id (ids (book s')) /\
    exists j, In j trig /\ (next_id s <= j)%N /\
              In (mkEntry j (trigger_child o (if m then Ioc else Gtc)) false) (book s'))
   \/ (~ ShouldFire (jo_is_buy o) k tp q /\ In (mkEntry id o fl0) (book s'))).
Proof.
  intros HI Ht He Hty Hq. unfold jura_tick in Ht.
  pose proof (tick_entry_fate jo_asset jura_sym jura_is_sell (jura_decide clean)
                s qs perm s' fl adm trig (mkEntry id o fl0) HI Ht He) as Hfate.
  rewrite (jura_action_quoted qs (mkEntry id o fl0) q Hq) in Hfate.
  destruct (trigger_decision (mkEntry id o fl0) q tp m k Hty) as [[Hsf Hd]|[Hsf Hd]];
    rewrite Hd in Hfate; cbn [e_id e_ord] in Hfate, Hsf.
  - destruct Hfate as [Hgone [Hnf Hex]]. split; [exact Hnf|]. left.
    split; [exact Hsf|]. split; [exact Hgone|exact Hex].
  - destruct Hfate as [Hin Hnf]. split; [exact Hnf|]. right. split; assumption.
Qed.
End JuraLife.
