//! UistV1 / JuraV1 driven directly: insert / delete / tick, with a full snapshot after every step.
use crate::util::*;
use rotala::exchange::jura_v1 as jv;
use rotala::exchange::uist_v1 as uv;
use rotala::input::penelope::{PenelopeQuote, PenelopeQuoteByDate};
use serde_json::{json, Value};

pub fn quotes_of(v: &Value) -> PenelopeQuoteByDate {
    let mut m = PenelopeQuoteByDate::new();
    for q in arr(v) {
        m.insert(
            s(&q["key"]),
            PenelopeQuote { bid: bf(&q["bid"]), ask: bf(&q["ask"]), symbol: s(&q["symbol"]), date: i(&q["date"]) },
        );
    }
    m
}

// ---------------------------------------------------------------------------------------------
// Uist

pub fn uist_type_of(t: &str) -> uv::OrderType {
    match t {
        "MarketSell" => uv::OrderType::MarketSell,
        "MarketBuy" => uv::OrderType::MarketBuy,
        "LimitSell" => uv::OrderType::LimitSell,
        "LimitBuy" => uv::OrderType::LimitBuy,
        "StopSell" => uv::OrderType::StopSell,
        "StopBuy" => uv::OrderType::StopBuy,
        _ => panic!("bad order type"),
    }
}

pub fn uist_order_of(v: &Value) -> uv::Order {
    let t = s(&v["type"]);
    let sym = s(&v["symbol"]);
    let shares = bf(&v["shares"]);
    let price = opt_bf(&v["price"]);
    let via_ctor = v.get("via").and_then(|x| x.as_str()) == Some("ctor");
    if via_ctor {
        match (t.as_str(), price) {
            ("MarketBuy", None) => return uv::Order::market_buy(sym, shares),
            ("MarketSell", None) => return uv::Order::market_sell(sym, shares),
            ("LimitBuy", Some(p)) => return uv::Order::limit_buy(sym, shares, p),
            ("LimitSell", Some(p)) => return uv::Order::limit_sell(sym, shares, p),
            ("StopBuy", Some(p)) => return uv::Order::stop_buy(sym, shares, p),
            ("StopSell", Some(p)) => return uv::Order::stop_sell(sym, shares, p),
            _ => {}
        }
    }
    // a deserialised order may arrive with an id already set (the exchange must overwrite it)
    let preset = v.get("order_id").and_then(|x| x.as_u64());
    uv::Order { order_id: preset, order_type: uist_type_of(&t), symbol: sym, shares, price }
}

pub fn uist_order_json(o: &uv::Order) -> Value {
    json!({
        "id": o.order_id, "type": format!("{:?}", o.order_type), "symbol": o.symbol,
        "shares": fb(o.shares), "price": opt_fb(o.price),
    })
}

pub fn uist_trade_json(t: &uv::Trade) -> Value {
    json!({
        "symbol": t.symbol, "value": fb(t.value), "quantity": fb(t.quantity), "date": t.date,
        "side": match t.typ { uv::TradeType::Buy => "Buy", uv::TradeType::Sell => "Sell" },
    })
}

pub fn uist_snap(e: &uv::UistV1) -> Value {
    let (book, buffer, next_id, log) = e.verif_snapshot();
    json!({
        "book": book.iter().map(uist_order_json).collect::<Vec<_>>(),
        "buffer": buffer.iter().map(uist_order_json).collect::<Vec<_>>(),
        "next_id": next_id,
        "log": log.iter().map(uist_trade_json).collect::<Vec<_>>(),
    })
}

fn run_uist(sc: &Value) -> Value {
    // both public constructors must give the same machine
    let mut e = if sc.get("via_default").and_then(|x| x.as_bool()) == Some(true) { uv::UistV1::default() } else { uv::UistV1::new() };
    let mut snaps = vec![uist_snap(&e)];
    let mut results = Vec::new();
    for op in arr(&sc["ops"]) {
        let r = catch(|| match s(&op["op"]).as_str() {
            "insert" => {
                e.insert_order(uist_order_of(&op["order"]));
                Value::Null
            }
            // a large batch as ONE step (a snapshot of the growing buffer after every single insert is quadratic in the
            // batch size: 15 GB for 4 097 orders)
            "insert_many" => {
                for o in arr(&op["orders"]) {
                    e.insert_order(uist_order_of(o));
                }
                Value::Null
            }
            "delete" => {
                e.delete_order(u(&op["id"]));
                Value::Null
            }
            "tick" => {
                let q = quotes_of(&op["quotes"]);
                let (trades, admitted) = e.tick(&q);
                json!({
                    "trades": trades.iter().map(uist_trade_json).collect::<Vec<_>>(),
                    "admitted": admitted.iter().map(uist_order_json).collect::<Vec<_>>(),
                })
            }
            _ => panic!("bad op"),
        });
        match r {
            Ok(v) => {
                results.push(v);
                snaps.push(uist_snap(&e));
            }
            Err(m) => {
                results.push(panic_json(&m));
                break;
            }
        }
    }
    json!({ "snaps": snaps, "results": results, "order_size": std::mem::size_of::<rotala::exchange::uist_v1::Order>() })
}

// ---------------------------------------------------------------------------------------------
// Jura

/// scenario order -> serde JSON of jura_v1::Order (floats given as bits are turned into numbers)
fn jura_order_serde_json(v: &Value) -> Value {
    let ot = &v["order_type"];
    let order_type = if let Some(l) = ot.get("Limit") {
        json!({ "Limit": { "tif": l["tif"] } })
    } else {
        let t = &ot["Trigger"];
        json!({ "Trigger": { "trigger_px": bf(&t["trigger_px"]), "is_market": t["is_market"], "tpsl": t["tpsl"] } })
    };
    json!({
        "asset": v["asset"], "is_buy": v["is_buy"], "limit_px": v["limit_px"], "sz": v["sz"],
        "reduce_only": v["reduce_only"], "cloid": v["cloid"], "order_type": order_type,
    })
}

pub fn jura_order_of(v: &Value) -> jv::Order {
    if let Some(c) = v.get("ctor").and_then(|x| x.as_str()) {
        let asset = u(&v["asset"]);
        let sz = s(&v["sz"]);
        let px = s(&v["limit_px"]);
        return match c {
            "market_buy" => jv::Order::market_buy(asset, &sz, &px),
            "market_sell" => jv::Order::market_sell(asset, sz, px),
            "limit_buy" => jv::Order::limit_buy(asset, sz, px),
            "limit_sell" => jv::Order::limit_sell(asset, sz, px),
            "stop_buy" => jv::Order::stop_buy(asset, sz, px),
            "stop_sell" => jv::Order::stop_sell(asset, sz, px),
            "takeprofit_buy" => jv::Order::takeprofit_buy(asset, sz, px),
            "takeprofit_sell" => jv::Order::takeprofit_sell(asset, sz, px),
            _ => panic!("bad ctor"),
        };
    }
    match serde_json::from_value(jura_order_serde_json(v)) {
        Ok(o) => o,
        Err(e) => {
            // the crate's Deserialize refuses this message; in-process callers can still build the same order through
            // the public constructors when its shape is one they produce (plain Ioc / Gtc limit, no cloid)
            let plain = v["reduce_only"].as_bool() == Some(false) && v["cloid"].is_null();
            let tif = v["order_type"].get("Limit").and_then(|l| l["tif"].as_str()).map(|t| t.to_string());
            let (asset, sz, px, buy) = (u(&v["asset"]), s(&v["sz"]), s(&v["limit_px"]), v["is_buy"].as_bool() == Some(true));
            match (plain, tif.as_deref(), buy) {
                (true, Some("Ioc"), true) => jv::Order::market_buy(asset, &sz, &px),
                (true, Some("Ioc"), false) => jv::Order::market_sell(asset, sz, px),
                (true, Some("Gtc"), true) => jv::Order::limit_buy(asset, sz, px),
                (true, Some("Gtc"), false) => jv::Order::limit_sell(asset, sz, px),
                _ => panic!("jura order json (no constructor builds this shape either): {}", e),
            }
        }
    }
}

/// the JSON body a client would send for this scenario order: the scenario's own JSON when it is given as JSON (so
/// that the server's Deserialize sees exactly that message), the serialisation of the constructed order otherwise
pub fn jura_order_wire_json(v: &Value) -> Value {
    if v.get("ctor").is_some() {
        serde_json::to_value(jura_order_of(v)).unwrap()
    } else {
        jura_order_serde_json(v)
    }
}

fn parse_bits(x: &Value) -> Value {
    match x.as_str().and_then(|t| t.parse::<f64>().ok()) {
        Some(f) => fb(f),
        None => Value::Null,
    }
}

/// observed order: strings kept, plus what the code's own parse::<f64>() makes of them
pub fn jura_order_json(o: &jv::Order) -> Value {
    let v = serde_json::to_value(o).unwrap();
    let ot = &v["order_type"];
    let order_type = if let Some(l) = ot.get("Limit") {
        json!({ "Limit": { "tif": l["tif"] } })
    } else {
        let t = &ot["Trigger"];
        json!({ "Trigger": { "trigger_px": fb(t["trigger_px"].as_f64().unwrap_or(f64::NAN)),
                             "is_market": t["is_market"], "tpsl": t["tpsl"] } })
    };
    json!({
        "asset": v["asset"], "is_buy": v["is_buy"], "limit_px": v["limit_px"], "sz": v["sz"],
        "limit_px_parsed": parse_bits(&v["limit_px"]), "sz_parsed": parse_bits(&v["sz"]),
        "reduce_only": v["reduce_only"], "cloid": v["cloid"], "order_type": order_type,
    })
}

pub fn jura_fill_json(f: &jv::Fill) -> Value {
    let const_ok = f.closed_pnl == "0.0" && !f.crossed && !f.dir && !f.hash && !f.start_position;
    json!({
        "coin": f.coin, "oid": f.oid, "px": parse_bits(&Value::from(f.px.clone())),
        "side": f.side, "sz": parse_bits(&Value::from(f.sz.clone())), "time": f.time,
        "const_ok": const_ok, "px_str": f.px, "sz_str": f.sz,
    })
}

pub fn jura_snap(e: &jv::JuraV1) -> Value {
    let (book, buffer, next_id, log) = e.verif_snapshot();
    json!({
        "book": book.iter().map(|(id, o, fl)| json!({"id": id, "order": jura_order_json(o), "flag": fl})).collect::<Vec<_>>(),
        "buffer": buffer.iter().map(jura_order_json).collect::<Vec<_>>(),
        "next_id": next_id,
        "log": log.iter().map(jura_fill_json).collect::<Vec<_>>(),
    })
}

fn run_jura(sc: &Value) -> Value {
    let mut e = if sc.get("via_default").and_then(|x| x.as_bool()) == Some(true) { jv::JuraV1::default() } else { jv::JuraV1::new() };
    let mut snaps = vec![jura_snap(&e)];
    let mut results = Vec::new();
    let mut inserted = Vec::new();
    for op in arr(&sc["ops"]) {
        let r = catch(|| match s(&op["op"]).as_str() {
            "insert" => {
                let o = jura_order_of(&op["order"]);
                let j = jura_order_json(&o);
                e.insert_order(o);
                json!({ "inserted": j })
            }
            "delete" => {
                e.delete_order(u(&op["asset"]), u(&op["id"]));
                Value::Null
            }
            "tick" => {
                let q = quotes_of(&op["quotes"]);
                let (fills, admitted, triggered) = e.tick(&q);
                json!({
                    "fills": fills.iter().map(jura_fill_json).collect::<Vec<_>>(),
                    "admitted": admitted.iter().map(jura_order_json).collect::<Vec<_>>(),
                    "triggered": triggered,
                })
            }
            _ => panic!("bad op"),
        });
        match r {
            Ok(v) => {
                inserted.push(Value::Null);
                results.push(v);
                snaps.push(jura_snap(&e));
            }
            Err(m) => {
                results.push(panic_json(&m));
                break;
            }
        }
    }
    json!({ "snaps": snaps, "results": results, "order_size": std::mem::size_of::<rotala::exchange::jura_v1::Order>() })
}

pub fn run(sc: &Value) -> Value {
    match s(&sc["kind"]).as_str() {
        "uist" => run_uist(sc),
        "jura" => run_jura(sc),
        _ => panic!("bad kind"),
    }
}
