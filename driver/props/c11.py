"""C11 — broker slice; see driver/broker.py and Props/C11.v"""
import broker


def run(res, tier, seed, replay):
    return broker.run_property(res, "C11", tier, seed, replay, ["C11", "C11quotes", "C11float"])
