(* C10 AT THE IEEE binary64 INSTANCE for whole-unit data: the sales queued by a successful liquidation are worth AT LEAST the request in exact integers — no tolerance. Statements only. `int_float x n`: the binary64 x is finite and equals the integer n; `zb s` is the whole-unit last seen bid of symbol s; `lrel b zh` ties the float broker to integer holdings zh (positive quantities, bids >= 1, every position worth less than 2^53); `zliq` is the integer twin of the liquidation loop, `zcdiv a b` the integer ceiling of a / b, `zvalue` the integer worth of a list of (symbol, quantity) at the bids, `znz` drops zero quantities, `sell_reads o (s, q)` says order o is a price-less market sell of q shares of s. Depends on the specification axioms the standard library declares for primitive floats / 63-bit integers and the classical reals (Flocq). *)
From Coq Require Import ZArith NArith List Bool String Floats Reals.
From Flocq Require Import Core.Raux IEEE754.BinarySingleNaN IEEE754.PrimFloat.
From Alator Require Import Model.Num Model.Quirks Model.Cost Model.Exchange Model.Uist Model.Broker
  Proofs.BrokerLedgerProofs Proofs.FloatExact Proofs.FloatCash Proofs.FloatWorth Proofs.FloatLiq.
Import ListNotations.
Local Open Scope list_scope.
(* the infix comparisons below are those of the IEEE instance built on the statement's own libm table *)
Local Hint Extern 0 (Num float) => match goal with t : libm_table |- _ => exact (FloatNum t) end : typeclass_instances.

(* Integer division through floats: for integers 0 <= a < 2^53 and 0 < b, ceil(a / b) computed in binary64 is the float of the mathematical ceiling — the rounding of the quotient never moves it across an integer (a non-integer a / b is at least 1 / b away from every integer, half an ulp of the quotient is smaller). *)
Theorem c10f_integer_division :
  forall (x y : float) (a b : Z),
         int_float x a ->
         int_float y b ->
         (0 <= a < 2 ^ 53)%Z ->
         (0 < b <= 2 ^ 1022)%Z ->
         int_float (float_ceil (x / y)) (zcdiv a b) /\ zcdiv a b = Zceil (IZR a / IZR b).
Proof. exact @div_ceil_int. Qed.

(* The loop, any iteration order: the float run is the integer run (remaining amount and every quantity), only market sells of distinct held symbols for at most the holding, and when nothing is left to raise the sells are worth at least the request — in exact integers. *)
Theorem c10f_loop :
  forall (tbl : libm_table) (zb : string -> Z) (b : broker float) 
           (zh : smap Z) (ord : list string) (c : float) (zr : Z) (rest : float)
           (sells : list (uorder float)),
         lrel zb b zh ->
         @NoDup string ord ->
         int_float c zr ->
         (0 <= zr < 2 ^ 53)%Z ->
         @liq_loop float (FloatNum tbl) clean b ord c [] =
         @Ok (float * list (uorder float)) (rest, sells) ->
         let zrest := @fst Z (list (string * Z)) (zliq zb zh ord zr) in
         let zl := @snd Z (list (string * Z)) (zliq zb zh ord zr) in
         int_float rest zrest /\
         @Forall2 (uorder float) (string * Z) sell_reads sells zl /\
         (0 <= zrest <= zr)%Z /\
         (rest ==? @fzero float (FloatNum tbl))%num = (zrest =? 0)%Z /\
         @Forall (string * Z)
           (fun sq : string * Z =>
            exists h : Z,
              @sget Z zh (@fst string Z sq) = @Some Z h /\ (0 <= @snd string Z sq <= h)%Z) zl /\
         @incl string (@map (string * Z) string (@fst string Z) zl) ord /\
         @NoDup string (@map (string * Z) string (@fst string Z) zl) /\
         (zr - zrest <= zvalue zb zl)%Z /\
         ((rest ==? @fzero float (FloatNum tbl))%num = true ->
          (zr <= zvalue zb zl)%Z /\ (zr <= zvalue zb (znz zl))%Z).
Proof. exact @liq_loop_float. Qed.

(* The call, ANY cost list: on WithdrawSuccess the forwarded orders are exactly the non-zero sells of the loop, every one accepted by the gate, each for at most the position, distinct symbols, worth at least the request in integers; on WithdrawFailure nothing is queued and the broker is unchanged. *)
Theorem c10f_call :
  forall (tbl : libm_table) (zb : string -> Z) (b : broker float) 
           (zh : smap Z) (c : float) (zr : Z) (ord : list string) (b' : broker float)
           (ev : cash_event float) (fw : list (uorder float)),
         lrel zb b zh ->
         @b_failed float b = false ->
         int_float c zr ->
         (0 <= zr < 2 ^ 53)%Z ->
         @withdraw_cash_with_liquidation float (FloatNum tbl) clean b c ord =
         @Ok (broker float * cash_event float * list (uorder float)) (b', ev, fw) ->
         let zrest := @fst Z (list (string * Z)) (zliq zb zh ord zr) in
         let zl := @snd Z (list (string * Z)) (zliq zb zh ord zr) in
         match ev with
         | WithdrawSuccess x =>
             x = c /\
             zrest = 0%Z /\
             (exists (rest : float) (sells : list (uorder float)),
                @liq_loop float (FloatNum tbl) clean b ord c [] =
                @Ok (float * list (uorder float)) (rest, sells) /\
                (rest ==? @fzero float (FloatNum tbl))%num = true /\
                @Forall2 (uorder float) (string * Z) sell_reads sells zl /\ fw = fnz tbl sells) /\
             @Forall2 (uorder float) (string * Z) sell_reads fw (znz zl) /\
             @Forall (uorder float)
               (fun o : uorder float => @gate float (FloatNum tbl) clean b o = GForward) fw /\
             @Forall (string * Z)
               (fun sq : string * Z =>
                exists h : Z,
                  @sget Z zh (@fst string Z sq) = @Some Z h /\ (0 < @snd string Z sq <= h)%Z)
               (znz zl) /\
             @NoDup string (@map (string * Z) string (@fst string Z) (znz zl)) /\
             @incl string (@map (string * Z) string (@fst string Z) (znz zl)) ord /\
             (zr <= zvalue zb (znz zl))%Z
         | WithdrawFailure x => x = c /\ fw = [] /\ b' = b
         | _ => False
         end.
Proof. exact @liquidation_float. Qed.

(* Without costs the verdict itself is the integer verdict: success iff the request is covered by cash + positions and by the positions alone. *)
Theorem c10f_verdict :
  forall (tbl : libm_table) (zb : string -> Z) (b : broker float) 
           (zh : smap Z) (zc : Z) (c : float) (zr : Z) (ord : list string) 
           (b' : broker float) (ev : cash_event float) (fw : list (uorder float)),
         lrel zb b zh ->
         @NoDup string (@map (string * Z) string (@fst string Z) zh) ->
         @b_costs float b = [] ->
         int_float (@b_cash float b) zc ->
         (Z.abs zc + zhsum zb zh < 2 ^ 53)%Z ->
         int_float c zr ->
         (0 <= zr < 2 ^ 53)%Z ->
         @withdraw_cash_with_liquidation float (FloatNum tbl) clean b c ord =
         @Ok (broker float * cash_event float * list (uorder float)) (b', ev, fw) ->
         ev =
         (if (zr <=? zc + zhsum zb zh)%Z && (zr <=? zhsum zb zh)%Z
          then @WithdrawSuccess float c
          else @WithdrawFailure float c).
Proof. exact @liquidation_float_verdict. Qed.

(* The request of the automatic cash rebalancing (shortfall + 1000 for integer negative cash): the same, and Failed exactly on the failure branch with nothing queued. *)
Theorem c10f_rebalance :
  forall (tbl : libm_table) (zb : string -> Z) (b : broker float) 
           (zh : smap Z) (z : Z) (ord : list string) (b' : broker float)
           (fw : list (uorder float)),
         lrel zb b zh ->
         @b_failed float b = false ->
         int_float (@b_cash float b) z ->
         (z < 0)%Z ->
         (- z + 1000 < 2 ^ 53)%Z ->
         @rebalance_cash float (FloatNum tbl) clean b ord =
         @Ok (broker float * list (uorder float)) (b', fw) ->
         let zl := @snd Z (list (string * Z)) (zliq zb zh ord (- z + 1000)) in
         (@b_failed float b' = false ->
          @Forall2 (uorder float) (string * Z) sell_reads fw (znz zl) /\
          @Forall (uorder float)
            (fun o : uorder float => @gate float (FloatNum tbl) clean b o = GForward) fw /\
          @Forall (string * Z)
            (fun sq : string * Z =>
             exists h : Z,
               @sget Z zh (@fst string Z sq) = @Some Z h /\ (0 < @snd string Z sq <= h)%Z)
            (znz zl) /\
          @NoDup string (@map (string * Z) string (@fst string Z) (znz zl)) /\
          (- z + 1000 <= zvalue zb (znz zl))%Z) /\ (@b_failed float b' = true -> fw = []).
Proof. exact @rebalance_float. Qed.

(* Non-vacuity, kernel-evaluated and instantiated: ABC 5 @ 100, BCD 30 @ 10, cash 165, request 650: sells ABC 5 and BCD 15, worth 650. *)
Theorem c10f_example :
  @Forall2 (uorder float) (string * Z) sell_reads exl_sells
           [("ABC"%string, 5%Z); ("BCD"%string, 15%Z)] /\
         @Forall (uorder float)
           (fun o : uorder float => @gate float (FloatNum []) clean exl_b o = GForward) exl_sells /\
         (650 <= zvalue exl_zb [("ABC"%string, 5); ("BCD"%string, 15)])%Z.
Proof. exact @exl_theorem_instance. Qed.

(* Why whole units: with the binary64 bid nearest 147.2 and 47 840 to raise, 47840 / bid evaluates to exactly 325, the call reports success, and 325 x bid is less than 47 840 in binary64 — for fractional data the clause holds over the reals only (Props/C10.v). *)
Theorem c10f_why_whole_units :
  @liq_loop float (FloatNum []) clean exf_b ["ABC"%string] 47840%float [] =
         @Ok (float * list (uorder float))
           (0%float,
            [{|
               uo_type := MarketSell;
               uo_symbol := "ABC";
               uo_shares := 325%float;
               uo_price := @None float
             |}]) /\
         (exists b' : broker float,
            @withdraw_cash_with_liquidation float (FloatNum []) clean exf_b 47840%float
              ["ABC"%string] =
            @Ok (broker float * cash_event float * list (uorder float))
              (b', @WithdrawSuccess float 47840%float,
               [{|
                  uo_type := MarketSell;
                  uo_symbol := "ABC";
                  uo_shares := 325%float;
                  uo_price := @None float
                |}])) /\
         (47840 / exf_bid)%float = 325%float /\
         (325 * exf_bid <? 47840)%float = true /\
         (325 * exf_bid)%float = 47839.999999999993%float.
Proof. exact @exf_fractional_shortfall. Qed.

Print Assumptions c10f_integer_division.
Print Assumptions c10f_loop.
Print Assumptions c10f_call.
Print Assumptions c10f_verdict.
Print Assumptions c10f_rebalance.
Print Assumptions c10f_example.
Print Assumptions c10f_why_whole_units.
