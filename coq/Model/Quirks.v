(* Quirks.v — one boolean per defect of the code that the model can reproduce.
   [clean] (all false) is the behaviour the properties describe. Definitions only. *)
From Coq Require Import Bool.

Record quirks := mkQuirks {
  q_init_no_bump : bool;                (* http/{uist,jura}.rs init: id handed out never stored in `last` *)
  q_jura_pos_stuck : bool;              (* http/jura.rs tick: backtest.pos never stored *)
  q_jura_sell_triggers_inverted : bool; (* jura_v1.rs: SL-sell / TP-sell comparisons reversed *)
  q_send_dropped_future : bool;         (* broker/uist.rs send_order: insert_order future discarded *)
  q_limit_panics : bool;                (* broker/mod.rs client_has_sufficient_cash: unreachable! for limit/stop *)
  q_liq_ceil_precedence : bool;         (* broker/mod.rs liquidation: total_sold / price.ceil() *)
  q_diff_break : bool;                  (* broker/mod.rs diff: `break` on a zero gap *)
  q_diff_direction_flip : bool;         (* broker/mod.rs diff: negative floor flips the side *)
  q_strategy_ncf_self_add : bool;       (* staticweight.rs deposit_cash: net_cash_flow += net_cash_flow *)
  q_maxdd_last_positions : bool;        (* perf/mod.rs maxdd: returns last peak/trough *)
  q_liq_fail_debit : bool;              (* broker/mod.rs liquidation failure exits debit the request *)
  q_jura_http_drops_triggered : bool;   (* http/jura.rs TickResponse has no field for triggered ids *)
}.

Definition clean : quirks :=
  mkQuirks false false false false false false false false false false false false.
