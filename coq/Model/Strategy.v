(* Strategy.v — StaticWeightStrategy (strategy/staticweight.rs) over the broker model, and the full
   composition strategy + broker + eager client + Uist server + Uist exchange used by C16.
   Definitions only. *)
From Coq Require Import ZArith NArith List Bool String.
From Alator Require Import Model.Num Model.Quirks Model.Cost Model.Exchange Model.Uist Model.Server
  Model.Broker Model.Perf.
Import ListNotations.
Local Open Scope num_scope.

Section Strategy.
Context {F : Type} {NF : Num F}.
Context (qk : quirks).

Record strategy := mkStrategy {
  st_brkr : broker F;
  st_weights : list (string * F);      (* target weights in the iteration order of the map *)
  st_ncf : F;                          (* net_cash_flow *)
  st_history : list (snapshot F);
}.

(* StaticWeightStrategy::deposit_cash (private; called by init) *)
Definition st_deposit (s : strategy) (cash : F) : strategy :=
  let '(b', ev) := deposit_cash (st_brkr s) cash in
  let ncf := if q_strategy_ncf_self_add qk then st_ncf s + st_ncf s       (* the defect *)
             else match ev with DepositSuccess x => st_ncf s + x | _ => st_ncf s end in
  mkStrategy b' (st_weights s) ncf (st_history s).

(* diff then send_orders (DefaultTradingSchedule: always) -> broker, orders handed to the client *)
Definition trade_to_target (b : broker F) (ws : list (string * F)) (ord : list string)
  : res (broker F * list (uorder F)) :=
  bind (diff_orders qk b ws ord) (fun orders =>
  bind (send_orders qk b orders) (fun '(b2, _, fw) => Ok (b2, fw))).

(* init(cash): deposit, then trade toward the target *)
Definition st_init (s : strategy) (cash : F) (ord : list string) : res (strategy * list (uorder F)) :=
  let s1 := st_deposit s cash in
  bind (trade_to_target (st_brkr s1) (st_weights s1) ord) (fun '(b2, fw) =>
  Ok (mkStrategy b2 (st_weights s1) (st_ncf s1) (st_history s1), fw)).

(* update(): check, trade toward the target, record a snapshot dated `now` *)
Definition st_update (s : strategy) (resp : option (list (trade F) * list (string * quote F)))
  (now : Z) (ord : list string) : res (strategy * list (uorder F)) :=
  bind (check qk (st_brkr s) resp ord) (fun '(b1, fw1) =>
  bind (trade_to_target b1 (st_weights s) ord) (fun '(b2, fw2) =>
  let snap := mkSnap now (total_value b2 ord) (st_ncf s) fzero in
  Ok (mkStrategy b2 (st_weights s) (st_ncf s) (st_history s ++ [snap]), fw1 ++ fw2))).

Definition st_withdraw (s : strategy) (cash : F) : strategy * bool :=
  let '(b', ev) := withdraw_cash (st_brkr s) cash in
  match ev with
  | WithdrawSuccess x => (mkStrategy b' (st_weights s) (st_ncf s - x) (st_history s), true)
  | _ => (mkStrategy b' (st_weights s) (st_ncf s) (st_history s), false)
  end.

Definition st_withdraw_liq (s : strategy) (cash : F) (ord : list string)
  : res (strategy * bool * list (uorder F)) :=
  bind (withdraw_cash_with_liquidation qk (st_brkr s) cash ord) (fun '(b', ev, fw) =>
  match ev with
  | WithdrawSuccess x => Ok (mkStrategy b' (st_weights s) (st_ncf s - x) (st_history s), true, fw)
  | _ => Ok (mkStrategy b' (st_weights s) (st_ncf s) (st_history s), false, fw)
  end).

(* ---- the composition: strategy + broker + eager client + Uist server (one backtest [id]) ---- *)
Definition uapp := app (uexch F) (quotes (quote F)).
Definition utout : Type := (list (trade F) * list (N * uorder F))%type.

Definition ux_tick (x : uexch F) (r : quotes (quote F)) (perm : list nat) : option (uexch F * utout) :=
  match uist_tick x r perm with
  | (x', OutTick fl adm _) => Some (x', (map snd fl, adm))
  | _ => None
  end.
Definition ux_insert (x : uexch F) (o : uorder F) : uexch F := fst (uist_step x (Insert o)).
Definition ux_delete (x : uexch F) (i : N) : uexch F := fst (uist_step x (Delete (0%N, i))).
Definition usstep : uapp -> sop (uorder F) N -> uapp * sres (quotes (quote F)) utout :=
  sstep (exch_init : uexch F) ux_tick ux_insert ux_delete (([], []) : utout) qk false.

Definition forward (a : uapp) (id : N) (os : list (uorder F)) : uapp :=
  fold_left (fun a o => fst (usstep a (SInsert o id))) (delivered qk false os) a.

Record sys := mkSys { sy_strat : strategy; sy_app : uapp; sy_id : N }.

(* oracles of one update: the sort of the buffer, the holdings order after booking *)
Definition sys_update (y : sys) (perm : list nat) (ord : list string) : res sys :=
  let id := sy_id y in
  let '(a1, rt) := usstep (sy_app y) (STick id perm) in
  let '(a2, rf) := usstep a1 (SFetch id) in
  let resp := match rt, rf with
              | RTick (Some (_, (trades, _))), RFetch (Some row) => Some (trades, row)
              | _, _ => None
              end in
  match rt with
  | RPanic => Panic "exchange tick panicked or sort oracle rejected"
  | _ =>
      match usstep a2 (SNow id) with
      | (_, RNow (Some (now, _))) =>
          bind (st_update (sy_strat y) resp now ord) (fun '(s', fw) =>
          Ok (mkSys s' (forward a2 id fw) id))
      | _ => Panic "Clock::now: unwrap on Err"
      end
  end.

Definition sys_has_next (y : sys) : option bool :=
  match usstep (sy_app y) (SNow (sy_id y)) with
  | (_, RNow (Some (_, h))) => Some h
  | _ => None
  end.

(* run(): while has_next { update } — with fuel; the oracles are functions of the iteration number *)
Fixpoint sys_run (fuel : nat) (y : sys) (perms : nat -> list nat) (ords : nat -> list string) (k : nat)
  : res (sys * nat) :=
  match fuel with
  | O => BadOracle                    (* out of fuel: never a normal-looking value *)
  | S fuel' =>
      match sys_has_next y with
      | None => Panic "Clock::has_next: unwrap on Err"
      | Some false => Ok (y, k)
      | Some true =>
          bind (sys_update y (perms k) (ords k)) (fun y' => sys_run fuel' y' perms ords (S k))
      end
  end.

End Strategy.

Arguments strategy F : clear implicits.
Arguments sys F : clear implicits.
