(* C02 — Uist fills honour limit/stop conditions and use the correct side of the quote.
   Statements only. Every statement is for every number type F with operations Num F: no law of
   arithmetic is assumed, so they hold of the IEEE instance that is compared bit-for-bit with the
   code (NaNs included). *)
From Coq Require Import ZArith NArith List Bool String.
From Alator Require Import Model.Num Model.Exchange Model.Uist Proofs.UistProofs.
Local Open Scope num_scope.

(* A resting order whose symbol is quoted fires iff the property's condition holds. *)
Theorem c02_fires_iff : forall (F : Type) (NF : Num F) (o : uorder F) (q : quote F),
  well_formed o -> uist_fires o q = true <-> ShouldFill (uo_type o) (uo_price o) q.
Proof. exact @uist_fires_iff. Qed.

(* Buys fill at that tick's ask and sells at its bid, for exactly the ordered quantity, value =
   price x quantity, dated by the quote. *)
Theorem c02_trade_fields : forall (F : Type) (NF : Num F) (o : uorder F) (q : quote F),
  let t := uist_trade o q in
  t_symbol t = uo_symbol o /\ t_quantity t = uo_shares o /\ t_date t = q_date q /\
  (otype_is_sell (uo_type o) = false -> t_side t = Buy /\ t_value t = q_ask q * uo_shares o) /\
  (otype_is_sell (uo_type o) = true -> t_side t = Sell /\ t_value t = q_bid q * uo_shares o).
Proof. exact @uist_trade_fields. Qed.

(* The decision is fill-or-rest: nothing else ever happens to a Uist order. *)
Theorem c02_fill_or_rest : forall (F : Type) (NF : Num F) (e : entry (uorder F)) (q : quote F),
  (uist_fires (e_ord e) q = true /\ uist_decide e q = AFill (uist_trade (e_ord e) q)) \/
  (uist_fires (e_ord e) q = false /\ uist_decide e q = ARest).
Proof. exact @uist_decide_cases. Qed.

Print Assumptions c02_fires_iff.
Print Assumptions c02_trade_fields.
Print Assumptions c02_fill_or_rest.
