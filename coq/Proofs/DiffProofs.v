(* DiffProofs.v — C12: diff_brkr_against_target_weights (Model/Broker.v: diff_loop, diff_orders). *)
From Coq Require Import ZArith NArith List Bool String Reals Lra Lia Permutation.
From Flocq Require Import Raux.
From Alator Require Import Model.Num Model.Quirks Model.Cost Model.Exchange Model.Uist Model.Broker
  Proofs.CostProofs.
Import ListNotations.

Section AnyNum.
Context {F : Type} {NF : Num F}.

(* one unfolding step of the loop *)
Lemma diff_loop_cons qk (b : broker F) total sym w rest :
  diff_loop qk b total ((sym, w) :: rest) =
  let curr := match position_value b sym with Some v => v | None => fzero end in
  let diff_val := fsub (fmul total w) curr in
  if feqb diff_val fzero then
    (if q_diff_break qk then ([], []) else diff_loop qk b total rest)
  else
    let '(buys, sells) := diff_loop qk b total rest in
    match sget (b_quotes b) sym with
    | None => (buys, sells)
    | Some q =>
        let r := required_shares qk b diff_val q in
        if negb (feqb r fzero) then
          if fltb fzero r then (mkUOrder MarketBuy sym r None :: buys, sells)
          else (buys, mkUOrder MarketSell sym (fabs r) None :: sells)
        else (buys, sells)
    end.
Proof. reflexivity. Qed.

Definition is_mbuy (o : uorder F) : Prop := uo_type o = MarketBuy /\ uo_price o = None.
Definition is_msell (o : uorder F) : Prop := uo_type o = MarketSell /\ uo_price o = None.

Lemma diff_loop_kinds qk (b : broker F) total ws : forall buys sells,
  diff_loop qk b total ws = (buys, sells) ->
  Forall is_mbuy buys /\ Forall is_msell sells.
Proof.
  induction ws as [|[sym w] rest IH]; intros buys sells H.
  - simpl in H. inversion H; subst. split; constructor.
  - rewrite diff_loop_cons in H. cbv zeta in H.
    destruct (feqb _ fzero).
    + destruct (q_diff_break qk).
      * inversion H; subst. split; constructor.
      * apply IH; exact H.
    + destruct (diff_loop qk b total rest) as [bs ss].
      destruct (IH bs ss eq_refl) as [Hb Hs].
      destruct (sget (b_quotes b) sym) as [q|].
      * destruct (negb _).
        -- destruct (fltb fzero _); inversion H; subst; split; auto;
             constructor; auto; split; reflexivity.
        -- inversion H; subst; split; auto.
      * inversion H; subst; split; auto.
Qed.

(* all sells precede all buys: the result is literally sells ++ buys, each a list of market orders *)
Lemma diff_orders_shape qk (b : broker F) ws ord os :
  diff_orders qk b ws ord = Ok os ->
  exists buys sells, diff_loop qk b (liquidation_value b ord) ws = (buys, sells) /\ os = sells ++ buys /\
    Forall (fun o => uo_type o = MarketBuy /\ uo_price o = None) buys /\
    Forall (fun o => uo_type o = MarketSell /\ uo_price o = None) sells.
Proof.
  unfold diff_orders. intros H.
  destruct (negb (is_order_of ord (b_holdings b))); [discriminate|].
  destruct (negb (snodup (map fst ws))); [discriminate|].
  destruct (feqb (liquidation_value b ord) fzero); [discriminate|].
  destruct (diff_loop qk b (liquidation_value b ord) ws) as [buys sells] eqn:E.
  inversion H; subst. exists buys, sells.
  destruct (diff_loop_kinds _ _ _ _ _ _ E) as [Hb Hs].
  repeat split; auto.
Qed.

Lemma diff_loop_in qk (b : broker F) total ws : forall buys sells,
  diff_loop qk b total ws = (buys, sells) ->
  forall o, In o (sells ++ buys) ->
    In (uo_symbol o) (map fst ws) /\ sget (b_quotes b) (uo_symbol o) <> None.
Proof.
  induction ws as [|[sym w] rest IH]; intros buys sells H o Ho.
  - simpl in H. inversion H; subst. destruct Ho.
  - rewrite diff_loop_cons in H. cbv zeta in H.
    assert (Hrest : forall bs ss, diff_loop qk b total rest = (bs, ss) -> In o (ss ++ bs) ->
              In (uo_symbol o) (map fst ((sym, w) :: rest)) /\ sget (b_quotes b) (uo_symbol o) <> None).
    { intros bs ss E Hin. destruct (IH bs ss E o Hin) as [H1 H2]. split; [right; exact H1|exact H2]. }
    destruct (feqb _ fzero).
    + destruct (q_diff_break qk).
      * inversion H; subst. destruct Ho.
      * eapply Hrest; eauto.
    + destruct (diff_loop qk b total rest) as [bs ss].
      destruct (sget (b_quotes b) sym) as [q|] eqn:Eq.
      * destruct (negb _).
        -- destruct (fltb fzero _); inversion H; subst.
           ++ apply in_app_or in Ho. destruct Ho as [Ho|[Ho|Ho]].
              ** apply (Hrest bs sells eq_refl). apply in_or_app; left; exact Ho.
              ** subst o. simpl. split; [left; reflexivity|congruence].
              ** apply (Hrest bs sells eq_refl). apply in_or_app; right; exact Ho.
           ++ destruct Ho as [Ho|Ho].
              ** subst o. simpl. split; [left; reflexivity|congruence].
              ** apply (Hrest buys ss eq_refl). exact Ho.
        -- inversion H; subst. apply (Hrest buys sells eq_refl). exact Ho.
      * inversion H; subst. apply (Hrest buys sells eq_refl). exact Ho.
Qed.

Lemma diff_loop_nodup qk (b : broker F) total ws : forall buys sells,
  NoDup (map fst ws) -> diff_loop qk b total ws = (buys, sells) ->
  NoDup (map (@uo_symbol F) (sells ++ buys)).
Proof.
  induction ws as [|[sym w] rest IH]; intros buys sells Hnd H.
  - simpl in H. inversion H; subst. constructor.
  - simpl in Hnd. inversion Hnd as [|x l Hnotin Hnd']; subst.
    rewrite diff_loop_cons in H. cbv zeta in H.
    destruct (feqb _ fzero).
    + destruct (q_diff_break qk).
      * inversion H; subst. constructor.
      * apply IH; assumption.
    + destruct (diff_loop qk b total rest) as [bs ss] eqn:E.
      pose proof (IH bs ss Hnd' eq_refl) as IH'.
      assert (Hfresh : ~ In sym (map (@uo_symbol F) (ss ++ bs))).
      { intros Hin. apply in_map_iff in Hin. destruct Hin as [o [Hs Ho]].
        destruct (diff_loop_in _ _ _ _ _ _ E o Ho) as [H1 _]. rewrite Hs in H1. contradiction. }
      destruct (sget (b_quotes b) sym) as [q|].
      * destruct (negb _).
        -- destruct (fltb fzero _); inversion H; subst.
           ++ eapply Permutation_NoDup.
              ** apply Permutation_map. apply Permutation_middle.
              ** simpl. constructor; assumption.
           ++ simpl. constructor; assumption.
        -- inversion H; subst. exact IH'.
      * inversion H; subst. exact IH'.
Qed.

(* every order is for a symbol of the weight map that has a quote; at most one order per symbol *)
Lemma diff_loop_symbols qk (b : broker F) total ws buys sells :
  NoDup (map fst ws) -> diff_loop qk b total ws = (buys, sells) ->
  NoDup (map (@uo_symbol F) (sells ++ buys)) /\
  forall o, In o (sells ++ buys) -> In (uo_symbol o) (map fst ws) /\ sget (b_quotes b) (uo_symbol o) <> None.
Proof.
  intros Hnd H. split.
  - eapply diff_loop_nodup; eauto.
  - eapply diff_loop_in; eauto.
Qed.
End AnyNum.

Section AtR.
Local Existing Instance RNum.
Local Open Scope R_scope.

(* what the property demands for ONE target symbol: an independent, per-symbol description *)
Definition cur_val (b : broker R) (s : string) : R := match position_value b s with Some v => v | None => 0 end.
Definition gap (b : broker R) (total w : R) (s : string) : R := total * w - cur_val b s.
Inductive wanted (b : broker R) (total : R) (s : string) (w : R) : option (uorder R) -> Prop :=
| W_unquoted : sget (b_quotes b) s = None -> wanted b total s w None
| W_zero q : sget (b_quotes b) s = Some q -> gap b total w s = 0 -> wanted b total s w None
| W_buy q n : sget (b_quotes b) s = Some q -> 0 < gap b total w s ->
    n = IZR (Zfloor (fst (trade_impact_total (b_costs b) (gap b total w s) (q_ask q) true)
                     / snd (trade_impact_total (b_costs b) (gap b total w s) (q_ask q) true))) ->
    1 <= n -> wanted b total s w (Some (mkUOrder MarketBuy s n None))
| W_buy_none q : sget (b_quotes b) s = Some q -> 0 < gap b total w s ->
    IZR (Zfloor (fst (trade_impact_total (b_costs b) (gap b total w s) (q_ask q) true)
                 / snd (trade_impact_total (b_costs b) (gap b total w s) (q_ask q) true))) < 1 ->
    wanted b total s w None
| W_sell q n : sget (b_quotes b) s = Some q -> gap b total w s < 0 ->
    n = IZR (Zfloor (fst (trade_impact_total (b_costs b) (- gap b total w s) (q_bid q) false)
                     / snd (trade_impact_total (b_costs b) (- gap b total w s) (q_bid q) false))) ->
    1 <= n -> wanted b total s w (Some (mkUOrder MarketSell s n None))
| W_sell_none q : sget (b_quotes b) s = Some q -> gap b total w s < 0 ->
    IZR (Zfloor (fst (trade_impact_total (b_costs b) (- gap b total w s) (q_bid q) false)
                 / snd (trade_impact_total (b_costs b) (- gap b total w s) (q_bid q) false))) < 1 ->
    wanted b total s w None.

(* [wanted] is a function of its arguments *)
Lemma wanted_total (b : broker R) total s w : exists r, wanted b total s w r.
Proof.
  destruct (sget (b_quotes b) s) as [q|] eqn:Eq.
  2:{ eexists. apply W_unquoted. exact Eq. }
  destruct (Rtotal_order (gap b total w s) 0) as [Hg|[Hg|Hg]].
  - set (n := IZR (Zfloor (fst (trade_impact_total (b_costs b) (- gap b total w s) (q_bid q) false)
                     / snd (trade_impact_total (b_costs b) (- gap b total w s) (q_bid q) false)))).
    destruct (Rle_lt_dec 1 n) as [Hn|Hn].
    + eexists. eapply W_sell with (n := n); eauto.
    + eexists. eapply W_sell_none; eauto.
  - eexists. eapply W_zero; eauto.
  - set (n := IZR (Zfloor (fst (trade_impact_total (b_costs b) (gap b total w s) (q_ask q) true)
                     / snd (trade_impact_total (b_costs b) (gap b total w s) (q_ask q) true)))).
    destruct (Rle_lt_dec 1 n) as [Hn|Hn].
    + eexists. eapply W_buy with (n := n); eauto.
    + eexists. eapply W_buy_none; eauto.
Qed.

Lemma wanted_functional (b : broker R) total s w r1 r2 : wanted b total s w r1 -> wanted b total s w r2 -> r1 = r2.
Proof.
  intros H1 H2.
  inversion H1; subst; inversion H2; subst; try reflexivity; try congruence; try lra;
    try (match goal with
         | Ha : sget _ _ = Some ?q1, Hb : sget _ _ = Some ?q2 |- _ =>
             assert (q1 = q2) by congruence; subst
         end; try reflexivity; try lra).
Qed.

(* ---- closed form of the loop at [clean] ------------------------------------------------------ *)
Definition buy_of (b : broker R) (total : R) (sw : string * R) : list (uorder R) :=
  match sget (b_quotes b) (fst sw) with
  | Some q =>
      let g := gap b total (snd sw) (fst sw) in
      if Rlt_bool 0 g then
        let c := trade_impact_total (b_costs b) (Rabs g) (q_ask q) true in
        let n := IZR (Zfloor (fst c / snd c)) in
        if Rlt_bool 0 n then [mkUOrder MarketBuy (fst sw) n None] else []
      else []
  | None => []
  end.
Definition sell_of (b : broker R) (total : R) (sw : string * R) : list (uorder R) :=
  match sget (b_quotes b) (fst sw) with
  | Some q =>
      let g := gap b total (snd sw) (fst sw) in
      if Rlt_bool g 0 then
        let c := trade_impact_total (b_costs b) (Rabs g) (q_bid q) false in
        let n := IZR (Zfloor (fst c / snd c)) in
        if Rlt_bool 0 n then [mkUOrder MarketSell (fst sw) n None] else []
      else []
  | None => []
  end.

Lemma diff_loop_step_clean (b : broker R) total s w rest :
  diff_loop clean b total ((s, w) :: rest) =
  (buy_of b total (s, w) ++ fst (diff_loop clean b total rest),
   sell_of b total (s, w) ++ snd (diff_loop clean b total rest)).
Proof.
  rewrite diff_loop_cons. cbv zeta.
  unfold buy_of, sell_of, required_shares, clamp0.
  cbn [fadd fsub fmul fdiv fneg fabs fzero fone feqb fltb fleb ffloor fofZ RNum
       q_diff_break q_diff_direction_flip clean fst snd].
  change (total * w - match position_value b s with Some v => v | None => 0 end)
    with (gap b total w s).
  set (g := gap b total w s).
  destruct (diff_loop clean b total rest) as [bs ss]. cbn [fst snd].
  destruct (Req_bool_spec g 0) as [Hg0|Hg0].
  - destruct (sget (b_quotes b) s) as [q|]; [|reflexivity].
    rewrite (Rlt_bool_false 0 g) by lra. rewrite (Rlt_bool_false g 0) by lra. reflexivity.
  - destruct (sget (b_quotes b) s) as [q|]; [|reflexivity].
    destruct (Rlt_bool_spec g 0) as [Hneg|Hnn].
    + rewrite (Rlt_bool_false 0 g) by lra.
      set (n := IZR (Zfloor _)).
      destruct (Rlt_bool_spec 0 n) as [Hn|Hn].
      * rewrite Req_bool_false by lra. cbn [negb].
        rewrite (Rlt_bool_false 0 (- n)) by lra.
        rewrite Rabs_Ropp, (Rabs_pos_eq n) by lra. reflexivity.
      * rewrite Req_bool_true by lra. reflexivity.
    + rewrite (Rlt_bool_true 0 g) by lra.
      set (n := IZR (Zfloor _)).
      destruct (Rlt_bool_spec 0 n) as [Hn|Hn].
      * rewrite Req_bool_false by lra. cbn [negb].
        rewrite (Rlt_bool_true 0 n) by lra. reflexivity.
      * rewrite Req_bool_true by lra. reflexivity.
Qed.

Lemma diff_loop_closed (b : broker R) total ws :
  diff_loop clean b total ws = (flat_map (buy_of b total) ws, flat_map (sell_of b total) ws).
Proof.
  induction ws as [|[s w] rest IH]; [reflexivity|].
  rewrite diff_loop_step_clean, IH. reflexivity.
Qed.

Lemma pos_IZR_ge1 z : 0 < IZR z <-> 1 <= IZR z.
Proof.
  split; intros H.
  - apply lt_IZR in H. apply IZR_le. lia.
  - lra.
Qed.

Lemma buy_of_symbol b total sw o : In o (buy_of b total sw) -> uo_symbol o = fst sw.
Proof.
  unfold buy_of. destruct (sget _ _); [|intros []]. cbv zeta.
  destruct (Rlt_bool 0 _); [|intros []]. destruct (Rlt_bool 0 _); [|intros []].
  intros [H|[]]. subst o. reflexivity.
Qed.
Lemma sell_of_symbol b total sw o : In o (sell_of b total sw) -> uo_symbol o = fst sw.
Proof.
  unfold sell_of. destruct (sget _ _); [|intros []]. cbv zeta.
  destruct (Rlt_bool _ 0); [|intros []]. destruct (Rlt_bool 0 _); [|intros []].
  intros [H|[]]. subst o. reflexivity.
Qed.

(* the per-entry output of the loop is exactly what [wanted] describes *)
Lemma wanted_some_iff b total s w o :
  wanted b total s w (Some o) <-> In o (sell_of b total (s, w) ++ buy_of b total (s, w)).
Proof.
  rewrite in_app_iff. unfold sell_of, buy_of. cbn [fst snd]. cbv zeta. split.
  - intros H. inversion H as [| | q n Hq Hg Hn H1 Ho | | q n Hq Hg Hn H1 Ho | ]; subst o; rewrite Hq.
    + right. rewrite (Rlt_bool_true 0 _) by lra. rewrite Rabs_pos_eq by lra.
      rewrite <- Hn. rewrite (Rlt_bool_true 0 n) by lra. left; reflexivity.
    + left. rewrite (Rlt_bool_true _ 0) by lra. rewrite Rabs_left by lra.
      rewrite <- Hn. rewrite (Rlt_bool_true 0 n) by lra. left; reflexivity.
  - destruct (sget (b_quotes b) s) as [q|] eqn:Hq; [|intros [[]|[]]].
    intros [H|H].
    + destruct (Rlt_bool_spec (gap b total w s) 0) as [Hg|Hg]; [|destruct H].
      rewrite Rabs_left in H by lra.
      destruct (Rlt_bool_spec 0 (IZR (Zfloor
        (fst (trade_impact_total (b_costs b) (- gap b total w s) (q_bid q) false) /
         snd (trade_impact_total (b_costs b) (- gap b total w s) (q_bid q) false)))))
        as [Hn|Hn]; [|destruct H].
      destruct H as [H|[]]. subst o.
      eapply W_sell; eauto. apply pos_IZR_ge1; exact Hn.
    + destruct (Rlt_bool_spec 0 (gap b total w s)) as [Hg|Hg]; [|destruct H].
      rewrite Rabs_pos_eq in H by lra.
      destruct (Rlt_bool_spec 0 (IZR (Zfloor
        (fst (trade_impact_total (b_costs b) (gap b total w s) (q_ask q) true) /
         snd (trade_impact_total (b_costs b) (gap b total w s) (q_ask q) true)))))
        as [Hn|Hn]; [|destruct H].
      destruct H as [H|[]]. subst o.
      eapply W_buy; eauto. apply pos_IZR_ge1; exact Hn.
Qed.

(* C12 per symbol: the orders produced are exactly the wanted ones — one per target symbol that wants
   one, nothing else; never zero-sized, never in the opposite direction.
   (The NoDup hypothesis is kept as given; the proof does not use it.) *)
Lemma diff_loop_spec (b : broker R) total ws buys sells :
  NoDup (map fst ws) -> diff_loop clean b total ws = (buys, sells) ->
  forall o, In o (sells ++ buys) <-> exists w, In (uo_symbol o, w) ws /\ wanted b total (uo_symbol o) w (Some o).
Proof.
  intros _ H o. rewrite diff_loop_closed in H. inversion H; subst buys sells; clear H.
  rewrite in_app_iff, !in_flat_map. split.
  - intros [[[s w] [Hin Ho]]|[[s w] [Hin Ho]]].
    + pose proof (sell_of_symbol _ _ _ _ Ho) as Hs. cbn [fst] in Hs. subst s.
      exists w. split; [exact Hin|]. apply wanted_some_iff. apply in_or_app; left; exact Ho.
    + pose proof (buy_of_symbol _ _ _ _ Ho) as Hs. cbn [fst] in Hs. subst s.
      exists w. split; [exact Hin|]. apply wanted_some_iff. apply in_or_app; right; exact Ho.
  - intros [w [Hin Hw]]. apply wanted_some_iff in Hw. apply in_app_or in Hw.
    destruct Hw as [Hw|Hw]; [left|right]; exists (uo_symbol o, w); split; assumption.
Qed.

(* and the per-side lists follow the iteration order of the weights *)
Lemma diff_loop_order (b : broker R) total ws buys sells :
  NoDup (map fst ws) -> diff_loop clean b total ws = (buys, sells) ->
  buys = flat_map (fun sw => match sget (b_quotes b) (fst sw) with
                             | Some _ => if Rlt_bool 0 (gap b total (snd sw) (fst sw))
                                         then (let c := trade_impact_total (b_costs b) (Rabs (gap b total (snd sw) (fst sw))) (match sget (b_quotes b) (fst sw) with Some q => q_ask q | None => 0 end) true in
                                               let n := IZR (Zfloor (fst c / snd c)) in
                                               if Rlt_bool 0 n then [mkUOrder MarketBuy (fst sw) n None] else [])
                                         else []
                             | None => [] end) ws.
Proof.
  intros _ H. rewrite diff_loop_closed in H. inversion H; subst buys sells; clear H.
  apply flat_map_ext. intros sw. unfold buy_of.
  destruct (sget (b_quotes b) (fst sw)); reflexivity.
Qed.

(* the companion for the sells (same shape: |gap| as budget, bid price, sell-side costs) *)
Lemma diff_loop_order_sells (b : broker R) total ws buys sells :
  diff_loop clean b total ws = (buys, sells) ->
  sells = flat_map (sell_of b total) ws /\ buys = flat_map (buy_of b total) ws.
Proof. intros H. rewrite diff_loop_closed in H. inversion H; split; reflexivity. Qed.

(* the result does not depend on the iteration order of the weights map *)
Lemma diff_loop_perm (b : broker R) total ws ws' buys sells buys' sells' :
  NoDup (map fst ws) -> Permutation ws ws' ->
  diff_loop clean b total ws = (buys, sells) -> diff_loop clean b total ws' = (buys', sells') ->
  Permutation buys buys' /\ Permutation sells sells'.
Proof.
  intros _ Hp H H'. rewrite diff_loop_closed in H, H'.
  inversion H; inversion H'; subst. split; apply Permutation_flat_map; exact Hp.
Qed.

Lemma fold_opt_add_perm {A} (f : A -> option R) l l' : Permutation l l' -> forall c,
  fold_left (fun v a => match f a with Some pv => fadd v pv | None => v end) l c =
  fold_left (fun v a => match f a with Some pv => fadd v pv | None => v end) l' c.
Proof.
  induction 1 as [|x l l' _ IH|x y l|l l' l'' _ IH1 _ IH2]; intros c; cbn [fold_left].
  - reflexivity.
  - apply IH.
  - f_equal. cbn [fadd RNum]. destruct (f x), (f y); lra.
  - rewrite IH1. apply IH2.
Qed.

Lemma liquidation_value_perm (b : broker R) ord ord' :
  Permutation ord ord' -> liquidation_value b ord = liquidation_value b ord'.
Proof. intros H. unfold liquidation_value. apply fold_opt_add_perm. exact H. Qed.

Lemma diff_orders_perm (b : broker R) ws ws' ord ord' os os' :
  NoDup (map fst ws) -> Permutation ws ws' -> Permutation ord ord' ->
  diff_orders clean b ws ord = Ok os -> diff_orders clean b ws' ord' = Ok os' -> Permutation os os'.
Proof.
  intros Hnd Hws Hord H H'.
  apply diff_orders_shape in H. apply diff_orders_shape in H'.
  destruct H as [bs [ss [E [-> _]]]]. destruct H' as [bs' [ss' [E' [-> _]]]].
  rewrite <- (liquidation_value_perm b ord ord' Hord) in E'.
  destruct (diff_loop_perm _ _ _ _ _ _ _ _ Hnd Hws E E') as [Hb Hs].
  apply Permutation_app; assumption.
Qed.

(* ---- refutations with the two recorded defects ------------------------------------------------- *)
(* q_diff_break: a zero-gap symbol first in iteration order suppresses the order of a later symbol *)
Definition break_defect : quirks := mkQuirks false false false false false false true false false false false false.
Lemma c12_refuted_q_diff_break :
  let b := mkBroker 1000 [] [] [("ABC"%string, mkQuote 10 10 1%Z "ABC"%string); ("BCD"%string, mkQuote 10 10 1%Z "BCD"%string)] [] [] false in
  diff_loop break_defect b 1000 [("ABC"%string, 0); ("BCD"%string, 1/2)] = ([], []) /\
  exists o, diff_loop clean b 1000 [("ABC"%string, 0); ("BCD"%string, 1/2)] = ([o], []) /\ uo_shares o = 50.
Proof.
  intros b.
  assert (Hpa : position_value b "ABC" = None) by reflexivity.
  assert (Hpb : position_value b "BCD" = None) by reflexivity.
  split.
  - rewrite diff_loop_cons. cbv zeta. rewrite Hpa.
    cbn [fadd fsub fmul fzero feqb RNum].
    rewrite Req_bool_true by lra. reflexivity.
  - assert (Hg1 : gap b 1000 0 "ABC" = 0) by (unfold gap, cur_val; rewrite Hpa; lra).
    assert (Hg2 : gap b 1000 (1/2) "BCD" = 500) by (unfold gap, cur_val; rewrite Hpb; lra).
    rewrite diff_loop_closed. cbn [flat_map]. unfold buy_of, sell_of. cbn [fst snd].
    rewrite Hg1, Hg2.
    replace (sget (b_quotes b) "ABC") with (Some (mkQuote 10 10 1%Z "ABC"%string)) by reflexivity.
    replace (sget (b_quotes b) "BCD") with (Some (mkQuote 10 10 1%Z "BCD"%string)) by reflexivity.
    replace (b_costs b) with (@nil (cost R)) by reflexivity.
    cbv zeta. unfold trade_impact_total. cbn [fold_left fst snd q_ask q_bid].
    rewrite (Rlt_bool_false 0 0) by lra.
    rewrite (Rlt_bool_true 0 500) by lra.
    rewrite (Rlt_bool_false 500 0) by lra.
    assert (Hfl : Zfloor (Rabs 500 / 10) = 50%Z).
    { apply Zfloor_imp. rewrite Rabs_pos_eq by lra. simpl (50 + 1)%Z. split; lra. }
    rewrite Hfl. rewrite (Rlt_bool_true 0 50) by lra.
    eexists. split; reflexivity.
Qed.

(* q_diff_direction_flip: flat fee 10, gap +1 => a MarketSell of 1 share instead of nothing *)
Definition flip_defect : quirks := mkQuirks false false false false false false false true false false false false.
Lemma c12_refuted_q_diff_direction_flip :
  let b := mkBroker 1 [] [] [("ABC"%string, mkQuote 10 10 1%Z "ABC"%string)] [] [Flat 10] false in
  (exists o, diff_loop flip_defect b 1 [("ABC"%string, 1)] = ([], [o]) /\ uo_type o = MarketSell) /\
  diff_loop clean b 1 [("ABC"%string, 1)] = ([], []).
Proof.
  intros b.
  assert (Hpa : position_value b "ABC" = None) by reflexivity.
  assert (Hfl : Zfloor ((Rabs (1 * 1 - 0) - 10) / 10) = (-1)%Z).
  { apply Zfloor_imp. rewrite Rabs_pos_eq by lra. simpl (-1 + 1)%Z. split; lra. }
  split.
  - rewrite diff_loop_cons. cbv zeta. rewrite Hpa.
    replace (sget (b_quotes b) "ABC") with (Some (mkQuote 10 10 1%Z "ABC"%string)) by reflexivity.
    unfold required_shares.
    replace (b_costs b) with [Flat 10] by reflexivity.
    unfold trade_impact_total.
    cbn [fadd fsub fmul fdiv fneg fabs fzero fone feqb fltb fleb ffloor fofZ RNum
         q_diff_break q_diff_direction_flip flip_defect fold_left trade_impact fst snd q_ask q_bid
         diff_loop].
    rewrite (Req_bool_false (1 * 1 - 0) 0) by lra.
    rewrite (Rlt_bool_false (1 * 1 - 0) 0) by lra.
    rewrite Hfl.
    rewrite (Req_bool_false (-1) 0) by lra. cbn [negb].
    rewrite (Rlt_bool_false 0 (-1)) by lra.
    eexists. split; reflexivity.
  - assert (Hg1 : gap b 1 1 "ABC" = 1 * 1 - 0) by (unfold gap, cur_val; rewrite Hpa; reflexivity).
    rewrite diff_loop_closed. cbn [flat_map]. unfold buy_of, sell_of. cbn [fst snd].
    rewrite Hg1.
    replace (sget (b_quotes b) "ABC") with (Some (mkQuote 10 10 1%Z "ABC"%string)) by reflexivity.
    replace (b_costs b) with [Flat 10] by reflexivity.
    cbv zeta. unfold trade_impact_total.
    cbn [fadd fsub fmul fdiv fneg fabs fzero fone RNum fold_left trade_impact fst snd q_ask q_bid].
    rewrite (Rlt_bool_true 0 (1 * 1 - 0)) by lra.
    rewrite (Rlt_bool_false (1 * 1 - 0) 0) by lra.
    rewrite Hfl. rewrite (Rlt_bool_false 0 (-1)) by lra.
    reflexivity.
Qed.
End AtR.
