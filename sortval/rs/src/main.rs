// Validation harness: runs the real `slice::sort_by` (rustc 1.95.0 std) on vectors of real
// rotala `Order`s (and a few synthetic element types of other sizes / Freeze-ness) with a
// family of comparators, consistent or not, and dumps inputs + resulting permutations.
//
// Output format, one case per line:
//   <etype> <kind> <seed> <n> <arr> <status> | k_0 k_1 ... k_{n-1} | t_0 t_1 ... t_{n-1}
// where element i of the input has tag i and key k_i, and t_j is the tag found at position j
// after the sort (status = ok) or after the sort panicked (status = panic).
//
// usage: sortval <profile> <outfile>      profile in {small, medium, large, huge, sizes}

use std::cell::Cell;
use std::cmp::Ordering;
use std::io::Write;
use std::panic::{catch_unwind, AssertUnwindSafe};

use rotala::exchange::jura_v1::Order as JuraOrder;
use rotala::exchange::uist_v1::{Order as UistOrder, OrderType};

// ---------------------------------------------------------------- rng
struct Rng(u64);
impl Rng {
    fn next(&mut self) -> u64 {
        // xorshift64*
        let mut x = self.0;
        x ^= x >> 12;
        x ^= x << 25;
        x ^= x >> 27;
        self.0 = x;
        x.wrapping_mul(0x2545F4914F6CDD1D)
    }
    fn below(&mut self, n: u64) -> u64 {
        (self.next() >> 11) % n
    }
}

// ---------------------------------------------------------------- element types
trait Elem: Sized {
    const NAME: &'static str;
    fn mk(tag: u64, key: u64) -> Self;
    fn tag(&self) -> u64;
}

impl Elem for UistOrder {
    const NAME: &'static str = "uist";
    fn mk(tag: u64, key: u64) -> Self {
        // key odd  => a sell type, key even => a buy type (variant chosen by tag)
        let ot = if key % 2 == 1 {
            match tag % 3 {
                0 => OrderType::MarketSell,
                1 => OrderType::LimitSell,
                _ => OrderType::StopSell,
            }
        } else {
            match tag % 3 {
                0 => OrderType::MarketBuy,
                1 => OrderType::LimitBuy,
                _ => OrderType::StopBuy,
            }
        };
        UistOrder {
            order_id: Some(tag),
            order_type: ot,
            symbol: format!("SYM{}", tag % 7),
            shares: tag as f64,
            price: if tag % 2 == 0 { Some(100.0 + tag as f64) } else { None },
        }
    }
    fn tag(&self) -> u64 {
        self.get_shares() as u64
    }
}

// Jura's Order has private fields and no getters: locate `asset` and `is_buy` in the
// (fixed for this build) layout by probing.
static mut JURA_ASSET_OFF: usize = usize::MAX;
static mut JURA_ISBUY_OFF: usize = usize::MAX;

fn jura_bytes(o: &JuraOrder) -> &[u8] {
    unsafe { std::slice::from_raw_parts(o as *const JuraOrder as *const u8, std::mem::size_of::<JuraOrder>()) }
}

fn probe_jura() {
    let m1: u64 = 0x1122_3344_5566_7788;
    let m2: u64 = 0x0877_6655_4433_2211;
    let a = JuraOrder::market_buy(m1, "1", "1");
    let b = JuraOrder::market_buy(m2, "1", "1");
    let sz = std::mem::size_of::<JuraOrder>();
    let mut asset_off = usize::MAX;
    for off in (0..sz).step_by(8) {
        let ra = u64::from_ne_bytes(jura_bytes(&a)[off..off + 8].try_into().unwrap());
        let rb = u64::from_ne_bytes(jura_bytes(&b)[off..off + 8].try_into().unwrap());
        if ra == m1 && rb == m2 {
            assert!(asset_off == usize::MAX);
            asset_off = off;
        }
    }
    assert!(asset_off != usize::MAX);
    let buys: Vec<JuraOrder> = vec![
        JuraOrder::market_buy(5, "1", "1"),
        JuraOrder::limit_buy(5u64, "2", "3"),
        JuraOrder::stop_buy(5u64, "2", "3"),
        JuraOrder::takeprofit_buy(5u64, "2", "3"),
    ];
    let sells: Vec<JuraOrder> = vec![
        JuraOrder::market_sell(5u64, "1", "1"),
        JuraOrder::limit_sell(5u64, "2", "3"),
        JuraOrder::stop_sell(5u64, "2", "3"),
        JuraOrder::takeprofit_sell(5u64, "2", "3"),
    ];
    let mut isbuy_off = usize::MAX;
    for off in 0..sz {
        if buys.iter().all(|o| jura_bytes(o)[off] == 1) && sells.iter().all(|o| jura_bytes(o)[off] == 0) {
            assert!(isbuy_off == usize::MAX, "ambiguous is_buy offset");
            isbuy_off = off;
        }
    }
    assert!(isbuy_off != usize::MAX);
    unsafe {
        JURA_ASSET_OFF = asset_off;
        JURA_ISBUY_OFF = isbuy_off;
    }
}

fn jura_is_buy(o: &JuraOrder) -> bool {
    unsafe { jura_bytes(o)[JURA_ISBUY_OFF] == 1 }
}

impl Elem for JuraOrder {
    const NAME: &'static str = "jura";
    fn mk(tag: u64, key: u64) -> Self {
        let px = format!("{}.5", tag % 11);
        let sz = format!("{}", 1 + tag % 5);
        if key % 2 == 1 {
            match tag % 3 {
                0 => JuraOrder::market_sell(tag, sz, px),
                1 => JuraOrder::limit_sell(tag, sz, px),
                _ => JuraOrder::stop_sell(tag, sz, px),
            }
        } else {
            match tag % 3 {
                0 => JuraOrder::market_buy(tag, &sz, &px),
                1 => JuraOrder::limit_buy(tag, sz, px),
                _ => JuraOrder::stop_buy(tag, sz, px),
            }
        }
    }
    fn tag(&self) -> u64 {
        unsafe {
            let off = JURA_ASSET_OFF;
            u64::from_ne_bytes(jura_bytes(self)[off..off + 8].try_into().unwrap())
        }
    }
}

struct S8(u64);
impl Elem for S8 {
    const NAME: &'static str = "s8";
    fn mk(tag: u64, _key: u64) -> Self { S8(tag) }
    fn tag(&self) -> u64 { self.0 }
}
struct S16(u64, u64);
impl Elem for S16 {
    const NAME: &'static str = "s16";
    fn mk(tag: u64, key: u64) -> Self { S16(tag, key) }
    fn tag(&self) -> u64 { self.0 }
}
struct S24(u64, u64, u64);
impl Elem for S24 {
    const NAME: &'static str = "s24";
    fn mk(tag: u64, key: u64) -> Self { S24(tag, key, 7) }
    fn tag(&self) -> u64 { self.0 }
}
// not Freeze (interior mutability), 16 bytes
struct C16(Cell<u64>, u64);
impl Elem for C16 {
    const NAME: &'static str = "c16";
    fn mk(tag: u64, key: u64) -> Self { C16(Cell::new(tag), key) }
    fn tag(&self) -> u64 { self.0.get() }
}
// not Freeze, 72 bytes
struct C72(Cell<u64>, [u64; 8]);
impl Elem for C72 {
    const NAME: &'static str = "c72";
    fn mk(tag: u64, key: u64) -> Self { C72(Cell::new(tag), [key; 8]) }
    fn tag(&self) -> u64 { self.0.get() }
}

// ---------------------------------------------------------------- comparators
// kind 0: the exchange's comparator (first argument only, two-valued): sell => Less, else Greater
// kind 1: total preorder by key           a.key.cmp(b.key)
// kind 2: reverse                         b.key.cmp(a.key)
// kind 3: all equal
// kind 4: inconsistent                    (a.key % 3).cmp(b.key % 5)
// kind 5: "random table"                  Less iff hash(a.tag, b.tag, seed) bit set, else Greater
// kind 6: first argument only, 3-valued   key%3: 0 => Less, 1 => Equal, 2 => Greater
// kind 7: always Less
// kind 8: second argument only            b.key odd => Less else Greater
pub fn hash_bit(ta: u64, tb: u64, seed: u64) -> bool {
    let x = (ta * 1000003 + tb * 7919 + seed) % (1u64 << 32);
    let y = x * 2654435761u64; // < 2^64
    (y >> 31) & 1 == 1
}

fn compare_generic(kind: u32, seed: u64, keys: &[u64], ta: u64, tb: u64) -> Ordering {
    let ka = keys[ta as usize];
    let kb = keys[tb as usize];
    match kind {
        0 => if ka % 2 == 1 { Ordering::Less } else { Ordering::Greater },
        1 => ka.cmp(&kb),
        2 => kb.cmp(&ka),
        3 => Ordering::Equal,
        4 => (ka % 3).cmp(&(kb % 5)),
        5 => if hash_bit(ta, tb, seed) { Ordering::Less } else { Ordering::Greater },
        6 => match ka % 3 { 0 => Ordering::Less, 1 => Ordering::Equal, _ => Ordering::Greater },
        7 => Ordering::Less,
        8 => if kb % 2 == 1 { Ordering::Less } else { Ordering::Greater },
        _ => unreachable!(),
    }
}

trait Sorter: Elem {
    // default: generic comparator over the side table
    fn sort_case(v: &mut Vec<Self>, kind: u32, seed: u64, keys: &[u64]) {
        v.sort_by(|a, b| compare_generic(kind, seed, keys, a.tag(), b.tag()));
    }
}
impl Sorter for UistOrder {
    fn sort_case(v: &mut Vec<Self>, kind: u32, seed: u64, keys: &[u64]) {
        if kind == 0 {
            // verbatim from rotala/src/exchange/uist_v1.rs sort_order_buffer
            v.sort_by(|a, _b| match a.get_order_type() {
                OrderType::LimitSell | OrderType::StopSell | OrderType::MarketSell => {
                    std::cmp::Ordering::Less
                }
                _ => std::cmp::Ordering::Greater,
            })
        } else {
            v.sort_by(|a, b| compare_generic(kind, seed, keys, a.tag(), b.tag()));
        }
    }
}
impl Sorter for JuraOrder {
    fn sort_case(v: &mut Vec<Self>, kind: u32, seed: u64, keys: &[u64]) {
        if kind == 0 {
            // rotala/src/exchange/jura_v1.rs sort_order_buffer (is_buy read through the probe)
            v.sort_by(|a, _b| {
                if jura_is_buy(a) {
                    std::cmp::Ordering::Greater
                } else {
                    std::cmp::Ordering::Less
                }
            })
        } else {
            v.sort_by(|a, b| compare_generic(kind, seed, keys, a.tag(), b.tag()));
        }
    }
}
impl Sorter for S8 {}
impl Sorter for S16 {}
impl Sorter for S24 {}
impl Sorter for C16 {}
impl Sorter for C72 {}

// ---------------------------------------------------------------- arrangements
// All produce a key sequence of length n with values in 0..m (m >= 2).
const ARRS: [&str; 12] = [
    "random", "alternating", "runs_asc", "runs_desc", "all_equal", "outlier", "sparse", "dense",
    "ascending", "descending", "sawtooth", "blocks",
];

fn gen_keys(arr: &str, n: usize, m: u64, rng: &mut Rng) -> Vec<u64> {
    let mut k = vec![0u64; n];
    match arr {
        "random" => for i in 0..n { k[i] = rng.below(m); },
        "alternating" => for i in 0..n { k[i] = (i as u64) % m.min(2); },
        "runs_asc" | "runs_desc" => {
            // concatenation of monotone runs of random length
            let mut i = 0;
            while i < n {
                let l = 1 + rng.below(((n as u64) / 3).max(2)) as usize;
                let l = l.min(n - i);
                let mut vals: Vec<u64> = (0..l).map(|_| rng.below(m)).collect();
                vals.sort();
                if arr == "runs_desc" { vals.reverse(); }
                k[i..i + l].copy_from_slice(&vals);
                i += l;
            }
        }
        "all_equal" => { let c = rng.below(m); for i in 0..n { k[i] = c; } }
        "outlier" => {
            // constant (or ascending when m is large) with a single out-of-place element
            let c = rng.below(2);
            for i in 0..n { k[i] = if m > 3 { (i as u64) % m } else { c }; }
            if n > 0 {
                let p = rng.below(n as u64) as usize;
                k[p] = if m > 3 { rng.below(m) } else { 1 - c };
            }
        }
        "sparse" => for i in 0..n { k[i] = if rng.below(10) == 0 { 1 + rng.below(m - 1) } else { 0 }; },
        "dense" => for i in 0..n { k[i] = if rng.below(10) == 0 { 0 } else { 1 + rng.below(m - 1) }; },
        "ascending" => for i in 0..n { k[i] = ((i as u64) * m) / (n.max(1) as u64); },
        "descending" => for i in 0..n { k[i] = (((n - 1 - i) as u64) * m) / (n.max(1) as u64); },
        "sawtooth" => { let p = 2 + rng.below(40); for i in 0..n { k[i] = ((i as u64) % p) % m; } }
        "blocks" => {
            // long constant blocks
            let mut i = 0;
            while i < n {
                let l = (1 + rng.below(((n as u64) / 4).max(2)) as usize).min(n - i);
                let c = rng.below(m);
                for j in i..i + l { k[j] = c; }
                i += l;
            }
        }
        _ => unreachable!(),
    }
    k
}

fn modulus_for_kind(kind: u32, n: usize, rng: &mut Rng) -> u64 {
    match kind {
        0 | 8 => 2,
        6 => 3,
        1 | 2 => match rng.below(3) { 0 => (n as u64).max(2) * 4, 1 => 4, _ => (n as u64 / 8).max(2) },
        _ => 15,
    }
}

// ---------------------------------------------------------------- running one case
fn run_case<T: Sorter>(out: &mut impl Write, kind: u32, seed: u64, n: usize, arr: &str, counts: &mut Counts) {
    let mut rng = Rng(seed.wrapping_mul(0x9E3779B97F4A7C15) ^ ((n as u64) << 20) ^ (kind as u64 + 1));
    rng.next();
    let m = modulus_for_kind(kind, n, &mut rng);
    let keys = gen_keys(arr, n, m, &mut rng);
    let mut v: Vec<T> = (0..n).map(|i| T::mk(i as u64, keys[i])).collect();
    let res = catch_unwind(AssertUnwindSafe(|| T::sort_case(&mut v, kind, seed, &keys)));
    let status = if res.is_ok() { "ok" } else { "panic" };
    if res.is_ok() { counts.ok += 1 } else { counts.panic += 1 }
    write!(out, "{} {} {} {} {} {} |", T::NAME, kind, seed, n, arr, status).unwrap();
    for x in &keys { write!(out, " {}", x).unwrap(); }
    write!(out, " |").unwrap();
    for e in &v { write!(out, " {}", e.tag()).unwrap(); }
    writeln!(out).unwrap();
    // sanity: still a permutation
    let mut seen = vec![false; n];
    for e in &v { let t = e.tag() as usize; assert!(!seen[t]); seen[t] = true; }
}

#[derive(Default)]
struct Counts { ok: usize, panic: usize }

fn run_suite<T: Sorter>(out: &mut impl Write, lens: &[usize], kinds: &[u32], arrs: &[&str], seeds: &[u64], counts: &mut Counts) {
    for &n in lens {
        for &kind in kinds {
            for &arr in arrs {
                // arrangements that are meaningless for a comparator that ignores keys
                if (kind == 3 || kind == 5 || kind == 7) && arr != "random" { continue; }
                for &seed in seeds {
                    run_case::<T>(out, kind, seed, n, arr, counts);
                }
            }
        }
    }
}

fn main() {
    std::panic::set_hook(Box::new(|_| {}));
    probe_jura();
    let args: Vec<String> = std::env::args().collect();
    let profile = args.get(1).map(|s| s.as_str()).unwrap_or("sizes");
    if profile == "sizes" {
        println!("uist Order size={} align={}", std::mem::size_of::<UistOrder>(), std::mem::align_of::<UistOrder>());
        println!("jura Order size={} align={}", std::mem::size_of::<JuraOrder>(), std::mem::align_of::<JuraOrder>());
        println!("s8={} s16={} s24={} c16={} c72={}", std::mem::size_of::<S8>(), std::mem::size_of::<S16>(),
                 std::mem::size_of::<S24>(), std::mem::size_of::<C16>(), std::mem::size_of::<C72>());
        unsafe { println!("jura probe: asset@{} is_buy@{}", JURA_ASSET_OFF, JURA_ISBUY_OFF); }
        return;
    }
    let path = args.get(2).expect("outfile");
    let mut out = std::io::BufWriter::new(std::fs::File::create(path).unwrap());
    let all_kinds: [u32; 9] = [0, 1, 2, 3, 4, 5, 6, 7, 8];
    let mut c = Counts::default();
    match profile {
        "small" => {
            // lengths 0..=70 densely
            let lens: Vec<usize> = (0..=70).collect();
            run_suite::<UistOrder>(&mut out, &lens, &all_kinds, &ARRS, &[1, 2], &mut c);
            run_suite::<JuraOrder>(&mut out, &lens, &[0, 1, 4, 5, 6], &ARRS[..8], &[3], &mut c);
            run_suite::<S8>(&mut out, &lens, &all_kinds, &ARRS[..8], &[4], &mut c);
            run_suite::<S16>(&mut out, &lens, &all_kinds, &ARRS[..8], &[5], &mut c);
            run_suite::<S24>(&mut out, &lens, &[0, 1, 4, 5, 6], &ARRS[..6], &[6], &mut c);
            run_suite::<C16>(&mut out, &lens, &all_kinds, &ARRS[..8], &[7], &mut c);
            run_suite::<C72>(&mut out, &lens, &[0, 1, 4, 5, 6], &ARRS[..6], &[8], &mut c);
        }
        "medium" => {
            let lens: Vec<usize> = vec![71, 77, 85, 96, 100, 127, 128, 129, 150, 200, 255, 256, 257, 300, 400, 511, 512, 513, 640, 800];
            run_suite::<UistOrder>(&mut out, &lens, &all_kinds, &ARRS, &[11], &mut c);
            run_suite::<JuraOrder>(&mut out, &lens, &[0, 1, 4, 5, 6], &ARRS[..8], &[12], &mut c);
            run_suite::<S8>(&mut out, &lens, &[0, 1, 4, 5], &ARRS[..6], &[13], &mut c);
            run_suite::<S16>(&mut out, &lens, &[0, 1, 4, 5], &ARRS[..6], &[14], &mut c);
            run_suite::<C16>(&mut out, &lens, &[0, 1, 4, 5], &ARRS[..6], &[15], &mut c);
        }
        "large" => {
            let lens: Vec<usize> = vec![1000, 1023, 1024, 1025, 1500, 2000, 2500, 3000, 4095, 4096, 4097, 4500, 5000];
            run_suite::<UistOrder>(&mut out, &lens, &all_kinds, &ARRS, &[21], &mut c);
            run_suite::<JuraOrder>(&mut out, &lens, &[0, 1, 4, 5], &ARRS[..6], &[22], &mut c);
            run_suite::<S8>(&mut out, &[1000, 4097, 5000], &[0, 1, 4, 5], &ARRS[..6], &[23], &mut c);
            run_suite::<C16>(&mut out, &[1000, 4097, 5000], &[0, 1, 4, 5], &ARRS[..6], &[24], &mut c);
        }
        "huge" => {
            // kind 0 (the exchange comparator) on a few very long inputs, including lengths
            // above 8_000_000 / size_of::<T>() where the scratch buffer is shorter than v.
            run_suite::<UistOrder>(&mut out, &[20000], &[0], &ARRS, &[31], &mut c);
            run_suite::<JuraOrder>(&mut out, &[20000], &[0], &ARRS[..6], &[32], &mut c);
            run_suite::<UistOrder>(&mut out, &[20000], &[1, 4, 5], &["random", "runs_asc"], &[33], &mut c);
            run_suite::<UistOrder>(&mut out, &[120000], &[0], &["random", "runs_asc", "blocks", "sparse"], &[34], &mut c);
            run_suite::<JuraOrder>(&mut out, &[90000], &[0], &["random", "runs_desc", "blocks", "dense"], &[35], &mut c);
            run_suite::<UistOrder>(&mut out, &[120000], &[1], &["random", "runs_asc"], &[36], &mut c);
        }
        _ => panic!("unknown profile"),
    }
    out.flush().unwrap();
    eprintln!("profile {}: {} cases ({} ok, {} panic)", profile, c.ok + c.panic, c.ok, c.panic);
}
