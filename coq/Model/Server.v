(* Server.v — AppState of http/uist.rs and http/jura.rs (the two files differ only in the exchange
   type, in Jura's delete key and in the two defects recorded as quirks), and Penelope's clock
   interface (input/penelope.rs). Generic in the exchange. Definitions only. *)
From Coq Require Import ZArith NArith List Bool String.
From Alator Require Import Model.Quirks.
Import ListNotations.

Section Server.

Context {X Row Ordr Key TOut : Type}.
(* the exchange: fresh state, tick (None = the exchange panicked or the sort oracle was rejected),
   insert, delete *)
Context (x_init : X)
        (x_tick : X -> Row -> list nat -> option (X * TOut))
        (x_insert : X -> Ordr -> X)
        (x_delete : X -> Key -> X)
        (empty_out : TOut).       (* what a tick returns when the dataset has no row for the date *)
Context (qk : quirks) (is_jura : bool).

(* Penelope: dates in first-insertion order, rows by date *)
Record dataset := mkDataset { ds_dates : list Z; ds_rows : list (Z * Row) }.

Fixpoint zlookup {A} (l : list (Z * A)) (k : Z) : option A :=
  match l with
  | [] => None
  | (k', a) :: l' => if Z.eqb k k' then Some a else zlookup l' k
  end.

Definition get_quotes (d : dataset) (date : Z) : option Row := zlookup (ds_rows d) date.
Definition get_date (d : dataset) (pos : nat) : option Z := nth_error (ds_dates d) pos.
Definition has_next (d : dataset) (pos : nat) : bool := Nat.ltb pos (List.length (ds_dates d)).

Record backtest := mkBacktest {
  bt_date : Z; bt_pos : nat; bt_exch : X; bt_dataset : string }.

Record app := mkApp {
  backtests : list (N * backtest);        (* HashMap: keys unique *)
  last : N;
  datasets : list (string * dataset);
}.

Fixpoint nlookup {A} (l : list (N * A)) (k : N) : option A :=
  match l with
  | [] => None
  | (k', a) :: l' => if N.eqb k k' then Some a else nlookup l' k
  end.

Fixpoint slookup {A} (l : list (string * A)) (k : string) : option A :=
  match l with
  | [] => None
  | (k', a) :: l' => if String.eqb k k' then Some a else slookup l' k
  end.

(* HashMap::insert: replace the value of an existing key, else add *)
Fixpoint nupsert {A} (l : list (N * A)) (k : N) (a : A) : list (N * A) :=
  match l with
  | [] => [(k, a)]
  | (k', a') :: l' => if N.eqb k k' then (k, a) :: l' else (k', a') :: nupsert l' k a
  end.

Inductive sop :=
| STick (id : N) (perm : list nat)
| SFetch (id : N)
| SInit (name : string)            (* AppState::init *)
| SNew (name : string)             (* AppState::new_backtest *)
| SInsert (o : Ordr) (id : N)
| SDelete (k : Key) (id : N)
| SInfo (id : N)
| SNow (id : N).

Inductive sres :=
| RTick (r : option (bool * TOut))
| RFetch (r : option Row)
| RId (r : option N)
| RUnit (r : option unit)
| RInfo (r : option string)             (* dataset name; version is the constant "v1" *)
| RNow (r : option (Z * bool))
| RPanic.

(* one tick of one backtest against its dataset *)
Definition bt_tick (d : dataset) (b : backtest) (perm : list nat)
  : option (backtest * (bool * TOut)) :=
  let r := match get_quotes d (bt_date b) with
           | Some row => x_tick (bt_exch b) row perm
           | None => Some (bt_exch b, empty_out)
           end in
  match r with
  | None => None
  | Some (x', out) =>
      let new_pos := S (bt_pos b) in
      let hn := has_next d new_pos in
      let date' := if hn then match get_date d new_pos with Some dt => dt | None => bt_date b end
                   else bt_date b in
      let pos' := if is_jura && q_jura_pos_stuck qk then bt_pos b else new_pos in
      Some (mkBacktest date' pos' x' (bt_dataset b), (hn, out))
  end.

Definition create_backtest (s : app) (name : string) (bump : bool) : app * sres :=
  match slookup (datasets s) name with
  | None => (s, RId None)
  | Some d =>
      match get_date d 0 with
      | None => (s, RPanic)                       (* get_date(0).unwrap() on an empty dataset *)
      | Some d0 =>
          let new_id := N.succ (last s) in
          (mkApp (nupsert (backtests s) new_id (mkBacktest d0 0 x_init name))
                 (if bump then new_id else last s) (datasets s),
           RId (Some new_id))
      end
  end.

Definition with_backtest (s : app) (id : N) (b : backtest) : app :=
  mkApp (nupsert (backtests s) id b) (last s) (datasets s).

Definition sstep (s : app) (o : sop) : app * sres :=
  match o with
  | STick id perm =>
      match nlookup (backtests s) id with
      | None => (s, RTick None)
      | Some b =>
          match slookup (datasets s) (bt_dataset b) with
          | None => (s, RTick None)
          | Some d =>
              match bt_tick d b perm with
              | None => (s, RPanic)
              | Some (b', r) => (with_backtest s id b', RTick (Some r))
              end
          end
      end
  | SFetch id =>
      match nlookup (backtests s) id with
      | None => (s, RFetch None)
      | Some b =>
          match slookup (datasets s) (bt_dataset b) with
          | None => (s, RFetch None)
          | Some d => (s, RFetch (get_quotes d (bt_date b)))
          end
      end
  | SInit name => create_backtest s name (negb (q_init_no_bump qk))
  | SNew name => create_backtest s name true
  | SInsert o id =>
      match nlookup (backtests s) id with
      | None => (s, RUnit None)
      | Some b =>
          (with_backtest s id (mkBacktest (bt_date b) (bt_pos b) (x_insert (bt_exch b) o) (bt_dataset b)),
           RUnit (Some tt))
      end
  | SDelete k id =>
      match nlookup (backtests s) id with
      | None => (s, RUnit None)
      | Some b =>
          (with_backtest s id (mkBacktest (bt_date b) (bt_pos b) (x_delete (bt_exch b) k) (bt_dataset b)),
           RUnit (Some tt))
      end
  | SInfo id =>
      match nlookup (backtests s) id with
      | None => (s, RInfo None)
      | Some b => (s, RInfo (Some (bt_dataset b)))
      end
  | SNow id =>
      match nlookup (backtests s) id with
      | None => (s, RNow None)
      | Some b =>
          match slookup (datasets s) (bt_dataset b) with
          | None => (s, RNow None)
          | Some d => (s, RNow (Some (bt_date b, has_next d (bt_pos b))))
          end
      end
  end.

Fixpoint srun (s : app) (ops : list sop) : app * list sres :=
  match ops with
  | [] => (s, [])
  | o :: r => let '(s', x) := sstep s o in let '(s'', xs) := srun s' r in (s'', x :: xs)
  end.

(* AppState::create / AppState::single *)
Definition app_create (ds : list (string * dataset)) : app := mkApp [] 0%N ds.
Definition app_single (name : string) (d : dataset) : option app :=
  match get_date d 0 with
  | None => None
  | Some d0 => Some (mkApp [(0%N, mkBacktest d0 0 x_init name)] 1%N [(name, d)])
  end.

(* the client loop  `while has_next { tick }`  on one backtest, with fuel; returns the number of
   ticks performed, or None when the fuel ran out or a call failed *)
Fixpoint client_loop (fuel : nat) (s : app) (id : N) (perms : nat -> list nat) (done : nat)
  : option (app * nat) :=
  match fuel with
  | O => None
  | S fuel' =>
      match sstep s (SNow id) with
      | (_, RNow (Some (_, true))) =>
          match sstep s (STick id (perms done)) with
          | (s', RTick (Some _)) => client_loop fuel' s' id perms (S done)
          | _ => None
          end
      | (_, RNow (Some (_, false))) => Some (s, done)
      | _ => None
      end
  end.

End Server.

Arguments dataset Row : clear implicits.
Arguments backtest X : clear implicits.
Arguments app X Row : clear implicits.
Arguments sop Ordr Key : clear implicits.
Arguments sres Row TOut : clear implicits.
