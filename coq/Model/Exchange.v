(* Exchange.v — the skeleton shared by UistV1 and JuraV1 (exchange/uist_v1.rs, jura_v1.rs):
   order buffer, resting book, id counter, trade log; insert / delete / tick.
   The per-order decision is a parameter; Uist.v and Jura.v supply the concrete ones.
   Definitions only. *)
From Coq Require Import ZArith NArith List Bool String.
Import ListNotations.
Local Open Scope N_scope.

Section Skeleton.

Context {Ord Qt T : Type}.          (* order payload, quote, fill/trade *)
Context (asset_of : Ord -> N)        (* Jura: asset number; Uist: constant 0 *)
        (sym_of : Ord -> string)     (* key under which the order's quote is looked up *)
        (is_sell : Ord -> bool).     (* sell-side order (the sort key of the buffer) *)

(* a resting order: id given at admission, payload, Jura's attempted_execution flag *)
Record entry := mkEntry { e_id : N; e_ord : Ord; e_flag : bool }.

(* what the matching loop does with one resting order whose symbol is quoted on this tick *)
Inductive action :=
| ARest                 (* nothing *)
| AMark                 (* stays; attempted_execution := true *)
| AFill (t : T)         (* report t; schedule deletion *)
| AExpire               (* schedule deletion without a fill *)
| ATrigger (child : Ord)  (* schedule deletion; queue child for insertion after the deletions *)
| APanic.               (* the code panics here (unwrap / unimplemented!) *)

Context (decide : entry -> Qt -> action).

(* a tick's quotes: HashMap<String, Quote>, keys unique; only looked up by key *)
Definition quotes := list (string * Qt).

Fixpoint lookup (qs : quotes) (k : string) : option Qt :=
  match qs with
  | [] => None
  | (k', q) :: qs' => if String.eqb k k' then Some q else lookup qs' k
  end.

Record exch := mkExch {
  book : list entry;      (* orderbook.inner, front first *)
  buffer : list Ord;        (* order_buffer *)
  next_id : N;            (* orderbook.last_inserted *)
  xlog : list T;          (* trade_log *)
}.

Definition exch_init : exch := mkExch [] [] 0 [].

Definition key : Type := (N * N)%type.   (* (asset, order id) *)
Definition key_of (e : entry) : key := (asset_of (e_ord e), e_id e).
Definition matches (k : key) (e : entry) : bool :=
  N.eqb (snd k) (e_id e) && N.eqb (fst k) (asset_of (e_ord e)).

(* OrderBook::delete_order: remove the first resting order with that id (and asset) *)
Fixpoint delete_first (k : key) (b : list entry) : list entry :=
  match b with
  | [] => []
  | e :: b' => if matches k e then b' else e :: delete_first k b'
  end.

Definition action_of (qs : quotes) (e : entry) : action :=
  match lookup qs (sym_of (e_ord e)) with
  | None => ARest
  | Some q => decide e q
  end.

Definition mark (e : entry) : entry := mkEntry (e_id e) (e_ord e) true.

(* the matching loop over the resting book, front to back:
   (book with flags updated, fills with the id of their order, deletions, children) ; None = panic *)
Fixpoint walk (qs : quotes) (b : list entry)
  : option (list entry * list (N * T) * list key * list Ord) :=
  match b with
  | [] => Some ([], [], [], [])
  | e :: b' =>
      match action_of qs e with
      | APanic => None
      | act =>
          match walk qs b' with
          | None => None
          | Some (bk, fl, dl, ins) =>
              match act with
              | ARest => Some (e :: bk, fl, dl, ins)
              | AMark => Some (mark e :: bk, fl, dl, ins)
              | AFill t => Some (e :: bk, (e_id e, t) :: fl, key_of e :: dl, ins)
              | AExpire => Some (e :: bk, fl, key_of e :: dl, ins)
              | ATrigger c => Some (e :: bk, fl, key_of e :: dl, c :: ins)
              | APanic => None
              end
          end
      end
  end.

(* ids n, n+1, … given to a list of orders *)
Fixpoint number (n : N) (os : list Ord) : list (N * Ord) :=
  match os with
  | [] => []
  | o :: r => (n, o) :: number (N.succ n) r
  end.

Definition fresh_entry (p : N * Ord) : entry := mkEntry (fst p) (snd p) false.

(* the sort of the buffer is an oracle: [perm] lists, for each position of the sorted buffer, the
   index in the unsorted one *)
Fixpoint nth_opt {A} (l : list A) (n : nat) : option A :=
  match l with
  | [] => None
  | a :: l' => match n with 0%nat => Some a | S n' => nth_opt l' n' end
  end.

Fixpoint mem_nat (n : nat) (l : list nat) : bool :=
  match l with [] => false | m :: l' => Nat.eqb n m || mem_nat n l' end.

Fixpoint nodup_nat (l : list nat) : bool :=
  match l with [] => true | n :: l' => negb (mem_nat n l') && nodup_nat l' end.

Definition valid_perm (n : nat) (p : list nat) : bool :=
  Nat.eqb (List.length p) n && forallb (fun i => Nat.ltb i n) p && nodup_nat p.

Fixpoint pick {A} (l : list A) (p : list nat) : option (list A) :=
  match p with
  | [] => Some []
  | i :: p' =>
      match nth_opt l i, pick l p' with
      | Some a, Some r => Some (a :: r)
      | _, _ => None
      end
  end.

Definition apply_perm {A} (l : list A) (p : list nat) : option (list A) :=
  if valid_perm (List.length l) p then pick l p else None.

(* every sell-side order before every buy-side order *)
Fixpoint sells_first (l : list Ord) : bool :=
  match l with
  | [] => true
  | o :: r => (is_sell o || forallb (fun o' => negb (is_sell o')) r) && sells_first r
  end.

Inductive out :=
| OutUnit                                   (* insert / delete *)
| OutTick (fills : list (N * T))            (* fills, each with the id of its order *)
          (admitted : list (N * Ord))         (* the batch in admission order, with ids *)
          (triggered : list N)              (* ids of trigger children created by this tick *)
| OutPanic
| OutBadOracle.

Definition tick (s : exch) (qs : quotes) (perm : list nat) : exch * out :=
  match walk qs (book s) with
  | None => (s, OutPanic)
  | Some (bk, fl, dl, ins) =>
      let bk1 := fold_left (fun b k => delete_first k b) dl bk in
      let kids := number (next_id s) ins in
      let bk2 := bk1 ++ map fresh_entry kids in
      let n2 := next_id s + N.of_nat (List.length ins) in
      match apply_perm (buffer s) perm with
      | None => (s, OutBadOracle)
      | Some sorted =>
          if sells_first sorted then
            let adm := number n2 sorted in
            (mkExch (bk2 ++ map fresh_entry adm) [] (n2 + N.of_nat (List.length sorted))
                    (xlog s ++ map snd fl),
             OutTick fl adm (map fst kids))
          else (s, OutBadOracle)
      end
  end.

Inductive op :=
| Insert (o : Ord)
| Delete (k : key)
| Tick (qs : quotes) (perm : list nat).

Definition step (s : exch) (o : op) : exch * out :=
  match o with
  | Insert x => (mkExch (book s) (buffer s ++ [x]) (next_id s) (xlog s), OutUnit)
  | Delete k => (mkExch (delete_first k (book s)) (buffer s) (next_id s) (xlog s), OutUnit)
  | Tick qs perm => tick s qs perm
  end.

(* run an operation list, collecting the outputs *)
Fixpoint run (s : exch) (ops : list op) : exch * list out :=
  match ops with
  | [] => (s, [])
  | o :: r => let '(s', x) := step s o in let '(s'', xs) := run s' r in (s'', x :: xs)
  end.

Definition ids (b : list entry) : list N := map e_id b.

End Skeleton.

Arguments entry Ord : clear implicits.
Arguments action Ord T : clear implicits.
Arguments exch Ord T : clear implicits.
Arguments out Ord T : clear implicits.
Arguments op Ord Qt : clear implicits.
Arguments quotes Qt : clear implicits.
