(* EndToEnd.v — C01 end to end as one theorem about the tagged run (Model/Tagged.v):
   E1 erasure at the exchange level, E2 erasure at the server level, E3 the end-to-end theorem,
   E4 the politeness caveat is necessary, E5 the Uist / Jura services are projections of the
   skeleton-level server. *)
From Coq Require Import ZArith NArith List Bool String Lia Sorted.
From Alator Require Import Model.Num Model.Quirks Model.Exchange Model.Uist Model.Jura Model.Server
  Model.Tagged Model.Strategy Check.ServerCheck
  Proofs.ListAux Proofs.ExchangeProofs Proofs.JuraProofs Proofs.ServerProofs.
Import ListNotations.

(* ------------------------------------------------------------------------------------------ *)
(* small list facts                                                                           *)
(* ------------------------------------------------------------------------------------------ *)
Lemma nth_opt_map {A B} (f : A -> B) (l : list A) (n : nat) :
  nth_opt (map f l) n = option_map f (nth_opt l n).
Proof.
  revert n. induction l as [|a l IH]; intros n; [reflexivity|].
  destruct n as [|n]; cbn [map nth_opt]; [reflexivity | apply IH].
Qed.

Lemma pick_map {A B} (f : A -> B) (l : list A) (p : list nat) :
  pick (map f l) p = option_map (map f) (pick l p).
Proof.
  induction p as [|i p IH]; [reflexivity|].
  cbn [pick]. rewrite nth_opt_map, IH.
  destruct (nth_opt l i) as [a|]; cbn [option_map]; [| reflexivity].
  destruct (pick l p) as [r|]; reflexivity.
Qed.

Lemma apply_perm_map {A B} (f : A -> B) (l : list A) (p : list nat) :
  apply_perm (map f l) p = option_map (map f) (apply_perm l p).
Proof.
  unfold apply_perm. rewrite map_length.
  destruct (valid_perm (List.length l) p); [apply pick_map | reflexivity].
Qed.

Lemma forallb_map_comp {A B} (f : A -> B) (p : B -> bool) (l : list A) :
  forallb p (map f l) = forallb (fun a => p (f a)) l.
Proof.
  induction l as [|a l IH]; [reflexivity|]. cbn [map forallb]. rewrite IH. reflexivity.
Qed.

Lemma lookup_In {Qt} (qs : quotes Qt) k q : lookup qs k = Some q -> In (k, q) qs.
Proof.
  induction qs as [|[k' q'] qs IH]; cbn [lookup]; [discriminate|].
  destruct (String.eqb k k') eqn:E.
  - intros H. inversion H; subst q'. apply String.eqb_eq in E. subst k'. left. reflexivity.
  - intros H. right. apply IH. exact H.
Qed.

Lemma slookup_In {A} (l : list (string * A)) k a : slookup l k = Some a -> In (k, a) l.
Proof.
  induction l as [|[k' a'] l IH]; cbn [slookup]; [discriminate|].
  destruct (String.eqb k k') eqn:E.
  - intros H. inversion H; subst a'. apply String.eqb_eq in E. subst k'. left. reflexivity.
  - intros H. right. apply IH. exact H.
Qed.

Lemma nlookup_map {A B} (f : A -> B) (l : list (N * A)) (k : N) :
  nlookup (map (fun kb => (fst kb, f (snd kb))) l) k = option_map f (nlookup l k).
Proof.
  induction l as [|[k' a] l IH]; [reflexivity|].
  cbn [map nlookup fst snd]. destruct (N.eqb k k'); [reflexivity | apply IH].
Qed.

Lemma nupsert_map {A B} (f : A -> B) (l : list (N * A)) (k : N) (a : A) :
  map (fun kb => (fst kb, f (snd kb))) (nupsert l k a)
  = nupsert (map (fun kb => (fst kb, f (snd kb))) l) k (f a).
Proof.
  induction l as [|[k' a'] l IH]; [reflexivity|].
  cbn [map nupsert fst snd]. destruct (N.eqb k k'); cbn [map fst snd]; [reflexivity|].
  rewrite IH. reflexivity.
Qed.

(* ------------------------------------------------------------------------------------------ *)
(* E1: erasure at the exchange level                                                          *)
(* ------------------------------------------------------------------------------------------ *)
Section Erasure.
Context {Ord Qt T : Type}.
Context (asset_of : Ord -> N) (sym_of : Ord -> string) (is_sell : Ord -> bool)
        (decide : entry Ord -> Qt -> action Ord T).

Notation tasset := (t_asset asset_of).
Notation tsym := (t_sym sym_of).
Notation tsell := (t_is_sell is_sell).
Notation tdec := (t_decide decide).

Definition erase_op (o : op (@tOrd Ord) Qt) : op Ord Qt :=
  match o with
  | Insert x => Insert (fst x)
  | Delete k => Delete k
  | Tick qs p => Tick qs p
  end.

Definition erase_xout (r : out (@tOrd Ord) (@tT T)) : out Ord T :=
  match r with
  | OutUnit => OutUnit
  | OutTick fl adm trig => OutTick (map erase_fill fl) (map erase_adm adm) trig
  | OutPanic => OutPanic
  | OutBadOracle => OutBadOracle
  end.

(* the tagged decision is the untagged one with the tag of the order attached to what it produces *)
Definition tag_action (z : Z) (a : action Ord T) : action (@tOrd Ord) (@tT T) :=
  match a with
  | ARest => ARest
  | AMark => AMark
  | AFill t => AFill (t, z)
  | AExpire => AExpire
  | ATrigger c => ATrigger (c, z)
  | APanic => APanic
  end.

Lemma action_of_tagged qs (e : entry (@tOrd Ord)) :
  action_of tsym tdec qs e
  = tag_action (snd (e_ord e)) (action_of sym_of decide qs (untag_entry e)).
Proof.
  unfold action_of, t_sym. cbn [untag_entry e_ord].
  destruct (lookup qs (sym_of (fst (e_ord e)))) as [q|]; [| reflexivity].
  unfold t_decide, tag_action. destruct (decide (untag_entry e) q); reflexivity.
Qed.

Lemma walk_erase qs (b : list (entry (@tOrd Ord))) :
  walk asset_of sym_of decide qs (map untag_entry b)
  = match walk tasset tsym tdec qs b with
    | None => None
    | Some (bk, fl, dl, ins) => Some (map untag_entry bk, map erase_fill fl, dl, map fst ins)
    end.
Proof.
  induction b as [|e b IH]; [reflexivity|].
  cbn [map walk]. rewrite IH, action_of_tagged.
  destruct (action_of sym_of decide qs (untag_entry e)) as [| |t| |c|]; cbn [tag_action];
    try reflexivity;
    destruct (walk tasset tsym tdec qs b) as [[[[bk fl] dl] ins]|]; reflexivity.
Qed.

Lemma delete_first_erase k (b : list (entry (@tOrd Ord))) :
  map untag_entry (delete_first tasset k b) = delete_first asset_of k (map untag_entry b).
Proof.
  induction b as [|e b IH]; [reflexivity|].
  cbn [map delete_first].
  change (matches asset_of k (untag_entry e)) with (matches tasset k e).
  destruct (matches tasset k e); [reflexivity|]. cbn [map]. rewrite IH. reflexivity.
Qed.

Lemma fold_delete_erase dl (b : list (entry (@tOrd Ord))) :
  map untag_entry (fold_left (fun b k => delete_first tasset k b) dl b)
  = fold_left (fun b k => delete_first asset_of k b) dl (map untag_entry b).
Proof.
  revert b. induction dl as [|k dl IH]; intros b; [reflexivity|].
  cbn [fold_left]. rewrite IH, delete_first_erase. reflexivity.
Qed.

Lemma number_erase n (l : list (@tOrd Ord)) :
  map erase_adm (number n l) = number n (map fst l).
Proof.
  revert n. induction l as [|o l IH]; intros n; [reflexivity|].
  cbn [number map]. rewrite IH. reflexivity.
Qed.

Lemma fresh_erase (l : list (N * @tOrd Ord)) :
  map untag_entry (map fresh_entry l) = map fresh_entry (map erase_adm l).
Proof. rewrite !map_map. apply map_ext. intros [i [o z]]. reflexivity. Qed.

Lemma number_fst_erase n (l : list (@tOrd Ord)) :
  map fst (number n l) = map fst (number n (map fst l)).
Proof.
  revert n. induction l as [|o l IH]; intros n; [reflexivity|].
  cbn [number map fst]. rewrite IH. reflexivity.
Qed.

Lemma sells_first_erase (l : list (@tOrd Ord)) :
  sells_first is_sell (map fst l) = sells_first tsell l.
Proof.
  induction l as [|o l IH]; [reflexivity|].
  cbn [map sells_first]. rewrite IH, forallb_map_comp. reflexivity.
Qed.

Lemma tick_erase (x : exch (@tOrd Ord) (@tT T)) qs perm :
  tick asset_of sym_of is_sell decide (erase_exch x) qs perm
  = (erase_exch (fst (tick tasset tsym tsell tdec x qs perm)),
     erase_xout (snd (tick tasset tsym tsell tdec x qs perm))).
Proof.
  unfold tick. cbn [erase_exch book buffer next_id xlog]. rewrite walk_erase.
  destruct (walk tasset tsym tdec qs (book x)) as [[[[bk fl] dl] ins]|]; [| reflexivity].
  rewrite (apply_perm_map (A:=@tOrd Ord) fst).
  destruct (apply_perm (buffer x) perm) as [sorted|]; cbn [option_map]; [| reflexivity].
  rewrite sells_first_erase.
  destruct (sells_first tsell sorted); [| reflexivity].
  cbn [fst snd erase_xout]. unfold erase_exch. cbn [book buffer next_id xlog].
  rewrite !map_length.
  f_equal.
  - f_equal.
    + rewrite !map_app, fold_delete_erase, !fresh_erase, !number_erase. reflexivity.
    + rewrite map_app, !map_map. reflexivity.
  - rewrite number_erase, <- number_fst_erase. reflexivity.
Qed.

Lemma erase_step (x : exch (@tOrd Ord) (@tT T)) (o : op (@tOrd Ord) Qt) :
  let '(x', r) := step tasset tsym tsell tdec x o in
  step asset_of sym_of is_sell decide (erase_exch x) (erase_op o) = (erase_exch x', erase_xout r).
Proof.
  destruct o as [[o z] | k | qs perm].
  - cbn [step erase_op erase_xout]. unfold erase_exch. cbn [book buffer next_id xlog fst].
    rewrite map_app. reflexivity.
  - cbn [step erase_op erase_xout]. unfold erase_exch. cbn [book buffer next_id xlog].
    rewrite delete_first_erase. reflexivity.
  - cbn [step erase_op]. rewrite tick_erase.
    destruct (tick tasset tsym tsell tdec x qs perm) as [x' r]. reflexivity.
Qed.

End Erasure.

(* ------------------------------------------------------------------------------------------ *)
(* a simulation lemma for the generic server: two exchanges related by a map on states and   *)
(* tick outputs give servers related by the induced maps (used for E2 and for E5)             *)
(* ------------------------------------------------------------------------------------------ *)
Section ServerSim.
Context {X1 X2 Row O1 O2 K1 K2 TO1 TO2 : Type}.
Context (init1 : X1) (tick1 : X1 -> Row -> list nat -> option (X1 * TO1))
        (ins1 : X1 -> O1 -> X1) (del1 : X1 -> K1 -> X1) (empty1 : TO1).
Context (init2 : X2) (tick2 : X2 -> Row -> list nat -> option (X2 * TO2))
        (ins2 : X2 -> O2 -> X2) (del2 : X2 -> K2 -> X2) (empty2 : TO2).
Context (qk : quirks) (is_jura : bool).
Context (fX : X1 -> X2) (fOut : TO1 -> TO2).
Context (Hinit : fX init1 = init2) (Hempty : fOut empty1 = empty2).
Context (Htick : forall x row p,
            tick2 (fX x) row p
            = match tick1 x row p with Some (x', o) => Some (fX x', fOut o) | None => None end).

Notation step1 := (sstep init1 tick1 ins1 del1 empty1 qk is_jura).
Notation step2 := (sstep init2 tick2 ins2 del2 empty2 qk is_jura).

Definition map_bt (b : backtest X1) : backtest X2 :=
  mkBacktest (bt_date b) (bt_pos b) (fX (bt_exch b)) (bt_dataset b).
Definition map_app (s : app X1 Row) : app X2 Row :=
  mkApp (map (fun kb => (fst kb, map_bt (snd kb))) (backtests s)) (last s) (datasets s).
Definition map_res (r : sres Row TO1) : sres Row TO2 :=
  match r with
  | RTick (Some (h, o)) => RTick (Some (h, fOut o))
  | RTick None => RTick None
  | RFetch x => RFetch x
  | RId x => RId x
  | RUnit x => RUnit x
  | RInfo x => RInfo x
  | RNow x => RNow x
  | RPanic => RPanic
  end.

(* related operations: same shape and ids; the payloads of insert / delete act alike *)
Definition op_sim (o1 : sop O1 K1) (o2 : sop O2 K2) : Prop :=
  match o1, o2 with
  | STick i p, STick i' p' => i = i' /\ p = p'
  | SFetch i, SFetch i' => i = i'
  | SInit n, SInit n' => n = n'
  | SNew n, SNew n' => n = n'
  | SInsert a i, SInsert a' i' => i = i' /\ forall x, ins2 (fX x) a' = fX (ins1 x a)
  | SDelete k i, SDelete k' i' => i = i' /\ forall x, del2 (fX x) k' = fX (del1 x k)
  | SInfo i, SInfo i' => i = i'
  | SNow i, SNow i' => i = i'
  | _, _ => False
  end.

Lemma nlookup_map_app s id :
  nlookup (backtests (map_app s)) id = option_map map_bt (nlookup (backtests s) id).
Proof. cbn [map_app backtests]. apply nlookup_map. Qed.

Lemma with_backtest_sim s id b :
  map_app (with_backtest s id b) = with_backtest (map_app s) id (map_bt b).
Proof.
  unfold with_backtest, map_app. cbn [backtests last datasets].
  rewrite (nupsert_map map_bt). reflexivity.
Qed.

Lemma bt_tick_sim d b perm :
  bt_tick tick2 empty2 qk is_jura d (map_bt b) perm
  = match bt_tick tick1 empty1 qk is_jura d b perm with
    | Some (b', (h, o)) => Some (map_bt b', (h, fOut o))
    | None => None
    end.
Proof.
  unfold bt_tick. cbn [map_bt bt_date bt_pos bt_exch bt_dataset].
  destruct (get_quotes d (bt_date b)) as [row|].
  - rewrite Htick. destruct (tick1 (bt_exch b) row perm) as [[x' o]|]; reflexivity.
  - rewrite <- Hempty. reflexivity.
Qed.

Lemma create_sim s name bump :
  create_backtest (TOut:=TO2) init2 (map_app s) name bump
  = (map_app (fst (create_backtest (TOut:=TO1) init1 s name bump)),
     map_res (snd (create_backtest (TOut:=TO1) init1 s name bump))).
Proof.
  unfold create_backtest. cbn [map_app datasets last backtests].
  destruct (slookup (datasets s) name) as [d|]; [| reflexivity].
  destruct (get_date d 0) as [d0|]; [| reflexivity].
  cbn [fst snd map_res]. unfold map_app. cbn [backtests last datasets].
  rewrite (nupsert_map map_bt). rewrite <- Hinit. reflexivity.
Qed.

Lemma sstep_sim s o1 o2 :
  op_sim o1 o2 ->
  step2 (map_app s) o2 = (map_app (fst (step1 s o1)), map_res (snd (step1 s o1))).
Proof.
  intros Hsim.
  destruct o1 as [id perm | id | name | name | a id | k id | id | id];
    destruct o2 as [id' perm' | id' | name' | name' | a' id' | k' id' | id' | id'];
    cbn [op_sim] in Hsim; try contradiction.
  - destruct Hsim as [Hid Hp]. subst id' perm'. cbn [sstep]. rewrite nlookup_map_app.
    destruct (nlookup (backtests s) id) as [b|]; cbn [option_map]; [| reflexivity].
    cbn [map_app datasets map_bt bt_dataset].
    destruct (slookup (datasets s) (bt_dataset b)) as [d|]; [| reflexivity].
    change (mkBacktest (bt_date b) (bt_pos b) (fX (bt_exch b)) (bt_dataset b)) with (map_bt b).
    rewrite bt_tick_sim.
    destruct (bt_tick tick1 empty1 qk is_jura d b perm) as [[b' [h o]]|]; [| reflexivity].
    cbn [fst snd map_res]. rewrite with_backtest_sim. reflexivity.
  - subst id'. cbn [sstep]. rewrite nlookup_map_app.
    destruct (nlookup (backtests s) id) as [b|]; cbn [option_map]; [| reflexivity].
    cbn [map_app datasets map_bt bt_dataset bt_date].
    destruct (slookup (datasets s) (bt_dataset b)) as [d|]; reflexivity.
  - subst name'. cbn [sstep]. apply create_sim.
  - subst name'. cbn [sstep]. apply create_sim.
  - destruct Hsim as [Hid Hins]. subst id'. cbn [sstep]. rewrite nlookup_map_app.
    destruct (nlookup (backtests s) id) as [b|]; cbn [option_map]; [| reflexivity].
    cbn [fst snd map_res]. rewrite with_backtest_sim.
    unfold map_bt. cbn [bt_date bt_pos bt_exch bt_dataset]. rewrite Hins. reflexivity.
  - destruct Hsim as [Hid Hdel]. subst id'. cbn [sstep]. rewrite nlookup_map_app.
    destruct (nlookup (backtests s) id) as [b|]; cbn [option_map]; [| reflexivity].
    cbn [fst snd map_res]. rewrite with_backtest_sim.
    unfold map_bt. cbn [bt_date bt_pos bt_exch bt_dataset]. rewrite Hdel. reflexivity.
  - subst id'. cbn [sstep]. rewrite nlookup_map_app.
    destruct (nlookup (backtests s) id) as [b|]; reflexivity.
  - subst id'. cbn [sstep]. rewrite nlookup_map_app.
    destruct (nlookup (backtests s) id) as [b|]; cbn [option_map]; [| reflexivity].
    cbn [map_app datasets map_bt bt_dataset bt_date bt_pos].
    destruct (slookup (datasets s) (bt_dataset b)) as [d|]; reflexivity.
Qed.

End ServerSim.

(* ------------------------------------------------------------------------------------------ *)
(* facts about [polite] and the tagged exchange that E3 needs                                 *)
(* ------------------------------------------------------------------------------------------ *)
Lemma nmem_cons_mono i j l : nmem i l = true -> nmem i (j :: l) = true.
Proof. intros H. cbn [nmem]. rewrite H. apply orb_true_r. Qed.

Lemma nmem_head i l : nmem i (i :: l) = true.
Proof. cbn [nmem]. rewrite N.eqb_refl. reflexivity. Qed.

(* what [polite] checks now, and the accumulator it continues with *)
Definition tick_allowed {O K} (done : list N) (o : sop O K) : bool :=
  match o with STick id _ => negb (nmem id done) | _ => true end.
Definition done_after {O K R TO} (done : list N) (o : sop O K) (r : sres R TO) : list N :=
  match o with
  | STick id _ => match r with RTick (Some (false, _)) => id :: done | _ => done end
  | _ => done
  end.

Lemma polite_cons {O K R TO} done (o : sop O K) (r : sres R TO) rest :
  polite done ((o, r) :: rest) = true ->
  tick_allowed done o = true /\ polite (done_after done o r) rest = true.
Proof.
  destruct o as [id perm | id | name | name | a id | k id | id | id];
    cbn [polite tick_allowed done_after]; intros H;
    try (split; [reflexivity | exact H]).
  apply andb_true_iff in H. exact H.
Qed.

Lemma done_after_mono {O K R TO} done (o : sop O K) (r : sres R TO) i :
  nmem i done = true -> nmem i (done_after done o r) = true.
Proof.
  intros H. destruct o as [id perm | id | name | name | a id | k id | id | id];
    cbn [done_after]; try exact H.
  destruct r as [[[[|] out]|] | x | x | x | x | x |]; try exact H.
  apply nmem_cons_mono. exact H.
Qed.

Section ForallDelete.
Context {Ord : Type} (asset_of : Ord -> N) (P : entry Ord -> Prop).

Lemma Forall_delete_first k (b : list (entry Ord)) :
  Forall P b -> Forall P (delete_first asset_of k b).
Proof.
  induction b as [|e b IH]; intros H; [exact H|].
  cbn [delete_first]. inversion H as [|e' b' He Hb]; subst.
  destruct (matches asset_of k e); [exact Hb|]. constructor; [exact He | apply IH; exact Hb].
Qed.

Lemma Forall_fold_delete dl (b : list (entry Ord)) :
  Forall P b -> Forall P (fold_left (fun b k => delete_first asset_of k b) dl b).
Proof.
  revert b. induction dl as [|k dl IH]; intros b H; [exact H|].
  cbn [fold_left]. apply IH. apply Forall_delete_first. exact H.
Qed.
End ForallDelete.

(* ------------------------------------------------------------------------------------------ *)
(* E2, E3                                                                                     *)
(* ------------------------------------------------------------------------------------------ *)
Section E2E.
Context {Ord Qt T : Type}.
Context (asset_of : Ord -> N) (sym_of : Ord -> string) (is_sell : Ord -> bool)
        (decide : entry Ord -> Qt -> action Ord T).
Context (qdate : Qt -> Z) (tdate : T -> Z).
Context (is_jura : bool).

Notation tasset := (t_asset asset_of).
Notation tsym := (t_sym sym_of).
Notation tsell := (t_is_sell is_sell).
Notation tdec := (t_decide decide).
Notation tstep := (t_sstep asset_of sym_of is_sell decide clean is_jura).
Notation trun := (t_run asset_of sym_of is_sell decide clean is_jura).
Notation kstep := (sk_sstep asset_of sym_of is_sell decide clean is_jura).
Notation krun := (sk_srun asset_of sym_of is_sell decide clean is_jura).
Notation txch := (exch (@tOrd Ord) (@tT T)).

(* ---- E2 ---- *)
Lemma erase_app_map (s : @tapp Ord Qt T) : erase_app s = map_app erase_exch s.
Proof. reflexivity. Qed.

Lemma erase_res_map (r : sres (quotes Qt) (@t_out Ord T)) : erase_res r = map_res erase_out r.
Proof. destruct r as [[[h o]|] | x | x | x | x | x |]; reflexivity. Qed.

Lemma sk_tick_erase (x : txch) row perm :
  sk_tick asset_of sym_of is_sell decide (erase_exch x) row perm
  = match sk_tick tasset tsym tsell tdec x row perm with
    | Some (x', o) => Some (erase_exch x', erase_out o)
    | None => None
    end.
Proof.
  unfold sk_tick. rewrite tick_erase.
  destruct (tick tasset tsym tsell tdec x row perm) as [x' r].
  destruct r as [| fl adm trig | |]; reflexivity.
Qed.

Lemma sk_insert_erase (x : txch) (o : @tOrd Ord) :
  sk_insert asset_of sym_of is_sell decide (erase_exch x) (fst o)
  = erase_exch (sk_insert tasset tsym tsell tdec x o).
Proof.
  unfold sk_insert.
  pose proof (erase_step asset_of sym_of is_sell decide x (Insert o)) as H.
  destruct (step tasset tsym tsell tdec x (Insert o)) as [x' r].
  cbn [erase_op] in H. rewrite H. reflexivity.
Qed.

Lemma sk_delete_erase (x : txch) (k : key) :
  sk_delete asset_of sym_of is_sell decide (erase_exch x) k
  = erase_exch (sk_delete tasset tsym tsell tdec x k).
Proof.
  unfold sk_delete.
  pose proof (erase_step asset_of sym_of is_sell decide x (Delete k)) as H.
  destruct (step tasset tsym tsell tdec x (Delete k)) as [x' r].
  cbn [erase_op] in H. rewrite H. reflexivity.
Qed.

Lemma tag_op_sim (s : @tapp Ord Qt T) (o : sop Ord key) :
  op_sim (sk_insert tasset tsym tsell tdec) (sk_delete tasset tsym tsell tdec)
         (sk_insert asset_of sym_of is_sell decide) (sk_delete asset_of sym_of is_sell decide)
         erase_exch (tag_op s o) o.
Proof.
  destruct o as [id perm | id | name | name | a id | k id | id | id];
    cbn [tag_op op_sim]; try reflexivity.
  - split; reflexivity.
  - split; [reflexivity|]. intros x. apply (sk_insert_erase x (a, _)).
  - split; [reflexivity|]. intros x. apply sk_delete_erase.
Qed.

Lemma t_sstep_erases (s : @tapp Ord Qt T) (o : sop Ord key) :
  kstep (erase_app s) o
  = (erase_app (fst (tstep s (tag_op s o))), erase_res (snd (tstep s (tag_op s o)))).
Proof.
  rewrite erase_res_map, !erase_app_map. unfold sk_sstep, t_sstep, sk_sstep.
  apply sstep_sim.
  - reflexivity.
  - reflexivity.
  - intros x row p. apply sk_tick_erase.
  - apply tag_op_sim.
Qed.

Theorem t_run_erases : forall (s : @tapp Ord Qt T) (ops : list (sop Ord key)),
  let '(s', rs) := trun s ops in
  krun (erase_app s) ops = (erase_app s', map erase_res rs).
Proof.
  intros s ops. revert s. induction ops as [|o r IH]; intros s; [reflexivity|].
  cbn [t_run]. pose proof (t_sstep_erases s o) as Hs.
  destruct (tstep s (tag_op s o)) as [s1 x]. cbn [fst snd] in Hs.
  specialize (IH s1). destruct (trun s1 r) as [s2 xs].
  unfold sk_srun in *. cbn [srun]. unfold sk_sstep in Hs. rewrite Hs, IH. reflexivity.
Qed.

(* ---- E3: hypotheses ---- *)
Definition decide_dates_fills : Prop :=
  forall e q t, decide e q = AFill t -> tdate t = qdate q.
Definition dataset_ok (d : dataset (quotes Qt)) : Prop :=
  StronglySorted Z.lt (ds_dates d) /\
  (forall date row k q, get_quotes d date = Some row -> In (k, q) row -> qdate q = date).
Definition datasets_ok (ds : list (string * dataset (quotes Qt))) : Prop :=
  forall name d, In (name, d) ds -> dataset_ok d.

(* ---- E3: one tick of the tagged exchange ---- *)
Definition book_before (D : Z) (x : txch) : Prop :=
  Forall (fun e : entry (@tOrd Ord) => (snd (e_ord e) < D)%Z) (book x).
Definition buffer_upto (D : Z) (x : txch) : Prop :=
  Forall (fun o : @tOrd Ord => (snd o <= D)%Z) (buffer x).

Lemma tagged_fill_inv qs (e : entry (@tOrd Ord)) i t z :
  In (i, (t, z)) (fill_of tsym tdec qs e) ->
  z = snd (e_ord e) /\
  exists q, lookup qs (sym_of (fst (e_ord e))) = Some q /\ decide (untag_entry e) q = AFill t.
Proof.
  unfold fill_of. rewrite action_of_tagged. unfold action_of. cbn [untag_entry e_ord].
  destruct (lookup qs (sym_of (fst (e_ord e)))) as [q|]; [| intros []].
  destruct (decide (untag_entry e) q) as [| |t0| |c|] eqn:Hd; cbn [tag_action]; try (intros []; fail).
  intros [H | []]. inversion H; subst. split; [reflexivity|]. exists q. split; [reflexivity | exact Hd].
Qed.

Lemma tagged_child_inv qs (e : entry (@tOrd Ord)) (c : @tOrd Ord) :
  In c (child_of tsym tdec qs e) -> snd c = snd (e_ord e).
Proof.
  unfold child_of. rewrite action_of_tagged.
  destruct (action_of sym_of decide qs (untag_entry e)) as [| |t0| |c0|]; cbn [tag_action];
    try (intros []; fail).
  intros [H | []]. subst c. reflexivity.
Qed.

(* fills of a tick on a book whose tags are all before the date of the row are strictly dated *)
Lemma tick_fills_strict (x x' : txch) qs perm fl adm trig D :
  decide_dates_fills ->
  tick tasset tsym tsell tdec x qs perm = (x', OutTick fl adm trig) ->
  book_before D x ->
  (forall k q, In (k, q) qs -> qdate q = D) ->
  forall i t z, In (i, (t, z)) fl -> (z < tdate t)%Z.
Proof.
  intros Hdd Ht Hbk Hqs i t z Hin.
  apply tick_unfold in Ht. destruct Ht as [sorted [_ [_ Hrest]]]. cbv zeta in Hrest.
  destruct Hrest as [Hfl _]. rewrite Hfl in Hin. apply in_flat_map in Hin.
  destruct Hin as [e [He Hin]]. apply tagged_fill_inv in Hin.
  destruct Hin as [Hz [q [Hq Hd]]].
  unfold book_before in Hbk. rewrite Forall_forall in Hbk. specialize (Hbk e He). cbv beta in Hbk.
  rewrite (Hdd _ _ _ Hd). rewrite (Hqs _ _ (lookup_In _ _ _ Hq)). subst z. exact Hbk.
Qed.

(* the book after a tick: survivors, children (tag of their parent), the admitted batch *)
Lemma tick_book_after (x x' : txch) qs perm fl adm trig D D' :
  tick tasset tsym tsell tdec x qs perm = (x', OutTick fl adm trig) ->
  book_before D x -> buffer_upto D x -> (D < D')%Z ->
  book_before D' x' /\ buffer x' = [].
Proof.
  intros Ht Hbk Hbuf HD.
  apply tick_unfold in Ht. destruct Ht as [sorted [Hap [_ Hrest]]]. cbv zeta in Hrest.
  destruct Hrest as [_ [_ [Hadm Hx']]].
  unfold book_before, buffer_upto in *.
  rewrite Forall_forall in Hbk. rewrite Forall_forall in Hbuf.
  rewrite Hx'. cbn [book buffer]. split; [| reflexivity].
  apply Forall_app. split; [apply Forall_app; split |].
  - apply Forall_fold_delete. apply Forall_forall. intros e He.
    apply in_map_iff in He. destruct He as [e0 [He0 Hin]]. subst e.
    rewrite after_walk_ord. specialize (Hbk e0 Hin). cbv beta in Hbk. lia.
  - apply Forall_forall. intros e He.
    apply in_map_iff in He. destruct He as [[j c] [Hj Hin]]. subst e. cbn [fresh_entry e_ord snd].
    apply number_In_snd in Hin. apply in_flat_map in Hin. destruct Hin as [e0 [He0 Hc]].
    apply tagged_child_inv in Hc. rewrite Hc. specialize (Hbk e0 He0). cbv beta in Hbk. lia.
  - apply Forall_forall. intros e He.
    apply in_map_iff in He. destruct He as [[j c] [Hj Hin]]. subst e. cbn [fresh_entry e_ord snd].
    rewrite Hadm in Hin. apply number_In_snd in Hin.
    apply apply_perm_Permutation in Hap.
    assert (Hc : In c (buffer x)) by (eapply Permutation.Permutation_in; [exact Hap | exact Hin]).
    specialize (Hbuf c Hc). cbv beta in Hbuf. lia.
Qed.

Lemma sk_tick_some (x x' : txch) row perm fl adm trig :
  sk_tick tasset tsym tsell tdec x row perm = Some (x', (fl, adm, trig)) ->
  tick tasset tsym tsell tdec x row perm = (x', OutTick fl adm trig).
Proof.
  unfold sk_tick. destruct (tick tasset tsym tsell tdec x row perm) as [x'' r].
  destruct r as [| fl' adm' trig' | |]; intros H; inversion H; subst. reflexivity.
Qed.

Lemma book_before_mono D D' (x : txch) : (D <= D')%Z -> book_before D x -> book_before D' x.
Proof.
  intros HD H. unfold book_before in *. eapply Forall_impl; [| exact H].
  intros e He. cbv beta in *. lia.
Qed.

Lemma buffer_upto_mono D D' (x : txch) : (D <= D')%Z -> buffer_upto D x -> buffer_upto D' x.
Proof.
  intros HD H. unfold buffer_upto in *. eapply Forall_impl; [| exact H].
  intros e He. cbv beta in *. lia.
Qed.

(* ---- E3: the invariant, per backtest and for the whole server ---- *)
Notation tbt := (backtest txch).
Notation tktick := (sk_tick (Qt:=Qt) tasset tsym tsell tdec).
Notation tempty := (([], [], []) : @t_out Ord T).

Definition bt_inv (done : list N) (id : N) (d : dataset (quotes Qt)) (b : tbt) : Prop :=
  exists k, clock_ok d b k /\
    (nmem id done = true \/
     ((k < List.length (ds_dates d))%nat /\
      book_before (bt_date b) (bt_exch b) /\ buffer_upto (bt_date b) (bt_exch b))).

Definition app_inv (done : list N) (s : @tapp Ord Qt T) : Prop :=
  forall id b d,
    nlookup (backtests s) id = Some b -> slookup (datasets s) (bt_dataset b) = Some d ->
    bt_inv done id d b.

Definition done_incl (done done' : list N) : Prop :=
  forall i, nmem i done = true -> nmem i done' = true.

Lemma bt_inv_mono done done' id d b : done_incl done done' -> bt_inv done id d b -> bt_inv done' id d b.
Proof.
  intros Hincl [k [Hc [Hm | Hr]]]; exists k; (split; [exact Hc|]).
  - left. apply Hincl. exact Hm.
  - right. exact Hr.
Qed.

Lemma app_inv_mono done done' s : done_incl done done' -> app_inv done s -> app_inv done' s.
Proof.
  intros Hincl H id b d Hb Hd. eapply bt_inv_mono; [exact Hincl|]. exact (H id b d Hb Hd).
Qed.

Lemma app_inv_upsert done done' (s : @tapp Ord Qt T) id b' l' :
  done_incl done done' -> app_inv done s ->
  (forall d, slookup (datasets s) (bt_dataset b') = Some d -> bt_inv done' id d b') ->
  app_inv done' (mkApp (nupsert (backtests s) id b') l' (datasets s)).
Proof.
  intros Hincl Hinv Hb' id0 b0 d0 Hl Hd. cbn [backtests datasets] in Hl, Hd.
  destruct (N.eq_dec id0 id) as [E | E].
  - subst id0. rewrite nlookup_upsert_same in Hl. inversion Hl; subst b0. apply Hb'. exact Hd.
  - rewrite (nlookup_upsert_other _ _ _ _ E) in Hl.
    eapply bt_inv_mono; [exact Hincl|]. exact (Hinv id0 b0 d0 Hl Hd).
Qed.

Lemma done_incl_refl done : done_incl done done.
Proof. intros i H. exact H. Qed.

Lemma done_incl_after {O K R TO} done (o : sop O K) (r : sres R TO) :
  done_incl done (done_after done o r).
Proof. intros i H. apply done_after_mono. exact H. Qed.

(* one tick of one backtest *)
Lemma bt_tick_inv done id d (b b' : tbt) perm hn out :
  decide_dates_fills -> dataset_ok d ->
  bt_inv done id d b -> nmem id done = false ->
  bt_tick tktick tempty clean is_jura d b perm = Some (b', (hn, out)) ->
  bt_dataset b' = bt_dataset b /\
  bt_inv (if hn then done else id :: done) id d b' /\
  (forall i t z, In (i, (t, z)) (fst (fst out)) -> (z < tdate t)%Z).
Proof.
  intros Hdd [Hsorted Hrows] [k [Hc [Hm | [Hk [Hbk Hbuf]]]]] Hnm Ht; [congruence|].
  destruct (tick1_spec tktick tempty is_jura d b perm b' hn out k Hc Ht) as (Hc' & Hhn & Hds & Hrow).
  assert (Hdate : nth_error (ds_dates d) k = Some (bt_date b)).
  { destruct Hc as [_ Hg]. rewrite Nat.min_l in Hg by lia. exact Hg. }
  assert (Hx : (forall i t z, In (i, (t, z)) (fst (fst out)) -> (z < tdate t)%Z) /\
               (forall D', (bt_date b < D')%Z ->
                           book_before D' (bt_exch b') /\ buffer_upto D' (bt_exch b'))).
  { destruct (get_quotes d (bt_date b)) as [row|] eqn:Hq.
    - destruct out as [[fl adm] trig]. apply sk_tick_some in Hrow. cbn [fst]. split.
      + eapply tick_fills_strict; [exact Hdd | exact Hrow | exact Hbk |].
        intros kk q Hin. eapply Hrows; [exact Hq | exact Hin].
      + intros D' HD.
        destruct (tick_book_after _ _ _ _ _ _ _ _ D' Hrow Hbk Hbuf HD) as [Hbk' Hbuf'].
        split; [exact Hbk'|]. unfold buffer_upto. rewrite Hbuf'. constructor.
    - destruct Hrow as [Hex Hout]. subst out. cbn [fst]. split; [intros i t z []|].
      intros D' HD. rewrite Hex. split.
      + eapply book_before_mono; [| exact Hbk]. lia.
      + eapply buffer_upto_mono; [| exact Hbuf]. lia. }
  destruct Hx as [Hfills Hnext].
  split; [exact Hds|]. split; [| exact Hfills].
  exists (S k). split; [exact Hc'|].
  destruct hn.
  - right. symmetry in Hhn. apply Nat.ltb_lt in Hhn. split; [exact Hhn|].
    apply Hnext. destruct Hc' as [_ Hg']. rewrite Nat.min_l in Hg' by lia.
    eapply (increasing_nth (ds_dates d) k (S k)); [exact Hsorted | lia | exact Hdate | exact Hg'].
  - left. apply nmem_head.
Qed.

(* creation *)
Lemma create_inv done (s : @tapp Ord Qt T) name bump :
  app_inv done s ->
  app_inv done (fst (create_backtest (TOut:=@t_out Ord T) (exch_init : txch) s name bump)).
Proof.
  intros Hinv. unfold create_backtest.
  destruct (slookup (datasets s) name) as [d|] eqn:Hd; [| exact Hinv].
  destruct (get_date d 0) as [d0|] eqn:Hd0; [| exact Hinv].
  cbn [fst]. apply (app_inv_upsert done done); [apply done_incl_refl | exact Hinv |].
  cbn [bt_dataset]. intros d' Hd'. rewrite Hd in Hd'. inversion Hd'; subst d'.
  exists 0%nat. split; [apply clock_fresh; exact Hd0|]. right.
  split; [| split].
  - unfold get_date in Hd0. apply (nth_error_Some (ds_dates d) 0). rewrite Hd0. discriminate.
  - unfold book_before. cbn [bt_exch exch_init book]. constructor.
  - unfold buffer_upto. cbn [bt_exch exch_init buffer]. constructor.
Qed.

(* one operation of the tagged server *)
Lemma t_sstep_inv done (s : @tapp Ord Qt T) (o : sop Ord key) :
  decide_dates_fills -> datasets_ok (datasets s) ->
  app_inv done s -> tick_allowed done o = true ->
  app_inv (done_after done o (snd (tstep s (tag_op s o)))) (fst (tstep s (tag_op s o))) /\
  (forall id p hn fl adm trig i t z,
      o = STick id p -> snd (tstep s (tag_op s o)) = RTick (Some (hn, (fl, adm, trig))) ->
      In (i, (t, z)) fl -> (z < tdate t)%Z).
Proof.
  intros Hdd Hds Hinv Hallow. unfold t_sstep, sk_sstep.
  destruct o as [id perm | id | name | name | a id | k id | id | id]; cbn [tag_op].
  - (* tick *)
    cbn [tick_allowed] in Hallow. apply negb_true_iff in Hallow. cbn [sstep].
    destruct (nlookup (backtests s) id) as [b|] eqn:Hb;
      [| cbn [fst snd done_after]; split; [exact Hinv | intros; discriminate]].
    destruct (slookup (datasets s) (bt_dataset b)) as [d|] eqn:Hd;
      [| cbn [fst snd done_after]; split; [exact Hinv | intros; discriminate]].
    destruct (bt_tick tktick tempty clean is_jura d b perm) as [[b' [hn out]]|] eqn:Ht;
      [| cbn [fst snd done_after]; split; [exact Hinv | intros; discriminate]].
    assert (Hdok : dataset_ok d) by (eapply Hds; apply slookup_In; exact Hd).
    destruct (bt_tick_inv done id d b b' perm hn out Hdd Hdok (Hinv id b d Hb Hd) Hallow Ht)
      as (Hdsn & Hinv' & Hfills).
    cbn [fst snd]. split.
    + unfold with_backtest. apply (app_inv_upsert done).
      * apply done_incl_after.
      * exact Hinv.
      * intros d' Hd'. rewrite Hdsn, Hd in Hd'. inversion Hd'; subst d'.
        destruct hn; exact Hinv'.
    + intros id0 p0 hn0 fl adm trig i t z _ Hr Hin. inversion Hr; subst hn0 out.
      apply (Hfills i t z). exact Hin.
  - (* fetch *)
    cbn [sstep]. destruct (nlookup (backtests s) id) as [b|];
      [| cbn [fst snd done_after]; split; [exact Hinv | intros; discriminate]].
    destruct (slookup (datasets s) (bt_dataset b)) as [d|];
      cbn [fst snd done_after]; (split; [exact Hinv | intros; discriminate]).
  - (* init *)
    cbn [sstep done_after]. split; [apply create_inv; exact Hinv | intros; discriminate].
  - (* new *)
    cbn [sstep done_after]. split; [apply create_inv; exact Hinv | intros; discriminate].
  - (* insert *)
    cbn [sstep done_after]. split; [| intros; discriminate].
    destruct (nlookup (backtests s) id) as [b|] eqn:Hb; [| exact Hinv].
    cbn [fst]. unfold with_backtest. apply (app_inv_upsert done done); [apply done_incl_refl | exact Hinv |].
    cbn [bt_dataset]. intros d Hd.
    destruct (Hinv id b d Hb Hd) as [k [Hc Hrest]]. exists k. split; [exact Hc|].
    destruct Hrest as [Hm | [Hk [Hbk Hbuf]]]; [left; exact Hm | right].
    split; [exact Hk|]. cbn [bt_date bt_exch]. unfold sk_insert. cbn [step fst]. split.
    + exact Hbk.
    + unfold buffer_upto in *. cbn [buffer]. apply Forall_app. split; [exact Hbuf|].
      constructor; [cbn [snd]; lia | constructor].
  - (* delete *)
    cbn [sstep done_after]. split; [| intros; discriminate].
    destruct (nlookup (backtests s) id) as [b|] eqn:Hb; [| exact Hinv].
    cbn [fst]. unfold with_backtest. apply (app_inv_upsert done done); [apply done_incl_refl | exact Hinv |].
    cbn [bt_dataset]. intros d Hd.
    destruct (Hinv id b d Hb Hd) as [kk [Hc Hrest]]. exists kk. split; [exact Hc|].
    destruct Hrest as [Hm | [Hk [Hbk Hbuf]]]; [left; exact Hm | right].
    split; [exact Hk|]. cbn [bt_date bt_exch]. unfold sk_delete. cbn [step fst]. split.
    + unfold book_before in *. cbn [book]. apply Forall_delete_first. exact Hbk.
    + exact Hbuf.
  - (* info *)
    cbn [sstep]. destruct (nlookup (backtests s) id) as [b|];
      cbn [fst snd done_after]; (split; [exact Hinv | intros; discriminate]).
  - (* now *)
    cbn [sstep]. destruct (nlookup (backtests s) id) as [b|];
      [| cbn [fst snd done_after]; split; [exact Hinv | intros; discriminate]].
    destruct (slookup (datasets s) (bt_dataset b)) as [d|];
      cbn [fst snd done_after]; (split; [exact Hinv | intros; discriminate]).
Qed.

Lemma t_sstep_datasets (s : @tapp Ord Qt T) (o : sop (@tOrd Ord) key) :
  datasets (fst (tstep s o)) = datasets s.
Proof. unfold t_sstep, sk_sstep. apply datasets_step. Qed.

(* the invariant along a whole history *)
Lemma t_run_fills_strict :
  decide_dates_fills ->
  forall (ops : list (sop Ord key)) (s : @tapp Ord Qt T) done s' rs,
    datasets_ok (datasets s) -> app_inv done s ->
    trun s ops = (s', rs) ->
    polite done (combine ops rs) = true ->
    forall id p hn fl adm trig i t z,
      In (STick id p, RTick (Some (hn, (fl, adm, trig)))) (combine ops rs) ->
      In (i, (t, z)) fl ->
      (z < tdate t)%Z.
Proof.
  intros Hdd ops. induction ops as [|o r IH]; intros s done s' rs Hds Hinv Hrun Hpol.
  - cbn [combine]. intros id p hn fl adm trig i t z [].
  - cbn [t_run] in Hrun.
    pose proof (t_sstep_inv done s o Hdd Hds Hinv) as Hstep.
    pose proof (t_sstep_datasets s (tag_op s o)) as Hdsame.
    destruct (tstep s (tag_op s o)) as [s1 x]. cbn [fst snd] in Hstep, Hdsame.
    destruct (trun s1 r) as [s2 xs] eqn:Hrun1. inversion Hrun; subst s' rs. clear Hrun.
    cbn [combine] in Hpol |- *.
    apply polite_cons in Hpol. destruct Hpol as [Hallow Hpol].
    destruct (Hstep Hallow) as [Hinv1 Hfills].
    intros id p hn fl adm trig i t z [Hhead | Htail] Hin.
    + inversion Hhead; subst o x.
      eapply (Hfills id p hn fl adm trig i t z); [reflexivity | reflexivity | exact Hin].
    + assert (Hds1 : datasets_ok (datasets s1)) by (rewrite Hdsame; exact Hds).
      eapply (IH s1 _ s2 xs Hds1 Hinv1 Hrun1 Hpol); [exact Htail | exact Hin].
Qed.

Theorem c01_end_to_end :
  decide_dates_fills ->
  forall ds ops s' rs,
    datasets_ok ds ->
    trun (app_create ds) ops = (s', rs) ->
    polite [] (combine ops rs) = true ->
    forall id p hn fl adm trig i t z,
      In (STick id p, RTick (Some (hn, (fl, adm, trig)))) (combine ops rs) ->
      In (i, (t, z)) fl ->
      (z < tdate t)%Z.
Proof.
  intros Hdd ds ops s' rs Hds Hrun Hpol.
  eapply (t_run_fills_strict Hdd ops (app_create ds) [] s' rs); [exact Hds | | exact Hrun | exact Hpol].
  intros id b d Hb. cbn [app_create backtests nlookup] in Hb. discriminate.
Qed.

Theorem c01_end_to_end_single :
  decide_dates_fills ->
  forall name d s0 ops s' rs,
    dataset_ok d ->
    app_single (exch_init : txch) name d = Some s0 ->
    trun s0 ops = (s', rs) ->
    polite [] (combine ops rs) = true ->
    forall id p hn fl adm trig i t z,
      In (STick id p, RTick (Some (hn, (fl, adm, trig)))) (combine ops rs) ->
      In (i, (t, z)) fl ->
      (z < tdate t)%Z.
Proof.
  intros Hdd name d s0 ops s' rs Hd Hsingle Hrun Hpol.
  unfold app_single in Hsingle. destruct (get_date d 0) as [d0|] eqn:Hd0; [| discriminate].
  inversion Hsingle; subst s0. clear Hsingle.
  eapply (t_run_fills_strict Hdd ops _ [] s' rs); [| | exact Hrun | exact Hpol].
  - intros name' d' [H | []]. inversion H; subst. exact Hd.
  - intros id b d' Hb Hd'. cbn [backtests nlookup] in Hb.
    destruct (N.eqb id 0); [| discriminate]. inversion Hb; subst b. clear Hb.
    cbn [datasets bt_dataset slookup] in Hd'. rewrite String.eqb_refl in Hd'.
    inversion Hd'; subst d'. exists 0%nat. split; [apply clock_fresh; exact Hd0|]. right.
    split; [| split].
    + unfold get_date in Hd0. apply (nth_error_Some (ds_dates d) 0). rewrite Hd0. discriminate.
    + unfold book_before. cbn [bt_exch exch_init book]. constructor.
    + unfold buffer_upto. cbn [bt_exch exch_init buffer]. constructor.
Qed.

End E2E.

(* ------------------------------------------------------------------------------------------ *)
(* E4: the politeness caveat is necessary                                                      *)
(* ------------------------------------------------------------------------------------------ *)
(* toy instance: an order is (symbol, is_sell); a quote is just its date; a fill is just its date;
   every quoted resting order fills. Two dates. The client ticks twice (the second tick answers
   has_next = false), then submits an order (the clock shows date 2) and keeps ticking: the third
   tick admits the order, the fourth fills it against the row of date 2 again. *)
Section Toy.
Local Open Scope string_scope.
Definition toy_ord : Type := (string * bool)%type.
Definition toy_asset (o : toy_ord) : N := 0%N.
Definition toy_sym (o : toy_ord) : string := fst o.
Definition toy_sell (o : toy_ord) : bool := snd o.
Definition toy_decide (e : entry toy_ord) (q : Z) : action toy_ord Z := AFill q.
Definition toy_date (z : Z) : Z := z.
Definition toy_d : dataset (quotes Z) :=
  mkDataset [1; 2]%Z [(1, [("A", 1)]); (2, [("A", 2)])]%Z.
Definition toy_ds : list (string * dataset (quotes Z)) := [("d", toy_d)].
Definition toy_ops : list (sop toy_ord key) :=
  [SInit "d"; STick 1%N []; STick 1%N []; SInsert ("A", false) 1%N; STick 1%N [0%nat]; STick 1%N []].

Lemma toy_decide_dates_fills : decide_dates_fills toy_decide toy_date toy_date.
Proof. intros e q t H. inversion H. reflexivity. Qed.

Lemma toy_datasets_ok : datasets_ok toy_date toy_ds.
Proof.
  intros name d [H | []]. inversion H; subst. split.
  - cbn [toy_d ds_dates]. repeat constructor.
  - intros date row k q Hrow Hin. unfold get_quotes in Hrow. cbn [toy_d ds_rows zlookup] in Hrow.
    destruct (Z.eqb date 1) eqn:E1.
    + apply Z.eqb_eq in E1. inversion Hrow; subst. destruct Hin as [H1 | []]. inversion H1. reflexivity.
    + destruct (Z.eqb date 2) eqn:E2; [| discriminate].
      apply Z.eqb_eq in E2. inversion Hrow; subst. destruct Hin as [H1 | []]. inversion H1. reflexivity.
Qed.

(* all hypotheses of c01_end_to_end hold except politeness, and the conclusion fails: the last tick
   reports a fill dated 2 for an order submitted when the clock showed 2 *)
Lemma c01_after_end_not_strict :
  let '(s', rs) := t_run toy_asset toy_sym toy_sell toy_decide clean false (app_create toy_ds) toy_ops in
  polite [] (combine toy_ops rs) = false /\
  exists id p hn fl adm trig i t z,
    In (STick id p, RTick (Some (hn, (fl, adm, trig)))) (combine toy_ops rs) /\
    In (i, (t, z)) fl /\ z = toy_date t.
Proof.
  vm_compute. split; [reflexivity|].
  exists 1%N, [], false, [(0%N, (2%Z, 2%Z))], [], [], 0%N, 2%Z, 2%Z.
  split; [| split; [left; reflexivity | reflexivity]].
  do 5 right. left. reflexivity.
Qed.
End Toy.

(* ------------------------------------------------------------------------------------------ *)
(* E5: the Uist and Jura services are projections of the skeleton-level server                 *)
(* ------------------------------------------------------------------------------------------ *)
Lemma map_app_id {X Row} (s : app X Row) : map_app (fun x => x) s = s.
Proof.
  destruct s as [bts l ds]. unfold map_app. cbn [backtests last datasets]. f_equal.
  induction bts as [|[k b] bts IH]; [reflexivity|].
  cbn [map fst snd]. rewrite IH. destruct b as [dt ps x nm]. reflexivity.
Qed.

Lemma pair_let {A B C} (p : A * B) (f : B -> C) :
  (fst p, f (snd p)) = let '(a, b) := p in (a, f b).
Proof. destruct p as [a b]. reflexivity. Qed.

Section Projections.
Context {F : Type} {NF : Num F}.

(* -- Uist -- *)
Definition uproj_out (o : @sk_out (uorder F) (trade F)) : Strategy.utout (F:=F) :=
  (map snd (fst (fst o)), snd (fst o)).
Definition uproj_res (r : sres (quotes (quote F)) (@sk_out (uorder F) (trade F)))
  : sres (quotes (quote F)) (Strategy.utout (F:=F)) :=
  match r with
  | RTick (Some (h, (fl, adm, trig))) => RTick (Some (h, (map snd fl, adm)))
  | RTick None => RTick None
  | RFetch x => RFetch x
  | RId x => RId x
  | RUnit x => RUnit x
  | RInfo x => RInfo x
  | RNow x => RNow x
  | RPanic => RPanic
  end.
(* the Uist service deletes by order id; the asset half of the skeleton's key is the constant 0 *)
Definition ukey_op (o : sop (uorder F) N) : sop (uorder F) key :=
  match o with
  | STick id p => STick id p
  | SFetch id => SFetch id
  | SInit n => SInit n
  | SNew n => SNew n
  | SInsert x id => SInsert x id
  | SDelete i id => SDelete (0%N, i) id
  | SInfo id => SInfo id
  | SNow id => SNow id
  end.

Lemma uproj_res_map r : uproj_res r = map_res uproj_out r.
Proof. destruct r as [[[h [[fl adm] trig]]|] | x | x | x | x | x |]; reflexivity. Qed.

Lemma u_sstep_is_projection (qk : quirks) (s : @uapp F) (o : sop (uorder F) N) :
  Strategy.usstep qk s o
  = let '(s', r) := sk_sstep uist_asset uo_symbol uist_is_sell uist_decide qk false s (ukey_op o) in
    (s', uproj_res r).
Proof.
  pose proof (sstep_sim
                (exch_init : uexch F) (sk_tick uist_asset uo_symbol uist_is_sell uist_decide)
                (sk_insert uist_asset uo_symbol uist_is_sell uist_decide)
                (sk_delete uist_asset uo_symbol uist_is_sell uist_decide)
                (([], [], []) : @sk_out (uorder F) (trade F))
                (exch_init : uexch F) (ux_tick (F:=F)) (ux_insert (F:=F)) (ux_delete (F:=F))
                (([], []) : Strategy.utout (F:=F))
                qk false (fun x => x) uproj_out eq_refl eq_refl) as H.
  unfold Strategy.usstep, sk_sstep.
  rewrite <- (map_app_id s) at 1. rewrite (H) with (o1 := ukey_op o).
  - rewrite map_app_id, <- uproj_res_map. apply pair_let.
  - intros x row p. unfold ux_tick, sk_tick, uist_tick.
    destruct (tick uist_asset uo_symbol uist_is_sell uist_decide x row p) as [x' r].
    destruct r as [| fl adm trig | |]; reflexivity.
  - destruct o as [id perm | id | name | name | a id | k id | id | id];
      cbn [ukey_op op_sim]; try reflexivity; split; try reflexivity; intros x; reflexivity.
Qed.

Lemma uist_decide_dates_fills : decide_dates_fills (uist_decide (F:=F)) q_date t_date.
Proof.
  intros e q t. unfold uist_decide. destruct (uist_fires (e_ord e) q); [| discriminate].
  intros H. inversion H. unfold uist_trade.
  destruct (otype_is_sell (uo_type (e_ord e))); reflexivity.
Qed.

(* -- Jura: the three definitions of Check/ServerCheck.v (there at F := float), over any F -- *)
Definition jgtout : Type := (list (fill F) * list (N * jorder F) * list N)%type.
Definition jg_x_tick (qk : quirks) (x : jexch F) (r : quotes (quote F)) (perm : list nat)
  : option (jexch F * jgtout) :=
  match jura_tick qk x r perm with
  | (x', OutTick fl adm trig) => Some (x', (map snd fl, adm, trig))
  | _ => None
  end.
Definition jg_insert (qk : quirks) (x : jexch F) (o : jorder F) : jexch F :=
  fst (jura_step qk x (Insert o)).
Definition jg_delete (qk : quirks) (x : jexch F) (k : N * N) : jexch F :=
  fst (jura_step qk x (Delete k)).
Definition jg_sstep (qk : quirks) :=
  sstep (exch_init : jexch F) (jg_x_tick qk) (jg_insert qk) (jg_delete qk)
        (([], [], []) : jgtout) qk true.

Definition jproj_out (o : @sk_out (jorder F) (fill F)) : jgtout :=
  (map snd (fst (fst o)), snd (fst o), snd o).
Definition jproj_res (r : sres (quotes (quote F)) (@sk_out (jorder F) (fill F)))
  : sres (quotes (quote F)) jgtout :=
  match r with
  | RTick (Some (h, (fl, adm, trig))) => RTick (Some (h, (map snd fl, adm, trig)))
  | RTick None => RTick None
  | RFetch x => RFetch x
  | RId x => RId x
  | RUnit x => RUnit x
  | RInfo x => RInfo x
  | RNow x => RNow x
  | RPanic => RPanic
  end.

Lemma jproj_res_map r : jproj_res r = map_res jproj_out r.
Proof. destruct r as [[[h [[fl adm] trig]]|] | x | x | x | x | x |]; reflexivity. Qed.

Lemma jg_sstep_is_projection (qk : quirks) (s : app (jexch F) (quotes (quote F)))
      (o : sop (jorder F) key) :
  jg_sstep qk s o
  = let '(s', r) := sk_sstep jo_asset jura_sym jura_is_sell (jura_decide qk) qk true s o in
    (s', jproj_res r).
Proof.
  pose proof (sstep_sim
                (exch_init : jexch F) (sk_tick jo_asset jura_sym jura_is_sell (jura_decide qk))
                (sk_insert jo_asset jura_sym jura_is_sell (jura_decide qk))
                (sk_delete jo_asset jura_sym jura_is_sell (jura_decide qk))
                (([], [], []) : @sk_out (jorder F) (fill F))
                (exch_init : jexch F) (jg_x_tick qk) (jg_insert qk) (jg_delete qk)
                (([], [], []) : jgtout)
                qk true (fun x => x) jproj_out eq_refl eq_refl) as H.
  unfold jg_sstep, sk_sstep.
  rewrite <- (map_app_id s) at 1. rewrite (H) with (o1 := o).
  - rewrite map_app_id, <- jproj_res_map. apply pair_let.
  - intros x row p. unfold jg_x_tick, sk_tick, jura_tick.
    destruct (tick jo_asset jura_sym jura_is_sell (jura_decide qk) x row p) as [x' r].
    destruct r as [| fl adm trig | |]; reflexivity.
  - destruct o as [id perm | id | name | name | a id | k id | id | id];
      cbn [op_sim]; try reflexivity; split; try reflexivity; intros x; reflexivity.
Qed.

Lemma jura_decide_dates_fills (qk : quirks) :
  decide_dates_fills (jura_decide (F:=F) qk) q_date f_time.
Proof.
  intros e q t H. destruct (fill_fields e q qk t H) as (_ & _ & Ht & _). exact Ht.
Qed.

End Projections.

(* the instances of Check/ServerCheck.v (F := float): its u_sstep is Strategy.usstep, its j_sstep is
   jg_sstep, definitionally *)
Local Existing Instance ServerCheck.FNs.

Lemma u_sstep_check_is_projection (qk : quirks) s o :
  ServerCheck.u_sstep qk s o
  = let '(s', r) := sk_sstep uist_asset uo_symbol uist_is_sell uist_decide qk false s (ukey_op o) in
    (s', uproj_res r).
Proof. exact (u_sstep_is_projection qk s o). Qed.

Lemma j_sstep_is_projection (qk : quirks) s o :
  ServerCheck.j_sstep qk s o
  = let '(s', r) := sk_sstep jo_asset jura_sym jura_is_sell (jura_decide qk) qk true s o in
    (s', jproj_res r).
Proof. exact (jg_sstep_is_projection qk s o). Qed.

(* ------------------------------------------------------------------------------------------ *)
Print Assumptions erase_step.
Print Assumptions t_run_erases.
Print Assumptions c01_end_to_end.
Print Assumptions c01_end_to_end_single.
Print Assumptions c01_after_end_not_strict.
Print Assumptions u_sstep_is_projection.
Print Assumptions jg_sstep_is_projection.
Print Assumptions uist_decide_dates_fills.
Print Assumptions jura_decide_dates_fills.
(* u_sstep_check_is_projection / j_sstep_is_projection are the instances at F := float of the two
   generic lemmas above; Print Assumptions on them lists only the kernel primitives PrimFloat.* /
   PrimInt63.* that the float instance of Num mentions (no logical axiom), so it is not printed here. *)
