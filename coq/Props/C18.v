(* C18 — Jura: one-shot market orders, resting limits, triggers spawn a next-tick child.
   Statements only; for every Num F. *)
From Coq Require Import ZArith NArith List Bool String Floats.
From Alator Require Import Model.Num Model.Quirks Model.Exchange Model.Uist Model.Jura Proofs.JuraProofs.
Local Open Scope num_scope.

Theorem c18_ioc_first_attempt : forall (F : Type) (NF : Num F) (id : N) (o : jorder F) (q : quote F) (price sz : F),
  jo_type o = JLimit Ioc -> jo_limit_px o = Some price -> jo_sz o = Some sz ->
  jura_decide clean (mkEntry id o false) q =
  if jo_is_buy o
  then (if q_ask q <=? price * (fone + ftenth)
        then AFill (mkFill (N_to_string (jo_asset o)) id (q_ask q) true sz (q_date q)) else AMark)
  else (if price * (fone - ftenth) <=? q_bid q
        then AFill (mkFill (N_to_string (jo_asset o)) id (q_bid q) false sz (q_date q)) else AMark).
Proof. exact @ioc_first_attempt. Qed.

Theorem c18_ioc_after_attempt : forall (F : Type) (NF : Num F) (id : N) (o : jorder F) (q : quote F),
  jo_type o = JLimit Ioc -> jura_decide clean (mkEntry id o true) q = AExpire.
Proof. exact @ioc_after_attempt. Qed.

Theorem c18_gtc : forall (F : Type) (NF : Num F) (id : N) (o : jorder F) (fl : bool) (q : quote F) (price sz : F),
  jo_type o = JLimit Gtc -> jo_limit_px o = Some price -> jo_sz o = Some sz ->
  jura_decide clean (mkEntry id o fl) q =
  if jo_is_buy o
  then (if q_ask q <=? price
        then AFill (mkFill (N_to_string (jo_asset o)) id (q_ask q) true sz (q_date q)) else ARest)
  else (if price <=? q_bid q
        then AFill (mkFill (N_to_string (jo_asset o)) id (q_bid q) false sz (q_date q)) else ARest).
Proof. exact @gtc_decision. Qed.

Theorem c18_trigger_never_fills : forall (F : Type) (NF : Num F) (e : entry (jorder F)) (q : quote F) trig m k,
  jo_type (e_ord e) = JTrigger trig m k -> forall qk t, jura_decide qk e q <> AFill t.
Proof. exact @trigger_never_fills. Qed.

Theorem c18_trigger_decision : forall (F : Type) (NF : Num F) (e : entry (jorder F)) (q : quote F) trig m k,
  jo_type (e_ord e) = JTrigger trig m k ->
  (ShouldFire (jo_is_buy (e_ord e)) k trig q /\
   jura_decide clean e q = ATrigger (trigger_child (e_ord e) (if m then Ioc else Gtc)))
  \/ (~ ShouldFire (jo_is_buy (e_ord e)) k trig q /\ jura_decide clean e q = ARest).
Proof. exact @trigger_decision. Qed.

Theorem c18_trigger_child_fields : forall (F : Type) (o : jorder F) (t : tif),
  let c := trigger_child o t in
  jo_asset c = jo_asset o /\ jo_is_buy c = jo_is_buy o /\ jo_limit_px c = jo_limit_px o /\
  jo_sz c = jo_sz o /\ jo_reduce_only c = jo_reduce_only o /\ jo_cloid c = jo_cloid o /\
  jo_type c = JLimit t.
Proof. exact @trigger_child_fields. Qed.

Theorem c18_fill_fields : forall (F : Type) (NF : Num F) (e : entry (jorder F)) (q : quote F) qk (f : fill F),
  jura_decide qk e q = AFill f ->
  f_oid f = e_id e /\ f_coin f = N_to_string (jo_asset (e_ord e)) /\ f_time f = q_date q /\
  jo_sz (e_ord e) = Some (f_sz f) /\
  (jo_is_buy (e_ord e) = true -> f_px f = q_ask q /\ f_side_ask f = true) /\
  (jo_is_buy (e_ord e) = false -> f_px f = q_bid q /\ f_side_ask f = false).
Proof. exact @fill_fields. Qed.

(* the statement is refuted for the code as it was with both sell-side trigger comparisons
   reversed: witness evaluated by the kernel on the IEEE instance *)
Local Existing Instance FNj.
Theorem c18_refuted_q_jura_sell_triggers_inverted :
  jura_decide inverted (mkEntry 0 sl_sell_90 false) (q_at 80%float) = ARest /\
  jura_decide inverted (mkEntry 0 sl_sell_90 false) (q_at 120%float)
    = ATrigger (trigger_child sl_sell_90 Ioc) /\
  jura_decide clean (mkEntry 0 sl_sell_90 false) (q_at 80%float)
    = ATrigger (trigger_child sl_sell_90 Ioc) /\
  jura_decide clean (mkEntry 0 sl_sell_90 false) (q_at 120%float) = ARest.
Proof. exact c18_refuted_with_inverted_triggers. Qed.

Print Assumptions c18_ioc_first_attempt.
Print Assumptions c18_ioc_after_attempt.
Print Assumptions c18_gtc.
Print Assumptions c18_trigger_never_fills.
Print Assumptions c18_trigger_decision.
Print Assumptions c18_trigger_child_fields.
Print Assumptions c18_fill_fields.
Print Assumptions c18_refuted_q_jura_sell_triggers_inverted.
