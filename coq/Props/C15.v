(* C15 — maximum drawdown is the worst peak-to-trough loss and its dates bracket it. Statements only; [R]. *)
From Coq Require Import ZArith NArith List Bool String Reals.
From Flocq Require Import Raux.
From Alator Require Import Model.Num Model.Quirks Model.Broker Model.Perf Proofs.PerfProofs.
Import ListNotations.
Local Existing Instance RNum.
Local Open Scope R_scope.

(* On a positive path the scan reports the minimum over all i <= j of v_j / v_i - 1, and positions start <= end inside the path whose values realise exactly that loss. *)
Theorem c15_scan :
  forall (vs : list R) (m : R) (s e : nat),
         vs <> [] ->
         Forall (fun v : R => 0 < v) vs ->
         maxdd clean vs = (m, s, e) ->
         (s <= e < Datatypes.length vs)%nat /\
         (exists vs_ ve : R,
            nth_error vs s = Some vs_ /\ nth_error vs e = Some ve /\ m = ve / vs_ - 1) /\
         (forall (i j : nat) (vi vj : R),
          (i <= j)%nat ->
          nth_error vs i = Some vi -> nth_error vs j = Some vj -> m <= vj / vi - 1).
Proof. exact @maxdd_spec. Qed.

(* It is never below -1 and at most 0 … *)
Theorem c15_bounds :
  forall (vs : list R) (m : R) (s e : nat),
         vs <> [] -> Forall (fun v : R => 0 < v) vs -> maxdd clean vs = (m, s, e) -> -1 < m <= 0.
Proof. exact @maxdd_bounds. Qed.

(* … and 0 when the path never falls. *)
Theorem c15_monotone :
  forall (vs : list R) (m : R) (s e : nat),
         vs <> [] ->
         Forall (fun v : R => 0 < v) vs ->
         maxdd clean vs = (m, s, e) ->
         (forall (i j : nat) (vi vj : R),
          (i <= j)%nat -> nth_error vs i = Some vi -> nth_error vs j = Some vj -> vi <= vj) ->
         m = 0.
Proof. exact @maxdd_monotone_zero. Qed.

(* The compounded index (from 100 000) is positive for returns above -100 %, one entry per snapshot … *)
Theorem c15_index_positive :
  forall rets : list R,
         Forall (fun r : R => 0 < 1 + r) rets ->
         Forall (fun v : R => 0 < v) (index_of rets) /\
         Datatypes.length (index_of rets) = S (Datatypes.length rets).
Proof. exact @index_positive. Qed.

(* … compounding the returns. *)
Theorem c15_index :
  forall (rets : list R) (i : nat) (vi r : R),
         nth_error (index_of rets) i = Some vi ->
         nth_error rets i = Some r -> nth_error (index_of rets) (S i) = Some (vi * (1 + r)).
Proof. exact @index_nth. Qed.

(* Through calculate: the reported drawdown is that minimum on the compounded return index, the reported start and end dates are the snapshot dates at positions start <= end whose index values realise exactly that loss, and -1 < mdd <= 0. *)
Theorem c15_calculate :
  forall (states : list (snapshot R)) (out : output R),
         calculate clean states = Ok out ->
         Forall (fun r : R => 0 < 1 + r) (o_returns out) ->
         let idx := index_of (o_returns out) in
         exists (s e : nat) (vs_ ve : R),
           (s <= e < Datatypes.length states)%nat /\
           nth_error (map sn_date states) s = Some (o_dd_start_date out) /\
           nth_error (map sn_date states) e = Some (o_dd_end_date out) /\
           nth_error idx s = Some vs_ /\
           nth_error idx e = Some ve /\
           o_mdd out = ve / vs_ - 1 /\
           (forall (i j : nat) (vi vj : R),
            (i <= j)%nat ->
            nth_error idx i = Some vi -> nth_error idx j = Some vj -> o_mdd out <= vj / vi - 1) /\
           -1 < o_mdd out <= 0.
Proof. exact @calculate_drawdown. Qed.

(* Refuted for the code as it was (it returned the positions of the LAST peak and trough): path 100, 50, 200, 190 has its maximum drawdown -50 % between positions 0 and 1; the defective scan reported positions 2 and 3 (the -5 % dip). *)
Theorem c15_refuted_q_maxdd_last_positions :
  maxdd dd_defect [100; 50; 200; 190] = (-1 / 2, 2%nat, 3%nat) /\
         maxdd clean [100; 50; 200; 190] = (-1 / 2, 0%nat, 1%nat).
Proof. exact @c15_refuted_q_maxdd_last_positions. Qed.

Print Assumptions c15_scan.
Print Assumptions c15_bounds.
Print Assumptions c15_monotone.
Print Assumptions c15_index_positive.
Print Assumptions c15_index.
Print Assumptions c15_calculate.
Print Assumptions c15_refuted_q_maxdd_last_positions.
