//! PerformanceCalculator::calculate on given snapshots; and raw libm calls (ln / exp / powf) so the
//! driver can hand the model the exact values the platform's libm produces.
use crate::util::*;
use alator::broker::StrategySnapshot;
use alator::perf::{BacktestOutput, Frequency, PerformanceCalculator};
use serde_json::{json, Value};

pub fn output_json(o: &BacktestOutput) -> Value {
    json!({
        "ret": fb(o.ret), "cagr": fb(o.cagr), "vol": fb(o.vol), "mdd": fb(o.mdd), "sharpe": fb(o.sharpe),
        "values": o.values.iter().map(|x| fb(*x)).collect::<Vec<_>>(),
        "returns": o.returns.iter().map(|x| fb(*x)).collect::<Vec<_>>(),
        "dates": o.dates, "cash_flows": o.cash_flows.iter().map(|x| fb(*x)).collect::<Vec<_>>(),
        "first_date": o.first_date, "last_date": o.last_date,
        "dd_start_date": o.dd_start_date, "dd_end_date": o.dd_end_date,
        "best": fb(o.best_return), "worst": fb(o.worst_return), "frequency": o.frequency,
    })
}

pub fn run(sc: &Value) -> Value {
    if let Some(calls) = sc.get("libm") {
        let out: Vec<Value> = arr(calls)
            .iter()
            .map(|c| {
                let x = bf(&c[1]);
                let y = bf(&c[2]);
                fb(match s(&c[0]).as_str() {
                    "ln" => x.ln(),
                    "exp" => x.exp(),
                    // perf/mod.rs squares deviations with the literal `powf(2.0)`; with optimisations on the compiler
                    // turns that call into a multiplication, whose result can differ from libm's pow(x, 2.0) in the last
                    // bit. The table has to hold what the code under test computes, so the same expression with the
                    // same literal is compiled here, in the same profile
                    "pow" => if y == 2.0 { x.powf(2.0) } else { x.powf(y) },
                    _ => panic!("bad libm fn"),
                })
            })
            .collect();
        return json!({ "libm": out });
    }
    let states: Vec<StrategySnapshot> = arr(&sc["snapshots"])
        .iter()
        .map(|v| StrategySnapshot::real(i(&v[0]).into(), bf(&v[1]), bf(&v[2]), bf(&v[3])))
        .collect();
    let freq = match sc["freq"].as_str().unwrap_or("Daily") {
        "Daily" => Frequency::Daily,
        "Second" => Frequency::Second,
        _ => Frequency::Fixed,
    };
    match catch(|| PerformanceCalculator::calculate(freq, states)) {
        Ok(o) => json!({ "out": output_json(&o) }),
        Err(m) => json!({ "panic": m }),
    }
}
