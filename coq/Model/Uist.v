(* Uist.v — UistV1 (exchange/uist_v1.rs): order and trade types, the per-order decision of
   OrderBook::execute_orders, and the exchange as an instance of the skeleton. Definitions only. *)
From Coq Require Import ZArith NArith List Bool String.
From Alator Require Import Model.Num Model.Exchange.
Import ListNotations.
Local Open Scope num_scope.

Inductive otype := MarketSell | MarketBuy | LimitSell | LimitBuy | StopSell | StopBuy.
Inductive side := Buy | Sell.

Definition otype_is_sell (t : otype) : bool :=
  match t with MarketSell | LimitSell | StopSell => true | _ => false end.

Section Uist.
Context {F : Type} {NF : Num F}.

Record quote := mkQuote { q_bid : F; q_ask : F; q_date : Z; q_symbol : string }.

Record uorder := mkUOrder {
  uo_type : otype;
  uo_symbol : string;
  uo_shares : F;
  uo_price : option F;      (* None for market orders (and for deserialised `price: null`) *)
}.

Record trade := mkTrade {
  t_symbol : string; t_value : F; t_quantity : F; t_date : Z; t_side : side;
}.

(* Rust's derived PartialOrd on Option<f64>:  None < Some _ ;  Some a ? Some b  is  a ? b *)
Definition opt_ge_some (p : option F) (x : F) : bool :=   (* p >= Some(x) *)
  match p with None => false | Some v => x <=? v end.
Definition opt_le_some (p : option F) (x : F) : bool :=   (* p <= Some(x) *)
  match p with None => true | Some v => v <=? x end.

Definition execute_buy (q : quote) (o : uorder) : trade :=
  mkTrade (uo_symbol o) (q_ask q * uo_shares o) (uo_shares o) (q_date q) Buy.
Definition execute_sell (q : quote) (o : uorder) : trade :=
  mkTrade (uo_symbol o) (q_bid q * uo_shares o) (uo_shares o) (q_date q) Sell.

(* the match in execute_orders *)
Definition uist_fires (o : uorder) (q : quote) : bool :=
  match uo_type o with
  | MarketBuy | MarketSell => true
  | LimitBuy => opt_ge_some (uo_price o) (q_ask q)
  | LimitSell => opt_le_some (uo_price o) (q_bid q)
  | StopBuy => opt_le_some (uo_price o) (q_ask q)
  | StopSell => opt_ge_some (uo_price o) (q_bid q)
  end.

Definition uist_trade (o : uorder) (q : quote) : trade :=
  if otype_is_sell (uo_type o) then execute_sell q o else execute_buy q o.

Definition uist_decide (e : entry uorder) (q : quote) : action uorder trade :=
  if uist_fires (e_ord e) q then AFill (uist_trade (e_ord e) q) else ARest.

Definition uist_asset (o : uorder) : N := 0%N.
Definition uist_is_sell (o : uorder) : bool := otype_is_sell (uo_type o).

Definition uexch := exch uorder trade.
Definition uop := op uorder quote.
Definition uout := out uorder trade.

Definition uist_step : uexch -> uop -> uexch * uout :=
  step uist_asset uo_symbol uist_is_sell uist_decide.
Definition uist_tick : uexch -> quotes quote -> list nat -> uexch * uout :=
  tick uist_asset uo_symbol uist_is_sell uist_decide.
Definition uist_run : uexch -> list uop -> uexch * list uout :=
  run uist_asset uo_symbol uist_is_sell uist_decide.

End Uist.

Arguments quote F : clear implicits.
Arguments uorder F : clear implicits.
Arguments trade F : clear implicits.
Arguments uexch F : clear implicits.
Arguments uop F : clear implicits.
Arguments uout F : clear implicits.
