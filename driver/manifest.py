#!/usr/bin/env python3
"""Regenerates /verif/MANIFEST.json from the table below."""
import json
import os
import subprocess

VERIF = os.path.dirname(os.path.dirname(os.path.abspath(__file__)))

# id -> (technique, level text, level note, design ref)
CHECKS = {
    "C13": ("Coq proof over R by induction on the cost list + bit-exact model/code correspondence",
            "Theorems c13_* (Props/C13.v): no-overspend for every cost list of any length/order with each percentage in [0,1), fee additivity, price direction, budget monotonicity; proved of the Gallina model at F := R. The same definitions at the IEEE instance are compared bit-for-bit with BrokerCost on generated inputs every run.",
            "Trusted: Coq kernel + vm_compute; std-lib real-number axioms (sig_forall_dec, sig_not_dec, functional_extensionality_dep, classic); hand-written model tied to code by differential testing only; IEEE rounding in the inequality is outside the theorem.",
            "3/C13"),
    "C19": ("Coq proof: unbounded date-only lemma + complete vm_compute sweep of 84 006 days lifted by forallb_forall; exhaustive model/code comparison",
            "c19_date_only for every timestamp; c19_spec (bound 1970–2199 stated in the theorem) by a kernel-evaluated complete sweep against an independently written calendar spec; c19_calendar ties Hinnant's formula to the day-by-day Gregorian calendar. Every run compares the model with the time crate and schedule/mod.rs on every day of the range at several times of day.",
            "Trusted: Coq kernel + vm_compute; the time crate's calendar is compared exhaustively on the range, not modelled beyond it.",
            "3/C19"),
}

NOT_YET = {}

ALL = ["C%02d" % i for i in range(1, 21)]


def main():
    hooks_commits = subprocess.run(
        ["git", "-C", "/repo", "log", "--format=%H %s"], capture_output=True, text=True).stdout.split("\n")
    hook_ids = [l.split()[0] for l in hooks_commits if "verif" in l and not l.split(" ", 1)[1].startswith("fix:")]
    checks = []
    for pid in ALL:
        if pid not in CHECKS:
            continue
        tech, text, note, ref = CHECKS[pid]
        checks.append({
            "property_id": pid,
            "quick_cmd": "./check %s --tier quick" % pid,
            "thorough_cmd": "./check %s --tier thorough" % pid,
            "evidence_file": "/verif/evidence/%s.json" % pid,
            "replay_cmd_template": "./check %s --replay {path}" % pid,
            "engine": "coq-proof+correspondence",
            "level_claimed": {"category": "proof", "text": text, "design_ref": "DESIGN.md §" + ref},
            "level_note": note,
            "technique": tech,
        })
    na = [{"property_id": p, "reason": NOT_YET.get(p, "check not built yet in this revision (model/theorems under construction); planned per DESIGN.md §3")}
          for p in ALL if p not in CHECKS]
    m = {
        "version": 1,
        "setup_cmd": "./setup.sh",
        "hooks": {
            "guard": "cargo feature `verif` (rotala/verif, alator/verif)",
            "enable": "harness crate depends on rotala and alator by path with features=[\"verif\"]",
            "baseline_off_cmd": "cd /repo && cargo test --workspace --no-fail-fast --offline",
            "source_commits": hook_ids,
            "add_only": True,
        },
        "engines": [{
            "name": "coq-proof+correspondence", "path": "/verif/check",
            "serves_properties": [c["property_id"] for c in checks],
            "kind_free_text": "Coq 8.16.1 theorems about a hand-written executable Gallina model (coq/), tied to /repo on every run by a step-wise correspondence check: Rust harness (harness/) drives the real crates, Python driver (driver/) writes the traces as Gallina terms, coqc evaluates boolean checkers by vm_compute",
        }],
        "checks": checks,
        "not_applicable": na,
        "notes": "Every check: (1) make + re-check Props/Cxx.v, Print Assumptions allow-list, forbidden-token grep; (2) rebuild harness from /repo working tree with hooks on; (3) correspondence + direct property oracles on the implementation's outputs; (4) evidence. See DESIGN.md.",
    }
    if not na:
        m.pop("not_applicable")
    with open(os.path.join(VERIF, "MANIFEST.json"), "w") as f:
        json.dump(m, f, indent=1)


if __name__ == "__main__":
    main()
