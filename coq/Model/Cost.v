(* Cost.v — BrokerCost (broker/mod.rs): calc, trade_impact, trade_impact_total,
   Portfolio::calculate_trade_costs. Definitions only. *)
From Coq Require Import ZArith List Bool.
From Alator Require Import Model.Num.
Import ListNotations.
Local Open Scope num_scope.

Section Cost.
Context {F : Type} {NF : Num F}.

Inductive cost : Type :=
| PerShare (v : F)
| PctOfValue (p : F)
| Flat (v : F).

(* BrokerCost::calc on a trade with the given quantity and value *)
Definition cost_calc (c : cost) (qty value : F) : F :=
  match c with
  | PerShare v => v * qty
  | PctOfValue p => value * p
  | Flat v => v
  end.

(* BrokerCost::trade_impact: (net_budget, net_price) *)
Definition trade_impact (c : cost) (budget price : F) (is_buy : bool) : F * F :=
  match c with
  | PerShare v => (budget, if is_buy then price + v else price - v)
  | PctOfValue p => (budget * (fone - p), price)
  | Flat v => (budget - v, price)
  end.

Definition trade_impact_total (cs : list cost) (budget price : F) (is_buy : bool) : F * F :=
  fold_left (fun res c => trade_impact c (fst res) (snd res) is_buy) cs (budget, price).

(* Portfolio::calculate_trade_costs: cost = 0.0; for c in costs { cost += c.calc(trade) } *)
Definition calculate_trade_costs (cs : list cost) (qty value : F) : F :=
  fold_left (fun acc c => acc + cost_calc c qty value) cs fzero.

(* The sizing rule used by diff_brkr_against_target_weights: floor(net budget / net price) *)
Definition sized_shares (cs : list cost) (budget price : F) (is_buy : bool) : F :=
  let r := trade_impact_total cs budget price is_buy in
  ffloor (fst r / snd r).

End Cost.

Arguments cost F : clear implicits.
