(* C05 — holdings and pending exposure reconcile with the exchange's executions. Statements only. *)
From Coq Require Import ZArith NArith List Bool String Permutation Reals.
From Flocq Require Import Raux.
From Alator Require Import Model.Num Model.Quirks Model.Cost Model.Exchange Model.Uist Model.Broker
  Proofs.CostProofs Proofs.BrokerLedgerProofs.
Import ListNotations.
Local Existing Instance RNum.
Local Open Scope R_scope.

(* The trade log grows by exactly the trades a check returned, in execution order; no other operation touches it (every Num F). *)
Theorem c05_log_step :
  forall (F : Type) (NF : Num F) (b : broker F) (o : bop F) (b' : broker F) 
           (ev : bev F) (fw : list (uorder F)),
         bstep clean b o = Ok (b', ev, fw) ->
         b_log b' = match o with
                    | OpCheck (Some (ts, _)) _ => b_log b ++ ts
                    | _ => b_log b
                    end.
Proof. exact @step_log_exact. Qed.

(* Booking appends the trades in order (every Num F). *)
Theorem c05_log_trades :
  forall (F : Type) (NF : Num F) (b : broker F) (ts : list (trade F)),
         b_log (fold_left book_trade ts b) = b_log b ++ ts.
Proof. exact @book_trades_log. Qed.

(* Only the reconciliation of executed trades changes holdings (every Num F). *)
Theorem c05_holdings_frame :
  forall (F : Type) (NF : Num F) (b : broker F) (o : bop F) (b' : broker F) 
           (ev : bev F) (fw : list (uorder F)),
         bstep clean b o = Ok (b', ev, fw) ->
         match o with
         | OpCheck (Some _) _ => True
         | _ => b_holdings b' = b_holdings b
         end.
Proof. exact @step_holdings_frame. Qed.

(* [R] One trade moves the holding of its symbol by its signed quantity and nothing else … *)
Theorem c05_trade_holdings :
  forall (b : broker R) (t : trade R) (s : string),
         keys_nodup (b_holdings b) ->
         hget (b_holdings (book_trade b t)) s = hget (b_holdings b) s + signed_qty s t.
Proof. exact @book_trade_holdings. Qed.

(* [R] … and pending exposure by the opposite. *)
Theorem c05_trade_pending :
  forall (b : broker R) (t : trade R) (s : string),
         keys_nodup (b_pending b) ->
         hget (b_pending (book_trade b t)) s = hget (b_pending b) s - signed_qty s t.
Proof. exact @book_trade_pending. Qed.

(* [R] A position that becomes exactly zero is removed: no zero entry is ever stored. *)
Theorem c05_no_zero :
  forall (b : broker R) (t : trade R),
         keys_nodup (b_holdings b) ->
         keys_nodup (b_pending b) ->
         no_zero (b_holdings b) ->
         no_zero (b_holdings (book_trade b t)) /\
         keys_nodup (b_holdings (book_trade b t)) /\ keys_nodup (b_pending (book_trade b t)).
Proof. exact @book_trade_no_zero. Qed.

(* [R] An accepted order adds its signed quantity to the pending exposure of its symbol. *)
Theorem c05_accept_pending :
  forall (b : broker R) (o : uorder R) (s : string),
         keys_nodup (b_pending b) ->
         hget (b_pending (add_pending b o)) s =
         hget (b_pending b) s + (if (uo_symbol o =? s)%string then order_effect o else 0).
Proof. exact @add_pending_effect. Qed.

(* [R] Over ALL histories from a fresh broker: holdings(s) = bought - sold over the logged trades of s; no zero position is stored; keys stay unique. *)
Theorem c05_holdings_reconcile :
  forall (costs : list rcost) (quotes : smap (quote R)) (ops : list (bop R))
           (b' : broker R) (evs : list (bev R * list (uorder R))) (s : string),
         brun clean (broker_init costs quotes) ops = Ok (b', evs) ->
         hget (b_holdings b') s = sumR (signed_qty s) (b_log b') /\
         no_zero (b_holdings b') /\ keys_nodup (b_holdings b') /\ keys_nodup (b_pending b').
Proof. exact @holdings_reconcile. Qed.

(* [R] Over ALL histories: pending(s) = signed quantity of the orders handed to the exchange - signed quantity executed — so it is zero again once everything accepted has filled. *)
Theorem c05_pending_reconcile :
  forall (costs : list rcost) (quotes : smap (quote R)) (ops : list (bop R))
           (b' : broker R) (evs : list (bev R * list (uorder R))) (s : string),
         brun clean (broker_init costs quotes) ops = Ok (b', evs) ->
         hget (b_pending b') s =
         sumR (fun o : uorder R => if (uo_symbol o =? s)%string then order_effect o else 0)
           (handed evs) - sumR (signed_qty s) (b_log b').
Proof. exact @pending_reconcile. Qed.

(* [R] holdings-with-pending is the sum of the two, absent = 0. *)
Theorem c05_with_pending :
  forall (b : broker R) (s : string),
         holdings_with_pending b s =
         match sget (b_holdings b) s with
         | Some _ => Some (hget (b_holdings b) s + hget (b_pending b) s)
         | None =>
             match sget (b_pending b) s with
             | Some _ => Some (hget (b_holdings b) s + hget (b_pending b) s)
             | None => None
             end
         end.
Proof. exact @with_pending_sum. Qed.

Print Assumptions c05_log_step.
Print Assumptions c05_log_trades.
Print Assumptions c05_holdings_frame.
Print Assumptions c05_trade_holdings.
Print Assumptions c05_trade_pending.
Print Assumptions c05_no_zero.
Print Assumptions c05_accept_pending.
Print Assumptions c05_holdings_reconcile.
Print Assumptions c05_pending_reconcile.
Print Assumptions c05_with_pending.
