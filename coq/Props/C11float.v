(* C11's valuation identities AT THE IEEE binary64 INSTANCE for whole-unit data. Statements only. Notation as in Props/C10float.v (`lrel`, `zhsum`) and Props/C13float.v (`cost_reads`, `zsum_flat`); `zliqsum zf zh` is the sum over the positions of quantity x bid - zf. Depends on the specification axioms the standard library declares for primitive floats / 63-bit integers and the classical reals (Flocq). *)
From Coq Require Import ZArith NArith List Bool String Floats Reals.
From Flocq Require Import Core.Raux IEEE754.BinarySingleNaN IEEE754.PrimFloat.
From Alator Require Import Model.Num Model.Quirks Model.Cost Model.Exchange Model.Uist Model.Broker
  Proofs.BrokerLedgerProofs Proofs.FloatExact Proofs.FloatCash Proofs.FloatWorth Proofs.FloatLiq Proofs.FloatCost Proofs.FloatValue.
Import ListNotations.
Local Open Scope list_scope.
(* the infix comparisons below are those of the IEEE instance built on the statement's own libm table *)
Local Hint Extern 0 (Num float) => match goal with t : libm_table |- _ => exact (FloatNum t) end : typeclass_instances.

(* A position is valued at quantity x the last seen bid — the float product is the float of the integer product. *)
Theorem c11f_position_value :
  forall (tbl : libm_table) (zb : string -> Z) (b : broker float) 
           (zh : smap Z) (s : string) (q : Z),
         lrel zb b zh ->
         @sget Z zh s = @Some Z q ->
         exists v : float,
           @position_value float (FloatNum tbl) b s = @Some float v /\ int_float v (q * zb s).
Proof. exact @position_value_float. Qed.

(* Total value = cash + sum of position values, exactly, for every iteration order of the holdings … *)
Theorem c11f_total_value :
  forall (tbl : libm_table) (zb : string -> Z) (b : broker float) 
           (zh : smap Z) (zc : Z) (ord : list string),
         lrel zb b zh ->
         @NoDup string (@map (string * Z) string (@fst string Z) zh) ->
         int_float (@b_cash float b) zc ->
         @is_order_of float ord (@b_holdings float b) = true ->
         (Z.abs zc + zhsum zb zh < 2 ^ 53)%Z ->
         int_float (@total_value float (FloatNum tbl) b ord) (zc + zhsum zb zh).
Proof. exact @total_value_float. Qed.

(* … hence the SAME float (Leibniz equality, signs of zero included) for any two iteration orders. *)
Theorem c11f_total_value_any_order :
  forall (tbl : libm_table) (zb : string -> Z) (b : broker float) 
           (zh : smap Z) (zc : Z) (ord1 ord2 : list string),
         lrel zb b zh ->
         @NoDup string (@map (string * Z) string (@fst string Z) zh) ->
         int_float (@b_cash float b) zc ->
         @is_order_of float ord1 (@b_holdings float b) = true ->
         @is_order_of float ord2 (@b_holdings float b) = true ->
         (Z.abs zc + zhsum zb zh < 2 ^ 53)%Z ->
         (@total_value float (FloatNum tbl) b ord1 =? @total_value float (FloatNum tbl) b ord2)%float =
         true /\
         @total_value float (FloatNum tbl) b ord1 = @total_value float (FloatNum tbl) b ord2.
Proof. exact @total_value_order_float. Qed.

(* With per-share and flat costs of whole-unit parameters: each position's liquidation value is quantity x bid - flat fees (per-share costs only move the price component, which is not used), the liquidation value is total value minus (number of positions) x flat fees, it never exceeds total value (binary64 comparison), equals it when there is no flat fee or nothing is held, and is strictly less otherwise. *)
Theorem c11f_liquidation_le_total :
  forall (tbl : libm_table) (zb : string -> Z) (b : broker float) 
           (zh : smap Z) (zc : Z) (zcs : list (cost Z)) (ord : list string),
         lrel zb b zh ->
         @NoDup string (@map (string * Z) string (@fst string Z) zh) ->
         @Forall2 (cost float) (cost Z) cost_reads (@b_costs float b) zcs ->
         int_float (@b_cash float b) zc ->
         @is_order_of float ord (@b_holdings float b) = true ->
         (Z.abs zc + zhsum zb zh + Z.of_nat (@Datatypes.length (string * Z) zh) * zsum_flat zcs <
          2 ^ 53)%Z ->
         let zf := zsum_flat zcs in
         let zliq := (zc + zliqsum zb zf zh)%Z in
         let ztot := (zc + zhsum zb zh)%Z in
         (forall (s : string) (q : Z),
          @sget Z zh s = @Some Z q ->
          exists v : float,
            @position_liquidation_value float (FloatNum tbl) b s = @Some float v /\
            int_float v (q * zb s - zf)) /\
         int_float (@liquidation_value float (FloatNum tbl) b ord) zliq /\
         int_float (@total_value float (FloatNum tbl) b ord) ztot /\
         zliq = (ztot - Z.of_nat (@Datatypes.length (string * Z) zh) * zf)%Z /\
         (zliq <= ztot)%Z /\
         (@liquidation_value float (FloatNum tbl) b ord <=?
          @total_value float (FloatNum tbl) b ord)%float = true /\
         (@b_costs float b = [] -> zf = 0%Z) /\
         (zf = 0%Z \/ zh = [] ->
          zliq = ztot /\
          (@liquidation_value float (FloatNum tbl) b ord =?
           @total_value float (FloatNum tbl) b ord)%float = true) /\
         ((0 < zf)%Z ->
          zh <> [] ->
          (zliq < ztot)%Z /\
          (@liquidation_value float (FloatNum tbl) b ord <?
           @total_value float (FloatNum tbl) b ord)%float = true).
Proof. exact @liquidation_le_total_float. Qed.

(* Without trade costs liquidation value and total value are the same float. *)
Theorem c11f_liquidation_eq_total_without_costs :
  forall (tbl : libm_table) (zb : string -> Z) (b : broker float) 
           (zh : smap Z) (zc : Z) (ord : list string),
         lrel zb b zh ->
         @NoDup string (@map (string * Z) string (@fst string Z) zh) ->
         @b_costs float b = [] ->
         int_float (@b_cash float b) zc ->
         @is_order_of float ord (@b_holdings float b) = true ->
         (Z.abs zc + zhsum zb zh < 2 ^ 53)%Z ->
         int_float (@liquidation_value float (FloatNum tbl) b ord) (zc + zhsum zb zh) /\
         int_float (@total_value float (FloatNum tbl) b ord) (zc + zhsum zb zh) /\
         (@liquidation_value float (FloatNum tbl) b ord =?
          @total_value float (FloatNum tbl) b ord)%float = true /\
         @liquidation_value float (FloatNum tbl) b ord = @total_value float (FloatNum tbl) b ord.
Proof. exact @liquidation_eq_total_nocosts_float. Qed.

(* Non-vacuity, instantiated: cash 165, ABC 5 @ 100, BCD 30 @ 10, costs [flat 5; per-share 1]: total 965, liquidation 955, both iteration orders. *)
Theorem c11f_example :
  int_float (@liquidation_value float (FloatNum []) exv_b exl_ord) 955 /\
         int_float (@total_value float (FloatNum []) exv_b exl_ord) 965 /\
         (@liquidation_value float (FloatNum []) exv_b exl_ord <=?
          @total_value float (FloatNum []) exv_b exl_ord)%float = true /\
         (@liquidation_value float (FloatNum []) exv_b exl_ord <?
          @total_value float (FloatNum []) exv_b exl_ord)%float = true /\
         @total_value float (FloatNum []) exv_b exl_ord =
         @total_value float (FloatNum []) exv_b exv_ord'.
Proof. exact @exv_theorem_instance. Qed.

Print Assumptions c11f_position_value.
Print Assumptions c11f_total_value.
Print Assumptions c11f_total_value_any_order.
Print Assumptions c11f_liquidation_le_total.
Print Assumptions c11f_liquidation_eq_total_without_costs.
Print Assumptions c11f_example.
