#!/usr/bin/env python3
"""rs2v — translate a deliberately small subset of Rust into Gallina, straight from /repo's source text.

    python3 tools/rs2v.py [--target cost|perf|all] [--repo DIR] [--out DIR]     writes coq/Gen/<Target>Gen.v
    python3 tools/rs2v.py --selftest

The generated definitions are written against the number class `Num F` (Model/Num.v) and are PROVED equal to the
hand-written model by Check/GenEquiv*.v on every run, so nothing here is trusted: a wrong translation makes a proof
fail. What the translator must not do is guess: everything outside the subset below ends the run with
    rs2v: unsupported construct at <file>:<line>: <source line>   (<reason>)
and a non-zero status.

SUBSET
  items   `fn` inside a top-level `impl <Type> { }` or `trait <Name> { }` (default methods); one enum per file whose
          variants carry one f64 each. No generics, no `where`.
  params  `&self` (the enum; or a trait object seen only through the getters of SELF_GETTERS, which become parameters),
          `[mut] x: f64 | &f64 | bool | usize | &[f64] | &[Enum] | &Enum | Enum | (T, ..) | impl BrokerTrade`.
          A trade is abstracted to the two numbers its getters return: `t.get_quantity()` -> qty, `t.get_value()`
          -> value, `t.clone()` -> t (the hand-written model makes the same abstraction).
  stmts   `let [mut] x [: T] [= e];`  `x = e;`  `x += e;` (also -= *= /=)  `if c { } [else if ..] [else { }]`
          `match e { Enum::V(x) => e-or-block, .. }` (every variant once, no wildcard, no guard)
          `for x in xs { }` with xs = `v`, `&v`, `v.iter()`;  `for (i, x) in v.iter().enumerate() { }`.
          Mutable locals become nested `let`s by shadowing; a compound statement returns the tuple of the OUTER
          variables assigned inside it (in order of declaration); a loop becomes `fold_left` over that tuple. A variable
          declared without a value (`let mut t;`) is local to the branch that assigns it.
  exprs   float literals (0.0 fzero, 1.0 fone, 0.1 ftenth, n.0 fofZ n, n/10^k by one division), `usize` literals (nat),
          `true false`, `+ - * /` and unary `-` on f64, `< <= > >= == !=` on f64 (`a > b` is `fltb b a`),
          `&& || !` on bool, `*e` `&e` (erased), tuples, `.0 .1 ..`, parentheses, block / `if` / `match` in value
          position, calls of functions translated earlier in the same file: `e.f(args)`, `Enum::f(args)`, `Self::f(args)`.
"""
import argparse
import json
import os
import re
import sys
from collections import namedtuple

VERIF = os.path.dirname(os.path.dirname(os.path.abspath(__file__)))

TRADE_TRAIT = "BrokerTrade"
TRADE_GETTERS = {"get_quantity": "qty", "get_value": "value"}
SELF_GETTERS = {"Portfolio": {"get_trade_costs": ("costs", ("list", "enum"))}}

# target -> source file, generated file, model modules it is written against, enum (Rust name, Gallina type),
# functions in dependency order: (container kind, container, fn, Gallina name, the model definition that
# Check/GenEquiv*.v proves it equal to)
TARGETS = {
    "cost": dict(file="example_clients/alator/src/broker/mod.rs", out="CostGen.v", requires="Model.Num Model.Cost",
                 enum=("BrokerCost", "cost F"),
                 fns=[("impl", "BrokerCost", "calc", "cost_calc", "Cost.cost_calc"),
                      ("impl", "BrokerCost", "trade_impact", "trade_impact", "Cost.trade_impact"),
                      ("impl", "BrokerCost", "trade_impact_total", "trade_impact_total", "Cost.trade_impact_total"),
                      ("trait", "Portfolio", "calculate_trade_costs", "calculate_trade_costs", "Cost.calculate_trade_costs"),
                      ("trait", "Portfolio", "calc_trade_impact", "calc_trade_impact", "Cost.trade_impact_total")]),
    "perf": dict(file="example_clients/alator/src/perf/mod.rs", out="PerfGen.v", requires="Model.Num", enum=None,
                 fns=[("impl", "CalculationAlgos", "maxdd", "maxdd", "Perf.maxdd (q_maxdd_last_positions = false)")]),
}

RUST_KEYWORDS = set("as async await break const continue crate dyn else enum extern fn for if impl in let loop match mod "
                    "move mut pub ref return static struct super trait type unsafe use where while".split())
RESERVED = set("fun let in if then else match with end as return fix cofix forall exists Type Set Prop at using where "
               "F NF fzero fone fadd fsub fmul fdiv fneg fabs feqb fltb fleb ffloor fceil fsqrt fofZ ftenth fln fexp fpow "
               "fst snd pair fold_left negb andb orb true false S O nat list bool qty value costs "
               # vernacular the forbidden-token grep of every check looks for: never the name of a generated local
               "Admitted admit Axiom Axioms Parameter Parameters Conjecture Conjectures Hypothesis Hypotheses Variable "
               "Variables Section End Definition Lemma Theorem Proof Qed Context Import Require".split())


class Unsupported(Exception):
    def __init__(self, line, why):
        Exception.__init__(self, why)
        self.line, self.why = line, why


# ---------------------------------------------------------------------------------------------------------------------
# lexer

Tok = namedtuple("Tok", "kind text line")       # kind: id num str op eof
TOKEN = re.compile(
    r"""(?P<skip>\s+|//[^\n]*)|(?P<str>b?r(?P<h>\#*)".*?"(?P=h)|b?"(?:\\.|[^"\\])*"|b?'(?:\\(?:u\{\w+\}|x\w\w|.)|[^'\\])')
    |(?P<num>\d[\d_]*(?:\.\d[\d_]*)?(?:[eE][+-]?\d+)?\w*)|(?P<id>[A-Za-z_]\w*)
    |(?P<op>'\w+|\.\.=|\.\.\.|::|->|=>|\+=|-=|\*=|/=|%=|\^=|\|=|&=|==|!=|<=|>=|&&|\|\||\.\.|[-+*/%^!&|=<>@.,;:\#$?~(){}\[\]])""",
    re.S | re.X)


def lex(src):
    toks, i, line = [], 0, 1
    while i < len(src):
        if src.startswith("/*", i):                        # block comments nest
            depth, j = 1, i + 2
            while j < len(src) and depth:
                step = 1 if src.startswith("/*", j) else -1 if src.startswith("*/", j) else 0
                depth, j = depth + step, j + (2 if step else 1)
            line, i = line + src.count("\n", i, j), j
            continue
        m = TOKEN.match(src, i)
        if not m:
            raise Unsupported(line, "character %r" % src[i])
        kind, text = m.lastgroup, m.group()
        if kind == "num" and toks and toks[-1].text == ".":                # tuple index: `res.0`
            text = re.match(r"\d+", text).group()
        if kind != "skip":
            toks.append(Tok(kind, text, line))
        line, i = line + text.count("\n"), i + len(text)
    toks.append(Tok("eof", "<end of file>", line))
    return toks


# ---------------------------------------------------------------------------------------------------------------------
# parser: token stream -> tuples.   Expressions (kind, line, ...):
#   num text | bool b | var name | un op e | bin op a b | tuple [e] | field e i | mcall recv name [e] | pcall [seg] [e]
#   if cond block block? | match e [(line, head, variant, binder, block)] | block stmts tail | assign name op e
# statements: let name mut type? init? | expr e | for [pattern names] iter block;  a block is (stmts, tail or None)

LEVELS = [("||",), ("&&",), ("==", "!=", "<", "<=", ">", ">="), ("+", "-"), ("*", "/")]


def unit(e):
    """Does the expression have type () by its shape (it is run for its assignments)?"""
    k = e[0]
    return (k == "assign" or (k == "if" and e[3][1] is None and (e[4] is None or e[4][1] is None))
            or (k == "match" and all(a[4][1] is None for a in e[3])) or (k == "block" and e[3] is None))


def as_block(e):
    return (e[2], e[3]) if e[0] == "block" else ([("expr", e[1], e)], None) if unit(e) else ([], e)


class Parser:
    def __init__(self, toks, pos=0):
        self.toks, self.p = toks, pos

    def peek(self, k=0):
        return self.toks[min(self.p + k, len(self.toks) - 1)]

    def next(self):
        self.p += 1
        return self.toks[min(self.p - 1, len(self.toks) - 1)]

    def at(self, *texts):
        return self.peek().text in texts and self.peek().kind in ("op", "id")

    def eat(self, text):
        return self.at(text) and bool(self.next())

    def fail(self, why, tok=None):
        raise Unsupported((tok or self.peek()).line, why)

    def expect(self, text):
        if not self.at(text):
            self.fail("expected `%s`, found `%s`" % (text, self.peek().text))
        return self.next()

    def ident(self):
        if self.peek().kind != "id" or self.peek().text in RUST_KEYWORDS:
            self.fail("expected an identifier, found `%s`" % self.peek().text)
        return self.next().text

    def commas(self, close, item):
        """item, item, .. <close>  (a trailing comma allowed)"""
        out = []
        while not self.at(close):
            out.append(item())
            if not self.eat(","):
                break
        self.expect(close)
        return out

    def type(self):
        if self.eat("&"):
            if self.at("mut"):
                self.fail("&mut")
            return ("list", self.commas("]", self.type)[0]) if self.eat("[") else self.type()
        if self.eat("("):
            return ("tuple", tuple(self.commas(")", self.type)))
        if self.eat("impl"):
            if self.ident() != TRADE_TRAIT:
                self.fail("impl Trait other than impl %s" % TRADE_TRAIT)
            return "trade"
        line, name = self.peek().line, self.ident()
        if self.at("<", "::"):
            self.fail("generic or qualified type")
        return {"f64": "F", "bool": "bool", "usize": "nat"}.get(name) or ("named", name, line)

    def param(self):
        if self.at("&") and self.peek(1).text == "self":
            self.p += 2
            return ("self", "self", False)
        mut, name = self.eat("mut"), self.ident()
        self.expect(":")
        return (name, self.type(), mut)

    def fn(self):
        line, name = self.expect("fn").line, self.ident()
        if self.at("<"):
            self.fail("generic function")
        self.expect("(")
        params = self.commas(")", self.param)
        ret = self.type() if self.eat("->") else None
        if not self.at("{"):
            self.fail("expected the function body")
        return dict(name=name, line=line, params=params, ret=ret, body=self.block())

    def block(self):
        self.expect("{")
        stmts, tail = [], None
        while not self.at("}"):
            t = self.peek()
            if tail is not None:
                self.fail("expected `;` or `}`")
            if self.at("let"):
                mut, name = self.next() and self.eat("mut"), self.ident()      # patterns are outside the subset
                ty = self.type() if self.eat(":") else None
                stmts.append(("let", t.line, name, mut, ty, self.expr() if self.eat("=") else None))
                self.expect(";")
            elif self.eat("for"):
                pat = self.commas(")", self.ident) if self.eat("(") else [self.ident()]
                self.expect("in")
                stmts.append(("for", t.line, pat, self.binary(0), self.block()))
            elif self.at("if", "match", "{"):                # block-like: a statement unless it is last
                e = self.primary()
                if self.eat(";") or not self.at("}"):
                    stmts.append(("expr", t.line, e))
                else:
                    tail = e
            else:
                e = self.expr()
                if self.eat(";"):
                    stmts.append(("expr", t.line, e))
                else:
                    tail = e
        self.expect("}")
        if tail is not None and unit(tail):
            stmts, tail = stmts + [("expr", tail[1], tail)], None
        return (stmts, tail)

    def expr(self):
        t, lhs = self.peek(), self.binary(0)
        if self.peek().kind == "op" and self.peek().text in ("=", "+=", "-=", "*=", "/="):
            if lhs[0] != "var":
                self.fail("assignment to something other than a local variable", t)
            return ("assign", t.line, lhs[2], self.next().text, self.binary(0))
        return lhs

    def binary(self, lvl):
        if lvl == len(LEVELS):
            return self.unary()
        a = self.binary(lvl + 1)
        while self.peek().kind == "op" and self.peek().text in LEVELS[lvl]:
            t = self.next()
            a = ("bin", t.line, t.text, a, self.binary(lvl + 1))
            if lvl == 2:
                break                                      # comparisons do not chain
        return a

    def unary(self):
        t = self.peek()
        if t.kind == "op" and t.text in ("-", "!", "*", "&"):
            if self.next().text == "&" and self.at("mut"):
                self.fail("&mut")
            return ("un", t.line, t.text, self.unary())
        e = self.primary()
        while self.at("."):
            d, f = self.next(), self.next()
            if f.kind == "num" and f.text.isdigit():
                e = ("field", d.line, e, int(f.text))
            elif f.kind == "id" and self.eat("("):
                e = ("mcall", d.line, e, f.text, self.commas(")", lambda: self.binary(0)))
            else:
                self.fail("field access or generic method call", f)
        return e

    def primary(self):
        t = self.peek()
        if t.kind == "num":
            return ("num", self.next().line, t.text)
        if self.at("true", "false"):
            return ("bool", self.next().line, t.text == "true")
        if self.at("{"):
            return ("block", t.line) + self.block()
        if self.eat("("):
            items = self.commas(")", lambda: self.binary(0))
            if len(items) == 1 and self.toks[self.p - 2].text != ",":
                return items[0]
            return ("tuple", t.line, items) if len(items) > 1 else self.fail("unit value or one-element tuple", t)
        if self.eat("if"):
            if self.at("let"):
                self.fail("if let")
            c, th, el = self.binary(0), self.block(), None
            if self.eat("else"):
                el = as_block(self.primary()) if self.at("if") else self.block()
            return ("if", t.line, c, th, el)
        if self.eat("match"):
            scrut = self.binary(0)
            self.expect("{")
            arms = []
            while not self.at("}"):
                a, head = self.peek(), self.ident()
                self.expect("::")
                variant = self.ident()
                self.expect("(")
                binder = "_" if self.eat("_") else self.ident()
                self.expect(")")
                self.expect("=>")
                body = self.block() if self.at("{") else as_block(self.expr())
                if not self.eat(",") and not self.at("}") and self.toks[self.p - 1].text != "}":
                    self.expect(",")
                arms.append((a.line, head, variant, binder, body))
            self.expect("}")
            return ("match", t.line, scrut, arms)
        if t.kind == "id" and t.text not in RUST_KEYWORDS:
            segs = [self.next().text]
            while self.eat("::"):
                segs.append(self.ident())
            if self.eat("("):
                return ("pcall", t.line, segs, self.commas(")", lambda: self.binary(0)))
            if self.at("!") or len(segs) > 1:
                self.fail("macro call, struct literal or path used as a value", t)
            return ("var", t.line, segs[0])
        self.fail("`%s` does not start an expression of the subset" % t.text)


def find_item(toks, kind, name, fn=None):
    """Index of `fn <fn>` inside a top-level `impl <name> {` / `trait <name> .. {`, or of `enum <name>` (fn=None)."""
    def brace(t):
        return (t.kind == "op") * ((t.text == "{") - (t.text == "}"))
    depth, i = 0, 0
    while toks[i].kind != "eof":
        t = toks[i]
        if depth == 0 and t.kind == "id" and t.text == kind and toks[i + 1].text == name and \
                (kind != "impl" or toks[i + 2].text == "{"):
            if fn is None:
                return i
            while toks[i].text not in ("{", ";") and toks[i].kind != "eof":
                i += 1
            d, i = 1, i + 1
            while d > 0 and toks[i].kind != "eof":
                if d == 1 and toks[i].text == "fn" and toks[i + 1].text == fn:
                    return i
                d, i = d + brace(toks[i]), i + 1
            continue                                       # several impl blocks of one type: keep looking
        depth, i = depth + brace(t), i + 1
    return None


def parse_enum(toks, name):
    i = find_item(toks, "enum", name)
    if i is None:
        raise Unsupported(1, "enum %s not found at the top level of the file" % name)
    p = Parser(toks, i + 2)

    def variant():
        v = p.ident()
        p.expect("(")
        if p.commas(")", p.type) != ["F"]:
            p.fail("enum variant that does not carry exactly one f64")
        return v
    p.expect("{")
    return p.commas("}", variant)


# ---------------------------------------------------------------------------------------------------------------------
# translation

Var = namedtuple("Var", "ty mut defined coq")      # ty: F bool nat enum trade portfolio (list t) (tuple ts) or None


def P(s):
    """Parenthesise unless atomic or already one parenthesised group."""
    depth = 0
    for i, c in enumerate(s):
        depth += (c == "(") - (c == ")")
        if depth == 0 and (c in " \n" or c == ")" and i < len(s) - 1):
            return "(" + s + ")"
    return s


def gty(t, enum_ty):
    if isinstance(t, tuple):
        return "list %s" % P(gty(t[1], enum_ty)) if t[0] == "list" else " * ".join(P(gty(x, enum_ty)) for x in t[1])
    return {"F": "F", "bool": "bool", "nat": "nat", "enum": enum_ty}[t]


def assigned(node, shadow, out):
    """Appends to `out` the variables assigned inside `node` and not declared inside it, in order of first assignment.
    `shadow` (the names declared so far in the block `node` is a statement of) is extended by a `let`."""
    if isinstance(node, list):
        for x in node:
            assigned(x, shadow, out)
    if not (isinstance(node, tuple) and node and isinstance(node[0], str)):
        return
    k = node[0]
    if k == "assign" and node[2] not in shadow and node[2] not in out:
        out.append(node[2])
    subterms, blocks = list(node[2:]), []                  # blocks: (block, names it binds)
    if k == "for":
        subterms, blocks = [node[3]], [(node[4], node[2])]
    elif k == "if":
        subterms, blocks = [node[2]], [(node[3], []), (node[4], [])]
    elif k == "match":
        subterms, blocks = [node[2]], [(a[4], [a[3]]) for a in node[3]]
    elif k == "block":
        subterms, blocks = [], [(node[2:4], [])]
    assigned(subterms, shadow, out)
    for blk, binders in blocks:
        if blk is not None:
            assigned([blk[0], blk[1]], set(shadow) | set(binders), out)
    if k == "let":
        shadow.add(node[2])


class Translator:
    def __init__(self, enum, variants, idents=()):
        self.enum, self.enum_ty = enum or (None, None)
        self.variants, self.idents = variants, set(idents)  # idents: every identifier of the source file
        self.fns = {}                                      # (container, rust name) -> (gallina name, [param types], type)
        self.names = set(RESERVED) | set(variants or [])

    def fail(self, line, why):
        raise Unsupported(line, why)

    def cn(self, name):
        """Gallina name of a Rust local: itself, or with `_`s appended when Gallina or this file already uses it (never a
        name some other Rust variable has: the renaming stays injective)."""
        n = name
        while n in self.names or (n != name and n in self.idents):
            n += "_"
        return n

    def rtype(self, t):
        if isinstance(t, tuple) and t[0] == "named":
            return "enum" if t[1] == self.enum else self.fail(t[2], "type %s" % t[1])
        if isinstance(t, tuple):
            return (t[0], self.rtype(t[1])) if t[0] == "list" else ("tuple", tuple(self.rtype(x) for x in t[1]))
        return t

    def function(self, f, container, gname):
        self.container = container
        env, binders, ptys = {}, [], []
        for pname, ty, mut in f["params"]:
            ty = self.rtype(ty)
            if pname == "self" and container == self.enum:
                ty, v, binder = "enum", "self", "(self : %s)" % self.enum_ty
            elif pname == "self" and container in SELF_GETTERS:
                getters = SELF_GETTERS[container].values()
                ty, v = "portfolio", " ".join(c for c, _ in getters)
                binder = " ".join("(%s : %s)" % (c, gty(t, self.enum_ty)) for c, t in getters)
            elif pname == "self":
                self.fail(f["line"], "&self of %s" % container)
            elif ty == "trade":
                v = " ".join(TRADE_GETTERS.values())
                binder = "(%s : F)" % v
            else:
                v = self.cn(pname)
                binder = "(%s : %s)" % (v, gty(ty, self.enum_ty))
            env[pname] = Var(ty, mut, True, v)
            binders.append(binder)
            ptys.append(ty)
        body, ty = self.block(f["body"], env, None)
        if f["ret"] is None or self.rtype(f["ret"]) != ty:
            self.fail(f["line"], "declared return type differs from the type of the body (%s)" % (ty,))
        self.fns[(container, f["name"])] = (gname, ptys, ty)
        self.names.add(gname)
        return "Definition %s %s : %s :=\n  %s." % (gname, " ".join(binders), gty(ty, self.enum_ty), body)

    # --- blocks and statements -----------------------------------------------------------------------------------
    def tuple_of(self, names, env):
        if len(names) == 1:
            return env[names[0]].coq, env[names[0]].ty
        return "(" + ", ".join(env[n].coq for n in names) + ")", ("tuple", tuple(env[n].ty for n in names))

    def block(self, blk, env, result, i=0):
        """Gallina text and type of the block from its i-th statement on. result = None: the value is the block's tail
        expression; result = [names]: the block is run for its assignments, its value is the tuple of these variables."""
        ss, tail = blk
        env = dict(env)
        if i == len(ss):
            if result is None:
                return self.expr(tail, env) if tail else self.fail(ss[-1][1] if ss else 0, "block without a value")
            return self.tuple_of(result, env) if tail is None else self.fail(tail[1], "value of a block is discarded")
        s = ss[i]
        k, line = s[0], s[1]
        if k == "let":
            _, _, name, mut, ty, init = s
            if result and name in result:
                self.fail(line, "`let %s` shadows a variable the enclosing statement assigns" % name)
            if init is None:
                env[name] = Var(self.rtype(ty) if ty else None, True, False, self.cn(name))
                return self.block(blk, env, result, i + 1)
            v, t = self.expr(init, env)
            if ty is not None and self.rtype(ty) != t:
                self.fail(line, "declared type differs from the type of the value")
            env[name] = Var(t, mut, True, self.cn(name))
            bind = env[name].coq
        elif k == "expr" and s[2][0] == "assign":
            _, _, name, op, rhs = s[2]
            old = env.get(name) or self.fail(line, "assignment to unknown variable %s" % name)
            if old.defined and not old.mut or old.ty in ("trade", "portfolio"):
                self.fail(line, "assignment to immutable %s" % name)
            v, t = self.expr(rhs, env)
            if op != "=":
                if not old.defined or old.ty != "F" or t != "F":
                    self.fail(line, "`%s` on something other than f64" % op)
                v = "%s %s %s" % ({"+=": "fadd", "-=": "fsub", "*=": "fmul", "/=": "fdiv"}[op], old.coq, P(v))
            elif old.ty is not None and old.ty != t:
                self.fail(line, "assignment changes the type of %s" % name)
            env[name] = Var(t, old.mut, True, old.coq)
            bind = old.coq
        elif k == "for" or (k == "expr" and s[2][0] in ("if", "match", "block")):
            node, out = (s if k == "for" else s[2]), []
            assigned(node, set(), out)
            for n in out:
                if n not in env:
                    self.fail(line, "assignment to unknown variable %s" % n)
            names = [n for n in env if n in out and env[n].defined]     # declaration order
            if not names:
                self.fail(line, "statement without effect on the variables in scope")
            v, t = self.compound(node, env, names)
            bind = self.tuple_of(names, env)[0]
            bind = "'" + bind if len(names) > 1 else bind
        else:
            self.fail(line, "expression statement without effect")
        rest, rt = self.block(blk, env, result, i + 1)
        return "let %s := %s in\n  %s" % (bind, v, rest), rt

    def compound(self, e, env, result):
        k, line = e[0], e[1]
        if k == "block":
            return self.block((e[2], e[3]), env, result)
        if k == "if":
            c, tc = self.expr(e[2], env)
            if tc != "bool":
                self.fail(line, "condition is not a bool")
            a, ta = self.block(e[3], env, result)
            if e[4] is None and result is None:
                self.fail(line, "if without else in value position")
            b, tb = self.block(e[4], env, result) if e[4] is not None else self.tuple_of(result, env)
            if ta != tb:
                self.fail(line, "branches of different types")
            return "if %s then %s else %s" % (c, P(a), P(b)), ta
        if k == "match":
            s, ts = self.expr(e[2], env)
            if ts != "enum":
                self.fail(line, "match on something other than %s" % self.enum)
            arms, ty, seen = [], None, []
            for aline, head, variant, binder, body in e[3]:
                if head != self.enum and not (head == "Self" and self.container == self.enum) or \
                        variant not in self.variants or variant in seen:
                    self.fail(aline, "pattern %s::%s" % (head, variant))
                if result and binder in result:
                    self.fail(aline, "pattern variable %s shadows a variable the match assigns" % binder)
                seen.append(variant)
                env2 = dict(env)
                env2[binder] = Var("F", False, binder != "_", "_" if binder == "_" else self.cn(binder))
                b, tb = self.block(body, env2, result)
                if ty is not None and tb != ty:
                    self.fail(aline, "arms of different types")
                ty = tb
                arms.append("| %s %s => %s" % (variant, env2[binder].coq, b))
            if sorted(seen) != sorted(self.variants):
                self.fail(line, "match does not list every variant of %s" % self.enum)
            return "match %s with\n  %s\n  end" % (s, "\n  ".join(arms)), ty
        _, _, pat, it, body = e                              # for
        def is_call(x, name):
            return x[0] == "mcall" and x[3] == name and not x[4]
        counted = is_call(it, "enumerate")
        if counted:
            it = it[2] if is_call(it[2], "iter") else self.fail(line, "enumerate() on something other than .iter()")
        it = it[2] if is_call(it, "iter") else it
        xs, t = self.expr(it, env)
        if not (isinstance(t, tuple) and t[0] == "list") or len(pat) != (2 if counted else 1):
            self.fail(line, "loop that is not `for x in slice` / `for (i, x) in slice.iter().enumerate()`")
        if set(pat) & set(result):
            self.fail(line, "loop variable shadows a variable the loop assigns")
        env2 = dict(env)
        env2[pat[-1]] = Var(t[1], False, True, self.cn(pat[-1]))
        env2[pat[0]] = Var("nat", False, True, self.cn(pat[0])) if counted else env2[pat[0]]
        (state, ts), x, pos = self.tuple_of(result, env), env2[pat[-1]].coq, env2[pat[0]].coq
        b, _ = self.block(body, env2, result)
        if counted:                                          # the position is threaded through the fold with the state
            return "snd (fold_left (fun '(%s, %s) %s => (S %s, %s)) %s (0%%nat, %s))" % (pos, state, x, pos, b, P(xs),
                                                                                         state), ts
        pattern = "'" + state if len(result) > 1 else state
        return "fold_left (fun %s %s => %s) %s %s" % (pattern, x, b, P(xs), P(state)), ts

    # --- expressions ---------------------------------------------------------------------------------------------
    def literal(self, e):
        s = e[2].replace("_", "")
        if re.fullmatch(r"\d+", s):
            return "%d%%nat" % int(s), "nat"
        m = re.fullmatch(r"(\d+)\.(\d+)", s) or self.fail(e[1], "literal %s" % e[2])
        frac = m.group(2).rstrip("0")
        n, k = int(m.group(1) + frac), len(frac)
        if n >= 2 ** 53 or k > 22:
            self.fail(e[1], "literal %s is not the quotient of two exactly representable integers" % e[2])
        if k == 0:
            return {0: "fzero", 1: "fone"}.get(n, "fofZ %d%%Z" % n), "F"
        # the correctly rounded decimal n / 10^k is the correctly rounded quotient of the two exact integers
        return ("ftenth" if (n, k) == (1, 1) else "fdiv (fofZ %d%%Z) (fofZ %d%%Z)" % (n, 10 ** k)), "F"

    def expr(self, e, env):
        k, line = e[0], e[1]
        if k == "num":
            return self.literal(e)
        if k == "bool":
            return ("true" if e[2] else "false"), "bool"
        if k == "var":
            v = env.get(e[2]) or self.fail(line, "unknown variable %s" % e[2])
            return (v.coq, v.ty) if v.defined else self.fail(line, "%s has no value on this path" % e[2])
        if k == "un":
            x, t = self.expr(e[3], env)
            if e[2] in "*&":
                return x, t
            if (e[2], t) not in (("-", "F"), ("!", "bool")):
                self.fail(line, "unary %s on %s" % (e[2], t))
            return "%s %s" % ("fneg" if e[2] == "-" else "negb", P(x)), t
        if k == "bin":
            (a, ta), (b, tb), op = self.expr(e[3], env), self.expr(e[4], env), e[2]
            if op in ("&&", "||") and ta == tb == "bool":
                return "%s %s %s" % ("andb" if op == "&&" else "orb", P(a), P(b)), "bool"
            if ta != "F" or tb != "F" or op in ("&&", "||"):
                self.fail(line, "`%s` on %s and %s" % (op, ta, tb))
            if op in "+-*/":
                return "%s %s %s" % ({"+": "fadd", "-": "fsub", "*": "fmul", "/": "fdiv"}[op], P(a), P(b)), "F"
            fn, x, y = {"<": ("fltb", a, b), "<=": ("fleb", a, b), ">": ("fltb", b, a), ">=": ("fleb", b, a),
                        "==": ("feqb", a, b), "!=": ("feqb", a, b)}[op]
            r = "%s %s %s" % (fn, P(x), P(y))
            return ("negb (%s)" % r if op == "!=" else r), "bool"
        if k == "tuple":
            parts = [self.expr(x, env) for x in e[2]]
            return "(" + ", ".join(p[0] for p in parts) + ")", ("tuple", tuple(p[1] for p in parts))
        if k == "field":
            x, t = self.expr(e[2], env)
            if not (isinstance(t, tuple) and t[0] == "tuple" and e[3] < len(t[1])):
                self.fail(line, ".%d of something other than a tuple" % e[3])
            n, i = len(t[1]), e[3]                           # (a, b, c) is ((a, b), c)
            for _ in range(n - 1 - i if i else n - 1):
                x = "fst " + P(x)
            return ("snd " + P(x) if i else x), t[1][i]
        if k in ("if", "match", "block"):
            return self.compound(e, env, None)
        if k == "mcall":
            recv, name, args = e[2], e[3], e[4]
            r, tr = self.expr(recv, env)
            if tr == "trade" and name in TRADE_GETTERS and not args:
                return TRADE_GETTERS[name], "F"
            if name == "clone" and not args and tr in ("F", "bool", "nat", "trade"):
                return r, tr
            if tr == "portfolio" and name in SELF_GETTERS[self.container] and not args:
                return SELF_GETTERS[self.container][name]
            if tr in ("enum", "portfolio"):
                return self.call(line, (self.enum if tr == "enum" else self.container, name), [recv] + args, env)
            self.fail(line, "method %s on %s" % (name, tr))
        if k == "pcall" and len(e[2]) == 2 and e[2][0] in (self.enum, "Self"):
            return self.call(line, (self.container if e[2][0] == "Self" else self.enum, e[2][1]), e[3], env)
        self.fail(line, "call of %s" % "::".join(e[2]) if k == "pcall" else "%s in value position" % k)

    def call(self, line, key, args, env):
        if key not in self.fns:
            self.fail(line, "call of %s::%s, which is not among the translated functions" % key)
        gname, ptys, rty = self.fns[key]
        vals = [self.expr(a, env) for a in args]
        if [t for _, t in vals] != ptys:
            self.fail(line, "arguments of %s::%s" % key)
        return " ".join([gname] + [v if t in ("trade", "portfolio") else P(v) for v, t in vals]), rty


def translate(src, target, fname="<source>"):
    """Rust source text -> (Gallina file text, [(generated name, model name)]).  Raises Unsupported."""
    toks = lex(src)
    tr = Translator(target["enum"], parse_enum(toks, target["enum"][0]) if target["enum"] else None,
                    [t.text for t in toks if t.kind == "id"])
    defs = []
    for kind, container, fn, gname, _model in target["fns"]:
        i = find_item(toks, kind, container, fn)
        if i is None:
            raise Unsupported(1, "fn %s not found in a top-level `%s %s`" % (fn, kind, container))
        f = Parser(toks, i).fn()
        defs.append("(* %s:%d  %s::%s *)\n%s" % (fname, f["line"], container, fn, tr.function(f, container, gname)))
    head = ("(* GENERATED by tools/rs2v.py from %s on every run: do not edit, not under version control.\n"
            "   Definitions only; Check/GenEquiv*.v proves them equal to the hand-written model. *)\n"
            "From Coq Require Import ZArith List Bool.\nFrom Alator Require Import %s.\nImport ListNotations.\n\n"
            "Section Gen.\nContext {F : Type} {NF : Num F}.\n\n" % (fname, target["requires"]))
    mod = target.get("out", "Gen.v")[:-2]
    return head + "\n\n".join(defs) + "\n\nEnd Gen.\n", [(mod + "." + f[3], f[4]) for f in target["fns"]]


def run_target(name, repo, outdir):
    target = TARGETS[name]
    path, out = os.path.join(repo, target["file"]), os.path.join(outdir, target["out"])
    if os.path.exists(out):
        os.remove(out)                                     # never leave a stale translation behind
    try:
        src = open(path).read()
        text, pairs = translate(src, target, target["file"])
    except (OSError, Unsupported) as ex:
        line, why = (ex.line, ex.why) if isinstance(ex, Unsupported) else (0, "cannot read the source file: %s" % ex)
        lines = src.split("\n") if isinstance(ex, Unsupported) else []
        shown = lines[line - 1].strip() if 0 < line <= len(lines) else ""
        sys.stderr.write("rs2v: unsupported construct at %s:%d: %s   (%s)\n" % (path, line, shown, why))
        return None
    os.makedirs(outdir, exist_ok=True)
    with open(out, "w") as f:
        f.write(text)
    return dict(target=name, source=path, out=out, pairs=pairs)


# ---------------------------------------------------------------------------------------------------------------------
# self-test

SELFTEST_SRC = """
pub enum K { A(f64), B(f64) }
impl K {
    /* a /* nested */ comment with a brace { */
    pub fn f(&self, x: &f64, up: bool) -> (f64, f64) {
        let mut a = *x;            // erased dereference
        let mut b = 0.0;
        match self {
            K::B(v) => { if up { a += v; } else if a > 2.5 { b = a * (1.0 - v); } }
            K::A(w) => b -= *w,
        }
        (a, b)
    }
    pub fn g(ks: &[K], x: &f64, up: bool) -> f64 {
        let mut r = (*x, 0.1);
        for k in ks { r = k.f(&r.0, up); }
        let s = if r.0 <= r.1 { r.0 } else { -r.1 };
        s / 4.0
    }
    fn h(vs: &[f64]) -> (f64, usize) {
        let mut best = 0.0;
        let mut at: usize = 0;         // `at` is a Gallina keyword, and `at_` is taken
        let at_ = true;
        let mut t;
        for (i, v) in vs.iter().enumerate() {
            if v >= &best && at_ { t = *v; best = t; at = i; }
        }
        (best, at)
    }
}
"""
SELFTEST_EXPECT = [
    "Definition f (self : k F) (x : F) (up : bool) : F * F :=",
    "let '(a, b) := match self with",
    "| B v => let '(a, b) := if up then (let a := fadd a v in\n  (a, b)) else (let b := if fltb (fdiv (fofZ 25%Z) "
    "(fofZ 10%Z)) a then (let b := fmul a (fsub fone v) in\n  b) else b in\n  (a, b)) in\n  (a, b)",
    "| A w => let b := fsub b w in\n  (a, b)",
    "let r := (x, ftenth) in",
    "let r := fold_left (fun r k => let r := f k (fst r) up in\n  r) ks r in",
    "let s := if fleb (fst r) (snd r) then (fst r) else (fneg (snd r)) in\n  fdiv s (fofZ 4%Z).",
    "Definition h (vs : list F) : F * nat :=",
    "let at__ := 0%nat in\n  let at_ := true in",
    "snd (fold_left (fun '(i, (best, at__)) v => (S i, let '(best, at__) := if andb (fleb best v) at_ then (let t := v "
    "in\n  let best := t in\n  let at__ := i in\n  (best, at__)) else (best, at__) in\n  (best, at__))) vs "
    "(0%nat, (best, at__)))",
]
SELFTEST_REJECT = [          # one statement each, put on line 4 of a function body; every one must be refused there
    "while a < 1.0 { a += 1.0; }", "let c = |y: f64| y + a;", "a = a.sqrt();", "let n = ks.len() as f64;",
    "if let K::A(v) = self { a = *v; }", "a = a % 2.0;", "return (a, a);", "let (p, q) = (a, a);", "a = 1e3;",
    "let t; if up { t = 1.0; } a = t;", "if up { let a = 2.0; }", "a = if a < 1 { 1.0 } else { 2.0 };",
    "a = ks[0].f(&a, up).0;", "match self { K::A(v) => a = *v, _ => a = 1.0 }", "a = f64::max(a, 1.0);",
    "loop { a += 1.0; }", "a = a?;", "println!(\"{\", a);", "if up { a = 1.0; let a = 2.0; }", "a += 1;",
]


def selftest():
    target = dict(enum=("K", "k F"), requires="Model.Num", fns=[("impl", "K", x, x, "M." + x) for x in "fgh"])
    text, _ = translate(SELFTEST_SRC, target)
    bad = [w for w in SELFTEST_EXPECT if w not in text]
    for w in bad:
        print("selftest: expected fragment missing:\n" + w + "\nin\n" + text)
    for stmt in SELFTEST_REJECT:
        src = "enum K { A(f64), B(f64) }\nimpl K { fn f(&self, ks: &[K], up: bool) -> (f64, f64) {\nlet mut a = 0.0;\n" \
              + stmt + "\n(a, a) } }"
        try:
            translate(src, dict(target, fns=target["fns"][:1]))
            bad.append(print("selftest: accepted although outside the subset: " + stmt))
        except Unsupported as ex:
            if ex.line != 4:
                bad.append(print("selftest: `%s` refused at line %d, not 4 (%s)" % (stmt, ex.line, ex.why)))
    print("selftest: %s (%d fragments, %d rejections)" % ("FAILED" if bad else "ok", len(SELFTEST_EXPECT),
                                                          len(SELFTEST_REJECT)))
    return 1 if bad else 0


def main():
    ap = argparse.ArgumentParser()
    ap.add_argument("--target", default="all", choices=list(TARGETS) + ["all"])
    ap.add_argument("--repo", default=None)
    ap.add_argument("--out", default=os.path.join(VERIF, "coq", "Gen"))
    ap.add_argument("--selftest", action="store_true")
    a = ap.parse_args()
    if a.selftest:
        sys.exit(selftest())
    repo = a.repo
    if repo is None:                                       # the checkout the checks run against
        sys.path.insert(0, os.path.join(VERIF, "driver"))
        import common
        repo = common.REPO
    results = [run_target(name, repo, a.out) for name in (list(TARGETS) if a.target == "all" else [a.target])]
    for r in results:
        if r is not None:
            print(json.dumps(r))
    sys.exit(2 if None in results else 0)


if __name__ == "__main__":
    main()
