"""C05 — broker slice; see driver/broker.py and Props/C05.v"""
import broker


def run(res, tier, seed, replay):
    return broker.run_property(res, "C05", tier, seed, replay, ["C05", "C05float", "C05sys"])
