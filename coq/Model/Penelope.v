(* Penelope.v — the dataset builder of input/penelope.rs: Penelope::new, add_quote, and the accessors the
   servers use (get_date, has_next, get_quotes are in Server.v: a [dataset] is what they read).
   `dates: Vec<i64>` in first-insertion order, `inner: HashMap<i64, HashMap<String, PenelopeQuote>>`.
   Hash maps are association lists that are only ever looked up by key; an insert replaces the value of an
   existing key in place, else appends. Definitions only. *)
From Coq Require Import ZArith NArith List Bool String.
From Alator Require Import Model.Num Model.Exchange Model.Uist Model.Server.
Import ListNotations.

Section Penelope.
Context {F : Type}.

Definition prow : Type := quotes (quote F).
Definition penelope : Type := dataset prow.

Definition penelope_new : penelope := mkDataset [] [].

(* HashMap<String, _>::insert *)
Fixpoint supsert {A} (l : list (string * A)) (k : string) (a : A) : list (string * A) :=
  match l with
  | [] => [(k, a)]
  | (k', a') :: l' => if String.eqb k k' then (k, a) :: l' else (k', a') :: supsert l' k a
  end.

(* HashMap<i64, _>::get_mut + in-place update *)
Fixpoint zupdate {A} (l : list (Z * A)) (k : Z) (f : A -> A) : list (Z * A) :=
  match l with
  | [] => []
  | (k', a) :: l' => if Z.eqb k k' then (k', f a) :: l' else (k', a) :: zupdate l' k f
  end.

(* Penelope::add_quote(bid, ask, date, symbol) *)
Definition add_quote (p : penelope) (bid ask : F) (date : Z) (sym : string) : penelope :=
  let q := mkQuote bid ask date sym in
  match zlookup (ds_rows p) date with
  | Some _ => mkDataset (ds_dates p) (zupdate (ds_rows p) date (fun row => supsert row sym q))
  | None => mkDataset (ds_dates p ++ [date]) (ds_rows p ++ [(date, [(sym, q)])])
  end.

(* a loading script: the calls made on a fresh Penelope *)
Definition load (calls : list (F * F * Z * string)) : penelope :=
  fold_left (fun p c => let '(b, a, d, s) := c in add_quote p b a d s) calls penelope_new.

End Penelope.

Arguments prow F : clear implicits.
Arguments penelope F : clear implicits.
