(* ExchangeStd.v — the exchange skeleton WITHOUT the sort oracle: the buffer is sorted by Model/Sort.v's
   transcription of the standard library's stable sort with the exchange's first-argument-only comparator.
   Proofs/SortExchange.v shows this machine is the oracle machine of Model/Exchange.v for suitable oracle values
   (so every theorem proved for all oracle values applies) and never lands in OutBadOracle. Definitions only. *)
From Coq Require Import List NArith ZArith Bool.
From Coq Require String.
From Alator Require Import Model.Sort Model.Exchange.
Import ListNotations.

Section OracleFree.

Context {Ord Qt T : Type}.
Context (asset_of : Ord -> N) (sym_of : Ord -> String.string) (is_sell : Ord -> bool).
Context (decide : entry Ord -> Qt -> action Ord T).

Notation walk := (walk asset_of sym_of decide).

(* the body of [tick] with the sorted buffer given directly *)
Definition tick_sorted (s : exch Ord T) (qs : quotes Qt) (sorted : list Ord)
  : exch Ord T * out Ord T :=
  match walk qs (book s) with
  | None => (s, OutPanic)
  | Some (bk, fl, dl, ins) =>
      let bk1 := fold_left (fun b k => delete_first asset_of k b) dl bk in
      let kids := number (next_id s) ins in
      let bk2 := bk1 ++ map fresh_entry kids in
      let n2 := (next_id s + N.of_nat (List.length ins))%N in
      if Exchange.sells_first is_sell sorted then
        let adm := number n2 sorted in
        (mkExch (bk2 ++ map fresh_entry adm) [] (n2 + N.of_nat (List.length sorted))%N
                (xlog s ++ map snd fl),
         OutTick fl adm (map fst kids))
      else (s, OutBadOracle)
  end.

(* the tick with the buffer sorted by (the model of) rustc 1.95.0's sort_by *)
Definition tick_std (sz : N) (s : exch Ord T) (qs : quotes Qt) : exch Ord T * out Ord T :=
  match std_sort_by sz (fun a _ => is_sell a) (buffer s) with
  | None => (s, OutBadOracle)
  | Some sorted => tick_sorted s qs sorted
  end.

(* operations without oracles *)
Inductive op_std :=
| InsertS (o : Ord)
| DeleteS (k : key)
| TickS (qs : quotes Qt).

Definition erase (o : op Ord Qt) : op_std :=
  match o with
  | Insert x => InsertS x
  | Delete k => DeleteS k
  | Tick qs _ => TickS qs
  end.

Definition step_std (sz : N) (s : exch Ord T) (o : op_std) : exch Ord T * out Ord T :=
  match o with
  | InsertS x => (mkExch (book s) (buffer s ++ [x]) (next_id s) (xlog s), OutUnit)
  | DeleteS k => (mkExch (delete_first asset_of k (book s)) (buffer s) (next_id s) (xlog s), OutUnit)
  | TickS qs => tick_std sz s qs
  end.

Fixpoint run_std (sz : N) (s : exch Ord T) (ops : list op_std) : exch Ord T * list (out Ord T) :=
  match ops with
  | [] => (s, [])
  | o :: r =>
      let '(s', x) := step_std sz s o in
      let '(s'', xs) := run_std sz s' r in (s'', x :: xs)
  end.

End OracleFree.

Arguments op_std Ord Qt : clear implicits.
