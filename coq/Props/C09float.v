(* C09's 'Failed if and only if' AT THE IEEE binary64 INSTANCE for whole-unit data without costs. Statements only. Notation as in Props/C10float.v (`lrel`, `zhsum` = integer worth of the positions at the whole-unit bids, `zliq`, `znz`, `zvalue`, `sell_reads`). The decision the code takes in binary64 — cash < 0 and -cash + 1000 > liquidation value — is the integer decision, and what it queues when it stays Ready is worth at least the shortfall + 1000 in exact integers. Depends on the specification axioms the standard library declares for primitive floats / 63-bit integers and the classical reals (Flocq). *)
From Coq Require Import ZArith NArith List Bool String Floats Reals.
From Flocq Require Import Core.Raux IEEE754.BinarySingleNaN IEEE754.PrimFloat.
From Alator Require Import Model.Num Model.Quirks Model.Cost Model.Exchange Model.Uist Model.Broker
  Proofs.BrokerLedgerProofs Proofs.FloatExact Proofs.FloatCash Proofs.FloatWorth Proofs.FloatLiq Proofs.FloatFailed.
Import ListNotations.
Local Open Scope list_scope.
(* the infix comparisons below are those of the IEEE instance built on the statement's own libm table *)
Local Hint Extern 0 (Num float) => match goal with t : libm_table |- _ => exact (FloatNum t) end : typeclass_instances.

(* Without costs the liquidation value computed in binary64, for any iteration order, is the float of cash + integer worth of the positions. *)
Theorem c09f_liquidation_value :
  forall (tbl : libm_table) (zb : string -> Z) (b : broker float) 
           (zh : smap Z) (zc : Z) (ord : list string),
         lrel zb b zh ->
         @NoDup string (@map (string * Z) string (@fst string Z) zh) ->
         @b_costs float b = [] ->
         int_float (@b_cash float b) zc ->
         @is_order_of float ord (@b_holdings float b) = true ->
         (Z.abs zc + zhsum zb zh < 2 ^ 53)%Z ->
         int_float (@liquidation_value float (FloatNum tbl) b ord) (zc + zhsum zb zh).
Proof. exact @liquidation_value_float. Qed.

(* The cash rebalancing of a Ready broker with negative integer cash: Failed IF AND ONLY IF cash + positions < -cash + 1000 (integers); Failed changes nothing else and queues nothing; Ready queues a non-empty list of price-less market sells, each accepted by the gate, each between one share and the position, distinct symbols, worth at least -cash + 1000 in exact integers. *)
Theorem c09f_failed_iff :
  forall (tbl : libm_table) (zb : string -> Z) (b : broker float) 
           (zh : smap Z) (zc : Z) (ord : list string) (b' : broker float)
           (fw : list (uorder float)),
         lrel zb b zh ->
         @NoDup string (@map (string * Z) string (@fst string Z) zh) ->
         @b_costs float b = [] ->
         @b_failed float b = false ->
         int_float (@b_cash float b) zc ->
         (zc < 0)%Z ->
         (Z.abs zc + zhsum zb zh < 2 ^ 53)%Z ->
         (- zc + 1000 < 2 ^ 53)%Z ->
         @rebalance_cash float (FloatNum tbl) clean b ord =
         @Ok (broker float * list (uorder float)) (b', fw) ->
         let zl := znz (@snd Z (list (string * Z)) (zliq zb zh ord (- zc + 1000))) in
         int_float (@liquidation_value float (FloatNum tbl) b ord) (zc + zhsum zb zh) /\
         (@b_failed float b' = true <-> (zc + zhsum zb zh < - zc + 1000)%Z) /\
         (@b_failed float b' = true -> fw = [] /\ b' = @set_failed float b) /\
         (@b_failed float b' = false ->
          fw <> [] /\
          @Forall2 (uorder float) (string * Z) sell_reads fw zl /\
          @Forall (uorder float)
            (fun o : uorder float => @gate float (FloatNum tbl) clean b o = GForward) fw /\
          @Forall (string * Z)
            (fun sq : string * Z =>
             exists h : Z,
               @sget Z zh (@fst string Z sq) = @Some Z h /\ (0 < @snd string Z sq <= h)%Z) zl /\
          @NoDup string (@map (string * Z) string (@fst string Z) zl) /\
          @incl string (@map (string * Z) string (@fst string Z) zl) ord /\
          (- zc + 1000 <= zvalue zb zl)%Z).
Proof. exact @failed_iff_float. Qed.

(* The same through check(), on the state after booking what the tick returned: Failed iff the booked cash is negative and the shortfall + 1000 exceeds the liquidation value; non-negative booked cash leaves the broker as booked and sends nothing. *)
Theorem c09f_check :
  forall (tbl : libm_table) (zb : string -> Z) (b : broker float)
           (resp : option (list (trade float) * list (string * quote float))) 
           (zh : smap Z) (zc : Z) (ord : list string) (b' : broker float)
           (fw : list (uorder float)),
         let b1 := @booked float (FloatNum tbl) b resp in
         lrel zb b1 zh ->
         @NoDup string (@map (string * Z) string (@fst string Z) zh) ->
         @b_costs float b1 = [] ->
         @b_failed float b1 = false ->
         int_float (@b_cash float b1) zc ->
         ((zc < 0)%Z -> (Z.abs zc + zhsum zb zh < 2 ^ 53)%Z /\ (- zc + 1000 < 2 ^ 53)%Z) ->
         @check float (FloatNum tbl) clean b resp ord =
         @Ok (broker float * list (uorder float)) (b', fw) ->
         let zl := znz (@snd Z (list (string * Z)) (zliq zb zh ord (- zc + 1000))) in
         (@b_failed float b' = true <-> (zc < 0)%Z /\ (zc + zhsum zb zh < - zc + 1000)%Z) /\
         ((0 <= zc)%Z -> b' = b1 /\ fw = [] /\ @b_failed float b' = false) /\
         ((zc < 0)%Z ->
          int_float (@liquidation_value float (FloatNum tbl) b1 ord) (zc + zhsum zb zh) /\
          (@b_failed float b' = true -> fw = [] /\ b' = @set_failed float b1) /\
          (@b_failed float b' = false ->
           fw <> [] /\
           @Forall2 (uorder float) (string * Z) sell_reads fw zl /\
           @Forall (uorder float)
             (fun o : uorder float => @gate float (FloatNum tbl) clean b1 o = GForward) fw /\
           @Forall (string * Z)
             (fun sq : string * Z =>
              exists h : Z,
                @sget Z zh (@fst string Z sq) = @Some Z h /\ (0 < @snd string Z sq <= h)%Z) zl /\
           @NoDup string (@map (string * Z) string (@fst string Z) zl) /\
           @incl string (@map (string * Z) string (@fst string Z) zl) ord /\
           (- zc + 1000 <= zvalue zb zl)%Z)).
Proof. exact @check_failed_iff_float. Qed.

(* Non-vacuity, instantiated: ABC 5 @ 100, cash -300: 1300 > 200, Failed, nothing queued. *)
Theorem c09f_example_failed :
  forall (b' : broker float) (fw : list (uorder float)),
         @rebalance_cash float (FloatNum []) clean exf9_fail exf9_ord =
         @Ok (broker float * list (uorder float)) (b', fw) ->
         @b_failed float b' = true /\
         fw = [] /\ b' = @set_failed float exf9_fail /\ (-300 + 500 < - (-300) + 1000)%Z.
Proof. exact @exf9_theorem_fail. Qed.

(* … and ABC 20 @ 100, cash -300: 1300 <= 1700, Ready, 13 ABC sold. *)
Theorem c09f_example_ready :
  forall (b' : broker float) (fw : list (uorder float)),
         @rebalance_cash float (FloatNum []) clean exf9_ready exf9_ord =
         @Ok (broker float * list (uorder float)) (b', fw) ->
         @b_failed float b' = false /\
         fw <> [] /\
         @Forall2 (uorder float) (string * Z) sell_reads fw [("ABC"%string, 13%Z)] /\
         @Forall (uorder float)
           (fun o : uorder float => @gate float (FloatNum []) clean exf9_ready o = GForward) fw /\
         (- (-300) + 1000 <= zvalue exf9_zb [("ABC"%string, 13)])%Z.
Proof. exact @exf9_theorem_ready. Qed.

Print Assumptions c09f_liquidation_value.
Print Assumptions c09f_failed_iff.
Print Assumptions c09f_check.
Print Assumptions c09f_example_failed.
Print Assumptions c09f_example_ready.
