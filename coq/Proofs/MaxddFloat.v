(* MaxddFloat.v — C15 at the IEEE binary64 instance: the peak/trough scan of CalculationAlgos::maxdd
   only compares, divides once and subtracts 1; correctly rounded division and subtraction are monotone,
   so the statement of Proofs/PerfProofs.v (maxdd_spec / maxdd_bounds / maxdd_monotone_zero) holds of the
   float computation itself, the drawdown of x from peak p being the float expression  x / p - 1. *)
From Coq Require Import ZArith List Bool Floats Reals Lra Lia.
From Flocq Require Import Core.Raux Core.Generic_fmt Core.FLT Core.Round_NE Core.Zaux.
From Flocq Require Import Plus_error.
From Flocq Require Import IEEE754.BinarySingleNaN IEEE754.PrimFloat.
From Alator Require Import Model.Num Model.Quirks Model.Perf.
Import ListNotations.

Local Existing Instance PrimFloat.Hprec.
Local Existing Instance PrimFloat.Hmax.
Local Open Scope R_scope.

(* finite, strictly positive binary64 values: what a compounded index of returns above -100 % consists of *)
Definition fin_pos (x : float) : Prop := is_finite (Prim2B x) = true /\ (0 < B2R (Prim2B x))%R.
(* the drawdown of x from peak p exactly as the code computes it *)
Definition fdd (x p : float) : float := PrimFloat.sub (PrimFloat.div x p) 1%float.

(* ------------------------------------------------------------------------------------------- *)
(* (A) the order of the non-NaN binary64 values, read in the reals: the infinities sit at +-2^1024,
   strictly outside the finite range                                                             *)

Notation rnd := (round radix2 (SpecFloat.fexp prec emax) (round_mode mode_NE)).
Notation fmt := (generic_format radix2 (SpecFloat.fexp prec emax)).

Definition Bmax : R := bpow radix2 emax.

Lemma Bmax_pos : 0 < Bmax.
Proof. apply bpow_gt_0. Qed.

Definition bval (b : binary_float prec emax) : R :=
  match b with
  | B754_infinity true => - Bmax
  | B754_infinity false => Bmax
  | _ => B2R b
  end.

Definition xval (x : float) : R := bval (Prim2B x).
Definition nn (x : float) : Prop := is_nan (Prim2B x) = false.

Lemma B2R_bounds (b : binary_float prec emax) : - Bmax < B2R b < Bmax.
Proof.
  pose proof (abs_B2R_lt_emax prec emax b) as H. fold Bmax in H.
  apply Rabs_def2 in H. lra.
Qed.

Lemma bval_finite (b : binary_float prec emax) : is_finite b = true -> bval b = B2R b.
Proof. destruct b as [s|s| |s m e H]; intros Hf; try reflexivity; discriminate Hf. Qed.

Lemma Bcompare_bval (b1 b2 : binary_float prec emax) :
  is_nan b1 = false -> is_nan b2 = false ->
  Bcompare b1 b2 = Some (Rcompare (bval b1) (bval b2)).
Proof.
  intros N1 N2.
  pose proof Bmax_pos as Hm.
  destruct (is_finite b1) eqn:F1; destruct (is_finite b2) eqn:F2.
  - rewrite (bval_finite _ F1), (bval_finite _ F2). apply Bcompare_correct; assumption.
  - pose proof (B2R_bounds b1) as Hb. rewrite (bval_finite _ F1).
    destruct b2 as [s2|[|]| |s2 m2 e2 H2]; try discriminate;
    destruct b1 as [s1|s1| |s1 m1 e1 H1]; try discriminate;
    unfold Bcompare, bval; cbn [B2SF SFcompare]; f_equal; symmetry;
    first [apply Rcompare_Lt; lra | apply Rcompare_Gt; lra].
  - pose proof (B2R_bounds b2) as Hb. rewrite (bval_finite _ F2).
    destruct b1 as [s1|[|]| |s1 m1 e1 H1]; try discriminate;
    destruct b2 as [s2|s2| |s2 m2 e2 H2]; try discriminate;
    unfold Bcompare, bval; cbn [B2SF SFcompare]; f_equal; symmetry;
    first [apply Rcompare_Lt; lra | apply Rcompare_Gt; lra].
  - destruct b1 as [s1|[|]| |s1 m1 e1 H1]; try discriminate;
    destruct b2 as [s2|[|]| |s2 m2 e2 H2]; try discriminate;
    unfold Bcompare, bval; cbn [B2SF SFcompare]; f_equal; symmetry;
    first [apply Rcompare_Eq; lra | apply Rcompare_Lt; lra | apply Rcompare_Gt; lra].
Qed.

Lemma leb_xval (x y : float) : nn x -> nn y -> PrimFloat.leb x y = Rle_bool (xval x) (xval y).
Proof.
  intros Nx Ny. rewrite leb_equiv. unfold Bleb, SFleb.
  pose proof (Bcompare_bval _ _ Nx Ny) as H. unfold Bcompare in H. rewrite H.
  unfold xval. destruct (Rcompare_spec (bval (Prim2B x)) (bval (Prim2B y))) as [Hc|Hc|Hc];
  destruct (Rle_bool_spec (bval (Prim2B x)) (bval (Prim2B y))) as [Hl|Hl]; try reflexivity; lra.
Qed.

Lemma ltb_xval (x y : float) : nn x -> nn y -> PrimFloat.ltb x y = Rlt_bool (xval x) (xval y).
Proof.
  intros Nx Ny. rewrite ltb_equiv. unfold Bltb, SFltb.
  pose proof (Bcompare_bval _ _ Nx Ny) as H. unfold Bcompare in H. rewrite H.
  unfold xval. destruct (Rcompare_spec (bval (Prim2B x)) (bval (Prim2B y))) as [Hc|Hc|Hc];
  destruct (Rlt_bool_spec (bval (Prim2B x)) (bval (Prim2B y))) as [Hl|Hl]; try reflexivity; lra.
Qed.

Lemma eqb_xval (x y : float) : nn x -> nn y -> PrimFloat.eqb x y = Req_bool (xval x) (xval y).
Proof.
  intros Nx Ny. rewrite eqb_equiv. unfold Beqb, SFeqb.
  pose proof (Bcompare_bval _ _ Nx Ny) as H. unfold Bcompare in H. rewrite H.
  unfold xval. destruct (Rcompare_spec (bval (Prim2B x)) (bval (Prim2B y))) as [Hc|Hc|Hc];
  destruct (Req_bool_spec (bval (Prim2B x)) (bval (Prim2B y))) as [Hl|Hl]; try reflexivity; lra.
Qed.

(* ------------------------------------------------------------------------------------------- *)
(* (B) rounding to binary64                                                                      *)

Local Instance fexp64_valid : Valid_exp (SpecFloat.fexp prec emax) := fexp_correct prec emax Hprec.
Local Instance fexp64_monotone : Monotone_exp (SpecFloat.fexp prec emax) := fexp_monotone prec emax.

Lemma rnd_le (a b : R) : a <= b -> rnd a <= rnd b.
Proof. intros H. apply round_le; [exact fexp64_valid | apply valid_rnd_round_mode | exact H]. Qed.

Lemma rnd_fmt (a : R) : fmt a -> rnd a = a.
Proof. intros H. apply round_generic; [apply valid_rnd_round_mode | exact H]. Qed.

Lemma fmt_rnd (a : R) : fmt (rnd a).
Proof. apply generic_format_round; [exact fexp64_valid | apply valid_rnd_round_mode]. Qed.

Lemma fmt_0 : fmt 0.
Proof. apply generic_format_0. Qed.

Lemma fmt_1 : fmt 1.
Proof. rewrite <- (@Bone_correct prec emax Hprec Hmax). apply generic_format_B2R. Qed.

Lemma fmt_m1 : fmt (-1).
Proof. apply generic_format_opp. exact fmt_1. Qed.

Lemma one_lt_Bmax : 1 < Bmax.
Proof. change 1 with (bpow radix2 0). apply bpow_lt. reflexivity. Qed.

Lemma rnd_ge0 (a : R) : 0 <= a -> 0 <= rnd a.
Proof. intros H. rewrite <- (rnd_fmt 0 fmt_0). apply rnd_le. exact H. Qed.

(* x |-> round (x - 1) on the non-negative binary64 numbers: at least -1, at most x *)
Lemma rnd_sub1_bounds (q : R) : fmt q -> 0 <= q -> -1 <= rnd (q - 1) <= q.
Proof.
  intros Fq Hq. split.
  - rewrite <- (rnd_fmt (-1) fmt_m1). apply rnd_le. lra.
  - rewrite <- (rnd_fmt q Fq) at 2. apply rnd_le. lra.
Qed.

Lemma rnd_sub1_zero (q : R) : fmt q -> rnd (q - 1) = 0 -> q = 1.
Proof.
  intros Fq H.
  assert (E : q + -1 = 0).
  { apply (round_plus_eq_0 radix2 (SpecFloat.fexp prec emax) (round_mode mode_NE) q (-1) Fq fmt_m1).
    exact H. }
  lra.
Qed.

(* the real function the float expression x / p - 1 computes, overflow of the quotient included *)
Definition Fdd (r : R) : R := if Rlt_bool (rnd r) Bmax then rnd (rnd r - 1) else Bmax.

Lemma Fdd_mono (r1 r2 : R) : 0 <= r1 -> r1 <= r2 -> Fdd r1 <= Fdd r2.
Proof.
  intros H0 H12. unfold Fdd.
  pose proof (rnd_le _ _ H12) as Hle.
  pose proof (rnd_ge0 _ H0) as Hge.
  pose proof (rnd_sub1_bounds (rnd r1) (fmt_rnd r1) Hge) as Hb.
  destruct (Rlt_bool_spec (rnd r1) Bmax) as [H1|H1];
  destruct (Rlt_bool_spec (rnd r2) Bmax) as [H2|H2].
  - apply rnd_le. lra.
  - lra.
  - lra.
  - lra.
Qed.

Lemma Fdd_ge (r : R) : 0 <= r -> -1 <= Fdd r.
Proof.
  intros H0. unfold Fdd.
  pose proof (rnd_sub1_bounds (rnd r) (fmt_rnd r) (rnd_ge0 _ H0)) as Hb.
  pose proof Bmax_pos as Hm.
  destruct (Rlt_bool_spec (rnd r) Bmax) as [H1|H1]; lra.
Qed.

Lemma Fdd_one : Fdd 1 = 0.
Proof.
  unfold Fdd. rewrite (rnd_fmt 1 fmt_1).
  rewrite Rlt_bool_true by exact one_lt_Bmax.
  replace (1 - 1) with 0 by lra. apply rnd_fmt, fmt_0.
Qed.

(* ------------------------------------------------------------------------------------------- *)
(* (C) the float operations of the scan                                                          *)

Lemma Prim2B_zero : Prim2B 0%float = B754_zero false.
Proof. rewrite <- (Prim2B_B2Prim (B754_zero false)). f_equal. Qed.

Lemma Prim2B_one : Prim2B 1%float = Bone.
Proof. rewrite <- (Prim2B_B2Prim Bone). f_equal. Qed.

Lemma Prim2B_m1 : Prim2B (-1)%float = Bopp Bone.
Proof. change (-1)%float with (PrimFloat.opp 1%float). rewrite opp_equiv, Prim2B_one. reflexivity. Qed.

Lemma xval_zero : xval 0%float = 0.
Proof. unfold xval. rewrite Prim2B_zero. reflexivity. Qed.

Lemma nn_zero : nn 0%float.
Proof. unfold nn. rewrite Prim2B_zero. reflexivity. Qed.

Lemma xval_m1 : xval (-1)%float = -1.
Proof.
  unfold xval. rewrite Prim2B_m1, bval_finite.
  - rewrite B2R_Bopp, Bone_correct. reflexivity.
  - rewrite is_finite_Bopp. apply is_finite_Bone.
Qed.

Lemma nn_m1 : nn (-1)%float.
Proof. unfold nn. rewrite Prim2B_m1, is_nan_Bopp. apply is_nan_Bone. Qed.

Lemma finite_nn (b : binary_float prec emax) : is_finite b = true -> is_nan b = false.
Proof. destruct b; intros H; try reflexivity; discriminate H. Qed.

Lemma fin_pos_nn (x : float) : fin_pos x -> nn x.
Proof. intros [F _]. apply finite_nn, F. Qed.

Lemma fin_pos_xval (x : float) : fin_pos x -> xval x = B2R (Prim2B x).
Proof. intros [F _]. apply bval_finite, F. Qed.

Lemma fin_pos_xval_pos (x : float) : fin_pos x -> 0 < xval x.
Proof. intros H. rewrite (fin_pos_xval x H). apply H. Qed.

Lemma pos_Bsign (b : binary_float prec emax) : is_finite b = true -> 0 < B2R b -> Bsign b = false.
Proof.
  destruct b as [s|s| |s m e Hb]; intros F H; try discriminate F.
  - cbn [B2R] in H. lra.
  - destruct s; [|reflexivity]. exfalso.
    cbn [B2R cond_Zopp] in H.
    pose proof (Float_prop.F2R_lt_0 radix2 (Defs.Float radix2 (Z.neg m) e)) as Hn.
    cbn [Defs.Fnum] in Hn. specialize (Hn ltac:(lia)). change (- Z.pos m)%Z with (Z.neg m) in H. lra.
Qed.

(* division of two finite positive values: either the rounded quotient is in range and the result is the
   finite non-negative float with that value, or it is not and the result is +infinity *)
Lemma div_fin_pos (x p : float) : fin_pos x -> fin_pos p ->
  0 <= rnd (xval x / xval p) /\
  ((rnd (xval x / xval p) < Bmax /\
    is_finite (Prim2B (PrimFloat.div x p)) = true /\
    B2R (Prim2B (PrimFloat.div x p)) = rnd (xval x / xval p) /\
    Bsign (Prim2B (PrimFloat.div x p)) = false) \/
   (Bmax <= rnd (xval x / xval p) /\ Prim2B (PrimFloat.div x p) = B754_infinity false)).
Proof.
  intros Hx Hp.
  rewrite (fin_pos_xval x Hx), (fin_pos_xval p Hp).
  destruct Hx as [Fx Px]. destruct Hp as [Fp Pp].
  assert (Hq : 0 <= B2R (Prim2B x) / B2R (Prim2B p)).
  { left. apply Rdiv_lt_0_compat; assumption. }
  pose proof (rnd_ge0 _ Hq) as Hr.
  split; [exact Hr|].
  rewrite div_equiv.
  assert (Hnz : B2R (Prim2B p) <> 0) by lra.
  pose proof (Bdiv_correct prec emax Hprec Hmax mode_NE (Prim2B x) (Prim2B p) Hnz) as H.
  rewrite (Rabs_pos_eq _ Hr) in H. fold Bmax in H.
  destruct (Rlt_bool_spec (rnd (B2R (Prim2B x) / B2R (Prim2B p))) Bmax) as [Hlt|Hge].
  - left. destruct H as (H1 & H2 & H3).
    rewrite Fx in H2.
    split; [exact Hlt|]. split; [exact H2|]. split; [exact H1|].
    rewrite (H3 (finite_nn _ H2)).
    rewrite (pos_Bsign _ Fx Px), (pos_Bsign _ Fp Pp). reflexivity.
  - right. split; [exact Hge|].
    apply B2SF_inj. rewrite H.
    rewrite (pos_Bsign _ Fx Px), (pos_Bsign _ Fp Pp). reflexivity.
Qed.

(* subtracting 1 from a finite non-negative float *)
Lemma sub1_finite (q : binary_float prec emax) :
  is_finite q = true -> 0 <= B2R q ->
  is_finite (Bminus mode_NE q Bone) = true /\
  B2R (Bminus mode_NE q Bone) = rnd (B2R q - 1) /\
  (B2R q = 1 -> Bsign q = false -> Bminus mode_NE q Bone = B754_zero false).
Proof.
  intros Fq Hq.
  pose proof (Bminus_correct prec emax Hprec Hmax mode_NE q Bone Fq (@is_finite_Bone prec emax Hprec Hmax)) as H.
  rewrite Bone_correct in H. fold Bmax in H.
  pose proof (rnd_sub1_bounds (B2R q) (generic_format_B2R prec emax q) Hq) as Hb.
  pose proof (B2R_bounds q) as Hqb.
  pose proof one_lt_Bmax as H1.
  rewrite Rlt_bool_true in H by (apply Rabs_def1; lra).
  destruct H as (HR & HF & HS).
  split; [exact HF|]. split; [exact HR|].
  intros E Sq.
  apply B2R_Bsign_inj; [exact HF|reflexivity| |].
  - rewrite HR, E. replace (1 - 1) with 0 by lra. cbn [B2R]. apply rnd_fmt, fmt_0.
  - rewrite HS, E, Sq. replace (1 - 1) with 0 by lra. rewrite Rcompare_Eq by reflexivity. reflexivity.
Qed.

Lemma sub1_infinite (y : binary_float prec emax) :
  is_finite y = true -> Bminus mode_NE (B754_infinity false) y = B754_infinity false.
Proof. destruct y; intros H; try discriminate H; reflexivity. Qed.

(* the value of the float drawdown expression, in the order-embedding of (A) *)
Lemma fdd_xval (x p : float) : fin_pos x -> fin_pos p ->
  nn (fdd x p) /\ xval (fdd x p) = Fdd (xval x / xval p).
Proof.
  intros Hx Hp.
  destruct (div_fin_pos x p Hx Hp) as (Hr & [(Hlt & Fq & Rq & Sq) | (Hge & Eq)]).
  - assert (Hq0 : 0 <= B2R (Prim2B (PrimFloat.div x p))) by (rewrite Rq; exact Hr).
    destruct (sub1_finite _ Fq Hq0) as (Fz & Rz & _).
    unfold nn, xval, fdd, Fdd. rewrite sub_equiv, Prim2B_one.
    split; [apply finite_nn, Fz|].
    rewrite (bval_finite _ Fz), Rz, Rq.
    rewrite Rlt_bool_true by exact Hlt. reflexivity.
  - unfold nn, xval, fdd, Fdd. rewrite sub_equiv, Prim2B_one, Eq.
    rewrite (sub1_infinite _ (@is_finite_Bone prec emax Hprec Hmax)).
    split; [reflexivity|].
    rewrite Rlt_bool_false by exact Hge. reflexivity.
Qed.

Lemma fdd_nn (x p : float) : fin_pos x -> fin_pos p -> nn (fdd x p).
Proof. intros Hx Hp. apply (fdd_xval x p Hx Hp). Qed.

(* monotone in the value, antitone in the peak *)
Lemma fdd_mono_num (a b p : float) : fin_pos a -> fin_pos b -> fin_pos p ->
  xval a <= xval b -> xval (fdd a p) <= xval (fdd b p).
Proof.
  intros Ha Hb Hp Hab.
  rewrite (proj2 (fdd_xval a p Ha Hp)), (proj2 (fdd_xval b p Hb Hp)).
  pose proof (fin_pos_xval_pos a Ha) as Pa. pose proof (fin_pos_xval_pos p Hp) as Pp.
  apply Fdd_mono.
  - left. apply Rdiv_lt_0_compat; assumption.
  - unfold Rdiv. apply Rmult_le_compat_r; [|exact Hab]. left. apply Rinv_0_lt_compat. exact Pp.
Qed.

Lemma fdd_mono_den (a p q : float) : fin_pos a -> fin_pos p -> fin_pos q ->
  xval p <= xval q -> xval (fdd a q) <= xval (fdd a p).
Proof.
  intros Ha Hp Hq Hpq.
  rewrite (proj2 (fdd_xval a q Ha Hq)), (proj2 (fdd_xval a p Ha Hp)).
  pose proof (fin_pos_xval_pos a Ha) as Pa. pose proof (fin_pos_xval_pos p Hp) as Pp.
  pose proof (fin_pos_xval_pos q Hq) as Pq.
  apply Fdd_mono.
  - left. apply Rdiv_lt_0_compat; assumption.
  - unfold Rdiv. apply Rmult_le_compat_l; [lra|]. apply Rinv_le_contravar; assumption.
Qed.

Lemma fdd_ge_m1 (x p : float) : fin_pos x -> fin_pos p -> -1 <= xval (fdd x p).
Proof.
  intros Hx Hp. rewrite (proj2 (fdd_xval x p Hx Hp)). apply Fdd_ge.
  left. apply Rdiv_lt_0_compat; apply fin_pos_xval_pos; assumption.
Qed.

(* a drawdown that compares equal to zero is the float +0 itself: the quotient was exactly 1 *)
Lemma fdd_zero (x p : float) : fin_pos x -> fin_pos p -> xval (fdd x p) = 0 -> fdd x p = 0%float.
Proof.
  intros Hx Hp Hz.
  pose proof Bmax_pos as Hm.
  destruct (div_fin_pos x p Hx Hp) as (Hr & [(Hlt & Fq & Rq & Sq) | (Hge & Eq)]).
  - rewrite (proj2 (fdd_xval x p Hx Hp)) in Hz. unfold Fdd in Hz.
    rewrite Rlt_bool_true in Hz by exact Hlt.
    pose proof (rnd_sub1_zero _ (fmt_rnd _) Hz) as E1.
    assert (Hq0 : 0 <= B2R (Prim2B (PrimFloat.div x p))) by (rewrite Rq; exact Hr).
    destruct (sub1_finite _ Fq Hq0) as (_ & _ & Hzero).
    apply Prim2B_inj. unfold fdd. rewrite sub_equiv, Prim2B_one, Prim2B_zero.
    apply Hzero; [rewrite Rq; exact E1 | exact Sq].
  - exfalso. rewrite (proj2 (fdd_xval x p Hx Hp)) in Hz. unfold Fdd in Hz.
    rewrite Rlt_bool_false in Hz by exact Hge. lra.
Qed.

Lemma fdd_self_xval (x : float) : fin_pos x -> xval (fdd x x) = 0.
Proof.
  intros Hx. rewrite (proj2 (fdd_xval x x Hx Hx)).
  pose proof (fin_pos_xval_pos x Hx) as Px.
  replace (xval x / xval x) with 1 by (field; lra). exact Fdd_one.
Qed.

Lemma fdd_self (x : float) : fin_pos x -> fdd x x = 0%float.
Proof. intros Hx. apply fdd_zero; [exact Hx | exact Hx | apply fdd_self_xval, Hx]. Qed.

(* ------------------------------------------------------------------------------------------- *)
(* (D) the scan invariant, as in Proofs/PerfProofs.v, against the laws of (A)-(C) only           *)

Lemma dd_step_float (t : libm_table) (st : ddstate float) (pos : nat) (v : float) :
  @dd_step float (FloatNum t) st pos v =
  if PrimFloat.ltb (dd_peak st) v then
    mkDD (dd_max st) v pos v pos (dd_start st) (dd_end st)
  else if PrimFloat.ltb v (dd_trough st) then
    if PrimFloat.ltb (fdd v (dd_peak st)) (dd_max st)
    then mkDD (fdd v (dd_peak st)) (dd_peak st) (dd_peak_pos st) v pos (dd_peak_pos st) pos
    else mkDD (dd_max st) (dd_peak st) (dd_peak_pos st) v pos (dd_start st) (dd_end st)
  else st.
Proof. reflexivity. Qed.

Section Scan.
Context (t : libm_table) (f : nat -> float).

(* the scan has processed positions 0 .. pos-1 of the path f *)
Definition Inv (st : ddstate float) (pos : nat) : Prop :=
  (dd_peak_pos st < pos)%nat /\ dd_peak st = f (dd_peak_pos st) /\
  (forall i, (i < pos)%nat -> xval (f i) <= xval (dd_peak st)) /\
  (dd_peak_pos st <= dd_trough_pos st < pos)%nat /\ dd_trough st = f (dd_trough_pos st) /\
  (forall j, (dd_peak_pos st <= j < pos)%nat -> xval (dd_trough st) <= xval (f j)) /\
  (dd_start st <= dd_end st < pos)%nat /\ dd_max st = fdd (f (dd_end st)) (f (dd_start st)) /\
  (forall i j, (i <= j < pos)%nat -> xval (dd_max st) <= xval (fdd (f j) (f i))).

Lemma step_inv (st : ddstate float) (pos : nat) :
  (forall i, (i <= pos)%nat -> fin_pos (f i)) -> (1 <= pos)%nat ->
  Inv st pos -> Inv (@dd_step float (FloatNum t) st pos (f pos)) (S pos).
Proof.
  intros Hpos Hp (Hpp & Hpk & Hpmax & Htp & Htr & Htmin & Hse & Hmx & Hmin).
  assert (Hfp : fin_pos (f pos)) by (apply Hpos; lia).
  assert (Hpkf : fin_pos (dd_peak st)) by (rewrite Hpk; apply Hpos; lia).
  assert (Htrf : fin_pos (dd_trough st)) by (rewrite Htr; apply Hpos; lia).
  assert (Hmaxn : nn (dd_max st)) by (rewrite Hmx; apply fdd_nn; apply Hpos; lia).
  assert (Hmax0 : xval (dd_max st) <= 0).
  { specialize (Hmin 0%nat 0%nat ltac:(lia)).
    rewrite fdd_self_xval in Hmin by (apply Hpos; lia). exact Hmin. }
  (* the best candidate ending at pos against any start *)
  assert (Hcand : xval (f pos) <= xval (dd_peak st) ->
                  forall i, (i <= pos)%nat ->
                  xval (fdd (f pos) (dd_peak st)) <= xval (fdd (f pos) (f i))).
  { intros Hle i Hi.
    assert (Hfi : fin_pos (f i)) by (apply Hpos; lia).
    assert (Hip : xval (f i) <= xval (dd_peak st)).
    { destruct (Nat.eq_dec i pos) as [->|Hne]; [assumption|apply Hpmax; lia]. }
    apply fdd_mono_den; assumption. }
  rewrite dd_step_float.
  rewrite (ltb_xval (dd_peak st) (f pos)) by (apply fin_pos_nn; assumption).
  destruct (Rlt_bool_spec (xval (dd_peak st)) (xval (f pos))) as [Hgt|Hle].
  - (* new peak *)
    unfold Inv; cbn [dd_max dd_peak dd_peak_pos dd_trough dd_trough_pos dd_start dd_end].
    repeat split; try lia; try assumption.
    + intros i Hi. destruct (Nat.eq_dec i pos) as [->|Hne]; [lra|].
      specialize (Hpmax i ltac:(lia)). lra.
    + intros j Hj. replace j with pos by lia. lra.
    + intros i j Hij. destruct (Nat.eq_dec j pos) as [->|Hne]; [|apply Hmin; lia].
      assert (Hfi : fin_pos (f i)) by (apply Hpos; lia).
      assert (Hile : xval (f i) <= xval (f pos)).
      { destruct (Nat.eq_dec i pos) as [->|Hne]; [lra|]. specialize (Hpmax i ltac:(lia)). lra. }
      pose proof (fdd_mono_num (f i) (f pos) (f i) Hfi Hfp Hfi Hile) as Hm.
      rewrite (fdd_self_xval _ Hfi) in Hm. lra.
  - rewrite (ltb_xval (f pos) (dd_trough st)) by (apply fin_pos_nn; assumption).
    destruct (Rlt_bool_spec (xval (f pos)) (xval (dd_trough st))) as [Hlt|Hge].
    + (* new trough *)
      assert (Hpk' : forall i, (i < S pos)%nat -> xval (f i) <= xval (dd_peak st)).
      { intros i Hi. destruct (Nat.eq_dec i pos) as [->|Hne]; [assumption|apply Hpmax; lia]. }
      assert (Htr' : forall j, (dd_peak_pos st <= j < S pos)%nat -> xval (f pos) <= xval (f j)).
      { intros j Hj. destruct (Nat.eq_dec j pos) as [->|Hne]; [lra|].
        specialize (Htmin j ltac:(lia)). lra. }
      rewrite (ltb_xval (fdd (f pos) (dd_peak st)) (dd_max st))
        by (first [apply fdd_nn; assumption | exact Hmaxn]).
      destruct (Rlt_bool_spec (xval (fdd (f pos) (dd_peak st))) (xval (dd_max st))) as [Hnew|Hold].
      * unfold Inv; cbn [dd_max dd_peak dd_peak_pos dd_trough dd_trough_pos dd_start dd_end].
        repeat split; try lia; try assumption.
        -- rewrite Hpk. reflexivity.
        -- intros i j Hij. destruct (Nat.eq_dec j pos) as [->|Hne].
           ++ apply Hcand; [assumption|lia].
           ++ specialize (Hmin i j ltac:(lia)). lra.
      * unfold Inv; cbn [dd_max dd_peak dd_peak_pos dd_trough dd_trough_pos dd_start dd_end].
        repeat split; try lia; try assumption.
        intros i j Hij. destruct (Nat.eq_dec j pos) as [->|Hne].
        -- specialize (Hcand Hle i ltac:(lia)). lra.
        -- apply Hmin; lia.
    + (* nothing changes *)
      unfold Inv. repeat split; try lia; try assumption.
      * intros i Hi. destruct (Nat.eq_dec i pos) as [->|Hne]; [assumption|apply Hpmax; lia].
      * intros j Hj. destruct (Nat.eq_dec j pos) as [->|Hne]; [assumption|apply Htmin; lia].
      * intros i j Hij. destruct (Nat.eq_dec j pos) as [->|Hne]; [|apply Hmin; lia].
        specialize (Hcand Hle i ltac:(lia)).
        specialize (Hmin (dd_peak_pos st) (dd_trough_pos st) ltac:(lia)).
        rewrite <- Hpk, <- Htr in Hmin.
        pose proof (fdd_mono_num (dd_trough st) (f pos) (dd_peak st) Htrf Hfp Hpkf Hge) as Hm.
        lra.
Qed.
End Scan.

Lemma scan_inv (t : libm_table) (vs : list float) :
  (forall i, (i < List.length vs)%nat -> fin_pos (nth i vs 0%float)) ->
  forall rest pre st, vs = pre ++ rest -> (1 <= List.length pre)%nat ->
    Inv (fun i => nth i vs 0%float) st (List.length pre) ->
    Inv (fun i => nth i vs 0%float)
        (@dd_scan float (FloatNum t) st (List.length pre) rest) (List.length vs).
Proof.
  intros Hpos. induction rest as [|v rest IH]; intros pre st Hvs Hlen Hinv.
  - rewrite app_nil_r in Hvs. subst pre. exact Hinv.
  - cbn [dd_scan].
    assert (Hv : v = nth (List.length pre) vs 0%float).
    { rewrite Hvs, app_nth2, Nat.sub_diag by lia. reflexivity. }
    assert (Hl : List.length vs = (List.length pre + S (List.length rest))%nat).
    { rewrite Hvs, app_length. reflexivity. }
    replace (S (List.length pre)) with (List.length (pre ++ [v])) by (rewrite app_length; simpl; lia).
    apply IH.
    + rewrite <- app_assoc. exact Hvs.
    + rewrite app_length; simpl; lia.
    + rewrite app_length. cbn [List.length]. rewrite Nat.add_1_r. rewrite Hv.
      apply (step_inv t (fun i => nth i vs 0%float)); [|assumption|assumption].
      intros i Hi. apply Hpos. lia.
Qed.

Lemma Forall_fin_pos_nth (vs : list float) :
  Forall fin_pos vs -> forall i, (i < List.length vs)%nat -> fin_pos (nth i vs 0%float).
Proof.
  intros H i Hi. rewrite Forall_forall in H. apply H. apply nth_In. assumption.
Qed.

Lemma ltb_zero_fin_pos (v : float) : fin_pos v -> PrimFloat.ltb 0%float v = true.
Proof.
  intros Hv. rewrite (ltb_xval _ _ nn_zero (fin_pos_nn v Hv)), xval_zero.
  apply Rlt_bool_true. apply fin_pos_xval_pos, Hv.
Qed.

Lemma maxdd_inv (t : libm_table) (vs : list float) :
  vs <> [] -> Forall fin_pos vs ->
  Inv (fun i => nth i vs 0%float) (@dd_scan float (FloatNum t) (@dd_init float (FloatNum t)) 0 vs)
      (List.length vs).
Proof.
  intros Hne Hall. destruct vs as [|v rest]; [contradiction|].
  pose proof (Forall_fin_pos_nth _ Hall) as Hpos.
  cbn [dd_scan].
  assert (Hv : fin_pos v) by (inversion Hall; assumption).
  assert (Hstep : @dd_step float (FloatNum t) (@dd_init float (FloatNum t)) 0 v
                  = mkDD 0%float v 0 v 0 0 0).
  { rewrite dd_step_float. unfold dd_init.
    cbn [dd_max dd_peak dd_peak_pos dd_trough dd_trough_pos dd_start dd_end fzero FloatNum].
    rewrite (ltb_zero_fin_pos v Hv). reflexivity. }
  rewrite Hstep.
  apply (scan_inv t (v :: rest) Hpos rest [v]); [reflexivity|simpl; lia|].
  unfold Inv; cbn [dd_max dd_peak dd_peak_pos dd_trough dd_trough_pos dd_start dd_end List.length nth].
  repeat split; try lia.
  - intros i Hi. replace i with 0%nat by lia. cbn [nth]. lra.
  - intros j Hj. replace j with 0%nat by lia. cbn [nth]. lra.
  - symmetry. apply fdd_self, Hv.
  - intros i j Hij. replace i with 0%nat by lia. replace j with 0%nat by lia. cbn [nth].
    rewrite (fdd_self_xval v Hv), xval_zero. lra.
Qed.

Lemma nth_error_nth0 (vs : list float) i v :
  nth_error vs i = Some v -> nth i vs 0%float = v /\ (i < List.length vs)%nat.
Proof.
  intros H. split; [apply nth_error_nth; assumption|]. apply nth_error_Some. congruence.
Qed.

Lemma nth_error_fin_pos (vs : list float) i v : Forall fin_pos vs -> nth_error vs i = Some v -> fin_pos v.
Proof.
  intros Hall H. rewrite Forall_forall in Hall. apply Hall. eapply nth_error_In. exact H.
Qed.

(* ------------------------------------------------------------------------------------------- *)
(* (E) the theorems                                                                              *)

(* the float scan over a path of finite positive values: the reported value is the float v_e / v_s - 1 of the
   reported positions s <= e, and it is <= the float v_j / v_i - 1 of every pair i <= j (which may be +infinity
   when the quotient overflows).  [m = fdd b a] is Leibniz equality of floats: no weakening. *)
Theorem maxdd_float_spec : forall (t : libm_table) (vs : list float) (m : float) (s e : nat),
  vs <> [] -> Forall fin_pos vs ->
  @maxdd float (FloatNum t) clean vs = (m, s, e) ->
  (s <= e < List.length vs)%nat /\
  (exists a b, nth_error vs s = Some a /\ nth_error vs e = Some b /\ m = fdd b a) /\
  (forall i j vi vj, (i <= j)%nat -> nth_error vs i = Some vi -> nth_error vs j = Some vj ->
                     PrimFloat.leb m (fdd vj vi) = true).
Proof.
  intros t vs m s e Hne Hall Hm. pose proof (maxdd_inv t vs Hne Hall) as Hinv.
  unfold maxdd in Hm. cbn [q_maxdd_last_positions clean] in Hm.
  injection Hm as <- <- <-.
  destruct Hinv as (_ & _ & _ & _ & _ & _ & Hse & Hmx & Hmin).
  pose proof (Forall_fin_pos_nth _ Hall) as Hpos.
  split; [assumption|]. split.
  - exists (nth (dd_start (@dd_scan float (FloatNum t) (@dd_init float (FloatNum t)) 0 vs)) vs 0%float),
           (nth (dd_end (@dd_scan float (FloatNum t) (@dd_init float (FloatNum t)) 0 vs)) vs 0%float).
    repeat split; try (apply nth_error_nth'; lia). exact Hmx.
  - intros i j vi vj Hij Hi Hj.
    pose proof (nth_error_fin_pos _ _ _ Hall Hi) as Fi.
    pose proof (nth_error_fin_pos _ _ _ Hall Hj) as Fj.
    apply nth_error_nth0 in Hi. apply nth_error_nth0 in Hj.
    destruct Hi as [Ei Hi]. destruct Hj as [Ej Hj].
    rewrite leb_xval.
    + apply Rle_bool_true. rewrite <- Ei, <- Ej. apply Hmin. lia.
    + rewrite Hmx. apply fdd_nn; apply Hpos; lia.
    + apply fdd_nn; assumption.
Qed.

Theorem maxdd_float_bounds : forall (t : libm_table) (vs : list float) (m : float) (s e : nat),
  vs <> [] -> Forall fin_pos vs ->
  @maxdd float (FloatNum t) clean vs = (m, s, e) ->
  PrimFloat.leb (-1)%float m = true /\ PrimFloat.leb m 0%float = true.
Proof.
  intros t vs m s e Hne Hall Hm.
  destruct (maxdd_float_spec t vs m s e Hne Hall Hm) as (Hse & (a & b & Ha & Hb & E) & Hmin).
  pose proof (nth_error_fin_pos _ _ _ Hall Ha) as Fa.
  pose proof (nth_error_fin_pos _ _ _ Hall Hb) as Fb.
  split.
  - rewrite E, (leb_xval _ _ nn_m1 (fdd_nn b a Fb Fa)), xval_m1.
    apply Rle_bool_true. apply fdd_ge_m1; assumption.
  - specialize (Hmin s s a a ltac:(lia) Ha Ha). rewrite (fdd_self a Fa) in Hmin. exact Hmin.
Qed.

(* on a path that never falls the scan reports the float +0 (Leibniz equality, stronger than [eqb]) *)
Theorem maxdd_float_monotone_zero : forall (t : libm_table) (vs : list float) (m : float) (s e : nat),
  vs <> [] -> Forall fin_pos vs ->
  @maxdd float (FloatNum t) clean vs = (m, s, e) ->
  (forall i j vi vj, (i <= j)%nat -> nth_error vs i = Some vi -> nth_error vs j = Some vj ->
                     PrimFloat.leb vi vj = true) ->
  m = 0%float.
Proof.
  intros t vs m s e Hne Hall Hm Hmono.
  destruct (maxdd_float_bounds t vs m s e Hne Hall Hm) as (_ & Hle0).
  destruct (maxdd_float_spec t vs m s e Hne Hall Hm) as (Hse & (a & b & Ha & Hb & E) & _).
  pose proof (nth_error_fin_pos _ _ _ Hall Ha) as Fa.
  pose proof (nth_error_fin_pos _ _ _ Hall Hb) as Fb.
  assert (Hab : xval a <= xval b).
  { specialize (Hmono s e a b ltac:(lia) Ha Hb).
    rewrite (leb_xval _ _ (fin_pos_nn a Fa) (fin_pos_nn b Fb)) in Hmono.
    destruct (Rle_bool_spec (xval a) (xval b)) as [H|H]; [exact H|discriminate Hmono]. }
  pose proof (fdd_mono_num a b a Fa Fb Fa Hab) as Hge0. rewrite (fdd_self_xval a Fa) in Hge0.
  rewrite E in Hle0. rewrite (leb_xval _ _ (fdd_nn b a Fb Fa) nn_zero), xval_zero in Hle0.
  destruct (Rle_bool_spec (xval (fdd b a)) 0) as [H|H]; [|discriminate Hle0].
  rewrite E. apply fdd_zero; [exact Fb | exact Fa | lra].
Qed.

Corollary maxdd_float_monotone_zero_eqb : forall (t : libm_table) (vs : list float) (m : float) (s e : nat),
  vs <> [] -> Forall fin_pos vs ->
  @maxdd float (FloatNum t) clean vs = (m, s, e) ->
  (forall i j vi vj, (i <= j)%nat -> nth_error vs i = Some vi -> nth_error vs j = Some vj ->
                     PrimFloat.leb vi vj = true) ->
  PrimFloat.eqb m 0%float = true.
Proof.
  intros t vs m s e Hne Hall Hm Hmono.
  rewrite (maxdd_float_monotone_zero t vs m s e Hne Hall Hm Hmono). reflexivity.
Qed.

(* ------------------------------------------------------------------------------------------- *)
(* (F) non-vacuity: a concrete path meets the premises, and the scan reports (-0.5, 0, 1) on it   *)

Lemma fin_pos_check (x : float) :
  PrimFloat.is_finite x = true -> PrimFloat.ltb 0%float x = true -> fin_pos x.
Proof.
  intros Hf Hl. rewrite is_finite_equiv in Hf. split; [exact Hf|].
  rewrite ltb_equiv, Prim2B_zero in Hl.
  rewrite (Bltb_correct prec emax (B754_zero false) (Prim2B x) eq_refl Hf) in Hl.
  cbn [B2R] in Hl.
  destruct (Rlt_bool_spec 0 (B2R (Prim2B x))) as [H|H]; [exact H|discriminate Hl].
Qed.

Example maxdd_float_witness (t : libm_table) :
  [100; 50; 200; 190]%float <> [] /\
  Forall fin_pos [100; 50; 200; 190]%float /\
  @maxdd float (FloatNum t) clean [100; 50; 200; 190]%float = ((-0.5)%float, 0%nat, 1%nat) /\
  fdd 50%float 100%float = (-0.5)%float.
Proof.
  split; [discriminate|]. split; [|split; vm_compute; reflexivity].
  repeat constructor; apply fin_pos_check; vm_compute; reflexivity.
Qed.

Print Assumptions maxdd_float_spec.
Print Assumptions maxdd_float_bounds.
Print Assumptions maxdd_float_monotone_zero.
Print Assumptions maxdd_float_monotone_zero_eqb.
Print Assumptions maxdd_float_witness.
