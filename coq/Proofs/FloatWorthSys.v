(* FloatWorthSys.v — C16's flagship clause at the IEEE binary64 instance, part 2 (the composed system):
   strategy + broker + eager client + Uist server + Uist exchange (Model/Strategy.v) at F := float, clean.
   (S0) structure of one update, for every Num F (the counterparts of EndToEnd16.v's lemmas at F := R).
   (S1) the orders the strategy creates are integer-valued unless not finite ([fint]): diff_orders sizes with
        clamp0 (floor ..), the liquidation with ceil.
   (S2) the invariant [finv] and the magnitude [sys_mag] of a state; (W5b) [sys_update_wrel]: one update
        preserves the invariant and the integer worth and records a snapshot whose value is the float of
        that worth, provided the state's magnitude is below 2^53.
   (S3) (W5a) [sys_run_wrel], [float_c16_constant_prices_end_to_end]: from a fresh start every snapshot
        EQUALS the deposit as a float, provided every state an update starts from has magnitude below 2^53.
   (S4) (W6) the kernel-evaluated example, and the counterexamples showing the magnitude premise cannot be
        replaced by one on the deposit and the prices alone. *)
From Coq Require Import ZArith NArith List Bool String Floats Reals Lra Lia Permutation.
From Flocq Require Import Core.Raux Core.Generic_fmt Core.FLT Core.Round_NE.
From Flocq Require Import IEEE754.BinarySingleNaN IEEE754.PrimFloat.
From Alator Require Import Model.Num Model.Quirks Model.Cost Model.Exchange Model.Uist Model.Server
  Model.Penelope Model.Broker Model.Perf Model.Strategy
  Proofs.ServerProofs Proofs.BrokerLedgerProofs Proofs.BrokerLiqProofs Proofs.UistProofs
  Proofs.ExchangeProofs Proofs.ExchangeCorollaries Proofs.PenelopeProofs Proofs.StrategyProofs
  Proofs.FloatExact Proofs.FloatCash Proofs.FloatWorth Proofs.EndToEndExamples.
Import ListNotations.
Local Open Scope list_scope.

Local Existing Instance PrimFloat.Hprec.
Local Existing Instance PrimFloat.Hmax.

(* ------------------------------------------------------------------------------------------- *)
(* (S0) one update of the composition, for every Num F                                            *)

Section GenericSys.
Context {F : Type} {NF : Num F}.

Notation utick1 := (bt_tick (X:=uexch F) (Row:=quotes (quote F)) (TOut:=utout) ux_tick ([], []) clean false).

Lemma trade_to_target_orders (b : broker F) ws ord b2 fw :
  trade_to_target clean b ws ord = Ok (b2, fw) ->
  exists orders evs, diff_orders clean b ws ord = Ok orders /\ send_orders clean b orders = Ok (b2, evs, fw).
Proof.
  unfold trade_to_target. intros H.
  destruct (diff_orders clean b ws ord) as [orders | s |]; cbn [bind] in H; try discriminate.
  destruct (send_orders clean b orders) as [[[b2' evs] fw'] | s |] eqn:Hs; cbn [bind] in H; try discriminate.
  inversion H; subst. eauto.
Qed.

Lemma ttt_frame_g (b : broker F) ws ord b2 fw :
  trade_to_target clean b ws ord = Ok (b2, fw) ->
  is_order_of ord (b_holdings b) = true /\
  b_cash b2 = b_cash b /\ b_holdings b2 = b_holdings b /\ b_quotes b2 = b_quotes b /\
  forall o, In o fw -> sget (b_quotes b) (uo_symbol o) <> None.
Proof.
  intros H.
  assert (Ho : is_order_of ord (b_holdings b) = true).
  { unfold trade_to_target, diff_orders in H.
    destruct (is_order_of ord (b_holdings b)) eqn:E; [reflexivity |].
    cbn [negb bind] in H. discriminate. }
  apply trade_to_target_shape in H. destruct H as (orders & evs & Hs).
  pose proof (send_orders_fw_quoted_g _ _ _ _ _ _ Hs) as Hq.
  apply send_orders_cash in Hs. destruct Hs as (Hc & Hh & _ & Hqu & _ & _).
  repeat split; assumption.
Qed.

(* the exchange side of one tick *)
Lemma ux_tick_facts_g (x : uexch F) row perm x' trades adm :
  ExchangeProofs.Inv x -> ux_tick x row perm = Some (x', (trades, adm)) ->
  ExchangeProofs.Inv x' /\ trades = map snd (flat_map (utrade row) (book x)) /\
  (forall e, In e (book x') -> In e (book x) \/ In (e_ord e) (buffer x)) /\
  buffer x' = [].
Proof.
  intros HI H. unfold ux_tick in H.
  destruct (uist_tick x row perm) as [x1 o] eqn:Ht.
  destruct o as [| fl adm1 trig | |]; try discriminate.
  inversion H; subst x1 trades adm1; clear H.
  destruct (uist_tick_spec x row perm x' fl adm trig HI Ht) as (Hfl & _ & Hbk & Hadm).
  destruct (tick_spec uist_asset uo_symbol uist_is_sell uist_decide x row perm x' fl adm trig HI Ht)
    as (sorted & Hap & Hperm & _ & Hrest).
  cbv zeta in Hrest. destruct Hrest as (_ & _ & _ & _ & Hbuf & _).
  split; [| split; [| split]].
  - pose proof (inv_step uist_asset uo_symbol uist_is_sell uist_decide x (Tick row perm) HI) as Hi.
    cbn [step] in Hi. unfold uist_tick in Ht. rewrite Ht in Hi. exact Hi.
  - rewrite Hfl. reflexivity.
  - intros e Hin. rewrite Hbk in Hin. apply in_app_or in Hin. destruct Hin as [Hin | Hin].
    + left. apply filter_In in Hin. exact (proj1 Hin).
    + right. apply in_map_iff in Hin. destruct Hin as (p & <- & Hp).
      cbn [fresh_entry e_ord]. rewrite Hap in Hadm.
      apply (Permutation_in _ Hperm). rewrite <- Hadm. apply in_map. exact Hp.
  - exact Hbuf.
Qed.

Lemma utick1_facts_g (d : dataset (quotes (quote F))) (b : backtest (uexch F)) perm b1 hn trades adm k :
  clock_ok d b k -> ExchangeProofs.Inv (bt_exch b) ->
  utick1 d b perm = Some (b1, (hn, (trades, adm))) ->
  ExchangeProofs.Inv (bt_exch b1) /\
  trades = match get_quotes d (bt_date b) with
           | Some row => map snd (flat_map (utrade row) (book (bt_exch b)))
           | None => []
           end /\
  (forall e, In e (book (bt_exch b1)) -> In e (book (bt_exch b)) \/ In (e_ord e) (buffer (bt_exch b))) /\
  (forall o, In o (buffer (bt_exch b1)) -> In o (buffer (bt_exch b))).
Proof.
  intros Hc HI Ht.
  destruct (tick1_spec _ _ _ d b perm b1 hn (trades, adm) k Hc Ht) as (_ & _ & _ & Hx).
  destruct (get_quotes d (bt_date b)) as [row |] eqn:Hq.
  - destruct (ux_tick_facts_g _ _ _ _ _ _ HI Hx) as (H1 & H2 & H3 & H4).
    split; [exact H1 |]. split; [exact H2 |]. split; [exact H3 |].
    intros o Hin. rewrite H4 in Hin. contradiction.
  - destruct Hx as [Hx Ho]. inversion Ho; subst trades adm. rewrite Hx.
    split; [exact HI |]. split; [reflexivity |]. split; [intros e Hin; left; exact Hin |].
    intros o Hin. exact Hin.
Qed.

(* forwarding orders: what the backtest's exchange looks like afterwards *)
Lemma forward_exch_g os : forall (a : uapp (F:=F)) id b,
  nlookup (backtests a) id = Some b ->
  exists b', nlookup (backtests (forward clean a id os)) id = Some b' /\
    bproj b' = bproj b /\
    book (bt_exch b') = book (bt_exch b) /\ next_id (bt_exch b') = next_id (bt_exch b) /\
    buffer (bt_exch b') = buffer (bt_exch b) ++ os.
Proof.
  induction os as [| o os IH]; intros a id b Hb; rewrite forward_unfold; cbn [fold_left].
  - exists b. rewrite app_nil_r. repeat split; solve [assumption | reflexivity].
  - set (b1 := mkBacktest (bt_date b) (bt_pos b) (ux_insert (bt_exch b) o) (bt_dataset b)).
    assert (E : fst (usstep clean a (SInsert o id)) = with_backtest a id b1).
    { unfold usstep. cbn [sstep]. rewrite Hb. reflexivity. }
    rewrite E, <- forward_unfold.
    assert (Hb1 : nlookup (backtests (with_backtest a id b1)) id = Some b1).
    { unfold with_backtest. cbn [backtests]. apply nlookup_upsert_same. }
    destruct (IH _ _ _ Hb1) as (b' & H1 & H2 & H3 & H4 & H5).
    exists b'. split; [exact H1 |]. split; [rewrite H2; reflexivity |].
    split; [rewrite H3; reflexivity |]. split; [rewrite H4; reflexivity |].
    rewrite H5. unfold b1. cbn [bt_exch]. unfold ux_insert, uist_step. cbn [step fst buffer].
    rewrite <- app_assoc. reflexivity.
Qed.

Lemma inv_same_book_g (x x' : uexch F) :
  book x' = book x -> next_id x' = next_id x -> ExchangeProofs.Inv x -> ExchangeProofs.Inv x'.
Proof. unfold ExchangeProofs.Inv. intros -> ->. exact (fun H => H). Qed.

(* one update of the composition, opened up *)
Lemma sys_update_shape_g (y : sys F) perm ord y' b d k :
  SInv (sy_app y) -> nlookup (backtests (sy_app y)) (sy_id y) = Some b ->
  slookup (datasets (sy_app y)) (bt_dataset b) = Some d -> clock_ok d b k ->
  sys_update clean y perm ord = Ok y' ->
  exists b1 hn trades adm s' fw,
    utick1 d b perm = Some (b1, (hn, (trades, adm))) /\
    st_update clean (sy_strat y)
      (match get_quotes d (bt_date b1) with Some row => Some (trades, row) | None => None end)
      (bt_date b1) ord = Ok (s', fw) /\
    y' = mkSys s' (forward clean (with_backtest (sy_app y) (sy_id y) b1) (sy_id y) fw) (sy_id y).
Proof.
  intros Hs Hb Hd Hc H. unfold sys_update in H.
  rewrite (us_tick _ _ _ _ perm Hb Hd) in H.
  destruct (utick1 d b perm) as [[b1 [hn [trades adm]]] |] eqn:Ht.
  2:{ cbv beta iota in H.
      destruct (usstep clean (sy_app y) (SFetch (sy_id y))) as [a2 rf]. discriminate. }
  cbv beta iota in H.
  destruct (tick1_spec _ _ _ d b perm b1 hn (trades, adm) k Hc Ht) as (Hc1 & _ & Hds1 & _).
  set (a1 := with_backtest (sy_app y) (sy_id y) b1) in *.
  assert (Hb1 : nlookup (backtests a1) (sy_id y) = Some b1).
  { unfold a1, with_backtest. cbn [backtests]. apply nlookup_upsert_same. }
  assert (Hd1 : slookup (datasets a1) (bt_dataset b1) = Some d).
  { unfold a1, with_backtest. cbn [datasets]. rewrite Hds1. exact Hd. }
  rewrite (us_fetch a1 _ _ _ Hb1 Hd1) in H. cbv beta iota in H.
  rewrite (us_now a1 _ _ _ _ Hb1 Hd1 Hc1) in H. cbv beta iota in H.
  match type of H with bind ?u _ = _ => destruct u as [[s' fw] | e |] eqn:Hu end;
    cbn [bind] in H; try discriminate.
  inversion H; subst y'; clear H.
  exists b1, hn, trades, adm, s', fw. split; [reflexivity |]. split; [| reflexivity].
  destruct (get_quotes d (bt_date b1)); exact Hu.
Qed.

End GenericSys.

(* ------------------------------------------------------------------------------------------- *)
(* (S1) the orders the strategy creates                                                            *)

Section AtFloatSys.
Context (tbl : libm_table).
Let NFl : Num float := FloatNum tbl.
Local Existing Instance NFl.
Local Open Scope num_scope.

Variable zp : string -> Z.
Hypothesis zp_pos : forall s, (1 <= zp s)%Z.

Notation utick1 := (bt_tick (X:=uexch float) (Row:=quotes (quote float)) (TOut:=utout) ux_tick ([], []) clean false).

Lemma fint_clamp0 (x : float) : fint x -> fint (clamp0 x).
Proof. intros H. unfold clamp0. destruct (fzero <? x); [exact H | exact fint_zero]. Qed.

(* the sizing rule: clamp0 (floor (net budget / net price)), negated for a sale — whatever the budget,
   the price and the costs are (NaN and infinities included) *)
Lemma required_shares_fint (b : broker float) d q : fint (required_shares clean b d q).
Proof.
  unfold required_shares. cbn [q_diff_direction_flip clean]. destruct (d <? fzero).
  - cbn [fneg NFl FloatNum]. apply fint_opp, fint_clamp0. cbn [ffloor NFl FloatNum]. apply fint_floor.
  - apply fint_clamp0. cbn [ffloor NFl FloatNum]. apply fint_floor.
Qed.

Lemma diff_loop_fint (b : broker float) total ws : forall buys sells,
  diff_loop clean b total ws = (buys, sells) -> Forall ord_fint buys /\ Forall ord_fint sells.
Proof.
  induction ws as [| [sym w] rest IH]; intros buys sells H; cbn [diff_loop] in H.
  - inversion H; subst. split; constructor.
  - destruct (total * w - match position_value b sym with Some v => v | None => fzero end ==? fzero).
    + cbn [q_diff_break clean] in H. exact (IH _ _ H).
    + destruct (diff_loop clean b total rest) as [buys0 sells0].
      destruct (IH _ _ eq_refl) as [Hb Hs].
      destruct (sget (b_quotes b) sym) as [q |]; [| inversion H; subst; split; assumption].
      set (r := required_shares clean b _ q) in H.
      assert (Fr : fint r) by apply required_shares_fint.
      destruct (negb (r ==? fzero)); [| inversion H; subst; split; assumption].
      destruct (r >? fzero); inversion H; subst; (split; [| assumption || idtac]); try assumption.
      * constructor; [exact Fr | exact Hb].
      * constructor; [| exact Hs]. unfold ord_fint. cbn [uo_shares fabs NFl FloatNum]. apply fint_abs, Fr.
Qed.

Lemma diff_orders_fint (b : broker float) ws ord orders :
  diff_orders clean b ws ord = Ok orders -> Forall ord_fint orders.
Proof.
  unfold diff_orders. intros H.
  destruct (negb (is_order_of ord (b_holdings b))); [discriminate |].
  destruct (negb (snodup (map fst ws))); [discriminate |].
  destruct (liquidation_value b ord ==? fzero); [discriminate |].
  destruct (diff_loop clean b (liquidation_value b ord) ws) as [buys sells] eqn:E.
  inversion H; subst. destruct (diff_loop_fint _ _ _ _ _ E) as [Hb Hs].
  apply Forall_app. split; assumption.
Qed.

Lemma ttt_fw_ok (b : broker float) ws ord b2 fw :
  trade_to_target clean b ws ord = Ok (b2, fw) -> Forall (order_ok b) fw.
Proof.
  intros H. pose proof (ttt_frame_g b ws ord b2 fw H) as (_ & _ & _ & _ & Hq).
  apply trade_to_target_orders in H. destruct H as (orders & evs & Hd & Hs).
  pose proof (diff_orders_fint _ _ _ _ Hd) as Fo. rewrite Forall_forall in Fo.
  apply Forall_forall. intros o Hin. split; [exact (Hq o Hin) |].
  apply Fo. exact (send_orders_fw_in _ _ _ _ _ _ Hs o Hin).
Qed.

(* ------------------------------------------------------------------------------------------- *)
(* (S2) the fills of a tick at constant prices                                                     *)

Definition fdataset_const (d : dataset (quotes (quote float))) : Prop :=
  forall date row, get_quotes d date = Some row -> frow_const zp row.

Definition bookvol (bk : list (entry (uorder float))) : Z :=
  fold_right (fun e acc => (fmag (uo_shares (e_ord e)) * zp (uo_symbol (e_ord e)) + acc)%Z) 0%Z bk.

Lemma bookvol_nonneg bk : (0 <= bookvol bk)%Z.
Proof.
  induction bk as [| e bk IH]; cbn [bookvol fold_right]; [lia |]. fold (bookvol bk).
  pose proof (fmag_nonneg (uo_shares (e_ord e))). pose proof (zp_pos (uo_symbol (e_ord e))). nia.
Qed.

Lemma bookvol_cons e bk :
  bookvol (e :: bk) = (fmag (uo_shares (e_ord e)) * zp (uo_symbol (e_ord e)) + bookvol bk)%Z.
Proof. reflexivity. Qed.
Lemma tvol_cons t ts : tvol zp (t :: ts) = (fmag (t_quantity t) * zp (t_symbol t) + tvol zp ts)%Z.
Proof. reflexivity. Qed.

(* every fill of a tick is for the quantity of its order, valued quote x quantity; together they are
   worth no more than the resting book *)
Lemma utrades_ok (br : broker float) row bk :
  frow_const zp row -> (forall e, In e bk -> order_ok br (e_ord e)) ->
  Forall (tr_ok zp br) (map snd (flat_map (utrade row) bk)) /\
  (tvol zp (map snd (flat_map (utrade row) bk)) <= bookvol bk)%Z.
Proof.
  intros Hrow. induction bk as [| e bk IH]; intros Hok.
  - split; [constructor | apply Z.le_refl].
  - rewrite bookvol_cons. destruct IH as [IH1 IH2]; [intros e' Hin; apply Hok; right; exact Hin |].
    pose proof (fmag_nonneg (uo_shares (e_ord e))) as N. pose proof (zp_pos (uo_symbol (e_ord e))) as P.
    cbn [flat_map]. rewrite map_app. unfold utrade at 1 3.
    destruct (lookup row (uo_symbol (e_ord e))) as [q |] eqn:Hl; cbn [map Datatypes.app].
    2:{ split; [exact IH1 | nia]. }
    destruct (uist_fires (e_ord e) q); cbn [map Datatypes.app snd].
    2:{ split; [exact IH1 | nia]. }
    destruct (Hrow _ _ (lookup_in _ _ _ Hl)) as [Hbid Hask].
    destruct (Hok e (or_introl eq_refl)) as [Hq Hf].
    destruct (uist_trade_fields (e_ord e) q) as (Hs & Hqt & _ & Hbuy & Hsell).
    split.
    + constructor; [| exact IH1]. unfold tr_ok. rewrite Hs, Hqt. split; [exact Hf |]. split; [| exact Hq].
      destruct (otype_is_sell (uo_type (e_ord e))) eqn:E.
      * exists (q_bid q). split; [exact Hbid |]. exact (proj2 (Hsell eq_refl)).
      * exists (q_ask q). split; [exact Hask |]. exact (proj2 (Hbuy eq_refl)).
    + rewrite tvol_cons, Hs, Hqt. lia.
Qed.

(* ------------------------------------------------------------------------------------------- *)
(* the invariant of the composed system and the magnitude of a state                              *)

Definition finv (y : sys float) (zc : Z) (zh : smap Z) : Prop :=
  SInv (sy_app y) /\
  exists b d k,
    nlookup (backtests (sy_app y)) (sy_id y) = Some b /\
    slookup (datasets (sy_app y)) (bt_dataset b) = Some d /\
    clock_ok d b k /\ fdataset_const d /\
    ExchangeProofs.Inv (bt_exch b) /\
    wrel zp (st_brkr (sy_strat y)) zc zh /\
    (forall e, In e (book (bt_exch b)) -> order_ok (st_brkr (sy_strat y)) (e_ord e)) /\
    (forall o, In o (buffer (bt_exch b)) -> order_ok (st_brkr (sy_strat y)) o).

(* |cash| + sum |holding| x price, read off the floats *)
Definition fgross (br : broker float) : Z :=
  (fmag (b_cash br) + fold_right (fun kv acc => (fmag (snd kv) * zp (fst kv) + acc)%Z) 0%Z (b_holdings br))%Z.

(* the magnitude of a state: the broker's gross value plus twice the value of its resting orders
   (a non-finite quantity counts 2^1024) *)
Definition sys_mag (y : sys float) : Z :=
  match nlookup (backtests (sy_app y)) (sy_id y) with
  | Some b => (fgross (st_brkr (sy_strat y)) + 2 * bookvol (book (bt_exch b)))%Z
  | None => (2 ^ 53)%Z
  end.
Definition small (y : sys float) : Prop := (sys_mag y < 2 ^ 53)%Z.

Lemma fgross_wrel (br : broker float) zc zh : wrel zp br zc zh -> fgross br = zgross zp zc zh.
Proof.
  intros (Hc & Hh & _). unfold fgross, zgross. rewrite (fmag_int _ _ Hc). f_equal.
  unfold zhabs. induction Hh as [| [k x] [k' n] mf mz [E H] _ IH]; cbn [fold_right fst snd] in *; [reflexivity |].
  subst k'. rewrite IH, (fmag_int _ _ H). reflexivity.
Qed.

Lemma order_ok_qincl (b b' : broker float) o :
  qincl (b_quotes b) (b_quotes b') -> order_ok b o -> order_ok b' o.
Proof. intros S [H1 H2]. split; [exact (S _ H1) | exact H2]. Qed.

Lemma int_float_same_bits (x y : float) (n : Z) : int_float x n -> int_float y n -> n <> 0%Z -> x = y.
Proof.
  intros [Fx Rx] [Fy Ry] NZ. apply Prim2B_inj.
  assert (S : forall f : binary_float prec emax, is_finite f = true -> B2R f = IZR n -> is_finite_strict f = true).
  { intros [s | s | | s m e He]; cbn [is_finite is_finite_strict B2R]; intros Ff Rf; try discriminate; try reflexivity.
    exfalso. apply NZ, eq_IZR. now rewrite <- Rf. }
  apply B2R_inj; [apply S | apply S |]; try assumption. now rewrite Rx, Ry.
Qed.

(* one strategy update under constant whole-unit prices *)
Lemma st_update_wrel (s : strategy float) zc zh resp now ord s' fw :
  wrel zp (st_brkr s) zc zh -> fresp_ok zp (st_brkr s) resp ->
  (zgross zp zc zh + 2 * fresp_vol zp resp < 2 ^ 53)%Z ->
  st_update clean s resp now ord = Ok (s', fw) ->
  exists zc' zh', wrel zp (st_brkr s') zc' zh' /\ zworth zp zc' zh' = zworth zp zc zh /\
    qincl (b_quotes (st_brkr s)) (b_quotes (st_brkr s')) /\
    Forall (order_ok (st_brkr s')) fw /\
    exists v, st_history s' = st_history s ++ [mkSnap now v (st_ncf s) fzero] /\
              int_float v (zworth zp zc zh).
Proof.
  intros W Hr B H. apply st_update_shape in H.
  destruct H as (b1 & fw1 & b2 & fw2 & Hc & Ht & -> & ->). cbn [st_brkr st_history].
  destruct (check_wrel tbl zp zp_pos _ zc zh resp ord b1 fw1 W Hr B Hc) as (zc' & zh' & W1 & Hw & G & S & F1).
  pose proof (ttt_fw_ok b1 _ ord b2 fw2 Ht) as F2.
  apply ttt_frame_g in Ht. destruct Ht as (Ho & Ec & Eh & Eq & _).
  assert (W2 : wrel zp b2 zc' zh') by exact (wrel_frame zp _ _ _ _ Ec Eh Eq W1).
  exists zc', zh'. split; [exact W2 |]. split; [exact Hw |]. split; [rewrite Eq; exact S |]. split.
  - apply Forall_app. split; apply Forall_forall; intros o Hin.
    + rewrite Forall_forall in F1. destruct (F1 o Hin) as [A1 A2]. split; [rewrite Eq; exact A1 | exact A2].
    + rewrite Forall_forall in F2. destruct (F2 o Hin) as [A1 A2]. split; [rewrite Eq; exact A1 | exact A2].
  - eexists. split; [reflexivity |]. rewrite <- Hw.
    apply (total_value_wrel tbl zp zp_pos b2 zc' zh' ord W2); [rewrite Eh; exact Ho | lia].
Qed.

(* (W5b) one update of the composition: the invariant and the integer worth are preserved, and the
   snapshot recorded shows the float of that worth — whatever the weights, costs, hash orders and sort
   oracle — provided the magnitude of the state is below 2^53 *)
Theorem sys_update_wrel (y : sys float) perm ord y' zc zh :
  finv y zc zh -> small y -> sys_update clean y perm ord = Ok y' ->
  exists zc' zh', finv y' zc' zh' /\ zworth zp zc' zh' = zworth zp zc zh /\
    exists sn, st_history (sy_strat y') = st_history (sy_strat y) ++ [sn] /\
               int_float (sn_value sn) (zworth zp zc zh).
Proof.
  intros (Hs & b & d & k & Hb & Hd & Hc & Hdc & HI & W & Hbook & Hbuf) Hsm H.
  destruct (sys_update_clock y perm ord y' b d k Hs Hb Hd Hc H)
    as (Hid & Hs' & Hds' & b' & Hb' & Hbd' & Hc' & _).
  destruct (sys_update_shape_g y perm ord y' b d k Hs Hb Hd Hc H)
    as (b1 & hn & trades & adm & s' & fw & Ht & Hu & Hy).
  destruct (utick1_facts_g d b perm b1 hn trades adm k Hc HI Ht) as (HI1 & Htr & Hbk1 & Hbf1).
  set (br := st_brkr (sy_strat y)) in *.
  set (resp := match get_quotes d (bt_date b1) with Some row => Some (trades, row) | None => None end) in *.
  assert (Htok : Forall (tr_ok zp br) trades /\ (tvol zp trades <= bookvol (book (bt_exch b)))%Z).
  { rewrite Htr. destruct (get_quotes d (bt_date b)) as [row0 |] eqn:Hq0.
    - exact (utrades_ok br row0 _ (Hdc _ _ Hq0) Hbook).
    - split; [constructor | apply bookvol_nonneg]. }
  destruct Htok as [Htok Hvol].
  assert (Hr : fresp_ok zp br resp).
  { unfold resp. destruct (get_quotes d (bt_date b1)) as [row |] eqn:Hq; cbn [fresp_ok]; [| exact I].
    split; [exact (Hdc _ _ Hq) | exact Htok]. }
  assert (Hrv : (fresp_vol zp resp <= bookvol (book (bt_exch b)))%Z).
  { unfold resp. destruct (get_quotes d (bt_date b1)); cbn [fresp_vol]; [exact Hvol | apply bookvol_nonneg]. }
  assert (B : (zgross zp zc zh + 2 * fresp_vol zp resp < 2 ^ 53)%Z).
  { unfold small, sys_mag in Hsm. rewrite Hb in Hsm. fold br in Hsm. rewrite (fgross_wrel br zc zh W) in Hsm. lia. }
  destruct (st_update_wrel (sy_strat y) zc zh resp (bt_date b1) ord s' fw W Hr B Hu)
    as (zc' & zh' & W' & Hw & Hsub & Hfw & v & Hh & Hv).
  set (a1 := with_backtest (sy_app y) (sy_id y) b1) in *.
  assert (Hb1 : nlookup (backtests a1) (sy_id y) = Some b1).
  { unfold a1, with_backtest. cbn [backtests]. apply nlookup_upsert_same. }
  destruct (forward_exch_g fw a1 (sy_id y) b1 Hb1) as (b2 & Hb2 & _ & Hbk2 & Hn2 & Hbf2).
  subst y'. cbn [sy_strat sy_app sy_id] in *.
  rewrite Hb2 in Hb'. inversion Hb'; subst b'; clear Hb'.
  exists zc', zh'. split; [| split; [exact Hw |]].
  - split; [exact Hs' |]. exists b2, d, (S k). cbn [sy_strat sy_app sy_id].
    split; [exact Hb2 |]. split; [rewrite Hds', Hbd'; exact Hd |]. split; [exact Hc' |].
    split; [exact Hdc |]. split; [exact (inv_same_book_g _ _ Hbk2 Hn2 HI1) |].
    split; [exact W' |]. split.
    + intros e Hin. rewrite Hbk2 in Hin. apply (order_ok_qincl br _ _ Hsub).
      destruct (Hbk1 e Hin) as [He | He]; [exact (Hbook e He) | exact (Hbuf _ He)].
    + intros o Hin. rewrite Hbf2 in Hin. apply in_app_or in Hin. destruct Hin as [Hin | Hin].
      * apply (order_ok_qincl br _ _ Hsub). exact (Hbuf o (Hbf1 o Hin)).
      * rewrite Forall_forall in Hfw. exact (Hfw o Hin).
  - eexists. split; [exact Hh |]. exact Hv.
Qed.

(* ------------------------------------------------------------------------------------------- *)
(* (S3) the whole run                                                                             *)

(* the magnitude premise of a run: every state an update starts from is [small] *)
Fixpoint run_small (fuel : nat) (y : sys float) (perms : nat -> list nat) (ords : nat -> list string) (k : nat)
  : Prop :=
  match fuel with
  | O => True
  | S fuel' =>
      match sys_has_next clean y with
      | Some true =>
          small y /\
          match sys_update clean y (perms k) (ords k) with
          | Ok y' => run_small fuel' y' perms ords (S k)
          | _ => True
          end
      | _ => True
      end
  end.

Theorem sys_run_wrel : forall fuel (y : sys float) perms ords i y' n zc zh,
  finv y zc zh -> sys_run clean fuel y perms ords i = Ok (y', n) -> run_small fuel y perms ords i ->
  exists zc' zh', finv y' zc' zh' /\ zworth zp zc' zh' = zworth zp zc zh /\
    exists new, st_history (sy_strat y') = st_history (sy_strat y) ++ new /\
                Forall (fun sn => int_float (sn_value sn) (zworth zp zc zh)) new.
Proof.
  induction fuel as [| fuel IH]; intros y perms ords i y' n zc zh Hinv H Hsm.
  - cbn [sys_run] in H. discriminate.
  - pose proof Hinv as (_ & b & d & k & Hb & Hd & Hc & _).
    cbn [run_small] in Hsm.
    rewrite sys_run_S in H. rewrite (sys_has_next_spec y b d k Hb Hd Hc) in H, Hsm.
    destruct (Nat.ltb k (List.length (ds_dates d))).
    + destruct Hsm as [Hs0 Hsm].
      destruct (sys_update clean y (perms i) (ords i)) as [y1 | e |] eqn:Hu; cbn [bind] in H; try discriminate.
      destruct (sys_update_wrel y _ _ y1 zc zh Hinv Hs0 Hu) as (zc1 & zh1 & Hinv1 & Hw1 & sn & Hh1 & Hv1).
      destruct (IH y1 perms ords (S i) y' n zc1 zh1 Hinv1 H Hsm) as (zc' & zh' & Hinv' & Hw' & new & Hh & Hall).
      exists zc', zh'. split; [exact Hinv' |]. split; [lia |]. exists (sn :: new).
      split; [rewrite Hh, Hh1, <- app_assoc; reflexivity |].
      constructor; [exact Hv1 |]. rewrite <- Hw1. exact Hall.
    + inversion H; subst y' n. exists zc, zh. split; [exact Hinv |]. split; [reflexivity |]. exists [].
      split; [rewrite app_nil_r; reflexivity | constructor].
Qed.

(* ---------------- the start state ---------------- *)
Lemma add_zero_exact (c : float) (z : Z) : int_float c z -> int_float (PrimFloat.add c 0) z.
Proof.
  intros [Fc Rc]. destruct int_float_zero as [F0 R0]. unfold int_float. rewrite add_equiv.
  generalize (Bplus_correct prec emax _ _ mode_NE _ _ Fc F0).
  rewrite R0, Rplus_0_r.
  rewrite round_generic by (try apply valid_rnd_round_mode; apply generic_format_B2R).
  rewrite Rlt_bool_true by (apply abs_B2R_lt_emax).
  intros (H1 & H2 & _). split; [exact H2 | rewrite H1; exact Rc].
Qed.

Lemma st_init_start_f costs q0 ws c zc0 ord0 s1 fw :
  fquotes_const zp q0 -> int_float c zc0 ->
  st_init clean (mkStrategy (broker_init costs q0) ws fzero []) c ord0 = Ok (s1, fw) ->
  wrel zp (st_brkr s1) zc0 [] /\ zc0 <> 0%Z /\ st_history s1 = [] /\ Forall (order_ok (st_brkr s1)) fw.
Proof.
  intros Hq0 Hc H.
  pose proof (st_init_history _ _ _ _ _ _ H) as [Hh _].
  apply st_init_shape in H. destruct H as (b2 & Ht & ->). cbn [st_brkr st_history] in *.
  set (bd := mkBroker (PrimFloat.add c 0) [] [] q0 [] costs false).
  change (st_brkr (st_deposit clean (mkStrategy (broker_init costs q0) ws fzero []) c)) with bd in Ht.
  assert (Wd : wrel zp bd zc0 []).
  { split; [exact (add_zero_exact c zc0 Hc) |]. split; [exact hrel_nil |]. split; [constructor |].
    split; [exact Hq0 |]. intros s []. }
  pose proof (ttt_fw_ok bd _ ord0 b2 fw Ht) as Fo.
  pose proof (trade_to_target_orders bd _ ord0 b2 fw Ht) as (orders & evs & Hd & _).
  apply ttt_frame_g in Ht. destruct Ht as (Ho & Ec & Eh & Eq & _).
  split; [exact (wrel_frame zp _ _ _ _ Ec Eh Eq Wd) |]. split; [| split; [exact Hh |]].
  - (* a zero deposit makes diff_orders panic *)
    intros ->. unfold diff_orders in Hd. rewrite Ho in Hd. cbn [negb] in Hd.
    destruct (negb (snodup (map fst _))); [discriminate |].
    assert (E0 : ord0 = []).
    { unfold is_order_of in Ho. cbn [b_holdings bd List.length] in Ho.
      destruct ord0; [reflexivity | discriminate]. }
    subst ord0. cbn [liquidation_value fold_left b_cash bd] in Hd.
    cbn [feqb fzero NFl FloatNum] in Hd. rewrite (eqb_zero_int _ _ (add_zero_exact c 0 Hc)) in Hd.
    cbn in Hd. discriminate.
  - apply Forall_forall. intros o Hin. rewrite Forall_forall in Fo. destruct (Fo o Hin) as [A1 A2].
    split; [rewrite Eq; exact A1 | exact A2].
Qed.

Lemma sys_inv_start_f (a : uapp (F:=float)) id b d s1 fw zc zh :
  SInv a -> nlookup (backtests a) id = Some b -> slookup (datasets a) (bt_dataset b) = Some d ->
  clock_ok d b 0 -> bt_exch b = exch_init -> fdataset_const d ->
  wrel zp (st_brkr s1) zc zh -> Forall (order_ok (st_brkr s1)) fw ->
  exists b', nlookup (backtests (forward clean a id fw)) id = Some b' /\
             slookup (datasets (forward clean a id fw)) (bt_dataset b') = Some d /\
             clock_ok d b' 0 /\ SInv (forward clean a id fw) /\
             finv (mkSys s1 (forward clean a id fw) id) zc zh.
Proof.
  intros Hs Hb Hd Hc Hx Hdc W Hfw.
  destruct (forward_gen a id fw id Hs) as (_ & Hs' & Hds').
  destruct (forward_exch_g fw a id b Hb) as (b' & Hb' & Hp & Hbk & Hn & Hbf).
  rewrite Hx in Hbk, Hn, Hbf. cbn [exch_init book buffer next_id Datatypes.app] in Hbk, Hn, Hbf.
  assert (Hbd : bt_dataset b' = bt_dataset b) by (unfold bproj in Hp; congruence).
  assert (Hd' : slookup (datasets (forward clean a id fw)) (bt_dataset b') = Some d)
    by (rewrite Hds', Hbd; exact Hd).
  assert (Hc' : clock_ok d b' 0%nat) by exact (clock_ok_proj d b b' 0%nat Hp Hc).
  exists b'. split; [exact Hb' |]. split; [exact Hd' |]. split; [exact Hc' |]. split; [exact Hs' |].
  split; [exact Hs' |]. exists b', d, 0%nat. cbn [sy_app sy_id sy_strat].
  split; [exact Hb' |]. split; [exact Hd' |]. split; [exact Hc' |]. split; [exact Hdc |].
  split; [apply (inv_same_book_g exch_init); [exact Hbk | exact Hn | apply inv_init] |].
  split; [exact W |]. split.
  - intros e Hin. rewrite Hbk in Hin. contradiction.
  - intros o Hin. rewrite Hbf in Hin. rewrite Forall_forall in Hfw. exact (Hfw o Hin).
Qed.

(* (W5a) END TO END from a fresh start, bit for bit: a strategy over a broker that has seen the first date's
   quotes, init(c) with c a whole number of units, run() on an N-date dataset whose quotes are bid = ask = the
   whole-unit price of their symbol: exactly N updates, N snapshots, and EVERY snapshot's value EQUALS c as a
   binary64 number — for every weight map, cost list, hash order and sort oracle — provided every state an
   update starts from has magnitude below 2^53 *)
Theorem float_c16_constant_prices_end_to_end :
  forall (a : uapp (F:=float)) id b d costs q0 ws c zc0 ord0 s1 fw fuel perms ords y' n,
    SInv a -> nlookup (backtests a) id = Some b -> slookup (datasets a) (bt_dataset b) = Some d ->
    clock_ok d b 0 -> bt_exch b = exch_init -> fdataset_const d ->
    fquotes_const zp q0 -> int_float c zc0 ->
    let s0 := mkStrategy (broker_init costs q0) ws fzero [] in
    let y0 := mkSys s1 (forward clean a id fw) id in
    st_init clean s0 c ord0 = Ok (s1, fw) ->
    sys_run clean fuel y0 perms ords 0 = Ok (y', n) ->
    run_small fuel y0 perms ords 0 ->
    n = List.length (ds_dates d) /\
    List.length (st_history (sy_strat y')) = List.length (ds_dates d) /\
    Forall (fun sn => sn_value sn = c) (st_history (sy_strat y')).
Proof.
  intros a id b d costs q0 ws c zc0 ord0 s1 fw fuel perms ords y' n Hs Hb Hd Hc Hx Hdc Hq0 Hcz s0 y0 Hi Hrun Hsm.
  destruct (st_init_start_f costs q0 ws c zc0 ord0 s1 fw Hq0 Hcz Hi) as (W & NZ & Hh & Hfw).
  destruct (sys_inv_start_f a id b d s1 fw zc0 [] Hs Hb Hd Hc Hx Hdc W Hfw)
    as (b' & Hb' & Hd' & Hc' & Hs' & Hinv).
  destruct (sys_run_wrel fuel y0 perms ords 0%nat y' n zc0 [] Hinv Hrun Hsm) as (zc' & zh' & _ & _ & new & Hnew & Hall).
  destruct (sys_run_count fuel y0 perms ords 0%nat y' n b' d 0%nat Hs' Hb' Hd' Hc' (Nat.le_0_l _) Hrun)
    as (Hn & Hlen & _).
  unfold y0 in *. cbn [sy_strat] in Hnew, Hall, Hlen. rewrite Hh in Hnew, Hlen.
  cbn [Datatypes.app List.length] in Hnew, Hlen.
  split; [lia |]. split; [lia |].
  rewrite Hnew. apply Forall_forall. intros sn Hin. rewrite Forall_forall in Hall.
  assert (Ew : zworth zp zc0 [] = zc0) by (unfold zworth, zhsum; cbn [fold_right]; lia).
  pose proof (Hall sn Hin) as Hv. rewrite Ew in Hv.
  exact (int_float_same_bits _ _ zc0 Hv Hcz NZ).
Qed.

(* a plain withdrawal between two updates: the invariant is kept and the integer worth goes down by exactly
   the amount paid out — decided by the integer comparison zx <= zc *)
Lemma st_withdraw_brkr (s : strategy float) x :
  st_brkr (fst (st_withdraw s x)) = fst (withdraw_cash (st_brkr s) x) /\
  st_history (fst (st_withdraw s x)) = st_history s.
Proof.
  unfold st_withdraw. destruct (withdraw_cash (st_brkr s) x) as [b' ev]. destruct ev; split; reflexivity.
Qed.

Lemma withdraw_quotes (b : broker float) x : b_quotes (fst (withdraw_cash b x)) = b_quotes b.
Proof.
  unfold withdraw_cash, debit. destruct (b_failed b); [reflexivity |].
  destruct (x >? b_cash b); reflexivity.
Qed.

Theorem sys_withdraw_wrel (y : sys float) x zx zc zh :
  finv y zc zh -> int_float x zx -> (Z.abs (zc - zx) < 2 ^ 53)%Z ->
  let y1 := mkSys (fst (st_withdraw (sy_strat y) x)) (sy_app y) (sy_id y) in
  let paid := if b_failed (st_brkr (sy_strat y)) then 0%Z else if (zx <=? zc)%Z then zx else 0%Z in
  finv y1 (zc - paid) zh /\ zworth zp (zc - paid) zh = (zworth zp zc zh - paid)%Z /\
  st_history (sy_strat y1) = st_history (sy_strat y).
Proof.
  intros (Hs & b & d & k & Hb & Hd & Hc & Hdc & HI & W & Hbook & Hbuf) Hx B y1 paid.
  destruct (st_withdraw_brkr (sy_strat y) x) as [Eb Eh].
  destruct (withdraw_wrel tbl zp _ zc zh x zx W Hx B) as (W' & Hw & _). fold paid in W', Hw.
  split; [| split; [exact Hw | exact Eh]].
  split; [exact Hs |]. exists b, d, k. unfold y1. cbn [sy_strat sy_app sy_id]. rewrite Eb.
  split; [exact Hb |]. split; [exact Hd |]. split; [exact Hc |]. split; [exact Hdc |]. split; [exact HI |].
  split; [exact W' |]. unfold order_ok. rewrite withdraw_quotes. split; assumption.
Qed.

(* a dataset loaded with bid = ask = the float of zp(symbol) on every add_quote call is constant *)
Lemma load_dataset_const_f (calls : list (float * float * Z * string)) :
  (forall b a d s, In (b, a, d, s) calls -> int_float b (zp s) /\ int_float a (zp s)) ->
  fdataset_const (load calls).
Proof.
  intros Hc date row Hg k q Hin.
  pose proof (load_row_member_shown calls date row k q Hg Hin) as Hs.
  rewrite load_shows_last_call in Hs.
  clear Hg Hin. induction calls as [| c calls IH]; cbn [last_call] in Hs; [discriminate |].
  destruct (last_call calls date k) as [q' |] eqn:El.
  - injection Hs as ->. apply IH; [| reflexivity]. intros b a d s Hi. apply (Hc b a d s). right. exact Hi.
  - destruct (Z.eqb date (c_date c) && String.eqb k (c_sym c)) eqn:E; [| discriminate].
    injection Hs as <-. destruct c as [[[b a] d] s]. apply andb_true_iff in E. destruct E as [_ E].
    apply String.eqb_eq in E. cbn [c_sym snd] in E. subst s. unfold fq_const. cbn [c_quote q_ask q_bid].
    apply (Hc b a d k). left. reflexivity.
Qed.

End AtFloatSys.

(* ------------------------------------------------------------------------------------------- *)
(* (S4 / W6) the 3-date constant-price run of EndToEndExamples.v, evaluated by the kernel           *)

Local Open Scope string_scope.

Definition ex_zp (s : string) : Z := if String.eqb s "ABC" then 100%Z else if String.eqb s "BCD" then 10%Z else 1%Z.

Lemma ex_zp_pos s : (1 <= ex_zp s)%Z.
Proof. unfold ex_zp. destruct (String.eqb s "ABC"); [lia |]. destruct (String.eqb s "BCD"); lia. Qed.

Definition ex_a : uapp (F:=float) :=
  mkApp [(0%N, mkBacktest 1%Z 0 exch_init "D")] 1%N [("D", ex_d)].
Definition ex_b : backtest (uexch float) := mkBacktest 1%Z 0 exch_init "D".

Definition ex_init := st_init (NF := FloatNum []) clean ex_s0 1000%float [].
Definition ex_s1 : strategy float := match ex_init with Ok (s, _) => s | _ => ex_s0 end.
Definition ex_fw : list (uorder float) := match ex_init with Ok (_, fw) => fw | _ => [] end.
Definition ex_y0 : sys float := mkSys ex_s1 (forward (NF := FloatNum []) clean ex_a 0%N ex_fw) 0%N.

(* the oracles of the three updates: the sort of the buffer (identity) and the holdings order after booking *)
Definition ex_perms (k : nat) : list nat := match k with 0 | 1 => [0; 1] | _ => [0] end%nat.
Definition ex_ords (k : nat) : list string := match k with 0%nat => [] | 1%nat => ["BCD"] | _ => ["ABC"; "BCD"] end.

Example ex_app_eq : ex_app = Some ex_a.
Proof. vm_compute. reflexivity. Qed.

Example ex_init_eq : st_init (NF := FloatNum []) clean ex_s0 1000%float [] = Ok (ex_s1, ex_fw).
Proof. vm_compute. reflexivity. Qed.

Example ex_start_eq : ex_start = Ok ex_y0.
Proof. vm_compute. reflexivity. Qed.

Definition ex_run := sys_run (NF := FloatNum []) clean 10 ex_y0 ex_perms ex_ords 0.
Definition ex_y3 : sys float := match ex_run with Ok (y, _) => y | _ => ex_y0 end.

Example ex_run_eq : sys_run (NF := FloatNum []) clean 10 ex_y0 ex_perms ex_ords 0 = Ok (ex_y3, 3%nat).
Proof. vm_compute. reflexivity. Qed.

(* the premises of the end-to-end theorem *)
Example ex_dataset_const : fdataset_const ex_zp ex_d.
Proof.
  apply load_dataset_const_f. intros b a d s Hin. unfold ex_calls in Hin. cbn [In] in Hin.
  destruct Hin as [E | [E | [E | [E | [E | []]]]]]; inversion E; subst; split;
    first [exact (int_float_ofZ 100 eq_refl) | exact (int_float_ofZ 10 eq_refl)].
Qed.

Example ex_q0_const : fquotes_const ex_zp ex_q0.
Proof.
  intros k q H. unfold ex_q0 in H.
  destruct (get_quotes ex_d 1%Z) as [row |] eqn:G; [| discriminate].
  exact (ex_dataset_const 1%Z row G k q (sget_in _ _ _ H)).
Qed.

(* the magnitude premise: the three states an update starts from have magnitudes 1000 (nothing rests yet),
   1000 + 2 * 640 and 1000 + 2 * 1040 — computed from the floats *)
Example ex_run_small : run_small [] ex_zp 10 ex_y0 ex_perms ex_ords 0.
Proof. vm_compute. repeat split. Qed.

(* (W6) the run meets the premises, and every snapshot value is 1000%float — by evaluation … *)
Example float_c16_example_observed :
  map (fun sn => (sn_date sn, sn_value sn)) (st_history (sy_strat ex_y3)) =
    [(2%Z, 1000%float); (3%Z, 1000%float); (3%Z, 1000%float)] /\
  map fst (b_holdings (st_brkr (sy_strat ex_y3))) = ["BCD"; "ABC"] /\
  sys_mag ex_zp ex_y0 = 1000%Z /\ sys_mag ex_zp ex_y3 = 2360%Z.
Proof. vm_compute. repeat split; reflexivity. Qed.

(* … and as an instance of the theorem: none of its premises is vacuous *)
Example float_c16_example_instance :
  List.length (st_history (sy_strat ex_y3)) = 3%nat /\
  Forall (fun sn => sn_value sn = 1000%float) (st_history (sy_strat ex_y3)).
Proof.
  assert (Hs : SInv ex_a) by exact (sinv_single exch_init "D" ex_d ex_a ex_app_eq).
  assert (Hc : clock_ok ex_d ex_b 0) by (apply (clock_fresh exch_init); reflexivity).
  assert (Hb : nlookup (backtests ex_a) 0%N = Some ex_b) by reflexivity.
  assert (Hd : slookup (datasets ex_a) (bt_dataset ex_b) = Some ex_d) by reflexivity.
  assert (Hx : bt_exch ex_b = exch_init) by reflexivity.
  pose proof (float_c16_constant_prices_end_to_end [] ex_zp ex_zp_pos ex_a 0%N ex_b ex_d
                [PctOfValue 0x1.47ae147ae147bp-7%float] ex_q0 [("ABC", 0.5%float); ("BCD", 0.25%float)]
                1000%float 1000%Z [] ex_s1 ex_fw 10 ex_perms ex_ords ex_y3 3%nat Hs Hb Hd Hc Hx
                ex_dataset_const ex_q0_const (int_float_ofZ 1000 eq_refl)) as T.
  cbv zeta in T. specialize (T ex_init_eq ex_run_eq ex_run_small).
  destruct T as (_ & H2 & H3). split; [exact H2 | exact H3].
Qed.

(* ------------------------------------------------------------------------------------------- *)
(* the magnitude premise cannot be replaced by one on the deposit and the prices alone: the same     *)
(* dataset (prices 100 and 10), the same deposit 1000, no costs, ONE target weight — negative.       *)
(* A sale of a symbol that is not held passes the order gate whatever its size.                     *)

Definition ce_s0 (w : float) : strategy float := mkStrategy (broker_init (NF := FloatNum []) [] ex_q0) [("ABC", w)] 0%float [].
Definition ce_init (w : float) := st_init (NF := FloatNum []) clean (ce_s0 w) 1000%float [].
Definition ce_y0 (w : float) : sys float :=
  match ce_init w with
  | Ok (s, fw) => mkSys s (forward (NF := FloatNum []) clean ex_a 0%N fw) 0%N
  | _ => ex_y0
  end.
Definition ce_perms (k : nat) : list nat := [0%nat].
Definition ce_ords (k : nat) : list string := match k with 0%nat | 1%nat => [] | _ => ["ABC"] end.
Definition ce_run (w : float) := sys_run (NF := FloatNum []) clean 10 (ce_y0 w) ce_perms ce_ords 0.
Definition ce_returns (w : float) : option nat := match ce_run w with Ok (_, n) => Some n | _ => None end.
Definition ce_init_ok (w : float) : bool := match ce_init w with Ok _ => true | _ => false end.
Definition ce_values (w : float) : list float :=
  match ce_run w with Ok (y, _) => map (@sn_value float) (st_history (sy_strat y)) | _ => [] end.
Definition ce_buffered (w : float) : list float :=
  match nlookup (backtests (sy_app (ce_y0 w))) 0%N with
  | Some b => map (@uo_shares float) (buffer (bt_exch b))
  | None => []
  end.

(* weight -2^50: init sells 2^50 * 10 shares short; the fill moves 2^50 * 1000 into cash, where the
   deposit of 1000 is rounded to 1024: the run returns normally and its last snapshot is NOT the deposit.
   Every premise of the theorem but the magnitude premise holds (same dataset, quotes and deposit as above) *)
Example float_c16_counterexample_short_sale :
  ce_init_ok (-0x1p+50)%float = true /\
  ce_returns (-0x1p+50)%float = Some 3%nat /\
  ce_buffered (-0x1p+50)%float = [11258999068426240%float] /\
  ce_values (-0x1p+50)%float = [1000%float; 1000%float; 1024%float] /\
  ~ run_small [] ex_zp 10 (ce_y0 (-0x1p+50)%float) ce_perms ce_ords 0.
Proof.
  split; [| split; [| split; [| split]]].
  - vm_compute. reflexivity.
  - vm_compute. reflexivity.
  - vm_compute. reflexivity.
  - vm_compute. reflexivity.
  - vm_compute. intros (_ & H & _). discriminate H.
Qed.

(* weight -2^1023: the order init hands to the exchange is for infinitely many shares — "every buffered
   order has an integer-valued quantity" is false as it stands ([fint] is what holds) — and the last
   snapshot is NaN *)
Example float_c16_counterexample_infinite_order :
  ce_buffered (-0x1p+1023)%float = [infinity] /\
  ce_returns (-0x1p+1023)%float = Some 3%nat /\
  match ce_values (-0x1p+1023)%float with
  | [v1; v2; v3] => v1 = 1000%float /\ v2 = 1000%float /\ PrimFloat.is_nan v3 = true
  | _ => False
  end.
Proof.
  split; [| split].
  - vm_compute. reflexivity.
  - vm_compute. reflexivity.
  - vm_compute. repeat split; reflexivity.
Qed.

(* ------------------------------------------------------------------------------------------- *)
Print Assumptions sys_update_wrel.
Print Assumptions sys_run_wrel.
Print Assumptions sys_withdraw_wrel.
Print Assumptions float_c16_constant_prices_end_to_end.
Print Assumptions float_c16_example_observed.
Print Assumptions float_c16_example_instance.
Print Assumptions float_c16_counterexample_short_sale.
Print Assumptions float_c16_counterexample_infinite_order.
