import sys, os
sys.path.insert(0, os.path.dirname(os.path.abspath(__file__)))
from genprops import gen

IMPR = """From Coq Require Import ZArith NArith List Bool String Permutation Reals.
From Flocq Require Import Raux.
From Alator Require Import Model.Num Model.Quirks Model.Cost Model.Exchange Model.Uist Model.Broker
  Proofs.CostProofs %s.
Import ListNotations.
Local Existing Instance RNum.
Local Open Scope R_scope."""

which = sys.argv[1:] or ["C12"]

if "C12" in which:
    gen("C12", "C12 — rebalancing orders move each holding toward its target, within budget. Statements only. "
        "[R]-theorems are about the model's definitions at the real-number instance (the same definitions are "
        "compared bit-for-bit with the code at the IEEE instance); the two shape theorems hold for every Num F.",
        IMPR % "Proofs.DiffProofs", [
        ("c12_sells_first_shape", "diff_orders_shape", "The result is literally sells ++ buys: all sells precede all buys; buys are market buys, sells market sells (every Num F, any quirk valuation)."),
        ("c12_one_order_per_quoted_target", "diff_loop_symbols", "At most one order per target symbol, only for symbols of the weight map that have a quote (every Num F)."),
        ("c12_wanted_total", "wanted_total", "`wanted` — the property's per-symbol demand, written independently of the loop: nothing for an unquoted symbol or a zero gap; a market buy of n = floor(net budget / net price) shares when the position is worth less than weight x total and n >= 1; a market sell likewise when it is worth more; nothing when n < 1 — is total …"),
        ("c12_wanted_functional", "wanted_functional", "… and functional."),
        ("c12_per_symbol", "diff_loop_spec", "[R] The orders produced are exactly the wanted ones: one per target symbol that wants one, nothing else — never zero-sized, never in the opposite direction."),
        ("c12_order_independent_loop", "diff_loop_perm", "[R] For two enumerations of the same weight map the buys are permutations of one another, and so are the sells …"),
        ("c12_order_independent", "diff_orders_perm", "[R] … and so is the whole result, for any two iteration orders of the weights map and of the holdings map."),
        ("c12_refuted_q_diff_break", "c12_refuted_q_diff_break", "Refuted for the code as it was: `break` on a zero gap — a zero-weight symbol first in iteration order suppresses the order for a later symbol."),
        ("c12_refuted_q_diff_direction_flip", "c12_refuted_q_diff_direction_flip", "Refuted for the code as it was: with a flat fee of 10 and a gap of +1 the negative floor turned a (too small) buy into a MarketSell."),
    ])

IMPA = """From Coq Require Import ZArith NArith List Bool String Permutation Reals.
From Flocq Require Import Raux.
From Alator Require Import Model.Num Model.Quirks Model.Cost Model.Exchange Model.Uist Model.Broker
  Proofs.CostProofs Proofs.BrokerLedgerProofs.
Import ListNotations.
Local Open Scope num_scope."""
IMPB = IMPR % "Proofs.BrokerLiqProofs"
IMPAR = IMPR % "Proofs.BrokerLedgerProofs"

if "C04" in which:
    gen("C04", "C04 — broker cash = external cash flows + proceeds of executed trades. Statements only. Step laws "
        "hold for every Num F (IEEE instance included, exact); the ledger over all histories is at F := R.", IMPAR, [
        ("c04_step_cash_exact", "step_cash_exact", "Per operation (every Num F): cash' is exactly cash + x for a successful deposit, cash - x for a successful withdrawal, the fold of -value (buy) / +value (sell) over the returned trades, each once, in order, for check — and unchanged for send_order, for a liquidation request whatever its outcome, and for everything refused."),
        ("c04_step_event_exact", "step_event_exact", "Events tell the truth: a deposit/withdrawal event is Success exactly when Ready (and, for withdrawals, covered by cash); refusals leave the whole state unchanged."),
        ("c04_trades_cash", "book_trades_cash", "Booking trades moves cash by exactly their signed values, in order (every Num F)."),
        ("c04_send_orders_inert", "send_orders_cash", "Submitting orders (accepted or refused) never moves cash, holdings, log, quotes or state (any quirk valuation)."),
        ("c04_liquidation_inert", "liquidation_cash_clean", "A liquidation request — for more or less than the available cash, successful or not — never moves cash by itself."),
        ("c04_rebalance_inert", "rebalance_cash_clean", "Automatic cash rebalancing never moves cash by itself."),
        ("c04_trades_sum", "cash_after_trades_sum", "[R] cash after booking = cash - buys + sells."),
        ("c04_ledger", "cash_ledger", "[R] Over ALL histories: cash = initial cash + successful deposits - successful withdrawals - value of every buy + value of every sell executed, each once."),
        ("c04_refuted_q_liq_fail_debit", "c04_refuted_q_liq_fail_debit", "KNOWN FINDING (open): the code as it is debits a failed liquidation request that does not exceed cash — deposit 100, request 50 with no positions: WithdrawFailure(50) yet cash 50."),
    ])

if "C05" in which:
    gen("C05", "C05 — holdings and pending exposure reconcile with the exchange's executions. Statements only.", IMPAR, [
        ("c05_log_step", "step_log_exact", "The trade log grows by exactly the trades a check returned, in execution order; no other operation touches it (every Num F)."),
        ("c05_log_trades", "book_trades_log", "Booking appends the trades in order (every Num F)."),
        ("c05_holdings_frame", "step_holdings_frame", "Only the reconciliation of executed trades changes holdings (every Num F)."),
        ("c05_trade_holdings", "book_trade_holdings", "[R] One trade moves the holding of its symbol by its signed quantity and nothing else …"),
        ("c05_trade_pending", "book_trade_pending", "[R] … and pending exposure by the opposite."),
        ("c05_no_zero", "book_trade_no_zero", "[R] A position that becomes exactly zero is removed: no zero entry is ever stored."),
        ("c05_accept_pending", "add_pending_effect", "[R] An accepted order adds its signed quantity to the pending exposure of its symbol."),
        ("c05_holdings_reconcile", "holdings_reconcile", "[R] Over ALL histories from a fresh broker: holdings(s) = bought - sold over the logged trades of s; no zero position is stored; keys stay unique."),
        ("c05_pending_reconcile", "pending_reconcile", "[R] Over ALL histories: pending(s) = signed quantity of the orders handed to the exchange - signed quantity executed — so it is zero again once everything accepted has filled."),
        ("c05_with_pending", "with_pending_sum", "[R] holdings-with-pending is the sum of the two, absent = 0."),
    ])

IMPE05 = """From Coq Require Import ZArith NArith List Bool String Reals Floats.
From Flocq Require Import Raux.
From Alator Require Import Model.Num Model.Quirks Model.Cost Model.Exchange Model.Uist Model.Server Model.Broker
  Model.Strategy Model.BrokerSys Proofs.ServerProofs Proofs.ExchangeProofs Proofs.BrokerLedgerProofs Proofs.EndToEnd05
  Proofs.EndToEnd04 Proofs.EndToEndExamples.
Import ListNotations.
Local Existing Instance RNum."""
if "C05" in which:
    gen("C05sys", "C05, second sentence, as ONE theorem about the composition broker + eager client + Uist server + "
        "Uist exchange for an ARBITRARY client of the broker (Model/BrokerSys.v: deposits, withdrawals, liquidations, "
        "orders of all six types, checks, in any order). `outstanding y` are this broker's orders the exchange still "
        "holds (resting book, then buffer); `signed_outstanding y s` their signed quantity for symbol s. [R].", IMPE05, [
        ("c05s_step", "bs_step_inv", "One operation preserves the system invariant: pending(s) = signed quantity of the orders the exchange still holds for s, keys unique, and no entry at all for a symbol with no outstanding order."),
        ("c05s_pending_end_to_end", "c05_pending_end_to_end", "… hence every history does."),
        ("c05s_pending_from_fresh", "c05_pending_from_fresh", "END TO END from a fresh backtest and a broker with no pending exposure, every history: pending exposure per symbol equals the signed quantity of accepted but not yet filled orders, and the map is EMPTY as soon as the exchange holds none of this broker's orders. (Premise rows_total: every date of the dataset has a row — proved of every Penelope dataset, c07_dataset_row_iff_date.)"),
        ("c05s_log_is_exchange_log", "c05_log_is_exchange_log", "First sentence, END TO END: from a fresh start, after every history the broker's trade log IS the exchange's own trade log of its backtest — exactly those trades, in execution order."),
        ("c05s_holdings_from_exchange_log", "c05_holdings_from_exchange_log", "… and holdings per symbol equal bought minus sold over the trades the exchange executed (its own log), no zero entry, keys unique."),
        ("c05s_example", "c05_pending_observed_at_floats", "Non-vacuity, kernel-evaluated at the IEEE instance: a fresh backtest over a Penelope-loaded dataset, a deposit, two offsetting resting limit orders and a market buy, two checks — pending nets to +3 with three orders outstanding, then 0 with the entry gone while two still rest; the trade is in both logs.", True),
        ("c05s_with_pending", "c05_with_pending_end_to_end", "holdings-with-pending is holdings plus that signed quantity, and just the holdings for a symbol with nothing outstanding."),
    ])

if "C04" in which:
    gen("C04sys", "C04 END TO END over the composition broker + eager client + Uist server + Uist exchange for an "
        "arbitrary client (Model/BrokerSys.v), with 'the trades the exchange has executed for it' read as the exchange's "
        "OWN trade log of the broker's backtest. [R].", IMPE05, [
        ("c04s_step_is_broker_step", "bs_step_is_bstep", "One operation of the composition is, on the broker, exactly one broker operation of Model/Broker.v (the model compared with the code), with the responses supplied by the server."),
        ("c04s_cash_from_exchange_log", "c04_cash_from_exchange_log", "Defect-free valuation, every history from a fresh backtest: cash = initial cash + accepted deposits - successful withdrawals - value of every buy + value of every sell in the exchange's log, each trade once."),
        ("c04s_cash_from_exchange_log_as_is", "c04_cash_from_exchange_log_as_is", "The code as it is (recorded finding q_liq_fail_debit on): the same law with one extra term, the forced debits of failed liquidation requests that did not exceed cash — the exact size of the open finding."),
        ("c04s_no_forced_debits_when_clean", "bs_forced_debits_none", "That term vanishes without the defect."),
    ])

IMPF = """From Coq Require Import ZArith NArith List Bool String Floats.
From Flocq Require Import IEEE754.BinarySingleNaN IEEE754.PrimFloat.
From Alator Require Import Model.Num Model.Quirks Model.Cost Model.Exchange Model.Uist Model.Broker
  Proofs.BrokerLedgerProofs Proofs.FloatExact.
Import ListNotations."""
if "C05" in which:
    gen("C05float", "C05 at the IEEE instance, whole shares — the case the property names. Statements only. "
        "`int_float x n` says the binary64 value x is finite and equals the integer n (Flocq's B2R of Coq's primitive "
        "float). No rounding anywhere: for whole-share quantities whose running totals stay below 2^53 the float "
        "holdings the code computes ARE bought minus sold, and a flat position is absent. Depends on the "
        "specification axioms the standard library declares for its primitive floats / 63-bit integers "
        "(FloatAxioms.*_spec, Uint63.*_spec) and on the classical real-number axioms (through Flocq).", IMPF, [
        ("c05f_add_exact", "add_int_exact_strong", "binary64 addition of integer-valued floats is exact when the result is below 2^53 in magnitude …", True),
        ("c05f_sub_exact", "sub_int_exact_strong", "… so is subtraction …", True),
        ("c05f_eqb_zero", "eqb_zero_int", "… and the `== 0.0` test that decides whether an entry is dropped agrees with the integer test.", True),
        ("c05f_ofZ", "int_float_ofZ", "Whole-share quantities exist: the float of an integer below 2^53 is that integer.", True),
        ("c05f_book_trade", "book_trade_holdings_exact", "One booked trade: float holdings and pending move exactly as the integer model's (add or subtract the quantity, drop the entry when it becomes 0).", True),
        ("c05f_history", "holdings_whole_shares_exact", "Any list of trades with whole-share quantities, running totals below 2^53: after booking them the float holdings and pending exposure are, key by key and in the same order, the images of the integer model's.", True),
        ("c05f_integer_ledger", "zholdings_ledger", "The integer model from an empty book: holdings(s) = bought - sold over the trades of s, no zero entry, keys unique …", True),
        ("c05f_integer_pending_ledger", "zpending_ledger", "… and pending likewise with the opposite sign.", True),
        ("c05f_holdings_are_bought_minus_sold", "float_holdings_exact_of_volume", "HEADLINE: a broker starting with no holdings and no pending exposure, any trades with whole-share quantities of total volume below 2^53: for every symbol the float holding is exactly bought minus sold (an integer-valued float), and the symbol is absent exactly when that is 0.", True),
        ("c05f_example", "ex_headline_instance", "Non-vacuity: buy 10, sell 4, sell 6 of ABC from an empty broker — evaluated and instantiated.", True),
    ])

if "C06" in which:
    gen("C06", "C06 — order gatekeeping: valid orders forwarded exactly once; refusals are inert. Statements only; for "
        "every Num F and EVERY broker state (reachable or not). 'Well-formed' is read as: for a symbol the broker has "
        "seen a quote for (the affordability clause speaks of the last seen ask).", IMPA, [
        ("c06_gate_iff", "gate_iff", "Forwarded iff Ready, quantity non-zero, a buy costs less than cash at the last seen ask, and a market sell of a held symbol does not exceed the holding — for all six order types; never a panic."),
        ("c06_failed_refuses", "gate_failed", "A Failed broker refuses every order."),
        ("c06_refusal_inert", "refusal_inert", "A refused order leaves the broker state unchanged and nothing is handed to the client."),
        ("c06_forward_once", "forward_once", "A forwarded order is handed to the client exactly once, unchanged; only pending exposure moves."),
        ("c06_delivered_any_client", "delivered_clean", "… and it reaches the exchange whichever conforming client carries it — eager, or lazy (effect at first poll: the broker drives the future)."),
        ("c06_refuted_q_send_dropped_future", "delivered_dropped", "Refuted for the code as it was: send_order dropped the future returned by insert_order, so with a lazily polled client nothing ever reached the exchange."),
        ("c06_refuted_q_limit_panics", "limit_panics", "Refuted for the code as it was: limit and stop orders hit unreachable!() in client_has_sufficient_cash."),
    ])

if "C09" in which:
    gen("C09", "C09 — Failed state: entered only on an uncoverable shortfall, and absorbing. Statements only.", 
        (IMPR % "Proofs.BrokerLiqProofs Proofs.BrokerLedgerProofs"), [
        ("c09_failed_iff", "rebalance_failed_iff", "[R] After a tick is reconciled, a Ready broker with a long portfolio (quantities > 0, every holding quoted, bids >= 0, admissible costs), for every iteration order of the holdings: Failed iff cash < 0 and shortfall + 1000 exceeds the liquidation value; otherwise, with negative cash, it stays Ready, the liquidation loop succeeds with a non-empty list of market sells, and only those are forwarded."),
        ("c09_reconciliation_never_panics", "rebalance_no_panic", "[R] The reconciliation never panics for such a portfolio."),
        ("c09_absorbing", "failed_absorbing", "Failed is preserved by every operation (every Num F, any quirk valuation)."),
        ("c09_failed_refuses", "failed_refuses", "In Failed, deposits, withdrawals and orders are refused without effect …"),
        ("c09_failed_still_books", "failed_check_books", "… while fills already in flight are still booked into cash, holdings and log exactly as in Ready; nothing new is queued."),
        ("c09_only_reconciliation_fails", "failed_only_in_check", "Only the reconciliation of a tick can enter Failed."),
    ])

if "C10" in which:
    gen("C10", "C10 — liquidation queues enough sales to raise the requested cash, or nothing. Statements only; [R].", IMPB, [
        ("c10_sufficient", "liquidation_sufficient", "A Ready broker holding whole shares of long positions (bids > 0), any request >= 0, any iteration order: on success the forwarded orders are all market sells, each for a positive quantity not exceeding the position, worth at least the request at the last seen bids; on failure nothing is queued and the state is unchanged."),
        ("c10_rebalance_sufficient", "rebalance_sufficient", "The same for the request made by automatic cash rebalancing (shortfall + 1000)."),
        ("c10_loop", "liq_loop_spec_adj", "The loop itself: only market sells of distinct held symbols within the holdings; when it ends with nothing left to raise, the sells are worth at least the request. (A zero-share order can be created when the full sales so far match the request exactly; the gate refuses it and it is worth nothing — hence the two-part statement.)"),
        ("c10_all_forwarded", "send_sells_all_forwarded", "The gate accepts every such sell of a Ready broker."),
        ("c10_zero_share_edge", "liq_loop_spec_counterexample", "The edge case, exhibited."),
        ("c10_refuted_q_liq_ceil_precedence", "c10_refuted_q_liq_ceil_precedence", "Refuted for the code as it was (total_sold / price.ceil() instead of (total_sold / price).ceil()): bid 10.5, 105 to raise — it sold 105/11 shares worth 100.2 and reported success."),
    ])

IMPE11 = """From Coq Require Import ZArith NArith List Bool String Sorted.
From Alator Require Import Model.Num Model.Quirks Model.Cost Model.Exchange Model.Uist Model.Server Model.Broker
  Model.Perf Model.Strategy Proofs.ServerProofs Proofs.EndToEnd11.
Import ListNotations."""
if "C11" in which:
    gen("C11quotes", "C11, first sentence, as theorems about the composition strategy + broker + eager client + Uist "
        "server + Uist exchange (Model/Strategy.v) for EVERY number type: which quote the broker holds. `latest_upto d "
        "j s` is the quote for s in the row of the latest date index <= j that quotes s (written independently of the "
        "broker); `shown_index d k` the date index the clock shows after k ticks. Statements only; all closed under "
        "the global context.", IMPE11, [
        ("c11q_update", "sys_update_quotes_at", "One update (tick, fetch_quotes, reconcile, rebalance, snapshot): if every stored quote is the most recent one up to the clock, it still is afterwards — one tick later.", True),
        ("c11q_run", "sys_run_quotes_final", "Through run(): after the loop every stored quote is the most recent one up to the last date.", True),
        ("c11q_after_updates", "c11_quotes_after_updates", "END TO END from a fresh start (the broker stores the first date's row as UistBrokerBuilder::build does), init, then any number of updates: for every symbol the stored quote is latest_upto at the index the clock shows — a gap keeps the previous quote.", True),
        ("c11q_valuation", "position_value_current", "… hence a position is valued at quantity x the bid of that quote.", True),
        ("c11q_never_later", "stored_quote_not_later", "Never a later one: with increasing dates and rows carrying their own date, a stored quote is dated at or before the clock.", True),
        ("c11q_most_recent", "latest_upto_most_recent", "The most recent: no quoting row between the one used and the clock is skipped.", True),
        ("c11q_latest_spec", "latest_upto_spec", "latest_upto characterised: the quote of row i, i <= j, with no row in (i, j] quoting the symbol.", True),
        ("c11q_update_quotes", "update_quotes_sget", "What storing a fetched row does to the broker's quote map (rows keyed uniquely — proved of every Penelope dataset, c07_dataset_invariant).", True),
    ])
    gen("C11", "C11 — valuation uses the last seen bid and satisfies the portfolio identities. Statements only.", IMPB, [
        ("c11_position_value", "position_value_spec", "A position is valued at quantity x the bid of the last seen quote of its symbol."),
        ("c11_total", "total_value_sum", "[R] total value = cash + sum of position values …"),
        ("c11_total_any_order", "total_value_perm", "[R] … for every iteration order of the holdings."),
        ("c11_liq_sum", "liquidation_value_sum", "[R] liquidation value = cash + sum of position liquidation values …"),
        ("c11_liq_any_order", "liquidation_value_perm", "[R] … for every iteration order."),
        ("c11_liq_le_total", "liq_le_total", "[R] Liquidation value never exceeds total value for a long portfolio with admissible costs."),
        ("c11_liq_eq_total_without_costs", "liq_eq_total_nocosts", "Without trade costs they are equal — for every Num F (the two folds are the same computation)."),
        ("c11_cost_basis", "cost_basis_spec", "[R] Cost basis = net amount paid / net quantity over the trades since the position was last flat (flat_split: the independent description of that suffix) …"),
        ("c11_flat_split_exists", "flat_split_exists", "… such a split always exists …"),
        ("c11_cost_basis_undefined_iff_flat", "cost_basis_none_iff", "… and it is undefined exactly for a flat position."),
        ("c11_profit", "profit_spec", "[R] position profit = position value - quantity x cost basis."),
    ])
