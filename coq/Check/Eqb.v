(* Eqb.v — boolean equalities used by the correspondence checkers (IEEE instance). *)
From Coq Require Import ZArith NArith List Bool String Floats.
From Alator Require Import Model.Num.
Import ListNotations.

Definition feq := float_obs_eqb.

Fixpoint list_eqb {A} (e : A -> A -> bool) (l1 l2 : list A) : bool :=
  match l1, l2 with
  | [], [] => true
  | a :: l1', b :: l2' => e a b && list_eqb e l1' l2'
  | _, _ => false
  end.

Definition opt_eqb {A} (e : A -> A -> bool) (a b : option A) : bool :=
  match a, b with
  | None, None => true
  | Some x, Some y => e x y
  | _, _ => false
  end.

Definition pair_eqb {A B} (ea : A -> A -> bool) (eb : B -> B -> bool) (a b : A * B) : bool :=
  ea (fst a) (fst b) && eb (snd a) (snd b).

(* bit i of the mask is set when aspect i differs *)
Definition bit (i : N) (ok : bool) : N := if ok then 0%N else N.shiftl 1 i.

(* failing (scenario, step, mask) triples of a list of scenarios *)
Fixpoint number_from {A} (n : N) (l : list A) : list (N * A) :=
  match l with [] => [] | a :: r => (n, a) :: number_from (N.succ n) r end.

Definition failing_steps {S} (chk : S -> N) (scs : list (N * list S)) : list (N * N * N) :=
  flat_map (fun sc =>
    flat_map (fun st => let m := chk (snd st) in
                        if N.eqb m 0 then [] else [(fst sc, fst st, m)])
             (number_from 0%N (snd sc))) scs.
