(* C08 — backtests get unique ids and cannot disturb one another. Statements only; for EVERY exchange and all interleavings (handlers are atomic under the mutex, so schedules are interleavings of whole operations). *)
From Coq Require Import ZArith NArith List Bool String Permutation Sorted Floats.
From Alator Require Import Model.Num Model.Quirks Model.Exchange Model.Uist Model.Jura Model.Server
  Proofs.ListAux Proofs.ExchangeProofs Proofs.UistProofs Proofs.JuraProofs Proofs.ExchangeCorollaries
  Proofs.ServerProofs.
Import ListNotations.
Local Open Scope num_scope.

(* The state invariant (keys unique, all <= last) holds initially (AppState::create) … *)
Theorem c08_invariant_create :
  forall (X Row : Type) (ds : list (string * dataset Row)),
         @SInv X Row (@app_create X Row ds).
Proof. exact @sinv_create. Qed.

(* … and for AppState::single … *)
Theorem c08_invariant_single :
  forall (X Row : Type) (x_init : X) (name : string) (d : dataset Row) (s : app X Row),
         app_single x_init name d = Some s -> SInv s.
Proof. exact @sinv_single. Qed.

(* … and is preserved by every history. *)
Theorem c08_invariant_run :
  forall (X Row Ordr Key TOut : Type) (x_init : X)
           (x_tick : X -> Row -> list nat -> option (X * TOut)) (x_insert : X -> Ordr -> X)
           (x_delete : X -> Key -> X) (empty_out : TOut) (is_jura : bool) 
           (s : app X Row) (ops : list (sop Ordr Key)),
         SInv s ->
         SInv (fst (srun x_init x_tick x_insert x_delete empty_out clean is_jura s ops)).
Proof. exact @sinv_run. Qed.

(* The id returned by init / new_backtest names no existing backtest and exceeds `last`. *)
Theorem c08_create_fresh :
  forall (X Row Ordr Key TOut : Type) (x_init : X)
           (x_tick : X -> Row -> list nat -> option (X * TOut)) (x_insert : X -> Ordr -> X)
           (x_delete : X -> Key -> X) (empty_out : TOut) (is_jura : bool) 
           (s : app X Row) (o : sop Ordr Key) (i : N),
         SInv s ->
         is_create o ->
         snd (sstep x_init x_tick x_insert x_delete empty_out clean is_jura s o) = RId (Some i) ->
         nlookup (backtests s) i = None /\ (last s < i)%N.
Proof. exact @create_fresh. Qed.

(* The ids returned along any history are pairwise distinct and distinct from those present initially. *)
Theorem c08_fresh_ids :
  forall (X Row Ordr Key TOut : Type) (x_init : X)
           (x_tick : X -> Row -> list nat -> option (X * TOut)) (x_insert : X -> Ordr -> X)
           (x_delete : X -> Key -> X) (empty_out : TOut) (is_jura : bool) 
           (s : app X Row) (ops : list (sop Ordr Key)),
         SInv s ->
         NoDup
           (map fst (backtests s) ++
            flat_map created
              (snd (srun x_init x_tick x_insert x_delete empty_out clean is_jura s ops))).
Proof. exact @fresh_ids. Qed.

(* A successful creation adds one fresh backtest at the first date with an empty exchange and changes no other entry. *)
Theorem c08_create_spec :
  forall (X Row Ordr Key TOut : Type) (x_init : X)
           (x_tick : X -> Row -> list nat -> option (X * TOut)) (x_insert : X -> Ordr -> X)
           (x_delete : X -> Key -> X) (empty_out : TOut) (is_jura : bool) 
           (s : app X Row) (o : sop Ordr Key) (name : string) (s' : app X Row) 
           (i : N),
         o = SInit name \/ o = SNew name ->
         SInv s ->
         sstep x_init x_tick x_insert x_delete empty_out clean is_jura s o = (s', RId (Some i)) ->
         exists (d : dataset Row) (d0 : Z),
           slookup (datasets s) name = Some d /\
           get_date d 0 = Some d0 /\
           nlookup (backtests s') i =
           Some {| bt_date := d0; bt_pos := 0; bt_exch := x_init; bt_dataset := name |} /\
           (forall j : N, j <> i -> nlookup (backtests s') j = nlookup (backtests s) j) /\
           last s' = i.
Proof. exact @create_spec. Qed.

(* An operation leaves every backtest it does not name untouched. *)
Theorem c08_step_frame :
  forall (X Row Ordr Key TOut : Type) (x_init : X)
           (x_tick : X -> Row -> list nat -> option (X * TOut)) (x_insert : X -> Ordr -> X)
           (x_delete : X -> Key -> X) (empty_out : TOut) (is_jura : bool) 
           (s : app X Row) (o : sop Ordr Key) (j : N),
         SInv s ->
         names o <> Some j ->
         nlookup (backtests s) j <> None ->
         nlookup
           (backtests (fst (sstep x_init x_tick x_insert x_delete empty_out clean is_jura s o)))
           j = nlookup (backtests s) j.
Proof. exact @step_frame. Qed.

(* The response to an operation naming backtest j, and its effect on j, depend only on backtest j and the datasets. *)
Theorem c08_step_local :
  forall (X Row Ordr Key TOut : Type) (x_init : X)
           (x_tick : X -> Row -> list nat -> option (X * TOut)) (x_insert : X -> Ordr -> X)
           (x_delete : X -> Key -> X) (empty_out : TOut) (is_jura : bool) 
           (s1 s2 : app X Row) (o : sop Ordr Key) (j : N),
         names o = Some j ->
         datasets s1 = datasets s2 ->
         nlookup (backtests s1) j = nlookup (backtests s2) j ->
         snd (sstep x_init x_tick x_insert x_delete empty_out clean is_jura s1 o) =
         snd (sstep x_init x_tick x_insert x_delete empty_out clean is_jura s2 o) /\
         nlookup
           (backtests (fst (sstep x_init x_tick x_insert x_delete empty_out clean is_jura s1 o)))
           j =
         nlookup
           (backtests (fst (sstep x_init x_tick x_insert x_delete empty_out clean is_jura s2 o)))
           j.
Proof. exact @step_local. Qed.

(* Over histories: the responses a client obtains for backtest j, and j's final state, are those obtained by applying only the operations that name j. *)
Theorem c08_noninterference :
  forall (X Row Ordr Key TOut : Type) (x_init : X)
           (x_tick : X -> Row -> list nat -> option (X * TOut)) (x_insert : X -> Ordr -> X)
           (x_delete : X -> Key -> X) (empty_out : TOut) (is_jura : bool) 
           (s : app X Row) (j : N) (ops : list (sop Ordr Key)),
         SInv s ->
         nlookup (backtests s) j <> None ->
         responses x_init x_tick x_insert x_delete empty_out is_jura j s ops =
         responses x_init x_tick x_insert x_delete empty_out is_jura j s (filter (names_b j) ops) /\
         nlookup
           (backtests (fst (srun x_init x_tick x_insert x_delete empty_out clean is_jura s ops)))
           j =
         nlookup
           (backtests
              (fst
                 (srun x_init x_tick x_insert x_delete empty_out clean is_jura s
                    (filter (names_b j) ops)))) j.
Proof. exact @noninterference. Qed.

(* A request naming an unknown backtest is rejected (None: HTTP 400 in the handler layer) and changes nothing. *)
Theorem c08_unknown_backtest :
  forall (X Row Ordr Key TOut : Type) (x_init : X)
           (x_tick : X -> Row -> list nat -> option (X * TOut)) (x_insert : X -> Ordr -> X)
           (x_delete : X -> Key -> X) (empty_out : TOut) (is_jura : bool) 
           (s : app X Row) (o : sop Ordr Key) (id : N),
         names o = Some id ->
         nlookup (backtests s) id = None ->
         fst (sstep x_init x_tick x_insert x_delete empty_out clean is_jura s o) = s /\
         rejection (snd (sstep x_init x_tick x_insert x_delete empty_out clean is_jura s o)).
Proof. exact @unknown_backtest. Qed.

(* A creation naming an unknown dataset is rejected and changes nothing. *)
Theorem c08_unknown_dataset :
  forall (X Row Ordr Key TOut : Type) (x_init : X)
           (x_tick : X -> Row -> list nat -> option (X * TOut)) (x_insert : X -> Ordr -> X)
           (x_delete : X -> Key -> X) (empty_out : TOut) (is_jura : bool) 
           (s : app X Row) (o : sop Ordr Key) (name : string),
         o = SInit name \/ o = SNew name ->
         slookup (datasets s) name = None ->
         sstep x_init x_tick x_insert x_delete empty_out clean is_jura s o = (s, RId None).
Proof. exact @unknown_dataset. Qed.

(* Refuted for the code as it was (init never stored the id it handed out): two inits on a fresh state return the same id (kernel-evaluated witness). *)
Theorem c08_refuted_q_init_no_bump :
  let qk :=
           {|
             q_init_no_bump := true;
             q_jura_pos_stuck := false;
             q_jura_sell_triggers_inverted := false;
             q_send_dropped_future := false;
             q_limit_panics := false;
             q_liq_ceil_precedence := false;
             q_diff_break := false;
             q_diff_direction_flip := false;
             q_strategy_ncf_self_add := false;
             q_maxdd_last_positions := false;
             q_liq_fail_debit := false;
             q_jura_http_drops_triggered := false
           |} in
         let ds :=
           [("A"%string, {| ds_dates := [1%Z; 2%Z]; ds_rows := [(1%Z, tt); (2%Z, tt)] |})] in
         let st :=
           sstep tt (fun (x _ : unit) (_ : list nat) => Some (x, tt)) 
             (fun x _ : unit => x) (fun x _ : unit => x) tt qk false in
         let s0 := app_create ds in
         let
         '(s1, r1) := st s0 (SInit "A") in
          let '(_, r2) := st s1 (SInit "A") in r1 = RId (Some 1%N) /\ r2 = RId (Some 1%N).
Proof. exact @c08_refuted_q_init_no_bump. Qed.

Print Assumptions c08_invariant_create.
Print Assumptions c08_invariant_single.
Print Assumptions c08_invariant_run.
Print Assumptions c08_create_fresh.
Print Assumptions c08_fresh_ids.
Print Assumptions c08_create_spec.
Print Assumptions c08_step_frame.
Print Assumptions c08_step_local.
Print Assumptions c08_noninterference.
Print Assumptions c08_unknown_backtest.
Print Assumptions c08_unknown_dataset.
Print Assumptions c08_refuted_q_init_no_bump.
