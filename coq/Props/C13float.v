(* C13 AT THE IEEE binary64 INSTANCE for whole-unit costs (per-share and flat costs with integer-valued parameters; a percentage cost multiplies the budget by 1 - p, which is not integral, and stays over the reals). Statements only. `cost_reads c zc` ties a float cost to its integer reading; `zsum_ps` / `zsum_flat` are the sums of the per-share / flat parameters. Depends on the specification axioms the standard library declares for primitive floats / 63-bit integers and the classical reals (Flocq). *)
From Coq Require Import ZArith NArith List Bool String Floats Reals.
From Flocq Require Import Core.Raux IEEE754.BinarySingleNaN IEEE754.PrimFloat.
From Alator Require Import Model.Num Model.Quirks Model.Cost Model.Exchange Model.Uist Model.Broker
  Proofs.BrokerLedgerProofs Proofs.FloatExact Proofs.FloatCash Proofs.FloatWorth Proofs.CostProofs Proofs.FloatLiq Proofs.FloatCost.
Import ListNotations.
Local Open Scope list_scope.
(* the infix comparisons below are those of the IEEE instance built on the statement's own libm table *)
Local Hint Extern 0 (Num float) => match goal with t : libm_table |- _ => exact (FloatNum t) end : typeclass_instances.

(* Integer division through floats: floor(a / b) computed in binary64 is the float of the integer quotient for |a| < 2^53, b > 0. *)
Theorem c13f_integer_division :
  forall (x y : float) (a b : Z),
         int_float x a ->
         int_float y b ->
         (Z.abs a < 2 ^ 53)%Z ->
         (0 < b <= 2 ^ 1022)%Z ->
         int_float (float_floor (x / y)) (a / b) /\ (a / b)%Z = Zfloor (IZR a / IZR b).
Proof. exact @div_floor_int. Qed.

(* The cost model's (net budget, net price), list threaded in any order: (budget - sum of flat fees, price + sum of per-share fees) for a buy, price - sum for a sell — exact integers. *)
Theorem c13f_net_budget_and_price :
  forall (tbl : libm_table) (cs : list (cost float)) (zcs : list (cost Z))
           (budget price : float) (zb zp : Z),
         @Forall2 (cost float) (cost Z) cost_reads cs zcs ->
         int_float budget zb ->
         int_float price zp ->
         (0 <= zb < 2 ^ 53)%Z ->
         (zsum_flat zcs < 2 ^ 53)%Z ->
         (1 <= zp)%Z ->
         (zp + zsum_ps zcs < 2 ^ 53)%Z ->
         int_float
           (@fst float float (@trade_impact_total float (FloatNum tbl) cs budget price true))
           (zb - zsum_flat zcs) /\
         int_float
           (@snd float float (@trade_impact_total float (FloatNum tbl) cs budget price true))
           (zp + zsum_ps zcs) /\
         int_float
           (@fst float float (@trade_impact_total float (FloatNum tbl) cs budget price false))
           (zb - zsum_flat zcs) /\
         int_float
           (@snd float float (@trade_impact_total float (FloatNum tbl) cs budget price false))
           (zp - zsum_ps zcs).
Proof. exact @trade_impact_total_int. Qed.

(* Fees of a trade are additive across the list: quantity x sum of per-share fees + sum of flat fees, exactly. *)
Theorem c13f_fees_additive :
  forall (tbl : libm_table) (cs : list (cost float)) (zcs : list (cost Z))
           (qty value : float) (zq : Z),
         @Forall2 (cost float) (cost Z) cost_reads cs zcs ->
         int_float qty zq ->
         (0 <= zq)%Z ->
         (zq * zsum_ps zcs + zsum_flat zcs < 2 ^ 53)%Z ->
         int_float (@calculate_trade_costs float (FloatNum tbl) cs qty value)
           (zq * zsum_ps zcs + zsum_flat zcs).
Proof. exact @trade_costs_int. Qed.

(* HEADLINE: n = floor(net budget / net price) is the float of the integer quotient, and n x price + every fee computed on that trade — all evaluated in binary64 — is the float of an integer that does NOT exceed the gross budget (and the binary64 comparison says so); one more share would overspend. *)
Theorem c13f_no_overspend :
  forall (tbl : libm_table) (cs : list (cost float)) (zcs : list (cost Z))
           (budget price : float) (zb zp : Z),
         @Forall2 (cost float) (cost Z) cost_reads cs zcs ->
         int_float budget zb ->
         int_float price zp ->
         (0 <= zb < 2 ^ 53)%Z ->
         (1 <= zp)%Z ->
         (zp + zsum_ps zcs < 2 ^ 53)%Z ->
         (0 <= zb - zsum_flat zcs)%Z ->
         let n := @sized_shares float (FloatNum tbl) cs budget price true in
         let zn := ((zb - zsum_flat zcs) / (zp + zsum_ps zcs))%Z in
         int_float n zn /\
         (0 <= zn)%Z /\
         int_float (n * price)%num (zn * zp) /\
         int_float (@calculate_trade_costs float (FloatNum tbl) cs n (n * price)%num)
           (zn * zsum_ps zcs + zsum_flat zcs) /\
         int_float (n * price + @calculate_trade_costs float (FloatNum tbl) cs n (n * price))%num
           (zn * zp + (zn * zsum_ps zcs + zsum_flat zcs)) /\
         (zn * zp + (zn * zsum_ps zcs + zsum_flat zcs) <= zb)%Z /\
         (n * price + @calculate_trade_costs float (FloatNum tbl) cs n (n * price) <=? budget)%num =
         true /\ (zb < (zn + 1) * zp + ((zn + 1) * zsum_ps zcs + zsum_flat zcs))%Z.
Proof. exact @no_overspend_float. Qed.

(* Net price >= gross price for buys, <= for sells; net budget <= gross budget — as binary64 comparisons. *)
Theorem c13f_directions :
  forall (tbl : libm_table) (cs : list (cost float)) (zcs : list (cost Z))
           (budget price : float) (zb zp : Z),
         @Forall2 (cost float) (cost Z) cost_reads cs zcs ->
         int_float budget zb ->
         int_float price zp ->
         (0 <= zb < 2 ^ 53)%Z ->
         (zsum_flat zcs < 2 ^ 53)%Z ->
         (1 <= zp)%Z ->
         (zp + zsum_ps zcs < 2 ^ 53)%Z ->
         (zp <= zp + zsum_ps zcs)%Z /\
         (zp - zsum_ps zcs <= zp)%Z /\
         (zb - zsum_flat zcs <= zb)%Z /\
         (price <=?
          @snd float float (@trade_impact_total float (FloatNum tbl) cs budget price true))%num =
         true /\
         (@snd float float (@trade_impact_total float (FloatNum tbl) cs budget price false) <=?
          price)%num = true /\
         (@fst float float (@trade_impact_total float (FloatNum tbl) cs budget price true) <=?
          budget)%num = true /\
         (@fst float float (@trade_impact_total float (FloatNum tbl) cs budget price false) <=?
          budget)%num = true.
Proof. exact @directions_float. Qed.

(* Fees larger than the budget: the sized share count is negative (at most -1) and the broker's clamp turns it into 0.0 — nothing is ordered. *)
Theorem c13f_negative_budget :
  forall (tbl : libm_table) (cs : list (cost float)) (zcs : list (cost Z))
           (budget price : float) (zb zp : Z),
         @Forall2 (cost float) (cost Z) cost_reads cs zcs ->
         int_float budget zb ->
         int_float price zp ->
         (0 <= zb < 2 ^ 53)%Z ->
         (zsum_flat zcs < 2 ^ 53)%Z ->
         (1 <= zp)%Z ->
         (zp + zsum_ps zcs < 2 ^ 53)%Z ->
         (zb - zsum_flat zcs < 0)%Z ->
         exists zn : Z,
           int_float (@sized_shares float (FloatNum tbl) cs budget price true) zn /\
           (zn <= -1)%Z /\
           @clamp0 float (FloatNum tbl) (@sized_shares float (FloatNum tbl) cs budget price true) =
           0%float.
Proof. exact @sized_shares_negative. Qed.

(* Non-vacuity, instantiated: costs [per-share 1; flat 25; flat 5], budget 10 000, price 99: 99 shares, outlay 9 930. *)
Theorem c13f_example :
  let n := @sized_shares float (FloatNum []) exk_cs 10000%float 99%float true in
         int_float n 99 /\
         int_float (n * 99) 9801 /\
         int_float (@calculate_trade_costs float (FloatNum []) exk_cs n (n * 99)%float) 129 /\
         int_float (n * 99 + @calculate_trade_costs float (FloatNum []) exk_cs n (n * 99)%float)
           9930 /\ (9930 <= 10000 < 10030)%Z.
Proof. exact @exk_theorem_instance. Qed.

(* Why percentage costs stay over the reals: with a percentage of 2^-60, budget 1000, price 1, binary64 computes 1 - 2^-60 = 1, buys 1000 shares, and the fee is a positive number that binary64 then adds back to exactly 1000: the inequality of C13 holds of the floats and fails of the reals by 8.7e-16. *)
Theorem c13f_why_whole_units :
  let cs := [@PctOfValue float exp_tiny] in
         (1 - exp_tiny)%float = 1%float /\
         @trade_impact_total float (FloatNum []) cs 1000%float 1%float true =
         (1000%float, 1%float) /\
         @sized_shares float (FloatNum []) cs 1000%float 1%float true = 1000%float /\
         (1000 * 1)%float = 1000%float /\
         @calculate_trade_costs float (FloatNum []) cs 1000%float 1000%float =
         8.6736173798840355e-16%float /\
         (0 <? @calculate_trade_costs float (FloatNum []) cs 1000 1000)%float = true /\
         (1000 + @calculate_trade_costs float (FloatNum []) cs 1000 1000)%float = 1000%float /\
         (1000 + @calculate_trade_costs float (FloatNum []) cs 1000 1000 <=? 1000)%float = true.
Proof. exact @exp_percentage_tight. Qed.

Print Assumptions c13f_integer_division.
Print Assumptions c13f_net_budget_and_price.
Print Assumptions c13f_fees_additive.
Print Assumptions c13f_no_overspend.
Print Assumptions c13f_directions.
Print Assumptions c13f_negative_budget.
Print Assumptions c13f_example.
Print Assumptions c13f_why_whole_units.
