(* SchedCheck.v — the calendar and schedule model against the `time` crate and schedule/mod.rs. *)
From Coq Require Import ZArith List Bool.
From Alator Require Import Model.Schedule.
Import ListNotations.
Local Open Scope Z_scope.

(* same encoding as the harness: dom + 32*month + 512*weekday + 4096*lbd + 8192*default *)
Definition sched_code (ts : Z) : Z :=
  ts_day ts + 32 * ts_month ts + 512 * weekday_of (day_of_ts ts)
  + 4096 * (if lbd_should_trade ts then 1 else 0)
  + 8192 * (if default_should_trade ts then 1 else 0).

(* a block of consecutive days starting at [day0], [times] seconds-of-day per day *)
Fixpoint sched_block_ok (times : list Z) (day : Z) (codes : list Z) (fuel : nat) : bool :=
  match fuel with
  | O => match codes with [] => true | _ => false end
  | S fuel' =>
      let n := length times in
      let here := firstn n codes in
      let rest := skipn n codes in
      match codes with
      | [] => true
      | _ =>
        (Nat.eqb (length here) n)
        && forallb (fun tc => sched_code (day * 86400 + fst tc) =? snd tc) (combine times here)
        && sched_block_ok times (day + 1) rest fuel'
      end
  end.

Definition sched_case_ok (c : list Z * Z * list Z) : bool :=
  let '(times, day0, codes) := c in
  sched_block_ok times day0 codes (S (length codes)).
