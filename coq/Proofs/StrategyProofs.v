(* StrategyProofs.v — C16: StaticWeightStrategy (Model/Strategy.v) and the full composition
   strategy + broker + eager client + Uist server + Uist exchange.
   Section AnyNum: for every Num F (no law of arithmetic used).
   Section AtR: at the real-number instance RNum. *)
From Coq Require Import ZArith NArith List Bool String Reals Lra Lia Permutation.
From Flocq Require Import Raux.
From Alator Require Import Model.Num Model.Quirks Model.Cost Model.Exchange Model.Uist Model.Server
  Model.Broker Model.Perf Model.Strategy
  Proofs.ServerProofs Proofs.BrokerLedgerProofs Proofs.BrokerLiqProofs Proofs.UistProofs
  Proofs.ExchangeProofs Proofs.ExchangeCorollaries.
Import ListNotations.

(* ====================== (A) every Num F ====================== *)
Section AnyNum.
Context {F : Type} {NF : Num F}.

(* ---- shapes ---- *)
Lemma trade_to_target_shape qk (b : broker F) ws ord b2 fw :
  trade_to_target qk b ws ord = Ok (b2, fw) ->
  exists orders evs, send_orders qk b orders = Ok (b2, evs, fw).
Proof.
  unfold trade_to_target. intros H.
  destruct (diff_orders qk b ws ord) as [orders|s|]; cbn [bind] in H; try discriminate.
  destruct (send_orders qk b orders) as [[[b2' evs] fw']|s|] eqn:Hs; cbn [bind] in H; try discriminate.
  inversion H; subst. eauto.
Qed.

Lemma st_update_shape qk (s : strategy F) resp now ord s' fw :
  st_update qk s resp now ord = Ok (s', fw) ->
  exists b1 fw1 b2 fw2,
    check qk (st_brkr s) resp ord = Ok (b1, fw1) /\
    trade_to_target qk b1 (st_weights s) ord = Ok (b2, fw2) /\
    s' = mkStrategy b2 (st_weights s) (st_ncf s)
           (st_history s ++ [mkSnap now (total_value b2 ord) (st_ncf s) fzero]) /\
    fw = fw1 ++ fw2.
Proof.
  unfold st_update. intros H.
  destruct (check qk (st_brkr s) resp ord) as [[b1 fw1]|e|] eqn:Hc; cbn [bind] in H; try discriminate.
  destruct (trade_to_target qk b1 (st_weights s) ord) as [[b2 fw2]|e|] eqn:Ht; cbn [bind] in H;
    try discriminate.
  inversion H; subst. exists b1, fw1, b2, fw2. repeat split; solve [assumption | reflexivity].
Qed.

Lemma st_init_shape qk (s : strategy F) cash ord s' fw :
  st_init qk s cash ord = Ok (s', fw) ->
  exists b2,
    trade_to_target qk (st_brkr (st_deposit qk s cash)) (st_weights (st_deposit qk s cash)) ord
      = Ok (b2, fw) /\
    s' = mkStrategy b2 (st_weights (st_deposit qk s cash)) (st_ncf (st_deposit qk s cash))
           (st_history (st_deposit qk s cash)).
Proof.
  unfold st_init. intros H.
  destruct (trade_to_target qk (st_brkr (st_deposit qk s cash)) (st_weights (st_deposit qk s cash)) ord)
    as [[b2 fw2]|e|] eqn:Ht; cbn [bind] in H; try discriminate.
  inversion H; subst. exists b2. split; solve [assumption | reflexivity].
Qed.

Lemma st_deposit_fields qk (s : strategy F) cash :
  st_brkr (st_deposit qk s cash) = fst (deposit_cash (st_brkr s) cash) /\
  st_weights (st_deposit qk s cash) = st_weights s /\
  st_history (st_deposit qk s cash) = st_history s.
Proof.
  unfold st_deposit. destruct (deposit_cash (st_brkr s) cash) as [b' ev]. repeat split; reflexivity.
Qed.

(* one update records exactly one snapshot: dated `now`, valued at the broker's total value at that
   moment, carrying the current net cash flow; weights and net cash flow are untouched *)
Lemma st_update_snapshot qk (s : strategy F) resp now ord s' fw :
  st_update qk s resp now ord = Ok (s', fw) ->
  st_history s' = st_history s ++ [mkSnap now (total_value (st_brkr s') ord) (st_ncf s) fzero] /\
  st_ncf s' = st_ncf s /\ st_weights s' = st_weights s.
Proof.
  intros H. apply st_update_shape in H.
  destruct H as (b1 & fw1 & b2 & fw2 & _ & _ & -> & _).
  cbn [st_history st_brkr st_ncf st_weights]. repeat split; reflexivity.
Qed.

(* the other operations record nothing *)
Lemma st_init_history qk (s : strategy F) cash ord s' fw :
  st_init qk s cash ord = Ok (s', fw) -> st_history s' = st_history s /\ st_weights s' = st_weights s.
Proof.
  intros H. apply st_init_shape in H. destruct H as (b2 & _ & ->).
  cbn [st_history st_weights]. destruct (st_deposit_fields qk s cash) as (_ & Hw & Hh).
  split; assumption.
Qed.

Lemma st_withdraw_history (s : strategy F) cash : st_history (fst (st_withdraw s cash)) = st_history s.
Proof.
  unfold st_withdraw. destruct (withdraw_cash (st_brkr s) cash) as [b' ev].
  destruct ev; reflexivity.
Qed.

(* net cash flow bookkeeping, per operation (clean) *)
Lemma st_deposit_ncf (s : strategy F) cash :
  st_ncf (st_deposit clean s cash) =
  (if b_failed (st_brkr s) then st_ncf s else fadd (st_ncf s) cash).
Proof.
  unfold st_deposit, deposit_cash. cbn [q_strategy_ncf_self_add clean].
  destruct (b_failed (st_brkr s)); reflexivity.
Qed.

Lemma st_withdraw_ncf (s : strategy F) cash :
  st_ncf (fst (st_withdraw s cash)) =
  (if snd (st_withdraw s cash) then fsub (st_ncf s) cash else st_ncf s).
Proof.
  unfold st_withdraw, withdraw_cash.
  destruct (b_failed (st_brkr s)); [reflexivity|].
  destruct (fltb (b_cash (st_brkr s)) cash); reflexivity.
Qed.

(* with the defect the deposit never shows: 0 + 0 *)
Lemma st_deposit_ncf_defect (s : strategy F) cash qk :
  q_strategy_ncf_self_add qk = true -> st_ncf (st_deposit qk s cash) = fadd (st_ncf s) (st_ncf s).
Proof.
  intros Hq. unfold st_deposit. destruct (deposit_cash (st_brkr s) cash) as [b' ev].
  rewrite Hq. reflexivity.
Qed.

(* ---- the composition: one update = exactly one tick of the strategy's backtest ---- *)
Definition bproj (b : backtest (uexch F)) : Z * nat * string := (bt_date b, bt_pos b, bt_dataset b).

Lemma insert_step_proj (a : uapp (F:=F)) o id j :
  option_map bproj (nlookup (backtests (fst (usstep clean a (SInsert o id)))) j)
  = option_map bproj (nlookup (backtests a) j).
Proof.
  unfold usstep. cbn [sstep].
  destruct (nlookup (backtests a) id) as [b|] eqn:Hb; cbn [fst]; [|reflexivity].
  unfold with_backtest. cbn [backtests].
  destruct (N.eq_dec j id) as [E|E].
  - subst j. rewrite nlookup_upsert_same, Hb. reflexivity.
  - rewrite nlookup_upsert_other by exact E. reflexivity.
Qed.

Lemma forward_unfold (a : uapp (F:=F)) id os :
  forward clean a id os = fold_left (fun a o => fst (usstep clean a (SInsert o id))) os a.
Proof. unfold forward. rewrite delivered_clean. reflexivity. Qed.

Lemma forward_gen (a : uapp (F:=F)) id os j :
  SInv a ->
  option_map bproj (nlookup (backtests (forward clean a id os)) j)
  = option_map bproj (nlookup (backtests a) j) /\
  SInv (forward clean a id os) /\ datasets (forward clean a id os) = datasets a.
Proof.
  rewrite forward_unfold. revert a. induction os as [|o os IH]; intros a Hs; cbn [fold_left].
  - split; [reflexivity|]. split; [exact Hs | reflexivity].
  - assert (Hs1 : SInv (fst (usstep clean a (SInsert o id)))).
    { unfold usstep. apply sinv_step. exact Hs. }
    destruct (IH _ Hs1) as (H1 & H2 & H3).
    split; [|split].
    + rewrite H1. apply insert_step_proj.
    + exact H2.
    + rewrite H3. unfold usstep. apply datasets_step.
Qed.

(* forwarding orders to the server does not move any clock and keeps the invariant.
   The disjunctive hypothesis of the target statement is kept verbatim but is not needed (it always
   holds: SInsert never creates nor removes a backtest); [forward_gen] is the statement without it. *)
Lemma forward_clock (a : uapp (F:=F)) id os j :
  SInv a -> nlookup (backtests (forward clean a id os)) j <> None \/ nlookup (backtests a) j = None ->
  option_map (fun b => (bt_date b, bt_pos b, bt_dataset b)) (nlookup (backtests (forward clean a id os)) j)
  = option_map (fun b => (bt_date b, bt_pos b, bt_dataset b)) (nlookup (backtests a) j) /\
  SInv (forward clean a id os) /\ datasets (forward clean a id os) = datasets a.
Proof. intros Hs _. exact (forward_gen a id os j Hs). Qed.

(* the generic server lemmas, specialised to the Uist server step *)
Notation utick1 := (bt_tick (X:=uexch F) (Row:=quotes (quote F)) (TOut:=utout) ux_tick ([], []) clean false).

Lemma us_tick (a : uapp (F:=F)) j b d perm :
  nlookup (backtests a) j = Some b -> slookup (datasets a) (bt_dataset b) = Some d ->
  usstep clean a (STick j perm) =
  match utick1 d b perm with
  | None => (a, RPanic)
  | Some (b', r) => (with_backtest a j b', RTick (Some r))
  end.
Proof. intros Hb Hd. unfold usstep. apply tick_step_unfold; assumption. Qed.

Lemma us_fetch (a : uapp (F:=F)) j b d :
  nlookup (backtests a) j = Some b -> slookup (datasets a) (bt_dataset b) = Some d ->
  usstep clean a (SFetch j) = (a, RFetch (get_quotes d (bt_date b))).
Proof. intros Hb Hd. unfold usstep. apply fetch_spec; assumption. Qed.

Lemma us_now (a : uapp (F:=F)) j b d k :
  nlookup (backtests a) j = Some b -> slookup (datasets a) (bt_dataset b) = Some d -> clock_ok d b k ->
  usstep clean a (SNow j) = (a, RNow (Some (bt_date b, Nat.ltb k (List.length (ds_dates d))))).
Proof. intros Hb Hd Hc. unfold usstep. apply now_spec; assumption. Qed.

Lemma clock_ok_proj (d : dataset (quotes (quote F))) (b b' : backtest (uexch F)) k :
  bproj b' = bproj b -> clock_ok d b k -> clock_ok d b' k.
Proof.
  unfold bproj, clock_ok. intros E [Hp Hd]. inversion E as [[E1 E2 E3]].
  rewrite E1, E2. split; assumption.
Qed.

(* one update: the clock of the strategy's backtest advances by exactly one tick, one snapshot is added,
   and it is dated with the clock date after that tick *)
Lemma sys_update_clock (y : sys F) perm ord y' b d k :
  SInv (sy_app y) -> nlookup (backtests (sy_app y)) (sy_id y) = Some b ->
  slookup (datasets (sy_app y)) (bt_dataset b) = Some d -> clock_ok d b k ->
  sys_update clean y perm ord = Ok y' ->
  sy_id y' = sy_id y /\ SInv (sy_app y') /\ datasets (sy_app y') = datasets (sy_app y) /\
  exists b', nlookup (backtests (sy_app y')) (sy_id y) = Some b' /\ bt_dataset b' = bt_dataset b /\
             clock_ok d b' (S k) /\
             exists v, st_history (sy_strat y') = st_history (sy_strat y) ++ [mkSnap (bt_date b') v (st_ncf (sy_strat y)) fzero].
Proof.
  intros Hs Hb Hd Hc H. unfold sys_update in H.
  rewrite (us_tick _ _ _ _ perm Hb Hd) in H.
  destruct (utick1 d b perm) as [[b1 [hn out]]|] eqn:Ht.
  2:{ cbv beta iota in H.
      destruct (usstep clean (sy_app y) (SFetch (sy_id y))) as [a2 rf]. discriminate. }
  cbv beta iota in H.
  destruct (tick1_spec _ _ _ d b perm b1 hn out k Hc Ht) as (Hc1 & _ & Hds1 & _).
  set (a1 := with_backtest (sy_app y) (sy_id y) b1) in *.
  assert (Hb1 : nlookup (backtests a1) (sy_id y) = Some b1).
  { unfold a1, with_backtest. cbn [backtests]. apply nlookup_upsert_same. }
  assert (Hd1 : slookup (datasets a1) (bt_dataset b1) = Some d).
  { unfold a1, with_backtest. cbn [datasets]. rewrite Hds1. exact Hd. }
  assert (Hs1 : SInv a1).
  { unfold a1. apply sinv_with_backtest; [exact Hs|]. rewrite Hb. discriminate. }
  rewrite (us_fetch a1 _ _ _ Hb1 Hd1) in H. cbv beta iota in H.
  rewrite (us_now a1 _ _ _ _ Hb1 Hd1 Hc1) in H. cbv beta iota in H.
  match type of H with bind ?u _ = _ => destruct u as [[s' fw]|e|] eqn:Hu end;
    cbn [bind] in H; try discriminate.
  inversion H; subst y'; clear H. cbn [sy_id sy_app sy_strat].
  destruct (forward_gen a1 (sy_id y) fw (sy_id y) Hs1) as (Hp & Hs2 & Hds2).
  split; [reflexivity|]. split; [exact Hs2|]. split; [rewrite Hds2; reflexivity|].
  rewrite Hb1 in Hp. cbn [option_map] in Hp.
  destruct (nlookup (backtests (forward clean a1 (sy_id y) fw)) (sy_id y)) as [b2|]; [|discriminate].
  cbn [option_map] in Hp. inversion Hp as [Hp'].
  exists b2. split; [reflexivity|].
  assert (E : bproj b2 = bproj b1) by (unfold bproj; congruence).
  split; [congruence|]. split; [exact (clock_ok_proj d b1 b2 (S k) E Hc1)|].
  apply st_update_snapshot in Hu. destruct Hu as (Hh & _ & _).
  eexists. rewrite Hh. replace (bt_date b2) with (bt_date b1) by congruence. reflexivity.
Qed.

Lemma sys_has_next_spec (y : sys F) b d k :
  nlookup (backtests (sy_app y)) (sy_id y) = Some b ->
  slookup (datasets (sy_app y)) (bt_dataset b) = Some d -> clock_ok d b k ->
  sys_has_next clean y = Some (Nat.ltb k (List.length (ds_dates d))).
Proof.
  intros Hb Hd Hc. unfold sys_has_next. rewrite (us_now _ _ _ _ _ Hb Hd Hc). reflexivity.
Qed.

Lemma sys_run_S fuel (y : sys F) perms ords i :
  sys_run clean (S fuel) y perms ords i =
  match sys_has_next clean y with
  | None => Panic "Clock::has_next: unwrap on Err"
  | Some false => Ok (y, i)
  | Some true =>
      bind (sys_update clean y (perms i) (ords i)) (fun y' => sys_run clean fuel y' perms ords (S i))
  end.
Proof. reflexivity. Qed.

(* the strengthened form: the final history extends the initial one by exactly N - k snapshots *)
Lemma sys_run_count_gen fuel : forall (y : sys F) perms ords i y' n b d k,
  SInv (sy_app y) -> nlookup (backtests (sy_app y)) (sy_id y) = Some b ->
  slookup (datasets (sy_app y)) (bt_dataset b) = Some d -> clock_ok d b k ->
  (k <= List.length (ds_dates d))%nat ->
  sys_run clean fuel y perms ords i = Ok (y', n) ->
  (n = i + (List.length (ds_dates d) - k))%nat /\ sy_id y' = sy_id y /\
  exists ext, st_history (sy_strat y') = st_history (sy_strat y) ++ ext /\
    List.length ext = (List.length (ds_dates d) - k)%nat /\
    forall m, (m < List.length (ds_dates d) - k)%nat ->
      exists sn dt, nth_error ext m = Some sn /\
                    nth_error (ds_dates d) (Nat.min (k + m + 1) (List.length (ds_dates d) - 1)) = Some dt /\
                    sn_date sn = dt.
Proof.
  induction fuel as [|fuel IH]; intros y perms ords i y' n b d k Hs Hb Hd Hc Hk H.
  - cbn [sys_run] in H. discriminate.
  - rewrite sys_run_S, (sys_has_next_spec y b d k Hb Hd Hc) in H.
    destruct (Nat.ltb k (List.length (ds_dates d))) eqn:E.
    + apply Nat.ltb_lt in E.
      destruct (sys_update clean y (perms i) (ords i)) as [y1|e|] eqn:Hu; cbn [bind] in H; try discriminate.
      destruct (sys_update_clock y (perms i) (ords i) y1 b d k Hs Hb Hd Hc Hu)
        as (Hid & Hs1 & Hds1 & b1 & Hb1 & Hbd1 & Hc1 & v & Hh1).
      assert (Hb1' : nlookup (backtests (sy_app y1)) (sy_id y1) = Some b1) by (rewrite Hid; exact Hb1).
      assert (Hd1 : slookup (datasets (sy_app y1)) (bt_dataset b1) = Some d) by (rewrite Hds1, Hbd1; exact Hd).
      destruct (IH y1 perms ords (S i) y' n b1 d (S k) Hs1 Hb1' Hd1 Hc1 E H)
        as (Hn & Hid' & ext1 & Hh & Hl & Hm).
      split; [lia|]. split; [congruence|].
      exists (mkSnap (bt_date b1) v (st_ncf (sy_strat y)) fzero :: ext1).
      split; [rewrite Hh, Hh1, <- app_assoc; reflexivity|].
      split; [cbn [List.length]; lia|].
      intros m Hlt. destruct m as [|m'].
      * exists (mkSnap (bt_date b1) v (st_ncf (sy_strat y)) fzero), (bt_date b1).
        cbn [nth_error sn_date]. split; [reflexivity|]. split; [|reflexivity].
        destruct Hc1 as [_ Hg]. unfold get_date in Hg.
        replace (k + 0 + 1)%nat with (S k) by lia. exact Hg.
      * destruct (Hm m') as (sn & dt & H1 & H2 & H3); [lia|].
        exists sn, dt. cbn [nth_error]. split; [exact H1|]. split; [|exact H3].
        replace (k + S m' + 1)%nat with (S k + m' + 1)%nat by lia. exact H2.
    + apply Nat.ltb_ge in E. inversion H; subst y' n; clear H.
      split; [lia|]. split; [reflexivity|]. exists [].
      split; [rewrite app_nil_r; reflexivity|]. split; [cbn [List.length]; lia|].
      intros m Hlt. lia.
Qed.

(* run(): from a backtest that has done k <= N ticks, whenever it returns it has performed exactly N - k
   updates, recorded exactly N - k snapshots, and their dates are the clock dates after each tick *)
Lemma sys_run_count fuel (y : sys F) perms ords i y' n b d k :
  SInv (sy_app y) -> nlookup (backtests (sy_app y)) (sy_id y) = Some b ->
  slookup (datasets (sy_app y)) (bt_dataset b) = Some d -> clock_ok d b k ->
  (k <= List.length (ds_dates d))%nat ->
  sys_run clean fuel y perms ords i = Ok (y', n) ->
  (n = i + (List.length (ds_dates d) - k))%nat /\
  List.length (st_history (sy_strat y')) = (List.length (st_history (sy_strat y)) + (List.length (ds_dates d) - k))%nat /\
  forall m, (m < List.length (ds_dates d) - k)%nat ->
    exists sn dt, nth_error (st_history (sy_strat y')) (List.length (st_history (sy_strat y)) + m) = Some sn /\
                  nth_error (ds_dates d) (Nat.min (k + m + 1) (List.length (ds_dates d) - 1)) = Some dt /\
                  sn_date sn = dt.
Proof.
  intros Hs Hb Hd Hc Hk H.
  destruct (sys_run_count_gen fuel y perms ords i y' n b d k Hs Hb Hd Hc Hk H)
    as (Hn & _ & ext & Hh & Hl & Hm).
  split; [exact Hn|]. split; [rewrite Hh, app_length, Hl; reflexivity|].
  intros m Hlt. destruct (Hm m Hlt) as (sn & dt & H1 & H2 & H3).
  exists sn, dt. split; [|split; assumption].
  rewrite Hh, nth_error_app2 by lia.
  replace (List.length (st_history (sy_strat y)) + m - List.length (st_history (sy_strat y)))%nat with m by lia.
  exact H1.
Qed.

(* the fuel is only a device: any two fuels above N - k give the same result (so the out-of-fuel value
   is never what a sufficiently fuelled run returns) *)
Lemma sys_run_fuel_irrelevant fuel1 fuel2 (y : sys F) perms ords i b d k :
  SInv (sy_app y) -> nlookup (backtests (sy_app y)) (sy_id y) = Some b ->
  slookup (datasets (sy_app y)) (bt_dataset b) = Some d -> clock_ok d b k ->
  (k <= List.length (ds_dates d))%nat ->
  (List.length (ds_dates d) - k < fuel1)%nat -> (List.length (ds_dates d) - k < fuel2)%nat ->
  sys_run clean fuel1 y perms ords i = sys_run clean fuel2 y perms ords i.
Proof.
  revert fuel2 y i b k. induction fuel1 as [|fuel1 IH]; intros fuel2 y i b k Hs Hb Hd Hc Hk Hf1 Hf2; [lia|].
  destruct fuel2 as [|fuel2]; [lia|].
  rewrite !sys_run_S, (sys_has_next_spec y b d k Hb Hd Hc).
  destruct (Nat.ltb k (List.length (ds_dates d))) eqn:E; [|reflexivity].
  apply Nat.ltb_lt in E.
  destruct (sys_update clean y (perms i) (ords i)) as [y1|e|] eqn:Hu; cbn [bind]; try reflexivity.
  destruct (sys_update_clock y (perms i) (ords i) y1 b d k Hs Hb Hd Hc Hu)
    as (Hid & Hs1 & Hds1 & b1 & Hb1 & Hbd1 & Hc1 & _).
  assert (Hb1' : nlookup (backtests (sy_app y1)) (sy_id y1) = Some b1) by (rewrite Hid; exact Hb1).
  assert (Hd1 : slookup (datasets (sy_app y1)) (bt_dataset b1) = Some d) by (rewrite Hds1, Hbd1; exact Hd).
  apply (IH fuel2 y1 (S i) b1 (S k) Hs1 Hb1' Hd1 Hc1 E); lia.
Qed.

End AnyNum.

(* ====================== (B) at F := R ====================== *)
Section AtR.
Local Existing Instance RNum.
Local Open Scope R_scope.

(* strategy-level histories *)
Inductive stop :=
| StInit (cash : R) (ord : list string)
| StUpdate (resp : option (list (trade R) * list (string * quote R))) (now : Z) (ord : list string)
| StWithdraw (cash : R)
| StWithdrawLiq (cash : R) (ord : list string).
Definition st_step (s : strategy R) (o : stop) : res (strategy R) :=
  match o with
  | StInit c ord => bind (st_init clean s c ord) (fun '(s', _) => Ok s')
  | StUpdate r now ord => bind (st_update clean s r now ord) (fun '(s', _) => Ok s')
  | StWithdraw c => Ok (fst (st_withdraw s c))
  | StWithdrawLiq c ord => bind (st_withdraw_liq clean s c ord) (fun '(s', _, _) => Ok s')
  end.
Fixpoint st_run (s : strategy R) (ops : list stop) : res (strategy R) :=
  match ops with [] => Ok s | o :: r => bind (st_step s o) (fun s' => st_run s' r) end.

(* what each operation is entitled to add to net_cash_flow: +deposit if accepted, -withdrawal if it
   succeeded (either kind) *)
Definition ncf_delta (s : strategy R) (o : stop) : R :=
  match o with
  | StInit c _ => if b_failed (st_brkr s) then 0 else c
  | StUpdate _ _ _ => 0
  | StWithdraw c => if snd (st_withdraw s c) then - c else 0
  | StWithdrawLiq c ord =>
      match st_withdraw_liq clean s c ord with Ok (_, true, _) => - c | _ => 0 end
  end.
Fixpoint ncf_ledger (s : strategy R) (ops : list stop) : R :=
  match ops with
  | [] => 0
  | o :: r => ncf_delta s o + match st_step s o with Ok s' => ncf_ledger s' r | _ => 0 end
  end.

Lemma st_withdraw_liq_shape (s : strategy R) c ord s' ok fw :
  st_withdraw_liq clean s c ord = Ok (s', ok, fw) ->
  exists b' ev, withdraw_cash_with_liquidation clean (st_brkr s) c ord = Ok (b', ev, fw) /\
    ((ev = WithdrawSuccess c /\ ok = true /\
      s' = mkStrategy b' (st_weights s) (st_ncf s - c) (st_history s)) \/
     (ev = WithdrawFailure c /\ ok = false /\
      s' = mkStrategy b' (st_weights s) (st_ncf s) (st_history s))).
Proof.
  unfold st_withdraw_liq. intros H.
  destruct (withdraw_cash_with_liquidation clean (st_brkr s) c ord) as [[[b' ev] fw']|e|] eqn:Hw;
    cbn [bind] in H; try discriminate.
  exists b', ev.
  destruct (liq_shape _ _ _ _ _ _ _ Hw) as [(_ & -> & _)|(sells & evs & _ & ->)];
    inversion H; subst; split; try reflexivity; [right|left]; repeat split; reflexivity.
Qed.

Lemma st_step_ncf (s : strategy R) o s1 :
  st_step s o = Ok s1 -> st_ncf s1 = st_ncf s + ncf_delta s o.
Proof.
  destruct o as [c ord|resp now ord|c|c ord]; cbn [st_step ncf_delta]; intros H.
  - destruct (st_init clean s c ord) as [[s' fw]|e|] eqn:Hi; cbn [bind] in H; try discriminate.
    inversion H; subst s'. apply st_init_shape in Hi. destruct Hi as (b2 & _ & ->).
    cbn [st_ncf]. rewrite st_deposit_ncf. cbn [fadd RNum].
    destruct (b_failed (st_brkr s)); lra.
  - destruct (st_update clean s resp now ord) as [[s' fw]|e|] eqn:Hu; cbn [bind] in H; try discriminate.
    inversion H; subst s'. apply st_update_snapshot in Hu. destruct Hu as (_ & -> & _). lra.
  - inversion H; subst s1. rewrite st_withdraw_ncf. cbn [fsub RNum].
    destruct (snd (st_withdraw s c)); lra.
  - destruct (st_withdraw_liq clean s c ord) as [[[s' ok] fw]|e|] eqn:Hw; cbn [bind] in H; try discriminate.
    inversion H; subst s'. apply st_withdraw_liq_shape in Hw.
    destruct Hw as (b' & ev & _ & [(_ & -> & ->)|(_ & -> & ->)]); cbn [st_ncf fsub RNum]; lra.
Qed.

(* net_cash_flow = cumulative successful deposits - successful withdrawals, over ALL histories; hence
   every snapshot carries that figure as of its update (st_update_snapshot) *)
Lemma ncf_reconcile (s : strategy R) ops s' :
  st_run s ops = Ok s' -> st_ncf s' = st_ncf s + ncf_ledger s ops.
Proof.
  revert s. induction ops as [|o r IH]; intros s H; cbn [st_run ncf_ledger] in *.
  - inversion H; subst. lra.
  - destruct (st_step s o) as [s1|e|] eqn:Hs; cbn [bind] in H; try discriminate.
    rewrite (IH _ H), (st_step_ncf _ _ _ Hs). lra.
Qed.

(* ---- trading alone creates no value ---- *)
(* consistent pricing: every symbol is worth [price s] — the broker's last seen bid for every held or
   traded symbol, and every executed trade is valued at that price *)
Definition priced (price : string -> R) (b : broker R) (ts : list (trade R)) : Prop :=
  (forall s h, sget (b_holdings b) s = Some h -> exists q, sget (b_quotes b) s = Some q /\ q_bid q = price s) /\
  (forall t, In t ts -> t_value t = price (t_symbol t) * t_quantity t /\
                        exists q, sget (b_quotes b) (t_symbol t) = Some q /\ q_bid q = price (t_symbol t)).
(* value in the sense of: cash + sum over symbols of price x holding, independent of any order *)
Definition worth (price : string -> R) (b : broker R) : R :=
  b_cash b + fold_right (fun kv acc => price (fst kv) * snd kv + acc) 0 (b_holdings b).

(* the holdings part of [worth] *)
Definition hsum (price : string -> R) (m : smap R) : R :=
  fold_right (fun kv acc => price (fst kv) * snd kv + acc) 0 m.

Lemma worth_hsum price b : worth price b = b_cash b + hsum price (b_holdings b).
Proof. reflexivity. Qed.

Lemma hsum_sset price m k v :
  hsum price (sset m k v) = hsum price m - price k * hget m k + price k * v.
Proof.
  unfold hget. induction m as [|[k0 a0] m IH]; cbn [sset sget hsum fold_right fst snd].
  - lra.
  - destruct (String.eqb k k0) eqn:E; cbn [hsum fold_right fst snd].
    + apply String.eqb_eq in E. subst k0. fold (hsum price m). lra.
    + fold (hsum price m) (hsum price (sset m k v)). rewrite IH. lra.
Qed.

Lemma hsum_sremove price m k :
  hsum price (sremove m k) = hsum price m - price k * hget m k.
Proof.
  unfold hget. induction m as [|[k0 a0] m IH]; cbn [sremove sget hsum fold_right fst snd].
  - lra.
  - destruct (String.eqb k k0) eqn:E; cbn [hsum fold_right fst snd].
    + apply String.eqb_eq in E. subst k0. fold (hsum price m). lra.
    + fold (hsum price m) (hsum price (sremove m k)). rewrite IH. lra.
Qed.

Lemma hsum_supd price m k v :
  hsum price (supd m k v) = hsum price m - price k * hget m k + price k * v.
Proof.
  unfold supd. destruct (Req_bool_spec v 0) as [Hv|Hv].
  - rewrite hsum_sremove. subst v. lra.
  - apply hsum_sset.
Qed.

Lemma nodup_in_sget {A} (m : smap A) k v : keys_nodup m -> In (k, v) m -> sget m k = Some v.
Proof.
  unfold keys_nodup. induction m as [|[k0 a0] m IH]; cbn [map fst sget In]; intros Hnd Hin; [contradiction|].
  inversion Hnd as [|x l Hnin Hnd']; subst.
  destruct Hin as [Hin|Hin].
  - inversion Hin; subst. rewrite String.eqb_refl. reflexivity.
  - destruct (String.eqb k k0) eqn:E.
    + apply String.eqb_eq in E. subst k0. exfalso. apply Hnin.
      change k with (fst (k, v)). apply in_map. exact Hin.
    + apply IH; assumption.
Qed.

Lemma hsum_as_sumR price (b : broker R) :
  keys_nodup (b_holdings b) -> priced price b [] ->
  BrokerLiqProofs.sumR (pv b) (map fst (b_holdings b)) = hsum price (b_holdings b).
Proof.
  intros Hnd [Hp _].
  assert (Hall : forall k v, In (k, v) (b_holdings b) -> pv b k = price k * v).
  { intros k v Hin. pose proof (nodup_in_sget _ _ _ Hnd Hin) as Hg.
    destruct (Hp _ _ Hg) as (q & Hq & Hb).
    unfold pv. rewrite (position_value_spec b k q v Hq Hg). rewrite Hb. reflexivity. }
  clear Hnd Hp. induction (b_holdings b) as [|[k0 a0] m IH]; cbn [map fst hsum fold_right snd]; [reflexivity|].
  rewrite BrokerLiqProofs.sumR_cons. fold (hsum price m).
  rewrite (Hall k0 a0 (or_introl eq_refl)). rewrite IH; [reflexivity|].
  intros k v Hin. apply Hall. right. exact Hin.
Qed.

Lemma total_value_worth price (b : broker R) ord :
  keys_nodup (b_holdings b) -> is_order_of ord (b_holdings b) = true -> priced price b [] ->
  total_value b ord = worth price b.
Proof.
  intros Hnd Ho Hp.
  rewrite (total_value_perm b ord (map fst (b_holdings b)) (is_order_of_perm _ _ Hnd Ho)).
  rewrite total_value_sum, worth_hsum, (hsum_as_sumR price b Hnd Hp). reflexivity.
Qed.

(* booking a consistently priced trade leaves the worth unchanged (the keys_nodup hypothesis of the
   target statement is kept but not used: sset/sremove and hget all act on the first occurrence) *)
Lemma book_trade_worth price (b : broker R) t :
  keys_nodup (b_holdings b) -> t_value t = price (t_symbol t) * t_quantity t ->
  worth price (book_trade b t) = worth price b.
Proof.
  intros _ Hv. rewrite !worth_hsum, book_trade_holdings_eq, hsum_supd, book_trade_cash.
  cbn [fadd fsub RNum]. rewrite Hv. destruct (t_side t); lra.
Qed.

Lemma book_trade_keys_nodup (b : broker R) t :
  keys_nodup (b_holdings b) -> keys_nodup (b_holdings (book_trade b t)).
Proof. intros H. rewrite book_trade_holdings_eq. now apply supd_nodup. Qed.

Lemma book_trades_worth price (b : broker R) ts :
  keys_nodup (b_holdings b) -> (forall t, In t ts -> t_value t = price (t_symbol t) * t_quantity t) ->
  worth price (fold_left book_trade ts b) = worth price b /\ keys_nodup (b_holdings (fold_left book_trade ts b)).
Proof.
  revert b. induction ts as [|t ts IH]; intros b Hnd Hv; cbn [fold_left]; [split; [reflexivity|exact Hnd]|].
  destruct (IH (book_trade b t) (book_trade_keys_nodup b t Hnd)) as [Hw Hk].
  { intros t' Hin. apply Hv. right. exact Hin. }
  split; [|exact Hk]. rewrite Hw. apply book_trade_worth; [exact Hnd|]. apply Hv. left. reflexivity.
Qed.

Lemma worth_frame price (b b' : broker R) :
  b_cash b' = b_cash b -> b_holdings b' = b_holdings b -> worth price b' = worth price b.
Proof. intros Hc Hh. unfold worth. rewrite Hc, Hh. reflexivity. Qed.

Lemma send_orders_worth price qk (b : broker R) os b' evs fw :
  send_orders qk b os = Ok (b', evs, fw) ->
  worth price b' = worth price b /\ b_holdings b' = b_holdings b.
Proof.
  intros H. apply send_orders_cash in H. destruct H as (Hc & Hh & _).
  split; [apply worth_frame; assumption | exact Hh].
Qed.

Lemma check_worth_gen price (b : broker R) ts row ord b' fw :
  keys_nodup (b_holdings b) -> (forall t, In t ts -> t_value t = price (t_symbol t) * t_quantity t) ->
  check clean b (Some (ts, row)) ord = Ok (b', fw) ->
  worth price b' = worth price b /\ keys_nodup (b_holdings b').
Proof.
  intros Hnd Hv H. apply check_clean_sends in H.
  destruct H as (sells & evs & b1 & Hs & Hb).
  apply (send_orders_worth price) in Hs. destruct Hs as [Hw Hh].
  cbn [booked] in Hw, Hh.
  destruct (book_trades_worth price (update_quotes b row) ts Hnd Hv) as [Hbw Hbk].
  assert (H1 : worth price b1 = worth price b).
  { rewrite Hw, Hbw. reflexivity. }
  assert (H2 : keys_nodup (b_holdings b1)).
  { rewrite Hh. exact Hbk. }
  destruct Hb as [->| ->]; split; assumption.
Qed.

(* submitting orders, rebalancing and diffing never change the worth (they touch pending only) *)
Lemma check_worth price (b : broker R) ts row ord b' fw :
  keys_nodup (b_holdings b) -> (forall t, In t ts -> t_value t = price (t_symbol t) * t_quantity t) ->
  check clean b (Some (ts, row)) ord = Ok (b', fw) -> worth price b' = worth price b.
Proof. intros Hnd Hv H. exact (proj1 (check_worth_gen price b ts row ord b' fw Hnd Hv H)). Qed.

Lemma st_update_worth price (s : strategy R) ts row now ord s' fw :
  keys_nodup (b_holdings (st_brkr s)) -> (forall t, In t ts -> t_value t = price (t_symbol t) * t_quantity t) ->
  st_update clean s (Some (ts, row)) now ord = Ok (s', fw) ->
  worth price (st_brkr s') = worth price (st_brkr s) /\ keys_nodup (b_holdings (st_brkr s')).
Proof.
  intros Hnd Hv H. apply st_update_shape in H.
  destruct H as (b1 & fw1 & b2 & fw2 & Hc & Ht & -> & _). cbn [st_brkr].
  destruct (check_worth_gen price _ ts row ord b1 fw1 Hnd Hv Hc) as [Hw1 Hk1].
  apply trade_to_target_shape in Ht. destruct Ht as (orders & evs & Hs).
  apply (send_orders_worth price) in Hs. destruct Hs as [Hw2 Hh2].
  split; [rewrite Hw2; exact Hw1 | rewrite Hh2; exact Hk1].
Qed.

(* deposits and plain withdrawals move the worth by exactly their amount *)
Lemma st_init_worth price (s : strategy R) c ord s' fw :
  st_init clean s c ord = Ok (s', fw) ->
  worth price (st_brkr s') = worth price (st_brkr s) + (if b_failed (st_brkr s) then 0 else c).
Proof.
  intros H. apply st_init_shape in H. destruct H as (b2 & Ht & ->). cbn [st_brkr].
  apply trade_to_target_shape in Ht. destruct Ht as (orders & evs & Hs).
  apply (send_orders_worth price) in Hs. destruct Hs as [Hw _]. rewrite Hw.
  destruct (st_deposit_fields clean s c) as (-> & _ & _).
  unfold deposit_cash. destruct (b_failed (st_brkr s)); cbn [fst]; [lra|].
  unfold worth, credit, set_cash. cbn [b_cash b_holdings fadd RNum]. lra.
Qed.

Lemma st_withdraw_worth price (s : strategy R) c :
  worth price (st_brkr (fst (st_withdraw s c))) = worth price (st_brkr s) - (if snd (st_withdraw s c) then c else 0).
Proof.
  unfold st_withdraw, withdraw_cash.
  destruct (b_failed (st_brkr s)); cbn [fst snd st_brkr]; [lra|].
  unfold debit.
  destruct (fltb (b_cash (st_brkr s)) c); cbn [fst snd st_brkr]; [lra|].
  unfold worth, set_cash. cbn [b_cash b_holdings fsub RNum]. lra.
Qed.

(* the Uist exchange fills at the quoted price: with ask = bid = price(symbol) on every quote of the
   row, every trade of a tick is valued price x quantity *)
Lemma lookup_in {Q} (qs : quotes Q) k q : lookup qs k = Some q -> In (k, q) qs.
Proof.
  induction qs as [|[k' q'] qs IH]; cbn [lookup]; [discriminate|].
  destruct (String.eqb k k') eqn:E.
  - apply String.eqb_eq in E. subst k'. intros H; inversion H; subst. left; reflexivity.
  - intros H. right. apply IH. exact H.
Qed.

(* [Inv] is ExchangeProofs.Inv; the third hypothesis of the target statement is vacuous and unused *)
Lemma uist_fills_at_price price (x : uexch R) (row : quotes (quote R)) perm x' fl adm trig :
  ExchangeProofs.Inv x -> (forall k q, In (k, q) row -> q_ask q = price k /\ q_bid q = price k) ->
  (forall e, In e (book x) -> True) ->
  uist_tick x row perm = (x', OutTick fl adm trig) ->
  forall i t, In (i, t) fl -> t_value t = price (t_symbol t) * t_quantity t.
Proof.
  intros HI Hrow _ Ht i t Hin.
  destruct (uist_tick_spec x row perm x' fl adm trig HI Ht) as (Hfl & _).
  subst fl. apply in_flat_map in Hin. destruct Hin as (e & _ & Hin).
  unfold utrade in Hin.
  destruct (lookup row (uo_symbol (e_ord e))) as [q|] eqn:Hl; [|contradiction].
  destruct (uist_fires (e_ord e) q); [|contradiction].
  destruct Hin as [Hin|[]]. inversion Hin; subst i t; clear Hin.
  destruct (Hrow _ _ (lookup_in _ _ _ Hl)) as [Ha Hb].
  destruct (uist_trade_fields (e_ord e) q) as (Hs & Hq & _ & Hbuy & Hsell).
  rewrite Hs, Hq.
  destruct (otype_is_sell (uo_type (e_ord e))) eqn:E.
  - destruct (Hsell eq_refl) as [_ ->]. rewrite Hb. reflexivity.
  - destruct (Hbuy eq_refl) as [_ ->]. rewrite Ha. reflexivity.
Qed.

End AtR.
