(* EndToEnd04.v — the broker's books against the EXCHANGE'S OWN trade log, end to end over the composition
   broker + eager client + Uist server + Uist exchange (Model/BrokerSys.v, bs_run) at F := R, clean:
   (L1) the broker's trade log IS the trade log of its backtest's exchange (same trades, execution order);
   (L2) holdings(s) = signed quantity of the exchange's logged trades of s, no zero entry, keys unique;
   (L3) cash = initial cash + accepted deposits - successful withdrawals - buys + sells of the exchange's log.
   Every operation's broker half is a [bstep] of Model/Broker.v with the response supplied by the server
   ([bs_step_is_bstep]); the step laws of the broker are lifted through it.
   Everything is first proved for EVERY quirk setting qk (the server half of this composition does not
   depend on qk at all; of the broker's defects only q_liq_fail_debit moves any of log / holdings / cash:
   a failed liquidation request not exceeding cash is debited — [bs_forced]); the `clean` theorems and the
   "code as it is" cash law (clean except q_liq_fail_debit) are instances. *)
From Coq Require Import ZArith NArith List Bool String Reals Lra Lia Permutation.
From Flocq Require Import Raux.
From Alator Require Import Model.Num Model.Quirks Model.Cost Model.Exchange Model.Uist Model.Server
  Model.Broker Model.Perf Model.Strategy Model.BrokerSys
  Proofs.ServerProofs Proofs.BrokerLedgerProofs Proofs.BrokerLiqProofs Proofs.UistProofs
  Proofs.ExchangeProofs Proofs.ExchangeCorollaries Proofs.StrategyProofs Proofs.EndToEnd16
  Proofs.EndToEnd05.
Import ListNotations.

Section EndToEnd04.
Local Existing Instance RNum.
Local Open Scope R_scope.

Notation utick1 := (bt_tick (X:=uexch R) (Row:=quotes (quote R)) (TOut:=utout) ux_tick ([], []) clean false).
Notation sumL := BrokerLedgerProofs.sumR.

(* ---------------- definitions ---------------- *)
(* the exchange of the broker's backtest *)
Definition bs_exch (y : bsys R) : option (uexch R) :=
  option_map (@bt_exch (uexch R)) (nlookup (backtests (bs_app y)) (bs_id y)).
(* its trade log: "the trades the exchange has executed for it" *)
Definition bs_xlog (y : bsys R) : list (trade R) :=
  match bs_exch y with Some x => xlog x | None => [] end.

(* the operation of Model/Broker.v that the broker performs at one step of the composition: a check is
   handed what the client's tick + fetch_quotes returned *)
Definition bs_bop (y : bsys R) (o : bsop R) : bop R :=
  match o with
  | BSDeposit c => OpDeposit c
  | BSWithdraw c => OpWithdraw c
  | BSLiq c ord => OpLiq c ord
  | BSSend x => OpSend x
  | BSCheck perm ord => OpCheck (snd (fst (check_resp clean (bs_app y) (bs_id y) perm))) ord
  end.

(* external cash flows, read off the broker's own events *)
Definition bs_dep (y : bsys R) (o : bsop R) : R :=       (* accepted deposit *)
  match o with
  | BSDeposit c => match snd (deposit_cash (bs_brkr y) c) with DepositSuccess x => x | _ => 0 end
  | _ => 0
  end.
Definition bs_wd (y : bsys R) (o : bsop R) : R :=        (* successful plain withdrawal *)
  match o with
  | BSWithdraw c => match snd (withdraw_cash (bs_brkr y) c) with WithdrawSuccess x => x | _ => 0 end
  | _ => 0
  end.
(* the defect q_liq_fail_debit: a liquidation request that FAILS is nevertheless debited when it does not
   exceed cash (nothing under `clean`) *)
Definition bs_forced (qk : quirks) (y : bsys R) (o : bsop R) : R :=
  match o with
  | BSLiq c ord =>
      match withdraw_cash_with_liquidation qk (bs_brkr y) c ord with
      | Ok (_, WithdrawFailure x, _) =>
          if q_liq_fail_debit qk then (if Rlt_bool (b_cash (bs_brkr y)) x then 0 else x) else 0
      | _ => 0
      end
  | _ => 0
  end.
(* totals over a history: the state is threaded through the operations *)
Fixpoint bs_total (f : bsys R -> bsop R -> R) (qk : quirks) (y : bsys R) (ops : list (bsop R)) : R :=
  match ops with
  | [] => 0
  | o :: r => f y o + match bs_step qk y o with Ok y1 => bs_total f qk y1 r | _ => 0 end
  end.
Definition bs_deposited := bs_total bs_dep.
Definition bs_withdrawn := bs_total bs_wd.
Definition bs_forced_debits (qk : quirks) := bs_total (bs_forced qk) qk.

Definition buy_value (t : trade R) : R := match t_side t with Buy => t_value t | Sell => 0 end.
Definition sell_value (t : trade R) : R := match t_side t with Buy => 0 | Sell => t_value t end.

Lemma signed_value_split ts : sumL signed_value ts = sumL sell_value ts - sumL buy_value ts.
Proof.
  induction ts as [|t ts IH]; [rewrite !BrokerLedgerProofs.sumR_nil; lra|].
  rewrite !BrokerLedgerProofs.sumR_cons, IH. unfold signed_value, sell_value, buy_value.
  destruct (t_side t); lra.
Qed.

(* the system half of the invariant: the backtest of the broker, its dataset, its clock, its exchange *)
Definition bs_sys (y : bsys R) (b : backtest (uexch R)) (d : dataset (quotes (quote R))) (k : nat) : Prop :=
  SInv (bs_app y) /\
  nlookup (backtests (bs_app y)) (bs_id y) = Some b /\
  slookup (datasets (bs_app y)) (bt_dataset b) = Some d /\
  clock_ok d b k /\ rows_total d /\ ExchangeProofs.Inv (bt_exch b).

Lemma bs_xlog_eq (y : bsys R) b :
  nlookup (backtests (bs_app y)) (bs_id y) = Some b -> bs_xlog y = xlog (bt_exch b).
Proof. intros H. unfold bs_xlog, bs_exch. rewrite H. reflexivity. Qed.

(* ---------------- the server half does not depend on the quirks ---------------- *)
Lemma forward_any qk (a : uapp (F:=R)) id fw : forward qk a id fw = forward clean a id fw.
Proof. reflexivity. Qed.

Lemma check_resp_any qk (a : uapp (F:=R)) id perm : check_resp qk a id perm = check_resp clean a id perm.
Proof. reflexivity. Qed.

(* ---------------- the broker half of a step is a bstep ---------------- *)
Lemma bs_step_is_bstep qk (y : bsys R) o y' :
  bs_step qk y o = Ok y' ->
  exists ev fw, bstep qk (bs_brkr y) (bs_bop y o) = Ok (bs_brkr y', ev, fw).
Proof.
  intros H. destruct o as [c|c|c ord|x|perm ord]; cbn [bs_step bs_bop bstep] in *.
  - inversion H; subst y'; clear H. cbn [bs_brkr].
    destruct (deposit_cash (bs_brkr y) c) as [b' e]. cbn [fst]. eauto.
  - inversion H; subst y'; clear H. cbn [bs_brkr].
    destruct (withdraw_cash (bs_brkr y) c) as [b' e]. cbn [fst]. eauto.
  - destruct (withdraw_cash_with_liquidation qk (bs_brkr y) c ord) as [[[b' e] fw]|s|];
      cbn [bind] in *; try discriminate.
    inversion H; subst y'. cbn [bs_brkr]. eauto.
  - destruct (send_order qk (bs_brkr y) x) as [[[b' e] fw]|s|]; cbn [bind] in *; try discriminate.
    inversion H; subst y'. cbn [bs_brkr]. eauto.
  - rewrite check_resp_any in H.
    destruct (check_resp clean (bs_app y) (bs_id y) perm) as [[a2 resp] p]. cbn [fst snd].
    destruct p; [discriminate|].
    destruct (check qk (bs_brkr y) resp ord) as [[b' fw]|s|]; cbn [bind] in *; try discriminate.
    inversion H; subst y'. cbn [bs_brkr]. eauto.
Qed.

(* ---------------- what one bstep does to log, cash and holdings, for every qk ---------------- *)
Lemma book_trades_holdings_only ts : forall b : broker R,
  keys_nodup (b_holdings b) ->
  keys_nodup (b_holdings (fold_left book_trade ts b)) /\
  (no_zero (b_holdings b) -> no_zero (b_holdings (fold_left book_trade ts b))) /\
  forall s, hget (b_holdings (fold_left book_trade ts b)) s = hget (b_holdings b) s + sumL (signed_qty s) ts.
Proof.
  induction ts as [|t ts IH]; intros b Hh; cbn [fold_left].
  - split; [exact Hh|]. split; [exact (fun H => H)|]. intros s. rewrite BrokerLedgerProofs.sumR_nil. lra.
  - assert (Hh1 : keys_nodup (b_holdings (book_trade b t))).
    { rewrite book_trade_holdings_eq. apply supd_nodup. exact Hh. }
    destruct (IH _ Hh1) as (H1 & H2 & H3). split; [exact H1|]. split.
    + intros Hz. apply H2. rewrite book_trade_holdings_eq. apply supd_no_zero. exact Hz.
    + intros s. rewrite H3, book_trade_holdings, BrokerLedgerProofs.sumR_cons by exact Hh. lra.
Qed.

(* the forced debit of a failed liquidation, on the broker alone *)
Definition liq_forced (qk : quirks) (b : broker R) (c : R) : R :=
  if q_liq_fail_debit qk then (if Rlt_bool (b_cash b) c then 0 else c) else 0.

Lemma liq_failure_cash qk (b : broker R) c : b_cash (liq_failure qk b c) = b_cash b - liq_forced qk b c.
Proof.
  unfold liq_failure, liq_forced, debit. destruct (q_liq_fail_debit qk); [|lra].
  cbn [fltb fsub RNum]. destruct (Rlt_bool (b_cash b) c); cbn [fst set_cash b_cash]; lra.
Qed.

Lemma liq_any qk (b : broker R) c ord b' ev fw :
  withdraw_cash_with_liquidation qk b c ord = Ok (b', ev, fw) ->
  b_holdings b' = b_holdings b /\ b_log b' = b_log b /\
  b_cash b' = b_cash b - match ev with WithdrawFailure x => liq_forced qk b x | _ => 0 end.
Proof.
  intros H. apply liq_shape in H. destruct H as [(-> & -> & _)|(sells & evs & Hs & ->)].
  - destruct (liq_failure_frame qk b c) as (Hh & _ & Hl & _).
    split; [exact Hh|]. split; [exact Hl|]. apply liq_failure_cash.
  - apply send_orders_cash in Hs. destruct Hs as (Hc & Hh & Hl & _).
    split; [exact Hh|]. split; [exact Hl|]. rewrite Hc. lra.
Qed.

(* rebalance_cash asks for more than the (negative) cash: its failure exit can never debit *)
Lemma rebalance_any qk (b : broker R) ord b' fw :
  rebalance_cash qk b ord = Ok (b', fw) ->
  b_cash b' = b_cash b /\ b_holdings b' = b_holdings b /\ b_log b' = b_log b.
Proof.
  unfold rebalance_cash. cbn [fltb fzero fmul fneg fone fadd fofZ RNum].
  destruct (Rlt_bool_spec (b_cash b) 0) as [Hneg|Hneg]; [|intros H; inversion H; subst; auto].
  set (pb := b_cash b * - (1) + 1000).
  destruct (withdraw_cash_with_liquidation qk b pb ord) as [[[b1 ev] fw1]|s|] eqn:Hw;
    cbn [bind]; try discriminate.
  intros H. destruct (liq_any qk b pb ord b1 ev fw1 Hw) as (Hh & Hl & Hc).
  assert (Hc1 : b_cash b1 = b_cash b).
  { rewrite Hc. destruct ev as [x|x|x|x]; try lra.
    apply liq_shape in Hw. destruct Hw as [(_ & Hev & _)|(_ & _ & _ & Hev)]; [|discriminate].
    inversion Hev; subst x. unfold liq_forced. destruct (q_liq_fail_debit qk); [|lra].
    rewrite (Rlt_bool_true (b_cash b) pb) by (unfold pb; lra). lra. }
  destruct ev; inversion H; subst; cbn [set_failed b_cash b_holdings b_log]; auto.
Qed.

Lemma check_any qk (b : broker R) resp ord b' fw :
  check qk b resp ord = Ok (b', fw) ->
  b_cash b' = b_cash (booked b resp) /\ b_holdings b' = b_holdings (booked b resp) /\
  b_log b' = b_log (booked b resp).
Proof.
  intros H. apply check_shape in H. destruct H as [(-> & _)|H]; [auto|].
  now apply rebalance_any in H.
Qed.

Definition bop_forced (qk : quirks) (b : broker R) (o : bop R) : R :=
  match o with
  | OpLiq c ord =>
      match withdraw_cash_with_liquidation qk b c ord with
      | Ok (_, WithdrawFailure x, _) => liq_forced qk b x
      | _ => 0
      end
  | _ => 0
  end.

Lemma bstep_books qk (b : broker R) o b' ev fw :
  bstep qk b o = Ok (b', ev, fw) ->
  b_log b' = b_log b ++ trades_of o /\
  b_cash b' = b_cash b + ledger_delta b o - bop_forced qk b o /\
  (keys_nodup (b_holdings b) ->
   keys_nodup (b_holdings b') /\ (no_zero (b_holdings b) -> no_zero (b_holdings b')) /\
   forall s, hget (b_holdings b') s = hget (b_holdings b) s + sumL (signed_qty s) (trades_of o)).
Proof.
  intros H.
  assert (Hsame : forall b0 : broker R, b_holdings b0 = b_holdings b -> keys_nodup (b_holdings b) ->
            keys_nodup (b_holdings b0) /\ (no_zero (b_holdings b) -> no_zero (b_holdings b0)) /\
            forall s, hget (b_holdings b0) s = hget (b_holdings b) s + sumL (signed_qty s) []).
  { intros b0 -> Hh. split; [exact Hh|]. split; [exact (fun Hz => Hz)|].
    intros s. rewrite BrokerLedgerProofs.sumR_nil. lra. }
  destruct o as [c|c|c ord|x|resp ord]; cbn [trades_of ledger_delta bop_forced].
  - apply bstep_deposit in H. destruct H as (-> & _ & _).
    destruct (deposit_frame b c) as (Hh & _ & Hl & _).
    split; [rewrite Hl, app_nil_r; reflexivity|]. split; [|exact (Hsame _ Hh)].
    unfold deposit_cash. destruct (b_failed b); cbn [fst credit set_cash b_cash fadd RNum]; lra.
  - apply bstep_withdraw in H. destruct H as (-> & _ & _).
    destruct (withdraw_frame b c) as (Hh & _ & Hl & _).
    split; [rewrite Hl, app_nil_r; reflexivity|]. split; [|exact (Hsame _ Hh)].
    unfold withdraw_cash, debit. destruct (b_failed b); cbn [fst]; [lra|].
    cbn [fltb fsub RNum]. destruct (Rlt_bool (b_cash b) c); cbn [fst set_cash b_cash]; lra.
  - apply bstep_liq in H. destruct H as (e & H & _). rewrite H.
    destruct (liq_any qk b c ord b' e fw H) as (Hh & Hl & Hc).
    split; [rewrite Hl, app_nil_r; reflexivity|]. split; [|exact (Hsame _ Hh)].
    rewrite Hc. destruct e; lra.
  - apply bstep_send in H. destruct H as (e & H & _). apply send_order_cases in H.
    assert (E : b_cash b' = b_cash b /\ b_holdings b' = b_holdings b /\ b_log b' = b_log b)
      by (destruct H as [(_ & -> & _)|(_ & -> & _)]; repeat split; reflexivity).
    destruct E as (Hc & Hh & Hl).
    split; [rewrite Hl, app_nil_r; reflexivity|]. split; [lra | exact (Hsame _ Hh)].
  - apply bstep_check in H. destruct H as (H & _). apply check_any in H.
    destruct H as (Hc & Hh & Hl). rewrite Hc, Hh, Hl.
    destruct resp as [[ts row]|]; cbn [booked trades_of].
    + split; [rewrite book_trades_log; reflexivity|]. split.
      * rewrite book_trades_cash, cash_after_trades_sum. cbn [update_quotes b_cash]. lra.
      * exact (book_trades_holdings_only ts (update_quotes b row)).
    + split; [rewrite app_nil_r; reflexivity|]. split; [lra | exact (Hsame _ eq_refl)].
Qed.

(* the ledger delta of Proofs/BrokerLedgerProofs.v, split into external flows and trades *)
Lemma ledger_delta_split qk (y : bsys R) o :
  ledger_delta (bs_brkr y) (bs_bop y o) - bop_forced qk (bs_brkr y) (bs_bop y o) =
  bs_dep y o - bs_wd y o - bs_forced qk y o + sumL signed_value (trades_of (bs_bop y o)).
Proof.
  destruct o as [c|c|c ord|x|perm ord];
    cbn [bs_bop ledger_delta bop_forced bs_dep bs_wd bs_forced trades_of];
    rewrite ?BrokerLedgerProofs.sumR_nil.
  - unfold deposit_cash. destruct (b_failed (bs_brkr y)); cbn [snd]; lra.
  - unfold withdraw_cash. destruct (b_failed (bs_brkr y)); cbn [snd]; [lra|].
    cbn [fltb RNum]. destruct (Rlt_bool (b_cash (bs_brkr y)) c); cbn [snd]; lra.
  - unfold liq_forced.
    destruct (withdraw_cash_with_liquidation qk (bs_brkr y) c ord) as [[[b' [x|x|x|x]] fw]|s|]; lra.
  - lra.
  - destruct (snd (fst (check_resp clean (bs_app y) (bs_id y) perm))) as [[ts row]|];
      rewrite ?BrokerLedgerProofs.sumR_nil; lra.
Qed.

(* ---------------- the server side ---------------- *)
(* what the client calls of one check() returned, computed *)
Lemma check_resp_spec (a : uapp (F:=R)) id perm b d k :
  nlookup (backtests a) id = Some b -> slookup (datasets a) (bt_dataset b) = Some d -> clock_ok d b k ->
  check_resp clean a id perm =
  match utick1 d b perm with
  | None => (a, None, true)
  | Some (b1, (hn, (trades, adm))) =>
      (with_backtest a id b1,
       match get_quotes d (bt_date b1) with Some row => Some (trades, row) | None => None end,
       false)
  end.
Proof.
  intros Hb Hd Hc. unfold check_resp. rewrite (us_tick _ _ _ _ perm Hb Hd).
  destruct (utick1 d b perm) as [[b1 [hn [trades adm]]]|] eqn:Ht.
  - cbv beta iota.
    destruct (tick1_spec _ _ _ d b perm b1 hn (trades, adm) k Hc Ht) as (_ & _ & Hds1 & _).
    set (a1 := with_backtest a id b1).
    assert (Hb1 : nlookup (backtests a1) id = Some b1).
    { unfold a1, with_backtest. cbn [backtests]. apply nlookup_upsert_same. }
    assert (Hd1 : slookup (datasets a1) (bt_dataset b1) = Some d).
    { unfold a1, with_backtest. cbn [datasets]. rewrite Hds1. exact Hd. }
    rewrite (us_fetch a1 _ _ _ Hb1 Hd1). cbv beta iota.
    destruct (get_quotes d (bt_date b1)); reflexivity.
  - cbv beta iota. rewrite (us_fetch a _ _ _ Hb Hd). reflexivity.
Qed.

(* a tick appends exactly its trades to the exchange's log *)
Lemma ux_tick_xlog (x : uexch R) row perm x' trades adm :
  ux_tick x row perm = Some (x', (trades, adm)) -> xlog x' = xlog x ++ trades.
Proof.
  intros H. unfold ux_tick in H.
  destruct (uist_tick x row perm) as [x1 o] eqn:Ht.
  destruct o as [|fl adm1 trig| |]; try discriminate.
  inversion H; subst x1 trades adm1; clear H.
  unfold uist_tick in Ht. apply tick_unfold in Ht.
  destruct Ht as (sorted & _ & _ & Hrest). cbv zeta in Hrest.
  destruct Hrest as (_ & _ & _ & ->). reflexivity.
Qed.

(* forwarding orders never touches the exchange's log *)
Lemma forward_xlog os : forall (a : uapp (F:=R)) id b,
  nlookup (backtests a) id = Some b ->
  exists b', nlookup (backtests (forward clean a id os)) id = Some b' /\
             xlog (bt_exch b') = xlog (bt_exch b).
Proof.
  induction os as [|o os IH]; intros a id b Hb; rewrite forward_unfold; cbn [fold_left].
  - exists b. split; [exact Hb | reflexivity].
  - set (b1 := mkBacktest (bt_date b) (bt_pos b) (ux_insert (bt_exch b) o) (bt_dataset b)).
    assert (E : fst (usstep clean a (SInsert o id)) = with_backtest a id b1).
    { unfold usstep. cbn [sstep]. rewrite Hb. reflexivity. }
    rewrite E, <- forward_unfold.
    assert (Hb1 : nlookup (backtests (with_backtest a id b1)) id = Some b1).
    { unfold with_backtest. cbn [backtests]. apply nlookup_upsert_same. }
    destruct (IH _ _ _ Hb1) as (b' & H1 & H2).
    exists b'. split; [exact H1|]. rewrite H2. reflexivity.
Qed.

Lemma forward_sys (br : broker R) (a : uapp (F:=R)) id fw b d k :
  bs_sys (mkBSys br a id) b d k ->
  forall br', exists b', bs_sys (mkBSys br' (forward clean a id fw) id) b' d k /\
                         xlog (bt_exch b') = xlog (bt_exch b).
Proof.
  intros (Hs & Hb & Hd & Hc & Hrt & HI) br'. cbn [bs_app bs_id] in *.
  destruct (forward_gen a id fw id Hs) as (_ & Hs' & Hds').
  destruct (forward_exch fw a id b Hb) as (b' & Hb' & Hpj & Hbk & Hn & _).
  destruct (forward_xlog fw a id b Hb) as (b'' & Hb'' & Hxl).
  rewrite Hb' in Hb''. inversion Hb''; subst b''; clear Hb''.
  assert (Hbd : bt_dataset b' = bt_dataset b) by (unfold bproj in Hpj; congruence).
  exists b'. split; [|exact Hxl].
  split; [exact Hs'|]. cbn [bs_app bs_id].
  split; [exact Hb'|]. split; [rewrite Hds', Hbd; exact Hd|].
  split; [exact (clock_ok_proj d b b' k Hpj Hc)|]. split; [exact Hrt|].
  exact (inv_same_book _ _ Hbk Hn HI).
Qed.

(* one operation of the composition: the system half stays well-formed, and the exchange's log grows by
   exactly the trades handed to the broker at that step *)
Lemma bs_step_sys qk (y : bsys R) o y' b d k :
  bs_sys y b d k -> bs_step qk y o = Ok y' ->
  exists b' k', bs_sys y' b' d k' /\
                xlog (bt_exch b') = xlog (bt_exch b) ++ trades_of (bs_bop y o).
Proof.
  intros Hsys H. pose proof Hsys as (Hs & Hb & Hd & Hc & Hrt & HI).
  destruct y as [br a id]. cbn [bs_app bs_id bs_brkr] in *.
  destruct o as [c|c|c ord|x|perm ord]; cbn [bs_bop trades_of bs_app bs_id bs_brkr].
  - cbn [bs_step bs_app bs_id bs_brkr] in H. inversion H; subst y'; clear H.
    exists b, k. split; [exact Hsys | rewrite app_nil_r; reflexivity].
  - cbn [bs_step bs_app bs_id bs_brkr] in H. inversion H; subst y'; clear H.
    exists b, k. split; [exact Hsys | rewrite app_nil_r; reflexivity].
  - cbn [bs_step bs_app bs_id bs_brkr] in H.
    destruct (withdraw_cash_with_liquidation qk br c ord) as [[[b' ev] fw]|e|];
      cbn [bind] in H; try discriminate.
    inversion H; subst y'; clear H. rewrite forward_any.
    destruct (forward_sys br a id fw b d k Hsys b') as (b2 & Hsys2 & Hxl).
    exists b2, k. split; [exact Hsys2 | rewrite app_nil_r; exact Hxl].
  - cbn [bs_step bs_app bs_id bs_brkr] in H.
    destruct (send_order qk br x) as [[[b' ev] fw]|e|]; cbn [bind] in H; try discriminate.
    inversion H; subst y'; clear H. rewrite forward_any.
    destruct (forward_sys br a id fw b d k Hsys b') as (b2 & Hsys2 & Hxl).
    exists b2, k. split; [exact Hsys2 | rewrite app_nil_r; exact Hxl].
  - cbn [bs_step bs_app bs_id bs_brkr] in H. rewrite check_resp_any in H.
    rewrite (check_resp_spec a id perm b d k Hb Hd Hc) in *.
    destruct (utick1 d b perm) as [[b1 [hn [trades adm]]]|] eqn:Ht; [|discriminate].
    cbv beta iota in H. cbn [fst snd].
    destruct (tick1_spec _ _ _ d b perm b1 hn (trades, adm) k Hc Ht) as (Hc1 & _ & Hds1 & Hx).
    destruct (clock_row d b k Hc Hrt) as (row0 & Hq0). rewrite Hq0 in Hx.
    destruct (clock_row d b1 (S k) Hc1 Hrt) as (row1 & Hq1). rewrite Hq1 in *.
    cbn [trades_of].
    match type of H with bind ?u _ = _ => destruct u as [[br' fw]|e|] end;
      cbn [bind] in H; try discriminate.
    inversion H; subst y'; clear H. rewrite forward_any.
    destruct (ux_tick_facts05 _ _ _ _ _ _ HI Hx) as (HI1 & _).
    pose proof (ux_tick_xlog _ _ _ _ _ _ Hx) as Hxl1.
    set (a1 := with_backtest a id b1).
    assert (Hsys1 : bs_sys (mkBSys br a1 id) b1 d (S k)).
    { split; [|cbn [bs_app bs_id]; split; [|split; [|split; [|split]]]].
      - unfold a1. apply sinv_with_backtest; [exact Hs|]. rewrite Hb. discriminate.
      - unfold a1, with_backtest. cbn [backtests]. apply nlookup_upsert_same.
      - unfold a1, with_backtest. cbn [datasets]. rewrite Hds1. exact Hd.
      - exact Hc1.
      - exact Hrt.
      - exact HI1. }
    destruct (forward_sys br a1 id fw b1 d (S k) Hsys1 br') as (b2 & Hsys2 & Hxl).
    exists b2, (S k). split; [exact Hsys2 | rewrite Hxl; exact Hxl1].
Qed.

(* ---------------- every history, every quirk setting ---------------- *)
(* the general form: whatever the two logs, the cash and the holdings were at the start, a history appends
   the SAME list of trades to the broker's log and to the exchange's log, and cash / holdings move by the
   external flows (and the forced debits of the defect) and by exactly those trades *)
Lemma bs_run_books qk : forall ops (y y' : bsys R) b d k,
  bs_sys y b d k -> bs_run qk y ops = Ok y' ->
  exists b' k' new,
    bs_sys y' b' d k' /\
    xlog (bt_exch b') = xlog (bt_exch b) ++ new /\
    b_log (bs_brkr y') = b_log (bs_brkr y) ++ new /\
    b_cash (bs_brkr y') =
      b_cash (bs_brkr y) + bs_deposited qk y ops - bs_withdrawn qk y ops - bs_forced_debits qk y ops
      + sumL signed_value new /\
    (keys_nodup (b_holdings (bs_brkr y)) ->
     keys_nodup (b_holdings (bs_brkr y')) /\
     (no_zero (b_holdings (bs_brkr y)) -> no_zero (b_holdings (bs_brkr y'))) /\
     forall s, hget (b_holdings (bs_brkr y')) s = hget (b_holdings (bs_brkr y)) s + sumL (signed_qty s) new).
Proof.
  unfold bs_deposited, bs_withdrawn, bs_forced_debits.
  induction ops as [|o r IH]; intros y y' b d k Hsys H; cbn [bs_run bs_total] in *.
  - inversion H; subst y'. exists b, k, []. rewrite !app_nil_r, BrokerLedgerProofs.sumR_nil.
    split; [exact Hsys|]. split; [reflexivity|]. split; [reflexivity|]. split; [lra|].
    intros Hh. split; [exact Hh|]. split; [exact (fun Hz => Hz)|].
    intros s. rewrite BrokerLedgerProofs.sumR_nil. lra.
  - destruct (bs_step qk y o) as [y1|e|] eqn:Hs; cbn [bind] in H; try discriminate.
    destruct (bs_step_sys qk y o y1 b d k Hsys Hs) as (b1 & k1 & Hsys1 & Hx1).
    destruct (bs_step_is_bstep qk y o y1 Hs) as (ev & fw & Hbs).
    destruct (bstep_books qk _ _ _ _ _ Hbs) as (Hl1 & Hc1 & Hh1).
    destruct (IH y1 y' b1 d k1 Hsys1 H) as (b' & k' & new & Hsys' & Hx & Hl & Hc & Hh).
    exists b', k', (trades_of (bs_bop y o) ++ new).
    split; [exact Hsys'|]. split; [rewrite Hx, Hx1, app_assoc; reflexivity|].
    split; [rewrite Hl, Hl1, app_assoc; reflexivity|]. split.
    + rewrite Hc, Hc1, BrokerLedgerProofs.sumR_app.
      pose proof (ledger_delta_split qk y o) as Hd. lra.
    + intros Hnd. destruct (Hh1 Hnd) as (Hnd1 & Hz1 & Hg1).
      destruct (Hh Hnd1) as (Hnd' & Hz' & Hg').
      split; [exact Hnd'|]. split; [exact (fun Hz => Hz' (Hz1 Hz))|].
      intros s. rewrite Hg', Hg1, BrokerLedgerProofs.sumR_app. lra.
Qed.

(* without the defect nothing is ever debited by force *)
Lemma bs_forced_debits_none qk : q_liq_fail_debit qk = false ->
  forall ops (y : bsys R), bs_forced_debits qk y ops = 0.
Proof.
  intros Hq. unfold bs_forced_debits. induction ops as [|o r IH]; intros y; cbn [bs_total]; [reflexivity|].
  assert (E : bs_forced qk y o = 0).
  { destruct o as [c|c|c ord|x|perm ord]; cbn [bs_forced]; try reflexivity. rewrite Hq.
    destruct (withdraw_cash_with_liquidation qk (bs_brkr y) c ord) as [[[b' [x|x|x|x]] fw]|s|]; reflexivity. }
  rewrite E. destruct (bs_step qk y o) as [y1|e|]; [rewrite IH|..]; lra.
Qed.

(* (L1), invariant form: equality of the two logs is preserved by every operation ... *)
Lemma c05_log_step qk (y : bsys R) o y' b d k :
  bs_sys y b d k -> b_log (bs_brkr y) = bs_xlog y -> bs_step qk y o = Ok y' ->
  (exists b' k', bs_sys y' b' d k') /\ b_log (bs_brkr y') = bs_xlog y'.
Proof.
  intros Hsys Heq H.
  assert (Hrun : bs_run qk y [o] = Ok y') by (cbn [bs_run]; rewrite H; reflexivity).
  destruct (bs_run_books qk [o] y y' b d k Hsys Hrun) as (b' & k' & new & Hsys' & Hx & Hl & _).
  split; [exists b', k'; exact Hsys'|].
  rewrite (bs_xlog_eq y' b' (proj1 (proj2 Hsys'))), Hx, Hl, Heq,
    (bs_xlog_eq y b (proj1 (proj2 Hsys))). reflexivity.
Qed.

(* ... hence by every history *)
Lemma c05_log_run qk (y : bsys R) ops y' b d k :
  bs_sys y b d k -> b_log (bs_brkr y) = bs_xlog y -> bs_run qk y ops = Ok y' ->
  (exists b' k', bs_sys y' b' d k') /\ b_log (bs_brkr y') = bs_xlog y'.
Proof.
  intros Hsys Heq Hrun.
  destruct (bs_run_books qk ops y y' b d k Hsys Hrun) as (b' & k' & new & Hsys' & Hx & Hl & _).
  split; [exists b', k'; exact Hsys'|].
  rewrite (bs_xlog_eq y' b' (proj1 (proj2 Hsys'))), Hx, Hl, Heq,
    (bs_xlog_eq y b (proj1 (proj2 Hsys))). reflexivity.
Qed.

Lemma bs_sys_fresh (a : uapp (F:=R)) id b d brk :
  SInv a -> nlookup (backtests a) id = Some b -> slookup (datasets a) (bt_dataset b) = Some d ->
  clock_ok d b 0 -> bt_exch b = exch_init -> rows_total d ->
  bs_sys (mkBSys brk a id) b d 0.
Proof.
  intros Hs Hb Hd Hc Hx Hrt. split; [exact Hs|]. cbn [bs_app bs_id].
  repeat (split; [assumption|]). rewrite Hx. apply inv_init.
Qed.

(* ---------------- from a fresh start, for every quirk setting ---------------- *)
Theorem c05_log_is_exchange_log_any :
  forall qk (a : uapp (F:=R)) id b d brk ops y',
    SInv a -> nlookup (backtests a) id = Some b -> slookup (datasets a) (bt_dataset b) = Some d ->
    clock_ok d b 0 -> bt_exch b = exch_init -> rows_total d -> b_log brk = [] ->
    bs_run qk (mkBSys brk a id) ops = Ok y' ->
    exists b', nlookup (backtests (bs_app y')) (bs_id y') = Some b' /\
               b_log (bs_brkr y') = xlog (bt_exch b').
Proof.
  intros qk a id b d brk ops y' Hs Hb Hd Hc Hx Hrt Hlog Hrun.
  destruct (bs_run_books qk ops _ y' b d 0%nat (bs_sys_fresh a id b d brk Hs Hb Hd Hc Hx Hrt) Hrun)
    as (b' & k' & new & Hsys' & Hxl & Hl & _).
  exists b'. split; [exact (proj1 (proj2 Hsys'))|].
  rewrite Hxl, Hl, Hx. cbn [bs_brkr exch_init xlog]. rewrite Hlog. reflexivity.
Qed.

Theorem c05_holdings_from_exchange_log_any :
  forall qk (a : uapp (F:=R)) id b d brk ops y',
    SInv a -> nlookup (backtests a) id = Some b -> slookup (datasets a) (bt_dataset b) = Some d ->
    clock_ok d b 0 -> bt_exch b = exch_init -> rows_total d -> b_holdings brk = [] ->
    bs_run qk (mkBSys brk a id) ops = Ok y' ->
    exists b', nlookup (backtests (bs_app y')) (bs_id y') = Some b' /\
      (forall s, hget (b_holdings (bs_brkr y')) s = sumL (signed_qty s) (xlog (bt_exch b'))) /\
      no_zero (b_holdings (bs_brkr y')) /\ keys_nodup (b_holdings (bs_brkr y')).
Proof.
  intros qk a id b d brk ops y' Hs Hb Hd Hc Hx Hrt Hh0 Hrun.
  destruct (bs_run_books qk ops _ y' b d 0%nat (bs_sys_fresh a id b d brk Hs Hb Hd Hc Hx Hrt) Hrun)
    as (b' & k' & new & Hsys' & Hxl & _ & _ & Hh).
  cbn [bs_brkr] in Hh. rewrite Hh0 in Hh.
  destruct (Hh (NoDup_nil _)) as (Hnd & Hz & Hg).
  exists b'. split; [exact (proj1 (proj2 Hsys'))|]. split; [|split; [apply Hz; constructor | exact Hnd]].
  intros s. rewrite Hg, Hxl, Hx. cbn [exch_init xlog Datatypes.app]. unfold hget. cbn [sget]. lra.
Qed.

Theorem c04_cash_from_exchange_log_any :
  forall qk (a : uapp (F:=R)) id b d brk ops y',
    SInv a -> nlookup (backtests a) id = Some b -> slookup (datasets a) (bt_dataset b) = Some d ->
    clock_ok d b 0 -> bt_exch b = exch_init -> rows_total d ->
    let y0 := mkBSys brk a id in
    bs_run qk y0 ops = Ok y' ->
    exists b', nlookup (backtests (bs_app y')) (bs_id y') = Some b' /\
      b_cash (bs_brkr y') =
        b_cash brk + bs_deposited qk y0 ops - bs_withdrawn qk y0 ops - bs_forced_debits qk y0 ops
        - sumL buy_value (xlog (bt_exch b')) + sumL sell_value (xlog (bt_exch b')).
Proof.
  intros qk a id b d brk ops y' Hs Hb Hd Hc Hx Hrt y0 Hrun.
  destruct (bs_run_books qk ops y0 y' b d 0%nat (bs_sys_fresh a id b d brk Hs Hb Hd Hc Hx Hrt) Hrun)
    as (b' & k' & new & Hsys' & Hxl & _ & Hcash & _).
  exists b'. split; [exact (proj1 (proj2 Hsys'))|].
  rewrite Hcash, Hxl, Hx. cbn [exch_init xlog Datatypes.app y0 bs_brkr].
  rewrite signed_value_split. lra.
Qed.

(* ---------------- (L1) the broker's trade log is the exchange's trade log ---------------- *)
Theorem c05_log_is_exchange_log :
  forall (a : uapp (F:=R)) id b d brk ops y',
    SInv a -> nlookup (backtests a) id = Some b -> slookup (datasets a) (bt_dataset b) = Some d ->
    clock_ok d b 0 -> bt_exch b = exch_init -> rows_total d -> b_log brk = [] ->
    bs_run clean (mkBSys brk a id) ops = Ok y' ->
    exists b', nlookup (backtests (bs_app y')) (bs_id y') = Some b' /\
               b_log (bs_brkr y') = xlog (bt_exch b').
Proof. exact (c05_log_is_exchange_log_any clean). Qed.

(* ---------------- (L2) holdings from the exchange's log ---------------- *)
Theorem c05_holdings_from_exchange_log :
  forall (a : uapp (F:=R)) id b d brk ops y',
    SInv a -> nlookup (backtests a) id = Some b -> slookup (datasets a) (bt_dataset b) = Some d ->
    clock_ok d b 0 -> bt_exch b = exch_init -> rows_total d -> b_holdings brk = [] ->
    bs_run clean (mkBSys brk a id) ops = Ok y' ->
    exists b', nlookup (backtests (bs_app y')) (bs_id y') = Some b' /\
      (forall s, hget (b_holdings (bs_brkr y')) s = sumL (signed_qty s) (xlog (bt_exch b'))) /\
      no_zero (b_holdings (bs_brkr y')) /\ keys_nodup (b_holdings (bs_brkr y')).
Proof. exact (c05_holdings_from_exchange_log_any clean). Qed.

(* ---------------- (L3) cash from the exchange's log ---------------- *)
Theorem c04_cash_from_exchange_log :
  forall (a : uapp (F:=R)) id b d brk ops y',
    SInv a -> nlookup (backtests a) id = Some b -> slookup (datasets a) (bt_dataset b) = Some d ->
    clock_ok d b 0 -> bt_exch b = exch_init -> rows_total d ->
    let y0 := mkBSys brk a id in
    bs_run clean y0 ops = Ok y' ->
    exists b', nlookup (backtests (bs_app y')) (bs_id y') = Some b' /\
      b_cash (bs_brkr y') =
        b_cash brk + bs_deposited clean y0 ops - bs_withdrawn clean y0 ops
        - sumL buy_value (xlog (bt_exch b')) + sumL sell_value (xlog (bt_exch b')).
Proof.
  intros a id b d brk ops y' Hs Hb Hd Hc Hx Hrt y0 Hrun.
  destruct (c04_cash_from_exchange_log_any clean a id b d brk ops y' Hs Hb Hd Hc Hx Hrt Hrun)
    as (b' & Hb' & Hcash).
  exists b'. split; [exact Hb'|]. rewrite Hcash.
  rewrite (bs_forced_debits_none clean eq_refl). fold y0. lra.
Qed.

(* the code as it is (clean except q_liq_fail_debit, BrokerLedgerProofs.liq_debit): the same ledger, less the
   failed liquidation requests that did not exceed cash *)
Theorem c04_cash_from_exchange_log_as_is :
  forall (a : uapp (F:=R)) id b d brk ops y',
    SInv a -> nlookup (backtests a) id = Some b -> slookup (datasets a) (bt_dataset b) = Some d ->
    clock_ok d b 0 -> bt_exch b = exch_init -> rows_total d ->
    let y0 := mkBSys brk a id in
    bs_run liq_debit y0 ops = Ok y' ->
    exists b', nlookup (backtests (bs_app y')) (bs_id y') = Some b' /\
      b_cash (bs_brkr y') =
        b_cash brk + bs_deposited liq_debit y0 ops - bs_withdrawn liq_debit y0 ops
        - bs_forced_debits liq_debit y0 ops
        - sumL buy_value (xlog (bt_exch b')) + sumL sell_value (xlog (bt_exch b')).
Proof. exact (c04_cash_from_exchange_log_any liq_debit). Qed.

End EndToEnd04.

Check bs_step_is_bstep.
Check bs_run_books.
Check c05_log_step.
Check c05_log_run.
Check c05_log_is_exchange_log.
Check c05_holdings_from_exchange_log.
Check c04_cash_from_exchange_log.
Check c04_cash_from_exchange_log_any.
Check c04_cash_from_exchange_log_as_is.
Print Assumptions c05_log_is_exchange_log.
Print Assumptions c05_holdings_from_exchange_log.
Print Assumptions c04_cash_from_exchange_log.
Print Assumptions c04_cash_from_exchange_log_as_is.
