(* C19 — the last-business-day schedule. Statements only; proofs in Proofs/. Every statement is for EVERY
   timestamp / day number in Z (no range bound): the two kernel-evaluated sweeps of Proofs/ScheduleSweep.v
   cover one full period of the Gregorian calendar (400 years = 146 097 days = 20 871 weeks) and
   Proofs/ScheduleProofs.v lifts them to all of Z by periodicity. *)
From Coq Require Import ZArith List Bool.
From Alator Require Import Model.Schedule Proofs.ScheduleSweep Proofs.ScheduleProofs.
Local Open Scope Z_scope.

(* The answer depends only on the calendar date, not on the time of day: every timestamp. *)
Theorem c19_date_only : forall t t' : Z,
  day_of_ts t = day_of_ts t' -> lbd_should_trade t = lbd_should_trade t'.
Proof. exact lbd_date_only. Qed.

(* For EVERY timestamp (before 1970 included: floor division) the schedule answers true iff the date is
   Monday–Friday and every later day of the same calendar month falls on a weekend. *)
Theorem c19_spec : forall t : Z,
  let d := day_of_ts t in
  lbd_should_trade t = true <->
  (is_weekend d = false /\
   forall k, 1 <= k <= days_in_month (year_of d) (month_of d) - dom_of d ->
             is_weekend (d + k) = true).
Proof.
  intros t d. rewrite (lbd_spec t). exact (spec_last_business_day_iff d).
Qed.

(* The calendar used on both sides is the proleptic Gregorian calendar on every day: day 0 is 1970-01-01 and
   each day's (year, month, day) is the successor — month lengths, leap years every 4th year except
   centuries not divisible by 400 — of the previous day's; every 146 097 days the same dates and weekdays
   recur 400 years on. *)
Theorem c19_calendar_epoch : civil_from_days 0 = (1970, 1, 1).
Proof. exact civil_epoch. Qed.

Theorem c19_calendar_next : forall d : Z, civil_from_days (d + 1) = next_ymd (civil_from_days d).
Proof. exact civil_next. Qed.

Theorem c19_calendar : forall d : Z,
  0 <= d -> civil_from_days d = Nat.iter (Z.to_nat d) next_ymd (1970, 1, 1).
Proof. exact civil_is_gregorian. Qed.

Theorem c19_calendar_period : forall d : Z,
  civil_from_days (d + cycle_days) = (let '(y, m, dd) := civil_from_days d in (y + 400, m, dd)) /\
  weekday_of (d + cycle_days) = weekday_of d.
Proof. intros d. split; [apply civil_shift | apply weekday_shift]. Qed.

Theorem c19_default_true : forall t : Z, default_should_trade t = true.
Proof. reflexivity. Qed.

(* Non-vacuity: 2021-09-30 17:00 (a Thursday, last weekday of the month), 2021-10-31 (a Sunday), and a
   pre-1970 timestamp that is not at midnight: Friday 1969-11-28 09:00 is a last business day. *)
Example c19_examples :
  lbd_should_trade 1633021200 = true /\ lbd_should_trade 1635670800 = false /\
  civil_from_days (day_of_ts 1633021200) = (2021, 9, 30) /\
  lbd_should_trade (-2905200) = true /\ civil_from_days (day_of_ts (-2905200)) = (1969, 11, 28).
Proof. vm_compute. repeat split. Qed.

Print Assumptions c19_date_only.
Print Assumptions c19_spec.
Print Assumptions c19_calendar_epoch.
Print Assumptions c19_calendar_next.
Print Assumptions c19_calendar.
Print Assumptions c19_calendar_period.
Print Assumptions c19_default_true.
