(* CostCheck.v — executable comparison of the Cost model with observations of the real code. *)
From Coq Require Import ZArith List Bool Floats.
From Alator Require Import Model.Num Model.Cost.
Import ListNotations.

Local Instance FN : Num float := FloatNum [].

Record cost_case := {
  cc_costs : list (cost float);
  cc_budget : float; cc_price : float; cc_is_buy : bool; cc_qty : float; cc_value : float;
  (* observed *)
  cc_net_budget : float; cc_net_price : float;
  cc_calcs : list float;
  cc_singles : list (float * float);
  cc_floor : float; cc_ceil : float;
}.

Fixpoint list_eqb {A} (e : A -> A -> bool) (l1 l2 : list A) : bool :=
  match l1, l2 with
  | [], [] => true
  | a :: l1', b :: l2' => e a b && list_eqb e l1' l2'
  | _, _ => false
  end.

Definition feq := float_obs_eqb.
Definition pair_feq (a b : float * float) : bool := feq (fst a) (fst b) && feq (snd a) (snd b).

Definition cost_case_ok (c : cost_case) : bool :=
  let r := trade_impact_total (cc_costs c) (cc_budget c) (cc_price c) (cc_is_buy c) in
  feq (fst r) (cc_net_budget c) && feq (snd r) (cc_net_price c)
  && list_eqb feq (map (fun k => cost_calc k (cc_qty c) (cc_value c)) (cc_costs c)) (cc_calcs c)
  && list_eqb pair_feq
       (map (fun k => trade_impact k (cc_budget c) (cc_price c) (cc_is_buy c)) (cc_costs c))
       (cc_singles c)
  && feq (ffloor (fdiv (fst r) (snd r))) (cc_floor c)
  && feq (fceil (fdiv (fst r) (snd r))) (cc_ceil c).
