(* C09, second sentence, END TO END over the composition broker + eager client + Uist server + Uist exchange (Model/BrokerSys.v), over ALL histories, for EVERY number type (closed under the global context unless marked [R]). `booked b resp` is the broker after update_quotes and book_trade of what tick + fetch_quotes returned; `app_ticked` the server after a check's tick. Statements only. *)
From Coq Require Import ZArith NArith List Bool String Permutation Sorted Reals Floats.
From Flocq Require Import Raux.
From Alator Require Import Model.Num Model.Quirks Model.Cost Model.Exchange Model.Uist Model.Server Model.Broker
  Model.Perf Model.Strategy Model.BrokerSys Proofs.ServerProofs Proofs.ExchangeProofs Proofs.BrokerLedgerProofs
  Proofs.BrokerLiqProofs Proofs.EndToEnd05 Proofs.EndToEnd04 Proofs.EndToEndExamples Proofs.EndToEnd0609.
Import ListNotations.
Local Open Scope list_scope.

(* Once Failed, Failed after every history of deposits, withdrawals, liquidation requests, orders and checks. *)
Theorem c09s_failed_forever :
  forall (F : Type) (NF : Num F) (qk : quirks) (ops : list (bsop F)) (y y' : bsys F),
         @b_failed F (@bs_brkr F y) = true ->
         @bs_run F NF qk y ops = @Ok (bsys F) y' -> @b_failed F (@bs_brkr F y') = true.
Proof. exact @c09s_failed_forever. Qed.

(* In Failed, a deposit, a withdrawal and an order each leave the WHOLE system unchanged — nothing reaches the exchange. *)
Theorem c09s_failed_refusals_inert :
  forall (F : Type) (NF : Num F) (qk : quirks) (y : bsys F),
         @b_failed F (@bs_brkr F y) = true ->
         (forall c : F, @bs_step F NF qk y (@BSDeposit F c) = @Ok (bsys F) y) /\
         (forall c : F, @bs_step F NF qk y (@BSWithdraw F c) = @Ok (bsys F) y) /\
         (forall o : uorder F, @bs_step F NF qk y (@BSSend F o) = @Ok (bsys F) y).
Proof. exact @c09s_failed_refusals_inert. Qed.

(* … and so does any history made of them. *)
Theorem c09s_failed_history :
  forall (F : Type) (NF : Num F) (qk : quirks) (y : bsys F) (ops : list (bsop F)),
         @b_failed F (@bs_brkr F y) = true ->
         @Forall (bsop F) (@refusable F) ops -> @bs_run F NF qk y ops = @Ok (bsys F) y.
Proof. exact @c09s_failed_history. Qed.

(* A liquidation request in Failed reaches the exchange with nothing either; the server is unchanged, and the broker too unless the recorded C04 finding (q_liq_fail_debit) debits the request. *)
Theorem c09s_failed_liquidation_inert :
  forall (F : Type) (NF : Num F) (qk : quirks) (y : bsys F) (c : F) 
           (ord : list string) (y' : bsys F),
         @b_failed F (@bs_brkr F y) = true ->
         @bs_step F NF qk y (@BSLiq F c ord) = @Ok (bsys F) y' ->
         @bs_app F y' = @bs_app F y /\
         @bs_id F y' = @bs_id F y /\
         (@bs_brkr F y' = @bs_brkr F y \/
          q_liq_fail_debit qk = true /\
          @bs_brkr F y' = @fst (broker F) (cash_event F) (@debit F NF (@bs_brkr F y) c)) /\
         (q_liq_fail_debit qk = false -> y' = y).
Proof. exact @c09s_failed_liquidation_inert. Qed.

(* Without that defect every history without a check leaves a Failed system unchanged. *)
Theorem c09s_failed_history_liq :
  forall (F : Type) (NF : Num F) (qk : quirks) (ops : list (bsop F)) (y y' : bsys F),
         q_liq_fail_debit qk = false ->
         @b_failed F (@bs_brkr F y) = true ->
         @Forall (bsop F) (@no_check F) ops -> @bs_run F NF qk y ops = @Ok (bsys F) y' -> y' = y.
Proof. exact @c09s_failed_history_liq. Qed.

(* In Failed a check() still reconciles: holdings, pending, log and quotes afterwards are those of booking exactly the trades and row that tick + fetch returned; the server is the one after tick + fetch — nothing was forwarded, although the rebalancing inside check ran. *)
Theorem c09s_failed_check_only_books_any :
  forall (F : Type) (NF : Num F) (qk : quirks) (y : bsys F) (perm : list nat)
           (ord : list string) (y' : bsys F),
         @b_failed F (@bs_brkr F y) = true ->
         @bs_step F NF qk y (@BSCheck F perm ord) = @Ok (bsys F) y' ->
         let r := @check_resp F NF qk (@bs_app F y) (@bs_id F y) perm in
         let bk :=
           @booked F NF (@bs_brkr F y)
             (@snd (@uapp F) (option (list (trade F) * list (string * quote F)))
                (@fst (@uapp F * option (list (trade F) * list (string * quote F))) bool r)) in
         @snd (@uapp F * option (list (trade F) * list (string * quote F))) bool r = false /\
         @bs_app F y' =
         @fst (@uapp F) (option (list (trade F) * list (string * quote F)))
           (@fst (@uapp F * option (list (trade F) * list (string * quote F))) bool r) /\
         @bs_id F y' = @bs_id F y /\
         @b_failed F (@bs_brkr F y') = true /\
         @b_holdings F (@bs_brkr F y') = @b_holdings F bk /\
         @b_pending F (@bs_brkr F y') = @b_pending F bk /\
         @b_log F (@bs_brkr F y') = @b_log F bk /\
         @b_quotes F (@bs_brkr F y') = @b_quotes F bk /\
         @b_costs F (@bs_brkr F y') = @b_costs F bk /\
         (@bs_brkr F y' = bk \/
          q_liq_fail_debit qk = true /\
          (@b_cash F bk <? @fzero F NF)%num = true /\
          @bs_brkr F y' =
          @fst (broker F) (cash_event F)
            (@debit F NF bk (@b_cash F bk * - @fone F NF + @fofZ F NF 1000)%num)) /\
         (q_liq_fail_debit qk = false ->
          y' =
          {|
            bs_brkr := bk;
            bs_app :=
              @fst (@uapp F) (option (list (trade F) * list (string * quote F)))
                (@fst (@uapp F * option (list (trade F) * list (string * quote F))) bool r);
            bs_id := @bs_id F y
          |}).
Proof. exact @c09s_failed_check_only_books_any. Qed.

(* The same with the exchange in view (no q_liq_fail_debit): the trades booked are the fills of the resting book against the clock date's row, appended to both logs; cash moves by exactly those trades; the buffer stays empty. *)
Theorem c09s_failed_check_only_books :
  forall (F : Type) (NF : Num F) (qk : quirks) (y : bsys F) (perm : list nat)
           (ord : list string) (y' : bsys F) (bt : backtest (uexch F))
           (d : dataset (quotes (quote F))) (row : quotes (quote F)),
         q_liq_fail_debit qk = false ->
         @b_failed F (@bs_brkr F y) = true ->
         @nlookup (backtest (uexch F)) (@backtests (uexch F) (quotes (quote F)) (@bs_app F y))
           (@bs_id F y) = @Some (backtest (uexch F)) bt ->
         @slookup (dataset (quotes (quote F)))
           (@datasets (uexch F) (quotes (quote F)) (@bs_app F y)) (@bt_dataset (uexch F) bt) =
         @Some (dataset (quotes (quote F))) d ->
         @get_quotes (quotes (quote F)) d (@bt_date (uexch F) bt) = @Some (quotes (quote F)) row ->
         @bs_step F NF qk y (@BSCheck F perm ord) = @Ok (bsys F) y' ->
         exists (bt1 : backtest (uexch F)) (hn : bool) (adm : list (N * uorder F)),
           let trades :=
             @map (N * trade F) (trade F) (@snd N (trade F))
               (@flat_map (entry (uorder F)) (N * trade F) (@ExchangeCorollaries.utrade F NF row)
                  (@book (uorder F) (trade F) (@bt_exch (uexch F) bt))) in
           let resp :=
             match @get_quotes (quotes (quote F)) d (@bt_date (uexch F) bt1) with
             | Some row1 => @Some (list (trade F) * quotes (quote F)) (trades, row1)
             | None => @None (list (trade F) * quotes (quote F))
             end in
           @bt_tick (uexch F) (quotes (quote F)) (@utout F) (@ux_tick F NF) (
             [], []) clean false d bt perm =
           @Some (backtest (uexch F) * (bool * (list (trade F) * list (N * uorder F))))
             (bt1, (hn, (trades, adm))) /\
           y' =
           {|
             bs_brkr := @booked F NF (@bs_brkr F y) resp;
             bs_app := @with_backtest (uexch F) (quotes (quote F)) (@bs_app F y) (@bs_id F y) bt1;
             bs_id := @bs_id F y
           |} /\
           @nlookup (backtest (uexch F)) (@backtests (uexch F) (quotes (quote F)) (@bs_app F y'))
             (@bs_id F y') = @Some (backtest (uexch F)) bt1 /\
           @buffer (uorder F) (trade F) (@bt_exch (uexch F) bt1) = [] /\
           @xlog (uorder F) (trade F) (@bt_exch (uexch F) bt1) =
           @xlog (uorder F) (trade F) (@bt_exch (uexch F) bt) ++ trades /\
           @b_failed F (@bs_brkr F y') = true /\
           (forall row1 : quotes (quote F),
            @get_quotes (quotes (quote F)) d (@bt_date (uexch F) bt1) =
            @Some (quotes (quote F)) row1 ->
            @bs_brkr F y' =
            @fold_left (broker F) (trade F) (@book_trade F NF) trades
              (@update_quotes F (@bs_brkr F y) row1) /\
            @b_cash F (@bs_brkr F y') = @cash_after_trades F NF (@b_cash F (@bs_brkr F y)) trades /\
            @b_log F (@bs_brkr F y') = @b_log F (@bs_brkr F y) ++ trades).
Proof. exact @c09s_failed_check_only_books. Qed.

(* [R] For the code as it is (q_liq_fail_debit on) nothing differs inside check(): the rebalancing's request exceeds the (negative) cash, so the guarded debit refuses it. *)
Theorem c09s_failed_check_only_books_as_is :
  forall (y : bsys R) (perm : list nat) (ord : list string) (y' : bsys R),
         @b_failed R (@bs_brkr R y) = true ->
         @bs_step R RNum liq_debit y (@BSCheck R perm ord) = @Ok (bsys R) y' ->
         let r := @check_resp R RNum liq_debit (@bs_app R y) (@bs_id R y) perm in
         y' =
         {|
           bs_brkr :=
             @booked R RNum (@bs_brkr R y)
               (@snd (@uapp R) (option (list (trade R) * list (string * quote R)))
                  (@fst (@uapp R * option (list (trade R) * list (string * quote R))) bool r));
           bs_app :=
             @fst (@uapp R) (option (list (trade R) * list (string * quote R)))
               (@fst (@uapp R * option (list (trade R) * list (string * quote R))) bool r);
           bs_id := @bs_id R y
         |}.
Proof. exact @c09s_failed_check_only_books_as_is. Qed.

(* ANY history from a Failed system: the server afterwards is the one obtained by the ticks of its checks alone — no order of this broker ever reaches the exchange again. *)
Theorem c09s_failed_nothing_reaches_exchange :
  forall (F : Type) (NF : Num F) (qk : quirks) (ops : list (bsop F)) (y y' : bsys F),
         @b_failed F (@bs_brkr F y) = true ->
         @bs_run F NF qk y ops = @Ok (bsys F) y' ->
         @b_failed F (@bs_brkr F y') = true /\
         @bs_id F y' = @bs_id F y /\
         @bs_app F y' =
         @fold_left (@uapp F) (bsop F) (@app_ticked F NF qk (@bs_id F y)) ops (@bs_app F y).
Proof. exact @c09s_failed_nothing_reaches_exchange. Qed.

(* Non-vacuity, kernel-evaluated at the IEEE instance: an almost-all-in buy, a price collapse, Failed with a buy still in flight; deposit / withdrawal / order change nothing bit for bit; the in-flight fill is still booked; when the price recovers the liquidation's sell is refused by the gate. *)
Theorem c09s_example :
  @bind (bsys float)
           (bool * float * smap float * smap float * nat * (list (otype * string) * nat * nat))
           (@bs_run float FNx clean fx_y0 fx_ops0)
           (fun y : bsys float =>
            @Ok
              (bool * float * smap float * smap float * nat * (list (otype * string) * nat * nat))
              (fx_obs y)) =
         @Ok
           (bool * float * list (string * float) * list (string * float) * nat *
            (list (otype * string) * nat * nat))
           (true, (-49)%float, [("ABC", 99%float)], [("BCD", 1%float)], 1,
            ([(MarketBuy, "BCD")], 0, 1)) /\
         @bind (bsys float) (bsys float) (@bs_run float FNx clean fx_y0 fx_ops0)
           (fun y : bsys float => @bs_run float FNx clean y fx_ops1) =
         @bs_run float FNx clean fx_y0 fx_ops0 /\
         @bind (bsys float)
           (bool * float * smap float * smap float * nat * (list (otype * string) * nat * nat))
           (@bs_run float FNx clean fx_y0
              (fx_ops0 ++ fx_ops1 ++ [@BSCheck float [] ["ABC"; "BCD"]]))
           (fun y : bsys float =>
            @Ok
              (bool * float * smap float * smap float * nat * (list (otype * string) * nat * nat))
              (fx_obs y)) =
         @Ok
           (bool * float * list (string * float) * list (string * float) * nat *
            (list (otype * string) * nat * nat))
           (true, (-59)%float, [("ABC", 99%float); ("BCD", 1%float)], [], 2, ([], 0, 2)) /\
         @bind (bsys float)
           (bool * float * smap float * smap float * nat * (list (otype * string) * nat * nat) *
            res (float * list (uorder float)))
           (@bs_run float FNx clean fx_y0
              (fx_ops0 ++
               fx_ops1 ++ [@BSCheck float [] ["ABC"; "BCD"]; @BSCheck float [] ["ABC"; "BCD"]]))
           (fun y : bsys float =>
            @Ok
              (bool * float * smap float * smap float * nat * (list (otype * string) * nat * nat) *
               res (float * list (uorder float)))
              (fx_obs y,
               @liq_loop float FNx clean (@bs_brkr float y) ["ABC"; "BCD"] 1059%float [])) =
         @Ok
           (bool * float * list (string * float) * list (string * float) * nat *
            (list (otype * string) * nat * nat) * res (float * list (uorder float)))
           (true, (-59)%float, [("ABC", 99%float); ("BCD", 1%float)], [], 2, (
            [], 0, 2), @Ok (float * list (uorder float)) (0%float, [fx_o MarketSell "ABC" 11])).
Proof. exact @c09s_observed_at_floats. Qed.

Print Assumptions c09s_failed_forever.
Print Assumptions c09s_failed_refusals_inert.
Print Assumptions c09s_failed_history.
Print Assumptions c09s_failed_liquidation_inert.
Print Assumptions c09s_failed_history_liq.
Print Assumptions c09s_failed_check_only_books_any.
Print Assumptions c09s_failed_check_only_books.
Print Assumptions c09s_failed_check_only_books_as_is.
Print Assumptions c09s_failed_nothing_reaches_exchange.
Print Assumptions c09s_example.
