(* C15 AT THE IEEE binary64 INSTANCE — the rounding gap of the [R] theorems closed for the drawdown scan. Statements only. `fin_pos x`: x is a finite, strictly positive binary64 value (Flocq's reading of Coq's primitive float); `fdd x p` is the drawdown of x from peak p EXACTLY as the code computes it, `x / p - 1.0` in binary64 with both roundings. Because correctly rounded division and subtraction are monotone, the scan's answer is the minimum of those float expressions over all i <= j, bit for bit — no real-number idealisation, overflow of v_j / v_i to +infinity included. Depends on the specification axioms the standard library declares for its primitive floats (FloatAxioms.*_spec) and on the classical real-number axioms (through Flocq). *)
From Coq Require Import ZArith NArith List Bool String Floats Reals.
From Flocq Require Import IEEE754.BinarySingleNaN IEEE754.PrimFloat.
From Alator Require Import Model.Num Model.Quirks Model.Broker Model.Perf Proofs.MaxddFloat.
Import ListNotations.

(* On any non-empty path of finite positive binary64 values the scan (the model instance that is compared bit-for-bit with the code) returns positions start <= end inside the path, the reported drawdown IS the float expression fdd v_end v_start, and it is <= fdd v_j v_i for every i <= j. *)
Theorem c15f_scan :
  forall (t : libm_table) (vs : list float) (m : float) (s e : nat),
         vs <> [] ->
         @Forall float fin_pos vs ->
         @maxdd float (FloatNum t) clean vs = (m, s, e) ->
         s <= e < @Datatypes.length float vs /\
         (exists a b : float,
            @nth_error float vs s = @Some float a /\
            @nth_error float vs e = @Some float b /\ m = fdd b a) /\
         (forall (i j : nat) (vi vj : float),
          i <= j ->
          @nth_error float vs i = @Some float vi ->
          @nth_error float vs j = @Some float vj -> (m <=? fdd vj vi)%float = true).
Proof. exact @maxdd_float_spec. Qed.

(* It lies between -1 and 0 (float comparisons) … *)
Theorem c15f_bounds :
  forall (t : libm_table) (vs : list float) (m : float) (s e : nat),
         vs <> [] ->
         @Forall float fin_pos vs ->
         @maxdd float (FloatNum t) clean vs = (m, s, e) ->
         (-1 <=? m)%float = true /\ (m <=? 0)%float = true.
Proof. exact @maxdd_float_bounds. Qed.

(* … and is exactly +0.0 when the path never falls. *)
Theorem c15f_monotone :
  forall (t : libm_table) (vs : list float) (m : float) (s e : nat),
         vs <> [] ->
         @Forall float fin_pos vs ->
         @maxdd float (FloatNum t) clean vs = (m, s, e) ->
         (forall (i j : nat) (vi vj : float),
          i <= j ->
          @nth_error float vs i = @Some float vi ->
          @nth_error float vs j = @Some float vj -> (vi <=? vj)%float = true) -> 
         m = 0%float.
Proof. exact @maxdd_float_monotone_zero. Qed.

(* Non-vacuity, kernel-evaluated: 100, 50, 200, 190 meets the premises and gives (-0.5, 0, 1). *)
Theorem c15f_example :
  forall t : libm_table,
         [100%float; 50%float; 200%float; 190%float] <> [] /\
         @Forall float fin_pos [100%float; 50%float; 200%float; 190%float] /\
         @maxdd float (FloatNum t) clean [100%float; 50%float; 200%float; 190%float] =
         ((-0.5)%float, 0, 1) /\ fdd 50 100 = (-0.5)%float.
Proof. exact @maxdd_float_witness. Qed.

Print Assumptions c15f_scan.
Print Assumptions c15f_bounds.
Print Assumptions c15f_monotone.
Print Assumptions c15f_example.
