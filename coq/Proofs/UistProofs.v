(* UistProofs.v — the concrete Uist decision (C02), for every Num F (no law of arithmetic used). *)
From Coq Require Import ZArith NArith List Bool String.
From Alator Require Import Model.Num Model.Exchange Model.Uist.
Import ListNotations.
Local Open Scope num_scope.

Section UistDecision.
Context {F : Type} {NF : Num F}.

(* The property's fill condition, written independently of the code: [le a b] is the instance's
   a <= b (IEEE: false when either side is NaN). *)
Definition le (a b : F) : Prop := fleb a b = true.

Inductive ShouldFill : otype -> option F -> quote F -> Prop :=
| SF_market_buy p q : ShouldFill MarketBuy p q
| SF_market_sell p q : ShouldFill MarketSell p q
| SF_limit_buy l q : le (q_ask q) l -> ShouldFill LimitBuy (Some l) q       (* ask <= limit *)
| SF_limit_sell l q : le l (q_bid q) -> ShouldFill LimitSell (Some l) q     (* bid >= limit *)
| SF_stop_buy l q : le l (q_ask q) -> ShouldFill StopBuy (Some l) q         (* ask >= stop *)
| SF_stop_sell l q : le (q_bid q) l -> ShouldFill StopSell (Some l) q.      (* bid <= stop *)

Definition well_formed (o : uorder F) : Prop :=
  match uo_type o with
  | MarketBuy | MarketSell => True
  | _ => exists l, uo_price o = Some l
  end.

Lemma uist_fires_iff (o : uorder F) (q : quote F) :
  well_formed o ->
  uist_fires o q = true <-> ShouldFill (uo_type o) (uo_price o) q.
Proof.
  unfold well_formed, uist_fires. destruct (uo_type o) eqn:Ht; intros Hwf.
  - split; [constructor|reflexivity].
  - split; [constructor|reflexivity].
  - destruct Hwf as [l ->]. cbn. split; [intros H; constructor; exact H|intros H; inversion H; subst; assumption].
  - destruct Hwf as [l ->]. cbn. split; [intros H; constructor; exact H|intros H; inversion H; subst; assumption].
  - destruct Hwf as [l ->]. cbn. split; [intros H; constructor; exact H|intros H; inversion H; subst; assumption].
  - destruct Hwf as [l ->]. cbn. split; [intros H; constructor; exact H|intros H; inversion H; subst; assumption].
Qed.

(* Buys fill at the ask, sells at the bid, for exactly the ordered quantity, value = price x
   quantity, dated by the quote. *)
Lemma uist_trade_fields (o : uorder F) (q : quote F) :
  let t := uist_trade o q in
  t_symbol t = uo_symbol o /\ t_quantity t = uo_shares o /\ t_date t = q_date q /\
  (otype_is_sell (uo_type o) = false -> t_side t = Buy /\ t_value t = q_ask q * uo_shares o) /\
  (otype_is_sell (uo_type o) = true -> t_side t = Sell /\ t_value t = q_bid q * uo_shares o).
Proof.
  unfold uist_trade. destruct (otype_is_sell (uo_type o)); cbn; repeat split; intros; try discriminate; reflexivity.
Qed.

(* the decision is Fill-or-Rest only: Uist never marks, expires, triggers or panics *)
Lemma uist_decide_cases (e : entry (uorder F)) (q : quote F) :
  (uist_fires (e_ord e) q = true /\ uist_decide e q = AFill (uist_trade (e_ord e) q)) \/
  (uist_fires (e_ord e) q = false /\ uist_decide e q = ARest).
Proof. unfold uist_decide. destruct (uist_fires (e_ord e) q); [left|right]; split; reflexivity. Qed.

(* a deserialised order with price = null: limit-sell / stop-buy always fire, limit-buy / stop-sell
   never do (Rust orders None below Some _) — outside the property's domain, recorded *)
Lemma uist_null_price (o : uorder F) (q : quote F) :
  uo_price o = None ->
  uist_fires o q = match uo_type o with
                   | MarketBuy | MarketSell | LimitSell | StopBuy => true
                   | LimitBuy | StopSell => false end.
Proof. intros H. unfold uist_fires. rewrite H. destruct (uo_type o); reflexivity. Qed.

End UistDecision.
