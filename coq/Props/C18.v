(* C18 — Jura: one-shot market orders, resting limits, triggers spawn a next-tick child. Statements only; for every Num F (IEEE instance included). *)
From Coq Require Import ZArith NArith List Bool String Permutation Sorted Floats.
From Alator Require Import Model.Num Model.Quirks Model.Exchange Model.Uist Model.Jura Model.Server
  Proofs.ListAux Proofs.ExchangeProofs Proofs.UistProofs Proofs.JuraProofs Proofs.ExchangeCorollaries
  Proofs.ServerProofs.
Import ListNotations.
Local Open Scope num_scope.
Local Existing Instance FNj.

(* IOC ('market') order, first quoted tick: buy fills at the ask iff ask <= limit x (1 + 0.1), sell at the bid iff bid >= limit x (1 - 0.1); otherwise it is marked as attempted. *)
Theorem c18_ioc_first_attempt :
  forall (F : Type) (NF : Num F) (id : N) (o : jorder F) (q : quote F) (price sz : F),
         jo_type o = JLimit Ioc ->
         jo_limit_px o = Some price ->
         jo_sz o = Some sz ->
         jura_decide clean {| e_id := id; e_ord := o; e_flag := false |} q =
         (if jo_is_buy o
          then
           if q_ask q <=? price * (fone + ftenth)
           then
            AFill
              {|
                f_coin := N_to_string (jo_asset o);
                f_oid := id;
                f_px := q_ask q;
                f_side_ask := true;
                f_sz := sz;
                f_time := q_date q
              |}
           else AMark
          else
           if price * (fone - ftenth) <=? q_bid q
           then
            AFill
              {|
                f_coin := N_to_string (jo_asset o);
                f_oid := id;
                f_px := q_bid q;
                f_side_ask := false;
                f_sz := sz;
                f_time := q_date q
              |}
           else AMark).
Proof. exact @ioc_first_attempt. Qed.

(* Once attempted, an IOC order is dropped at the next quoted tick: it can never fill later. *)
Theorem c18_ioc_after_attempt :
  forall (F : Type) (NF : Num F) (id : N) (o : jorder F) (q : quote F),
         jo_type o = JLimit Ioc ->
         jura_decide clean {| e_id := id; e_ord := o; e_flag := true |} q = AExpire.
Proof. exact @ioc_after_attempt. Qed.

(* A good-till-cancel limit rests until ask <= limit (buy) / bid >= limit (sell), then fills. *)
Theorem c18_gtc :
  forall (F : Type) (NF : Num F) (id : N) (o : jorder F) (fl : bool) 
           (q : quote F) (price sz : F),
         jo_type o = JLimit Gtc ->
         jo_limit_px o = Some price ->
         jo_sz o = Some sz ->
         jura_decide clean {| e_id := id; e_ord := o; e_flag := fl |} q =
         (if jo_is_buy o
          then
           if q_ask q <=? price
           then
            AFill
              {|
                f_coin := N_to_string (jo_asset o);
                f_oid := id;
                f_px := q_ask q;
                f_side_ask := true;
                f_sz := sz;
                f_time := q_date q
              |}
           else ARest
          else
           if price <=? q_bid q
           then
            AFill
              {|
                f_coin := N_to_string (jo_asset o);
                f_oid := id;
                f_px := q_bid q;
                f_side_ask := false;
                f_sz := sz;
                f_time := q_date q
              |}
           else ARest).
Proof. exact @gtc_decision. Qed.

(* A trigger order never fills itself (any quirk valuation). *)
Theorem c18_trigger_never_fills :
  forall (F : Type) (NF : Num F) (e : entry (jorder F)) (q : quote F) 
           (trig : F) (m : bool) (k : tpsl),
         jo_type (e_ord e) = JTrigger trig m k ->
         forall (qk : quirks) (t : fill F), jura_decide qk e q <> AFill t.
Proof. exact @trigger_never_fills. Qed.

(* Firing conditions (ShouldFire, written independently): SL buy ask >= trigger, SL sell bid <= trigger, TP buy ask <= trigger, TP sell bid >= trigger; firing yields a child that is IOC if is_market else GTC. *)
Theorem c18_trigger_decision :
  forall (F : Type) (NF : Num F) (e : entry (jorder F)) (q : quote F) 
           (trig : F) (m : bool) (k : tpsl),
         jo_type (e_ord e) = JTrigger trig m k ->
         ShouldFire (jo_is_buy (e_ord e)) k trig q /\
         jura_decide clean e q = ATrigger (trigger_child (e_ord e) (if m then Ioc else Gtc)) \/
         ~ ShouldFire (jo_is_buy (e_ord e)) k trig q /\ jura_decide clean e q = ARest.
Proof. exact @trigger_decision. Qed.

(* The child has the parent's asset, side, limit, size, reduce_only and cloid. *)
Theorem c18_trigger_child_fields :
  forall (F : Type) (o : jorder F) (t : tif),
         let c := trigger_child o t in
         jo_asset c = jo_asset o /\
         jo_is_buy c = jo_is_buy o /\
         jo_limit_px c = jo_limit_px o /\
         jo_sz c = jo_sz o /\
         jo_reduce_only c = jo_reduce_only o /\ jo_cloid c = jo_cloid o /\ jo_type c = JLimit t.
Proof. exact @trigger_child_fields. Qed.

(* Fills carry the order's id, asset, size and the quote's price and date. *)
Theorem c18_fill_fields :
  forall (F : Type) (NF : Num F) (e : entry (jorder F)) (q : quote F) 
           (qk : quirks) (f : fill F),
         jura_decide qk e q = AFill f ->
         f_oid f = e_id e /\
         f_coin f = N_to_string (jo_asset (e_ord e)) /\
         f_time f = q_date q /\
         jo_sz (e_ord e) = Some (f_sz f) /\
         (jo_is_buy (e_ord e) = true -> f_px f = q_ask q /\ f_side_ask f = true) /\
         (jo_is_buy (e_ord e) = false -> f_px f = q_bid q /\ f_side_ask f = false).
Proof. exact @fill_fields. Qed.

(* Through a whole tick: an untried IOC order on a tick quoting its asset either fills and leaves the book, or stays with the attempted flag set and no fill. *)
Theorem c18_ioc_lifecycle_first :
  forall (F : Type) (NF : Num F) (s : jexch F) (qs : quotes (quote F)) 
           (perm : list nat) (s' : jexch F) (fl : list (N * fill F)) 
           (adm : list (N * jorder F)) (trig : list N) (id : N) (o : jorder F) 
           (q : quote F) (price sz : F),
         Inv s ->
         jura_tick clean s qs perm = (s', OutTick fl adm trig) ->
         In {| e_id := id; e_ord := o; e_flag := false |} (book s) ->
         jo_type o = JLimit Ioc ->
         jo_limit_px o = Some price ->
         jo_sz o = Some sz ->
         lookup qs (N_to_string (jo_asset o)) = Some q ->
         let cond :=
           if jo_is_buy o
           then q_ask q <=? price * (fone + ftenth)
           else price * (fone - ftenth) <=? q_bid q in
         if cond
         then
          ~ In id (ids (book s')) /\
          In
            (id,
             {|
               f_coin := N_to_string (jo_asset o);
               f_oid := id;
               f_px := if jo_is_buy o then q_ask q else q_bid q;
               f_side_ask := jo_is_buy o;
               f_sz := sz;
               f_time := q_date q
             |}) fl
         else In {| e_id := id; e_ord := o; e_flag := true |} (book s') /\ ~ In id (map fst fl).
Proof. exact @ioc_lifecycle_first. Qed.

(* Through a whole tick: a tried IOC order leaves the book without a fill on the next tick quoting its asset. *)
Theorem c18_ioc_lifecycle_second :
  forall (F : Type) (NF : Num F) (s : jexch F) (qs : quotes (quote F)) 
           (perm : list nat) (s' : jexch F) (fl : list (N * fill F)) 
           (adm : list (N * jorder F)) (trig : list N) (id : N) (o : jorder F) 
           (q : quote F),
         Inv s ->
         jura_tick clean s qs perm = (s', OutTick fl adm trig) ->
         In {| e_id := id; e_ord := o; e_flag := true |} (book s) ->
         jo_type o = JLimit Ioc ->
         lookup qs (N_to_string (jo_asset o)) = Some q ->
         ~ In id (ids (book s')) /\ ~ In id (map fst fl).
Proof. exact @ioc_lifecycle_second. Qed.

(* Through a whole tick: a trigger order has no fill; when its condition holds it leaves the book and its child rests, unflagged, with a fresh id (>= the counter at tick entry, hence not fillable on this tick) announced in the tick's result; otherwise it keeps resting unchanged. *)
Theorem c18_trigger_lifecycle :
  forall (F : Type) (NF : Num F) (s : jexch F) (qs : quotes (quote F)) 
           (perm : list nat) (s' : jexch F) (fl : list (N * fill F)) 
           (adm : list (N * jorder F)) (trig : list N) (id : N) (o : jorder F) 
           (fl0 : bool) (q : quote F) (tp : F) (m : bool) (k : tpsl),
         Inv s ->
         jura_tick clean s qs perm = (s', OutTick fl adm trig) ->
         In {| e_id := id; e_ord := o; e_flag := fl0 |} (book s) ->
         jo_type o = JTrigger tp m k ->
         lookup qs (N_to_string (jo_asset o)) = Some q ->
         ~ In id (map fst fl) /\
         (ShouldFire (jo_is_buy o) k tp q /\
          ~ In id (ids (book s')) /\
          (exists j : N,
             In j trig /\
             (next_id s <= j)%N /\
             In
               {|
                 e_id := j; e_ord := trigger_child o (if m then Ioc else Gtc); e_flag := false
               |} (book s')) \/
          ~ ShouldFire (jo_is_buy o) k tp q /\
          In {| e_id := id; e_ord := o; e_flag := fl0 |} (book s')).
Proof. exact @trigger_lifecycle. Qed.

(* Recorded, outside the property: an Alo order makes a quoted tick panic (unimplemented!). *)
Theorem c18_alo_panics :
  forall (F : Type) (NF : Num F) (e : entry (jorder F)) (q : quote F) (qk : quirks),
         jo_type (e_ord e) = JLimit Alo -> jura_decide qk e q = APanic.
Proof. exact @alo_panics. Qed.

(* The statement is refuted for the code as it was, with both sell-side trigger comparisons reversed: witness evaluated by the kernel on the IEEE instance (stop-loss sell at 90 ignores a bid of 80, fires at 120). *)
Theorem c18_refuted_q_jura_sell_triggers_inverted :
  jura_decide inverted {| e_id := 0; e_ord := sl_sell_90; e_flag := false |} (q_at 80) =
         ARest /\
         jura_decide inverted {| e_id := 0; e_ord := sl_sell_90; e_flag := false |} (q_at 120) =
         ATrigger (trigger_child sl_sell_90 Ioc) /\
         jura_decide clean {| e_id := 0; e_ord := sl_sell_90; e_flag := false |} (q_at 80) =
         ATrigger (trigger_child sl_sell_90 Ioc) /\
         jura_decide clean {| e_id := 0; e_ord := sl_sell_90; e_flag := false |} (q_at 120) =
         ARest.
Proof. exact @c18_refuted_with_inverted_triggers. Qed.

(* What the defect does, in general. *)
Theorem c18_inverted_triggers_characterised :
  forall (F : Type) (NF : Num F) (e : entry (jorder F)) (q : quote F) 
           (trig : F) (m : bool) (k : tpsl),
         jo_type (e_ord e) = JTrigger trig m k ->
         jo_is_buy (e_ord e) = false ->
         jura_decide
           {|
             q_init_no_bump := false;
             q_jura_pos_stuck := false;
             q_jura_sell_triggers_inverted := true;
             q_send_dropped_future := false;
             q_limit_panics := false;
             q_liq_ceil_precedence := false;
             q_diff_break := false;
             q_diff_direction_flip := false;
             q_strategy_ncf_self_add := false;
             q_maxdd_last_positions := false;
             q_liq_fail_debit := false;
             q_jura_http_drops_triggered := false
           |} e q =
         (if match k with
             | Tp => q_bid q <=? trig
             | Sl => trig <=? q_bid q
             end
          then ATrigger (trigger_child (e_ord e) (if m then Ioc else Gtc))
          else ARest).
Proof. exact @inverted_triggers_differ. Qed.

Print Assumptions c18_ioc_first_attempt.
Print Assumptions c18_ioc_after_attempt.
Print Assumptions c18_gtc.
Print Assumptions c18_trigger_never_fills.
Print Assumptions c18_trigger_decision.
Print Assumptions c18_trigger_child_fields.
Print Assumptions c18_fill_fields.
Print Assumptions c18_ioc_lifecycle_first.
Print Assumptions c18_ioc_lifecycle_second.
Print Assumptions c18_trigger_lifecycle.
Print Assumptions c18_alo_panics.
Print Assumptions c18_refuted_q_jura_sell_triggers_inverted.
Print Assumptions c18_inverted_triggers_characterised.
