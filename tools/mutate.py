#!/usr/bin/env python3
"""tools/mutate.py — mutation sweep of the CHECKS (development aid, not part of any check).

Small syntactic mutants of the crates' sources (one token on one line) are generated from a seeded PRNG; a mutant that no
longer compiles or that the existing test suite kills is discarded (the task is about changes that still compile and pass
the suite); every remaining mutant is run against the quick checks of the properties anchored in the mutated file, in a
private replica of /verif + /repo (so /repo itself is never touched and several replicas can work in parallel).
Survivors are listed for triage: each is either an equivalent mutant / a behaviour no property speaks about, or a blind spot.

  tools/mutate.py gen N SEED            -> /tmp/mut/mutants.json
  tools/mutate.py replica K             -> builds /tmp/mut/rK/{verif,repo}
  tools/mutate.py work K OF             -> replica K handles mutants i with i % OF == K; appends to /tmp/mut/results.jsonl
  tools/mutate.py report
"""
import json
import os
import random
import re
import subprocess
import sys
import time

ROOT = "/tmp/mut"
FILES = {
    "rotala/src/exchange/uist_v1.rs": ["C02", "C03", "C17", "C01", "C06", "C20"],
    "rotala/src/exchange/jura_v1.rs": ["C18", "C03", "C17", "C01", "C20"],
    "rotala/src/http/uist.rs": ["C07", "C08", "C01", "C20", "C16"],
    "rotala/src/http/jura.rs": ["C07", "C08", "C01", "C20"],
    "rotala/src/input/penelope.rs": ["C07", "C01", "C16", "C11"],
    "example_clients/alator/src/broker/mod.rs": ["C04", "C06", "C09", "C10", "C11", "C12", "C13", "C19", "C05", "C16"],
    "example_clients/alator/src/broker/uist.rs": ["C05", "C04", "C06", "C11", "C09", "C13", "C16"],
    "example_clients/alator/src/perf/mod.rs": ["C14", "C15"],
    "example_clients/alator/src/schedule/mod.rs": ["C19"],
    "example_clients/alator/src/strategy/staticweight.rs": ["C16"],
}
FLAKY = "jura::tests::test_single_trade_loop"

SWAPS = [
    (r"<=", [">=", "<", "=="]), (r">=", ["<=", ">", "=="]), (r"(?<![-=<>])<(?![=<])", ["<=", ">"]),
    (r"(?<![-=<>])>(?![=>])", [">=", "<"]), (r"==", ["!="]), (r"!=", ["=="]),
    (r"&&", ["||"]), (r"\|\|", ["&&"]), (r"\+=", ["-="]), (r"-=", ["+="]), (r"\*=", ["/="]),
    (r"(?<=[\w)\]] )\+(?= [\w(&*-])", ["-", "*"]), (r"(?<=[\w)\]] )-(?= [\w(&*-])", ["+"]),
    (r"(?<=[\w)\]] )\*(?= [\w(&*-])", ["/", "+"]), (r"(?<=[\w)\]] )/(?= [\w(&*-])", ["*"]),
    (r"\btrue\b", ["false"]), (r"\bfalse\b", ["true"]), (r"\.ceil\(\)", [".floor()", ""]), (r"\.floor\(\)", [".ceil()", ""]),
    (r"\bcontinue\b", ["break"]), (r"\bbreak\b", ["continue"]), (r"push_back", ["push_front"]),
    (r"\bSome\((\w+)\)\s*=>", None), (r"\.unwrap_or\(&?0\.0\)", [".unwrap_or(&1.0)"]),
    (r"\b1000\.0\b", ["100.0", "1000.5"]), (r"\b0\.1\b", ["0.2", "0.0"]), (r"\b1\.0\b", ["0.0", "2.0"]), (r"\b0\.0\b", ["1.0"]),
    (r"\b(\d+)\b(?!\.)", "INT"), (r"\.min\(", [".max("]), (r"\.max\(", [".min("]), (r"\babs\(\)", ["neg()"]),
    (r"(?<=[ (])!(?=[a-zA-Z(])", [""]), (r"\.is_some\(\)", [".is_none()"]), (r"\.is_none\(\)", [".is_some()"]),
    (r"\.first\(\)", [".last()"]), (r"\.last\(\)", [".first()"]), (r"\+ 1\b", ["+ 2", "+ 0"]), (r"- 1\b", ["- 2", "- 0"]),
]


def code_lines(path):
    """(lineno, text) of lines that are code: outside #[cfg(test)] modules, not comments, not logging, not attributes"""
    out = []
    src = open(path).read().split("\n")
    in_tests = False
    for i, l in enumerate(src):
        s = l.strip()
        if s.startswith("#[cfg(test)]"):
            in_tests = True
        if in_tests:
            continue
        if not s or s.startswith("//") or s.startswith("#[") or s.startswith("use ") or s.startswith("///"):
            continue
        if re.search(r"\b(info|debug|warn|error|println|panic|unreachable|unimplemented|write)!", s):
            continue
        if "fmt::" in s or s.startswith("pub mod") or s.startswith("mod "):
            continue
        out.append((i, l))
    return out


def mutants_of_line(line):
    res = []
    body = line.split("//")[0]
    for pat, repls in SWAPS:
        for m in re.finditer(pat, body):
            # skip generics / arrows / references / lifetimes
            seg = body[max(0, m.start() - 2):m.end() + 2]
            if "->" in seg or "=>" in seg and pat not in (r"\bSome\((\w+)\)\s*=>",):
                continue
            if pat in (r"(?<![-=<>])<(?![=<])", r"(?<![-=<>])>(?![=>])") and re.search(r"(Vec|Option|HashMap|impl|Result|Into|Future|Box|dyn|fn |<f64>|<u64>|<i64>|::<|<T|<'|Data<|Json<|Path<|Mutex<|PhantomData|VecDeque)", body):
                continue
            if repls is None:
                continue
            if repls == "INT":
                n = int(m.group(1))
                if n > 100000 or re.search(r"[\w.]$", body[:m.start()]) or body[m.end():m.end() + 1] in (".", "_"):
                    continue
                rs = [str(n + 1)] + ([str(n - 1)] if n > 0 else [])
            else:
                rs = repls
            for r in rs:
                new = body[:m.start()] + r + body[m.end():]
                if new != body:
                    res.append((pat, new + (line[len(body):] if len(line) > len(body) else "")))
    return res


def gen(n, seed):
    rng = random.Random(seed)
    pool = []
    for f in FILES:
        for i, l in code_lines(os.path.join("/repo", f)):
            for pat, new in mutants_of_line(l):
                pool.append(dict(file=f, line=i, old=l, new=new, op=pat))
    rng.shuffle(pool)
    # at most 2 mutants per source line, spread over the files
    seen, out = {}, []
    for m in pool:
        k = (m["file"], m["line"])
        if seen.get(k, 0) >= 2:
            continue
        seen[k] = seen.get(k, 0) + 1
        out.append(m)
        if len(out) >= n:
            break
    os.makedirs(ROOT, exist_ok=True)
    json.dump(out, open(os.path.join(ROOT, "mutants.json"), "w"), indent=1)
    print("pool", len(pool), "selected", len(out))
    byf = {}
    for m in out:
        byf[m["file"]] = byf.get(m["file"], 0) + 1
    print(byf)


def sh(cmd, cwd=None, timeout=3000, env=None):
    p = subprocess.run(cmd, shell=True, cwd=cwd, stdout=subprocess.PIPE, stderr=subprocess.STDOUT, text=True,
                       timeout=timeout, env=env)
    return p.returncode, p.stdout


def replica(k):
    r = os.path.join(ROOT, "r%d" % k)
    os.makedirs(r, exist_ok=True)
    if not os.path.isdir(r + "/repo"):
        sh("git -C /repo worktree add --detach %s/repo HEAD" % r)
        sh("cp /repo/Cargo.lock %s/repo/" % r)
    sh("rsync -a --delete --exclude work --exclude harness/target --exclude .git --exclude seeded --exclude evidence /verif/ %s/verif/" % r)
    sh("mkdir -p %s/verif/evidence" % r)
    sh("sed -i 's#\"/repo/#\"%s/repo/#g' harness/Cargo.toml" % r, cwd=r + "/verif")
    sh("sed -i 's#^REPO = \"/repo\"#REPO = \"%s/repo\"#' driver/common.py" % r, cwd=r + "/verif")
    # the fingerprint belongs to the unchanged tree: drift (and the x4 scale) must be seen exactly as in /verif
    rc, out = sh("./setup.sh", cwd=r + "/verif", timeout=3000)
    print(out[-300:])
    rc, out = sh("CARGO_NET_OFFLINE=true CARGO_TARGET_DIR=%s/target_tests cargo test --workspace --offline --no-run" % r, cwd=r + "/repo")
    print(out[-200:])


def run_suite(r):
    try:
        rc, out = sh("CARGO_NET_OFFLINE=true CARGO_TARGET_DIR=%s/target_tests timeout -k 5 600 cargo test --workspace --offline --no-fail-fast 2>&1" % r,
                     cwd=r + "/repo", timeout=900)
    except subprocess.TimeoutExpired:
        out = ""
    sh("pkill -f %s/target_tests/debug/deps" % r)      # a mutant that makes a test loop for ever
    if "error[" in out or "error: could not compile" in out or "aborting due to" in out:
        return "stillborn", out[-400:]
    bad = [l for l in out.split("\n") if l.startswith("test ") and l.rstrip().endswith("FAILED") and FLAKY not in l]
    hung = "test result" not in out
    if bad or hung:
        return "killed-by-suite", "\n".join(bad[:5])
    return "passes-suite", ""


def work(k, of):
    r = os.path.join(ROOT, "r%d" % k)
    ms = json.load(open(os.path.join(ROOT, "mutants.json")))
    done = set()
    resf = os.path.join(ROOT, "results.jsonl")
    if os.path.exists(resf):
        for l in open(resf):
            done.add(json.loads(l)["idx"])
    for idx, m in enumerate(ms):
        if idx % of != k or idx in done:
            continue
        path = os.path.join(r, "repo", m["file"])
        src = open(path).read().split("\n")
        assert src[m["line"]] == m["old"], (m, src[m["line"]])
        src[m["line"]] = m["new"]
        open(path, "w").write("\n".join(src))
        t0 = time.time()
        rec = dict(idx=idx, **m)
        try:
            st, info = run_suite(r)
            rec["suite"] = st
            rec["suite_info"] = info
            if st == "passes-suite":
                rec["checks"] = {}
                for p in FILES[m["file"]]:
                    rc, out = sh("./check %s --tier quick" % p, cwd=r + "/verif", timeout=1500,
                                 env=dict(os.environ, VERIF_EVIDENCE_DIR=r + "/verif/evidence"))
                    v = [l for l in out.split("\n") if l.startswith("VIOLATION")]
                    rec["checks"][p] = dict(exit=rc, lines=v[:2])
                    if rc != 0:
                        rec["caught_by"] = p
                        try:
                            rj = json.load(open(v[0].split("replay=")[1].split()[0]))
                            f = rj.get("failure")
                            rec["how"] = (f.get("what") if isinstance(f, dict) else None) or rj.get("kind")
                            if rj.get("kind") == "check-machinery-error":
                                rec["how"] = "MACHINERY: " + rj.get("error", "")[:200]
                        except Exception as e:
                            rec["how"] = "?" + str(e)[:80]
                        break
                if "caught_by" not in rec:
                    rec["caught_by"] = None
        finally:
            sh("git checkout -- .", cwd=r + "/repo")
        rec["wall_s"] = round(time.time() - t0, 1)
        with open(resf, "a") as f:
            f.write(json.dumps(rec) + "\n")
        print(idx, m["file"].split("/")[-1], m["line"] + 1, rec.get("suite"), rec.get("caught_by"), rec.get("how", "")[:90], flush=True)


def seedwork(k, of):
    """final regression over every recorded seeded change, in replica K: apply seeded/<name>/patch.diff, run the check of
    its own property (then the other properties recorded as catching it, if that one passes), undo; results to
    /tmp/mut/seed_results.jsonl (merged into the meta.json files by `seedmerge`)"""
    r = os.path.join(ROOT, "r%d" % k)
    names = sorted(os.listdir("/verif/seeded"))
    resf = os.path.join(ROOT, "seed_results.jsonl")
    done = set()
    if os.path.exists(resf):
        done = {json.loads(l)["name"] for l in open(resf)}
    for idx, name in enumerate(names):
        if idx % of != k or name in done:
            continue
        meta = json.load(open("/verif/seeded/%s/meta.json" % name))
        props = [meta["property"]] + [p for p in meta.get("caught_by", []) if p != meta["property"]]
        rc, out = sh("git apply /verif/seeded/%s/patch.diff" % name, cwd=r + "/repo")
        rec = dict(name=name, checks={})
        if rc != 0:
            rec["error"] = "patch does not apply: " + out[-200:]
        else:
            try:
                for p in props:
                    t0 = time.time()
                    rc, out = sh("./check %s --tier quick" % p, cwd=r + "/verif", timeout=2400,
                                 env=dict(os.environ, VERIF_EVIDENCE_DIR=r + "/verif/evidence"))
                    v = [l for l in out.split("\n") if l.startswith("VIOLATION")]
                    rep = None
                    for l in v:
                        try:
                            rj = json.load(open(l.split("replay=")[1].split()[0]))
                            rep = dict(kind=rj.get("kind"), failure=rj.get("failure"), found_in=rj.get("found_in"))
                            if rep["failure"]:
                                break
                        except Exception as e:
                            rep = dict(unreadable=str(e))
                    rec["checks"][p] = dict(exit=rc, violation_lines=[x.replace(r + "/verif", "/verif") for x in v],
                                            wall_s=round(time.time() - t0, 1), replay_summary=rep)
                    if rc != 0:
                        break
            finally:
                sh("git checkout -- .", cwd=r + "/repo")
        with open(resf, "a") as f:
            f.write(json.dumps(rec, default=str) + "\n")
        print(name, {p: c["exit"] for p, c in rec["checks"].items()}, rec.get("error", ""), flush=True)


def seedmerge():
    head = subprocess.run("git -C /verif rev-parse --short HEAD", shell=True, capture_output=True, text=True).stdout.strip()
    n = 0
    for l in open(os.path.join(ROOT, "seed_results.jsonl")):
        rec = json.loads(l)
        if rec.get("error"):
            print("ERROR", rec["name"], rec["error"])
            continue
        mp = "/verif/seeded/%s/meta.json" % rec["name"]
        meta = json.load(open(mp))
        oc = meta.get("our_checks", {})
        oc.update(rec["checks"])
        meta["our_checks"] = oc
        meta["caught_by"] = [p for p, c in oc.items() if c["exit"] != 0]
        meta["rechecked_at"] = head
        json.dump(meta, open(mp, "w"), indent=1)
        n += 1
        if not any(c["exit"] != 0 for c in rec["checks"].values()):
            print("NOT CAUGHT in the final sweep:", rec["name"], {p: c["exit"] for p, c in rec["checks"].items()})
    print("merged", n)


def report():
    rs = [json.loads(l) for l in open(os.path.join(ROOT, "results.jsonl"))]
    n = len(rs)
    still = sum(1 for r in rs if r["suite"] == "stillborn")
    killed = sum(1 for r in rs if r["suite"] == "killed-by-suite")
    live = [r for r in rs if r["suite"] == "passes-suite"]
    caught = [r for r in live if r.get("caught_by")]
    surv = [r for r in live if not r.get("caught_by")]
    mach = [r for r in caught if str(r.get("how", "")).startswith("MACHINERY")]
    print("mutants %d: stillborn %d, killed by the existing suite %d, alive %d -> caught by a check %d (machinery errors %d), survived %d"
          % (n, still, killed, len(live), len(caught), len(mach), len(surv)))
    for r in surv:
        print("SURVIVED #%d %s:%d\n   - %s\n   + %s" % (r["idx"], r["file"], r["line"] + 1, r["old"].strip(), r["new"].strip()))
    for r in mach:
        print("MACHINERY #%d %s:%d %s\n   + %s" % (r["idx"], r["file"], r["line"] + 1, r["how"], r["new"].strip()))


if __name__ == "__main__":
    c = sys.argv[1]
    if c == "gen":
        gen(int(sys.argv[2]), int(sys.argv[3]))
    elif c == "replica":
        replica(int(sys.argv[2]))
    elif c == "work":
        work(int(sys.argv[2]), int(sys.argv[3]))
    elif c == "report":
        report()
    elif c == "seedwork":
        seedwork(int(sys.argv[2]), int(sys.argv[3]))
    elif c == "seedmerge":
        seedmerge()
