//! A UistClient over a shared in-process AppState that records every call and can behave eagerly
//! (effect at the call, like TestClient) or lazily (effect when the returned future is first polled,
//! like the reqwest Client's async fns). A lazy client can also return Pending a number of times before it
//! acts (`yields`): a conforming client over a real transport is not ready at the first poll, so whoever drives
//! its future has to keep polling until it completes.
use anyhow::{Error, Result};
use rotala::exchange::uist_v1::{Order, OrderId};
use rotala::http::uist::uistv1_client::{BacktestId, UistClient};
use rotala::http::uist::uistv1_server::{
    FetchQuotesResponse, InfoResponse, InitResponse, NowResponse, TickResponse, UistV1Error,
};
use rotala::http::uist::AppState;
use serde_json::{json, Value};
use std::cell::RefCell;
use std::future::Future;
use std::pin::Pin;
use std::rc::Rc;

use crate::comp_exch::{uist_order_json, uist_trade_json};
use crate::comp_server::row_json;

pub type Shared = Rc<RefCell<AppState>>;
pub type Log = Rc<RefCell<Vec<Value>>>;

pub struct HClient {
    pub state: Shared,
    pub log: Log,
    pub lazy: bool,
    pub yields: u32,
}

/// returns Pending once (waking itself), then Ready
struct YieldOnce(bool);
impl Future for YieldOnce {
    type Output = ();
    fn poll(mut self: Pin<&mut Self>, cx: &mut std::task::Context<'_>) -> std::task::Poll<()> {
        if self.0 {
            std::task::Poll::Ready(())
        } else {
            self.0 = true;
            cx.waker().wake_by_ref();
            std::task::Poll::Pending
        }
    }
}

type Fut<T> = Pin<Box<dyn Future<Output = Result<T>>>>;

impl HClient {
    fn go<T: 'static>(&self, f: impl FnOnce(&Shared, &Log) -> Result<T> + 'static) -> Fut<T> {
        let st = self.state.clone();
        let lg = self.log.clone();
        if self.lazy {
            let n = self.yields;
            Box::pin(async move {
                for _ in 0..n {
                    YieldOnce(false).await;
                }
                f(&st, &lg)
            })
        } else {
            let r = f(&st, &lg);
            Box::pin(std::future::ready(r))
        }
    }
}

impl UistClient for HClient {
    fn tick(&mut self, backtest_id: BacktestId) -> impl Future<Output = Result<TickResponse>> {
        self.log.borrow_mut().push(json!({"call": "tick", "id": backtest_id}));
        self.go(move |st, lg| {
            if let Some(r) = st.borrow_mut().tick(backtest_id) {
                lg.borrow_mut().push(json!({"effect": "tick", "has_next": r.0,
                    "trades": r.1.iter().map(uist_trade_json).collect::<Vec<_>>(),
                    "admitted": r.2.iter().map(uist_order_json).collect::<Vec<_>>()}));
                Ok(TickResponse { has_next: r.0, executed_trades: r.1, inserted_orders: r.2 })
            } else {
                lg.borrow_mut().push(json!({"effect": "tick", "err": true}));
                Err(Error::new(UistV1Error::UnknownBacktest))
            }
        })
    }

    fn delete_order(&mut self, order_id: OrderId, backtest_id: BacktestId) -> impl Future<Output = Result<()>> {
        self.log.borrow_mut().push(json!({"call": "delete_order", "id": backtest_id, "order_id": order_id}));
        self.go(move |st, lg| {
            lg.borrow_mut().push(json!({"effect": "delete_order"}));
            st.borrow_mut().delete_order(order_id, backtest_id).ok_or(Error::new(UistV1Error::UnknownBacktest))
        })
    }

    fn insert_order(&mut self, order: Order, backtest_id: BacktestId) -> impl Future<Output = Result<()>> {
        self.log.borrow_mut().push(json!({"call": "insert_order", "id": backtest_id, "order": uist_order_json(&order)}));
        self.go(move |st, lg| {
            lg.borrow_mut().push(json!({"effect": "insert_order", "order": uist_order_json(&order)}));
            st.borrow_mut().insert_order(order, backtest_id).ok_or(Error::new(UistV1Error::UnknownBacktest))
        })
    }

    fn fetch_quotes(&mut self, backtest_id: BacktestId) -> impl Future<Output = Result<FetchQuotesResponse>> {
        self.log.borrow_mut().push(json!({"call": "fetch_quotes", "id": backtest_id}));
        self.go(move |st, lg| {
            if let Some(q) = st.borrow().fetch_quotes(backtest_id) {
                lg.borrow_mut().push(json!({"effect": "fetch_quotes", "row": row_json(q)}));
                Ok(FetchQuotesResponse { quotes: q.to_owned() })
            } else {
                lg.borrow_mut().push(json!({"effect": "fetch_quotes", "err": true}));
                Err(Error::new(UistV1Error::UnknownBacktest))
            }
        })
    }

    fn init(&mut self, dataset_name: String) -> impl Future<Output = Result<InitResponse>> {
        self.log.borrow_mut().push(json!({"call": "init"}));
        self.go(move |st, _lg| {
            st.borrow_mut().init(dataset_name).map(|id| InitResponse { backtest_id: id }).ok_or(Error::new(UistV1Error::UnknownDataset))
        })
    }

    fn info(&mut self, backtest_id: BacktestId) -> impl Future<Output = Result<InfoResponse>> {
        self.log.borrow_mut().push(json!({"call": "info"}));
        self.go(move |st, _lg| {
            st.borrow().backtests.get(&backtest_id)
                .map(|b| InfoResponse { version: "v1".to_string(), dataset: b.dataset_name.clone() })
                .ok_or(Error::new(UistV1Error::UnknownBacktest))
        })
    }

    fn now(&mut self, backtest_id: BacktestId) -> impl Future<Output = Result<NowResponse>> {
        self.log.borrow_mut().push(json!({"call": "now", "id": backtest_id}));
        self.go(move |st, lg| {
            let a = st.borrow();
            if let Some(b) = a.backtests.get(&backtest_id) {
                if let Some(d) = a.datasets.get(&b.dataset_name) {
                    let r = NowResponse { now: b.date, has_next: d.has_next(b.pos) };
                    lg.borrow_mut().push(json!({"effect": "now", "now": r.now, "has_next": r.has_next}));
                    return Ok(r);
                }
                return Err(Error::new(UistV1Error::UnknownDataset));
            }
            Err(Error::new(UistV1Error::UnknownBacktest))
        })
    }
}
