(* JsonCheck.v — the JSON-tree model against the trees serde actually produced / accepted. *)
From Coq Require Import ZArith NArith List Bool String Floats.
From Alator Require Import Model.Num Model.Quirks Model.Exchange Model.Uist Model.Jura Model.Server Model.Json
  Check.Eqb Check.ExchCheck Check.ServerCheck.
Import ListNotations.

Definition J_ENCODE := 0%N.   (* model encoder = tree serde produced *)
Definition J_DECODE := 1%N.   (* model decoder of that tree = the typed value *)

(* objects are compared as maps (field order is not part of JSON's meaning; HashMap order is arbitrary) *)
Fixpoint json_eqb (a b : json float) {struct a} : bool :=
  match a, b with
  | JNull, JNull => true
  | JBool x, JBool y => Bool.eqb x y
  | JInt x, JInt y => Z.eqb x y
  | JNum x, JNum y => feq x y
  | JStr x, JStr y => String.eqb x y
  | JArr l, JArr m =>
      (fix go (l : list (json float)) (m : list (json float)) : bool :=
         match l, m with
         | [], [] => true
         | x :: l', y :: m' => json_eqb x y && go l' m'
         | _, _ => false
         end) l m
  | JObj f, JObj g =>
      Nat.eqb (List.length f) (List.length g)
      && (fix go (f : list (string * json float)) : bool :=
            match f with
            | [] => true
            | (k, v) :: f' => match jget g k with Some w => json_eqb v w | None => false end && go f'
            end) f
  | _, _ => false
  end.

Inductive jcase :=
| CUTick (v : utick (F:=float)) (raw : json float)
| CURow (v : quotes (quote float)) (raw : json float)
| CInit (v : N) (raw : json float)
| CInfo (v : string) (raw : json float)
| CNow (v : Z * bool) (raw : json float)
| CUnit (raw : json float)
| CUInsert (v : option N * uorder float) (raw : json float)   (* the Order as the client sent it: order_id may be preset *)
| CUDelete (v : N) (raw : json float)
| CJTick (v : jtick (F:=float)) (raw : json float)
| CJInsert (v : jwire float) (raw : json float)
| CJDelete (v : N * N) (raw : json float).

Definition utick_eqb (a b : utick (F:=float)) : bool :=
  Bool.eqb (fst a) (fst b) && list_eqb trade_eqb (fst (snd a)) (fst (snd b))
  && list_eqb (pair_eqb N.eqb uorder_eqb) (snd (snd a)) (snd (snd b)).
Definition jwire_eqb (a b : jwire float) : bool :=
  N.eqb (jw_asset a) (jw_asset b) && Bool.eqb (jw_is_buy a) (jw_is_buy b)
  && String.eqb (jw_limit_px a) (jw_limit_px b) && String.eqb (jw_sz a) (jw_sz b)
  && Bool.eqb (jw_reduce_only a) (jw_reduce_only b) && opt_eqb String.eqb (jw_cloid a) (jw_cloid b)
  && jtype_eqb (jw_type a) (jw_type b).
Definition fwire_eqb (a b : fwire) : bool :=
  String.eqb (fw_coin a) (fw_coin b) && N.eqb (fw_oid a) (fw_oid b) && String.eqb (fw_px a) (fw_px b)
  && String.eqb (fw_side a) (fw_side b) && String.eqb (fw_sz a) (fw_sz b) && Z.eqb (fw_time a) (fw_time b).
Definition jtick_eqb (a b : jtick (F:=float)) : bool :=
  let '(h, (fl, os, tr)) := a in let '(h', (fl', os', tr')) := b in
  Bool.eqb h h' && list_eqb fwire_eqb fl fl' && list_eqb jwire_eqb os os' && list_eqb N.eqb tr tr'.

(* rows are maps: compared regardless of order *)
Definition row_map_eqb (a b : quotes (quote float)) : bool :=
  Nat.eqb (List.length a) (List.length b)
  && forallb (fun kq => match lookup b (fst kq) with Some q => quote_eqb (snd kq) q | None => false end) a.

Definition chk {A} (e : A -> json float) (d : json float -> option A) (eq : A -> A -> bool)
  (v : A) (raw : json float) : N :=
  N.lor (bit J_ENCODE (json_eqb (e v) raw))
        (bit J_DECODE (match d raw with Some v' => eq v v' | None => false end)).

Definition jcase_mask (qk : quirks) (c : jcase) : N :=
  match c with
  | CUTick v raw => chk enc_utick dec_utick utick_eqb v raw
  | CURow v raw => chk enc_row dec_row row_map_eqb v raw
  | CInit v raw => chk enc_init dec_init N.eqb v raw
  | CInfo v raw => chk enc_info dec_info String.eqb v raw
  | CNow v raw => chk enc_now dec_now (pair_eqb Z.eqb Bool.eqb) v raw
  | CUnit raw => chk enc_unit dec_unit (fun _ _ => true) tt raw
  | CUInsert v raw =>
      (* the request body carries the whole Order, a preset order_id included (the exchange overwrites it on
         admission); enc_uinsert / dec_uinsert of Model/Json.v are the order_id = None instance of this *)
      N.lor (chk (fun p : option N * uorder float => JObj [("order"%string, enc_uorder p)])
                 (fun j => match j with JObj f => obind (jget f "order"%string) dec_uorder | _ => None end)
                 (pair_eqb (opt_eqb N.eqb) uorder_eqb) v raw)
            (match fst v with
             | None => chk enc_uinsert dec_uinsert uorder_eqb (snd v) raw
             | Some _ => bit J_DECODE (match dec_uinsert raw with Some o => uorder_eqb (snd v) o | None => false end)
             end)
  | CUDelete v raw => chk enc_udelete dec_udelete N.eqb v raw
  | CJTick v raw =>
      let '(h, (fl, os, tr)) := v in
      let seen : jtick := if q_jura_http_drops_triggered qk then (h, (fl, os, [])) else v in
      N.lor (bit J_ENCODE (json_eqb (enc_jtick qk v) raw))
            (bit J_DECODE (match dec_jtick raw with Some v' => jtick_eqb seen v' | None => false end))
  | CJInsert v raw => chk enc_jinsert dec_jinsert jwire_eqb v raw
  | CJDelete v raw => chk enc_jdelete dec_jdelete (pair_eqb N.eqb N.eqb) v raw
  end.
