import sys, os
sys.path.insert(0, os.path.dirname(os.path.abspath(__file__)))
from genprops import gen

IMP = """From Coq Require Import ZArith NArith List Bool String Permutation Sorted Floats.
From Alator Require Import Model.Num Model.Quirks Model.Exchange Model.Uist Model.Jura Model.Server
  Proofs.ListAux Proofs.ExchangeProofs Proofs.UistProofs Proofs.JuraProofs Proofs.ExchangeCorollaries
  Proofs.ServerProofs.
Import ListNotations."""
IMP1 = IMP.replace("Model.Server\n", "Model.Server Model.Tagged Model.Penelope Model.Strategy Check.ServerCheck\n").replace(
    "Proofs.ServerProofs.", "Proofs.ServerProofs Proofs.PenelopeProofs Proofs.EndToEnd Proofs.EndToEndCor.")

gen("C01", "C01 — no look-ahead: an order never fills on the tick that admits it. Statements only; the skeleton "
    "theorems hold for EVERY decision function (hence for both exchanges and all order types) and every "
    "number type; the server theorems for every exchange. The property's last sentence is ONE theorem about the "
    "composition server + exchange (c01_end_to_end and its instances for the two services over Penelope-built "
    "datasets): orders carry a ghost tag — the clock date their backtest showed when the client submitted them "
    "(Model/Tagged.v) — through the very same polymorphic skeleton, erasing the tags gives back the model that is "
    "tied to the code (c01_tagged_run_erases), and every fill's date is strictly later than its order's tag. "
    "Proofs in Proofs/.", IMP1, [
    ("c01_fills_only_from_resting_book", "tick_fills_old",
     "Every fill of a tick belongs to an order that was resting BEFORE the tick (its id is below the id counter "
     "at tick entry), whose symbol is quoted on this tick, and is the value the decision function computes from "
     "that order and that tick's quote for that symbol — nothing else. Orders admitted by the tick, and trigger "
     "children created by it, get ids at or above the counter, so none of them can be among the fills. Fills are "
     "in book order."),
    ("c01_fills_independent_of_buffer", "tick_fills_indep_buffer",
     "The fills of a tick do not depend on what is in the buffer (the orders submitted since the last tick)."),
    ("c01_admitted_rest_after_tick", "tick_admitted_rest",
     "An order admitted by a tick is resting, untried, after it — it was in the buffer, has no fill on this tick."),
    ("c01_unquoted_keeps_resting", "tick_unquoted_rests",
     "A resting order whose symbol has no quote on a tick keeps resting unchanged and has no fill: its earliest "
     "possible fill is the next tick that carries a quote for its symbol."),
    ("c01_every_reachable_state_invariant", "reachable_inv",
     "The invariant the above needs (book sorted by id, all ids below the counter) holds in every state reachable "
     "by any interleaving of insert / delete / tick."),
    ("c01_server_tick_uses_row_of_clock_date", "tick1_spec",
     "Server: a tick of a backtest that has done k ticks matches orders against exactly the row of the date the "
     "clock shows, then advances the clock by one position (has_next iff k+1 < N)."),
    ("c01_server_clock_after_history", "clock_run",
     "Server: after any history the clock of a backtest has advanced by exactly the number of its successful ticks."),
    ("c01_increasing_dates", "increasing_nth",
     "With strictly increasing dates a later clock position shows a strictly later date: an order submitted while "
     "the clock shows position k is admitted by the tick matching row k and can fill at the earliest on the tick "
     "matching row k+1, whose quotes (carrying their row's date) are dated strictly later."),
    ("c01_tagged_step_erases", "erase_step",
     "Ghost tags are inert (exchange): one step of the tagged exchange, tags erased, is the step of the untagged one."),
    ("c01_tagged_run_erases", "t_run_erases",
     "Ghost tags are inert (server): for every history the tagged run, tags erased, is the run of the skeleton-level "
     "server — states and responses."),
    ("c01_uist_service_is_projection", "u_sstep_is_projection",
     "The Uist service of the model (the one compared with http/uist.rs) is the skeleton-level server with the fill "
     "ids and triggered ids dropped from the tick response …"),
    ("c01_jura_service_is_projection", "jg_sstep_is_projection",
     "… and the Jura service is it with the ids kept (jg_sstep is Check/ServerCheck.v's j_sstep, the one compared with "
     "http/jura.rs, stated for every number type; Proofs/EndToEnd.v j_sstep_is_projection is its IEEE instance)."),
    ("c01_end_to_end", "c01_end_to_end",
     "END TO END, every exchange whose decision dates a fill with its quote, every history of init / new_backtest / "
     "insert / delete / tick / fetch / info / now over any number of backtests and datasets whose dates increase "
     "and whose rows carry their own date: if no tick is issued on a backtest after one of its ticks answered "
     "has_next = false, every fill reported by any tick is dated STRICTLY LATER than the clock date the server "
     "showed for that backtest when the client submitted the order (for a trigger child: its parent)."),
    ("c01_end_to_end_single", "c01_end_to_end_single", "The same from AppState::single."),
    ("c01_uist_end_to_end", "c01_uist_end_to_end",
     "Instance: the Uist service over datasets loaded by Penelope::add_quote with dates that never go back (all "
     "other premises discharged: c07_dataset_*, uist_decide dates a trade with its quote)."),
    ("c01_jura_end_to_end", "c01_jura_end_to_end", "Instance: the Jura service, likewise."),
    ("c01_after_end_not_strict", "c01_after_end_not_strict",
     "The caveat is necessary: a client that ticks after has_next = false gets a fill dated exactly the submission "
     "clock date (kernel-evaluated history; every other premise of c01_end_to_end holds for it)."),
    ("c01_refuted_q_jura_pos_stuck", "c07_refuted_q_jura_pos_stuck",
     "With the Jura clock defect (pos never stored) the clock parks on the second date: ticks keep matching the same "
     "row, so an order submitted there fills dated that same date."),
])

gen("C03", "C03 — orders fill at most once; none is lost, duplicated or resurrected. Statements only; for EVERY "
    "decision function (both exchanges), every number type, all operation sequences of any length.", IMP, [
    ("c03_tick_master", "tick_spec",
     "What a successful tick does: the sorted buffer is a permutation of the buffer (every order inserted since the "
     "last tick is reported admitted exactly once), ids are consecutive from the counter — trigger children first, "
     "then the batch — the new book is the surviving resting orders followed by children and batch, the buffer is "
     "empty afterwards, the log grows by exactly the fills."),
    ("c03_ids_strictly_increasing", "assigned_sorted",
     "All ids ever assigned along any history (batch orders and trigger children) are strictly increasing in "
     "assignment order — in particular pairwise distinct — and at or above the counter of the starting state."),
    ("c03_conservation", "conservation",
     "At every moment: the ids handed out so far (0 .. counter-1) are exactly the resting ids plus the ids removed "
     "so far (filled, expired, triggered, cancelled) — as multisets, so nothing is lost or duplicated."),
    ("c03_no_id_fills_twice", "fills_nodup",
     "Over a whole history no id appears in two fills (nor twice in one tick)."),
    ("c03_removed_never_returns", "dead_never_resting",
     "An id that has been removed (filled, expired, triggered or cancelled) is never resting again."),
    ("c03_entry_fate", "tick_entry_fate",
     "Per resting order and tick: it stays (possibly marked), or leaves with exactly one fill, or leaves without a "
     "fill (expired / triggered, the child resting with a fresh id)."),
    ("c03_cancel_exact", "delete_spec",
     "Cancelling removes exactly the resting orders matching (asset, id) — at most one — and touches nothing else."),
    ("c03_cancel_unknown_noop", "delete_first_nomatch",
     "Cancelling an id that matches no resting order (unknown, stale, still in the buffer, wrong asset) is a no-op."),
    ("c03_insert_only_buffers", "insert_spec",
     "Inserting only appends to the buffer."),
])

gen("C17", "C17 — sells before buys: batch ordering and time priority. Statements only; for EVERY decision "
    "function (both exchanges) and every batch size. The sort of the buffer is an oracle argument `perm`; the "
    "theorems hold for every perm the model accepts (a permutation of the buffer whose result has every "
    "sell-side order before every buy-side order). Props/C17sort.v removes the oracle: the standard library's "
    "stable sort is modelled exactly and proved to satisfy that specification for the exchanges' comparator.", IMP, [
    ("c17_admission", "tick_spec",
     "The admitted list is the sorted buffer, numbered consecutively from the counter (after trigger children); "
     "admitted = submitted as multisets."),
    ("c17_sells_get_smaller_ids", "sells_first_ids",
     "Within a batch every sell-side order receives a smaller id than every buy-side order."),
    ("c17_ids_grow_with_admission", "assigned_sorted",
     "Over the life of the exchange ids grow strictly with admission order."),
    ("c17_fills_in_book_order", "tick_fills_old",
     "Fills of a tick are reported in book (id) order — so the sells of any batch execute before its buys."),
    ("c17_book_sorted_always", "reachable_inv",
     "The book of every reachable state is sorted by id."),
])


IMPS = """From Coq Require Import ZArith NArith List Bool String Permutation Arith.
From Alator Require Import Model.Sort Model.Exchange Model.ExchangeStd Proofs.SortProofs Proofs.SortExchange.
Import ListNotations."""
gen("C17sort", "C17, the sort itself. `order_buffer.sort_by(|a, _b| if a is sell-side {Less} else {Greater})` uses a "
    "comparator that looks only at its first argument — not a total order, so sort_by's contract says nothing and the "
    "result is whatever the implementation does. Model/Sort.v is a function-by-function transcription of the "
    "implementation the installed toolchain (rustc 1.95.0) runs: insertion_sort_shift_left up to 20 elements, "
    "driftsort above (run detection, powersort merge tree, lazy logical merges, merge up/down through the scratch "
    "buffer, stable quicksort with median-of-3 / recursive-median pivots and the equal-partition branch, "
    "small_sort_general with sort4_stable / bidirectional_merge, the panic on a detected order violation), generic "
    "in the element type, the comparator and size_of::<T>() (which selects scratch size and small-sort path). It was "
    "validated against the real binary on 32 075 inputs (lengths 0..70 densely, up to 120 000; nine comparator "
    "kinds including inconsistent ones that make the real sort panic; seven element types) with no difference, and "
    "every check run compares the exact admission order of every batch with it (aspect sort_exact). Statements "
    "only; all for `is_less a _ := key a` with an arbitrary key, every element type, EVERY length. All closed under "
    "the global context.", IMPS, [
    ("c17s_result_is_permutation", "T1_perm", "Whatever the sort returns is a permutation of its input: the admitted set is exactly the submitted set."),
    ("c17s_sells_first", "T2_sells_first", "Every element with key true (sell-side) precedes every element with key false (buy-side) in the result — for every length, through every path of driftsort."),
    ("c17s_total", "T3_total", "The sort always returns: no panic on order violation, no abort, the model's fuel always suffices — for this comparator."),
    ("c17s_closed_form_up_to_20", "T0_closed_form_le20", "Up to 20 elements (the insertion-sort path) the exact result: the sells in REVERSE submission order, then the buys in submission order — so the sort is not stable on this comparator, yet sells-first."),
    ("c17s_index_permutation_exists", "perm_of_permutation", "A permutation is realised by an index permutation the oracle-style tick accepts."),
    ("c17s_tick_std_refines", "tick_std_refines", "The oracle-free tick (the buffer sorted by the modelled std sort) is the oracle tick for a suitable oracle value: every theorem proved for all oracle values (C01, C03, C17, C18) applies to it."),
    ("c17s_tick_std_never_rejects", "tick_std_no_bad_oracle", "The oracle-free tick never lands in the model's `oracle rejected` outcome: the std sort always yields an admissible order."),
    ("c17s_run_std_refines", "run_std_refines", "Likewise for whole histories: every run of the oracle-free machine is a run of the oracle machine."),
    ("c17s_run_std_never_rejects", "run_std_no_bad_oracle", "… and none of its outputs is `oracle rejected`."),
    ("c17s_tick_admits_up_to_20", "tick_std_admits_le20", "For batches of at most 20 the whole tick result in closed form: admitted = sells reversed then buys, numbered consecutively after the trigger children."),
])
