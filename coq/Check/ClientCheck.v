(* ClientCheck.v — the crate's own in-process client (uistv1_client::TestClient) in LOCKSTEP with the model:
   Penelope's loading script -> AppState::single -> every request through the UistClient trait. Only responses are
   visible, so the model runs the whole history from its own initial state: no re-synchronisation, and no oracle —
   the buffer is sorted by Model/Sort.v (Model/ExchangeStd.v's tick_std). *)
From Coq Require Import ZArith NArith List Bool String Floats.
From Alator Require Import Model.Num Model.Quirks Model.Sort Model.Exchange Model.ExchangeStd Model.Uist Model.Server
  Model.Penelope Check.Eqb Check.ExchCheck Check.ServerCheck.
Import ListNotations.

Local Instance FNc : Num float := FloatNum [].

Definition u_x_tick_std (sz : N) (x : uexch float) (r : row) (_ : list nat) : option (uexch float * utout) :=
  match tick_std uist_asset uo_symbol uist_is_sell uist_decide sz x r with
  | (x', OutTick fl adm _) => Some (x', (map snd fl, adm))
  | _ => None
  end.

Definition u_sstep_std (sz : N) :=
  sstep (exch_init : uexch float) (u_x_tick_std sz) u_insert u_delete (([], []) : utout) clean false.

(* (step index, mismatch mask) of every response that differs; stops at an observed panic *)
Fixpoint lockstep (sz : N) (s : app (uexch float) row) (h : list (sop (uorder float) N * sres row utout)) (k : N)
  : list (N * N) :=
  match h with
  | [] => []
  | (o, obs) :: r =>
      let '(s', m) := u_sstep_std sz s o in
      let mk := res_mask utout_eqb m obs in
      (if N.eqb mk 0 then [] else [(k, mk)])
      ++ match obs with RPanic => [] | _ => lockstep sz s' r (N.succ k) end
  end.

Record ccase := mkCCase {
  cc_size : N;                                        (* size_of::<Order>() as observed *)
  cc_name : string;
  cc_calls : list (float * float * Z * string);       (* the dataset's loading script *)
  cc_hist : list (sop (uorder float) N * sres row utout);
}.

Definition ccase_mismatches (c : ccase) : list (N * N) :=
  match app_single (exch_init : uexch float) (cc_name c) (load (cc_calls c)) with
  | None => [(0%N, bit S_KIND false)]
  | Some s0 => lockstep (cc_size c) s0 (cc_hist c) 0%N
  end.

Definition ccase_ok (c : ccase) : bool :=
  match ccase_mismatches c with [] => true | _ => false end.
