(* BrokerLedgerProofs.v — C04 (cash ledger), C05 (holdings / pending / log reconciliation),
   C06 (the order gate), and the absorbing part of C09, about the executable model Model/Broker.v.
   Section AnyNum: for every Num F, no law of arithmetic is used (structural proofs).
   Section AtR: at the real-number instance RNum. *)
From Coq Require Import ZArith NArith List Bool String Reals Lra Lia Permutation.
From Flocq Require Import Raux.
From Alator Require Import Model.Num Model.Quirks Model.Cost Model.Exchange Model.Uist Model.Broker.
Import ListNotations.

(* ============================ string-keyed maps ============================ *)
Section SMap.
Context {A : Type}.
Implicit Types (m : smap A) (k : string) (a : A).

Lemma sget_notin m k : ~ In k (map fst m) -> sget m k = None.
Proof.
  induction m as [|[k0 a0] m IH]; cbn; intros H; [reflexivity|].
  destruct (String.eqb k k0) eqn:E.
  - apply String.eqb_eq in E. subst. exfalso. apply H. now left.
  - apply IH. intros Hin. apply H. now right.
Qed.

Lemma sget_sset_same m k a : sget (sset m k a) k = Some a.
Proof.
  induction m as [|[k0 a0] m IH]; cbn.
  - now rewrite String.eqb_refl.
  - destruct (String.eqb k k0) eqn:E; cbn.
    + now rewrite String.eqb_refl.
    + now rewrite E.
Qed.

Lemma sget_sset_other m k a k' : k' <> k -> sget (sset m k a) k' = sget m k'.
Proof.
  intros Hne. induction m as [|[k0 a0] m IH]; cbn.
  - apply String.eqb_neq in Hne. now rewrite Hne.
  - destruct (String.eqb k k0) eqn:E; cbn.
    + apply String.eqb_eq in E. subst k0. apply String.eqb_neq in Hne. now rewrite Hne.
    + now rewrite IH.
Qed.

Lemma sget_sremove_same m k : NoDup (map fst m) -> sget (sremove m k) k = None.
Proof.
  induction m as [|[k0 a0] m IH]; cbn; intros H; [reflexivity|].
  inversion H as [|x l Hnin Hnd]; subst.
  destruct (String.eqb k k0) eqn:E; cbn.
  - apply String.eqb_eq in E. subst. now apply sget_notin.
  - rewrite E. now apply IH.
Qed.

Lemma sget_sremove_other m k k' : k' <> k -> sget (sremove m k) k' = sget m k'.
Proof.
  intros Hne. induction m as [|[k0 a0] m IH]; cbn; [reflexivity|].
  destruct (String.eqb k k0) eqn:E; cbn.
  - apply String.eqb_eq in E. subst k0. apply String.eqb_neq in Hne. now rewrite Hne.
  - now rewrite IH.
Qed.

Lemma in_keys_sset m k a x : In x (map fst (sset m k a)) -> x = k \/ In x (map fst m).
Proof.
  induction m as [|[k0 a0] m IH]; cbn.
  - intros [H|[]]; auto.
  - destruct (String.eqb k k0) eqn:E; cbn.
    + apply String.eqb_eq in E. subst. intros [H|H]; auto.
    + intros [H|H]; auto. destruct (IH H); auto.
Qed.

Lemma nodup_sset m k a : NoDup (map fst m) -> NoDup (map fst (sset m k a)).
Proof.
  induction m as [|[k0 a0] m IH]; cbn; intros H.
  - constructor; [intros []|constructor].
  - inversion H as [|x l Hnin Hnd]; subst.
    destruct (String.eqb k k0) eqn:E; cbn.
    + apply String.eqb_eq in E. subst. now constructor.
    + constructor; [|now apply IH].
      intros Hin. apply in_keys_sset in Hin. destruct Hin as [->|Hin]; [|contradiction].
      rewrite String.eqb_refl in E. discriminate.
Qed.

Lemma in_keys_sremove m k x : In x (map fst (sremove m k)) -> In x (map fst m).
Proof.
  induction m as [|[k0 a0] m IH]; cbn; [auto|].
  destruct (String.eqb k k0) eqn:E; cbn.
  - auto.
  - intros [H|H]; auto.
Qed.

Lemma nodup_sremove m k : NoDup (map fst m) -> NoDup (map fst (sremove m k)).
Proof.
  induction m as [|[k0 a0] m IH]; cbn; intros H; [constructor|].
  inversion H as [|x l Hnin Hnd]; subst.
  destruct (String.eqb k k0) eqn:E; cbn.
  - assumption.
  - constructor; [|now apply IH].
    intros Hin. apply in_keys_sremove in Hin. contradiction.
Qed.

Lemma forall_sset (P : string * A -> Prop) m k a : Forall P m -> P (k, a) -> Forall P (sset m k a).
Proof.
  intros Hm Hp. induction m as [|[k0 a0] m IH]; cbn.
  - constructor; [assumption|constructor].
  - inversion Hm; subst. destruct (String.eqb k k0); constructor; auto.
Qed.

Lemma forall_sremove (P : string * A -> Prop) m k : Forall P m -> Forall P (sremove m k).
Proof.
  intros Hm. induction m as [|[k0 a0] m IH]; cbn; [constructor|].
  inversion Hm; subst. destruct (String.eqb k k0); [assumption|constructor; auto].
Qed.
End SMap.

(* ============================ (A) every Num F ============================ *)
Section AnyNum.
Context {F : Type} {NF : Num F}.
Local Open Scope num_scope.

(* ---- C06: the gate ---- *)
(* the property's four conditions, for a symbol with a last-seen quote q *)
Definition gate_conditions (b : broker F) (o : uorder F) (q : quote F) : bool :=
  negb (b_failed b)
  && negb (uo_shares o ==? fzero)
  && (if order_is_buy o then (uo_shares o * q_ask q) <? b_cash b else true)
  && (match uo_type o, position_qty b (uo_symbol o) with
      | MarketSell, Some h => uo_shares o <=? h
      | _, _ => true
      end).

(* forwarded iff the conditions hold; never a panic — for EVERY broker state and all six types *)
Lemma gate_iff (b : broker F) (o : uorder F) (q : quote F) :
  sget (b_quotes b) (uo_symbol o) = Some q ->
  gate clean b o = if gate_conditions b o q then GForward else GInvalid.
Proof.
  intros Hq. unfold gate, gate_conditions, order_is_buy, position_qty. rewrite Hq.
  cbn [q_limit_panics clean].
  destruct (b_failed b); cbn [negb andb]; [reflexivity|].
  destruct (uo_shares o ==? fzero) eqn:Hz;
  destruct (uo_shares o * q_ask q <? b_cash b) eqn:Hc;
  destruct (sget (b_holdings b) (uo_symbol o)) as [h|] eqn:Hh;
  try destruct (uo_shares o <=? h) eqn:Hl;
  destruct (uo_type o); cbn; rewrite ?Hz, ?Hc, ?Hl; reflexivity.
Qed.

Lemma gate_failed (b : broker F) (o : uorder F) qk : b_failed b = true -> gate qk b o = GInvalid.
Proof. intros H. unfold gate. now rewrite H. Qed.

Lemma send_order_cases qk (b : broker F) (o : uorder F) b' ev fw :
  send_order qk b o = Ok (b', ev, fw) ->
  (gate qk b o = GInvalid /\ b' = b /\ ev = OrderInvalid o /\ fw = []) \/
  (gate qk b o = GForward /\ b' = add_pending b o /\ ev = OrderSentToExchange o /\ fw = [o]).
Proof.
  unfold send_order. destruct (gate qk b o); intros H; inversion H; subst; auto.
Qed.

(* a refused order is inert: state unchanged, nothing handed to the client *)
Lemma refusal_inert (b : broker F) (o : uorder F) qk b' ev fw :
  send_order qk b o = Ok (b', ev, fw) -> gate qk b o = GInvalid ->
  b' = b /\ ev = OrderInvalid o /\ fw = [].
Proof.
  intros H G. apply send_order_cases in H. destruct H as [(_ & ? & ? & ?)|(G' & _)]; auto.
  rewrite G in G'. discriminate.
Qed.

(* a forwarded order is handed to the client exactly once, unchanged; only pending exposure moves;
   and under `clean` it reaches the exchange whichever client kind carries it *)
Lemma forward_once (b : broker F) (o : uorder F) qk b' ev fw :
  send_order qk b o = Ok (b', ev, fw) -> gate qk b o = GForward ->
  fw = [o] /\ ev = OrderSentToExchange o /\ b' = add_pending b o /\
  b_cash b' = b_cash b /\ b_holdings b' = b_holdings b /\ b_log b' = b_log b /\
  b_quotes b' = b_quotes b /\ b_failed b' = b_failed b.
Proof.
  intros H G. apply send_order_cases in H. destruct H as [(G' & _)|(_ & -> & -> & ->)].
  - rewrite G in G'. discriminate.
  - repeat split; reflexivity.
Qed.

Lemma delivered_clean (lazy : bool) (fw : list (uorder F)) : delivered clean lazy fw = fw.
Proof. unfold delivered. cbn [q_send_dropped_future clean]. now rewrite andb_false_r. Qed.

Lemma delivered_dropped (fw : list (uorder F)) qk :
  q_send_dropped_future qk = true -> delivered qk true fw = [] /\ delivered qk false fw = fw.
Proof. intros H. unfold delivered. rewrite H. cbn. split; reflexivity. Qed.

(* with q_limit_panics the four non-market types panic *)
Lemma limit_panics (b : broker F) (o : uorder F) (q : quote F) qk :
  q_limit_panics qk = true -> b_failed b = false -> sget (b_quotes b) (uo_symbol o) = Some q ->
  (match uo_type o with MarketBuy | MarketSell => False | _ => True end) ->
  exists s, gate qk b o = GPanic s.
Proof.
  intros Hq Hf Hs Ht. unfold gate. rewrite Hf, Hs, Hq.
  destruct (uo_type o); try contradiction; eexists; reflexivity.
Qed.

(* ---- C04: what each operation does to cash (exactly) ---- *)
Definition cash_after_trades (c : F) (ts : list (trade F)) : F :=
  fold_left (fun c t => match t_side t with Buy => c - t_value t | Sell => t_value t + c end) ts c.

Lemma book_trade_cash (b : broker F) t :
  b_cash (book_trade b t) = match t_side t with Buy => b_cash b - t_value t | Sell => t_value t + b_cash b end.
Proof. unfold book_trade. destruct (t_side t); reflexivity. Qed.

Lemma book_trades_cash (b : broker F) ts :
  b_cash (fold_left book_trade ts b) = cash_after_trades (b_cash b) ts.
Proof.
  unfold cash_after_trades. revert b. induction ts as [|t ts IH]; intros b; cbn [fold_left]; [reflexivity|].
  rewrite IH, book_trade_cash. reflexivity.
Qed.

Lemma add_pending_frame (b : broker F) o :
  b_cash (add_pending b o) = b_cash b /\ b_holdings (add_pending b o) = b_holdings b /\
  b_log (add_pending b o) = b_log b /\ b_quotes (add_pending b o) = b_quotes b /\
  b_failed (add_pending b o) = b_failed b /\ b_costs (add_pending b o) = b_costs b.
Proof. repeat split; reflexivity. Qed.

Lemma send_orders_cons qk (b : broker F) o r b' evs fw :
  send_orders qk b (o :: r) = Ok (b', evs, fw) ->
  exists b1 ev1 fw1 evs2 fw2,
    send_order qk b o = Ok (b1, ev1, fw1) /\ send_orders qk b1 r = Ok (b', evs2, fw2) /\
    evs = ev1 :: evs2 /\ fw = fw1 ++ fw2.
Proof.
  cbn [send_orders]. intros H.
  destruct (send_order qk b o) as [[[b1 ev1] fw1]|s|] eqn:Hs; cbn [bind] in H; try discriminate.
  destruct (send_orders qk b1 r) as [[[b2 evs2] fw2]|s|] eqn:Hr; cbn [bind] in H; try discriminate.
  inversion H; subst. do 5 eexists. repeat split; eauto.
Qed.

Lemma send_orders_cash qk (b : broker F) os b' evs fw :
  send_orders qk b os = Ok (b', evs, fw) ->
  b_cash b' = b_cash b /\ b_holdings b' = b_holdings b /\ b_log b' = b_log b /\
  b_quotes b' = b_quotes b /\ b_failed b' = b_failed b /\ b_costs b' = b_costs b.
Proof.
  revert b b' evs fw. induction os as [|o r IH]; intros b b' evs fw H.
  - cbn in H. inversion H; subst. repeat split; reflexivity.
  - apply send_orders_cons in H. destruct H as (b1 & ev1 & fw1 & evs2 & fw2 & Hs & Hr & -> & ->).
    apply IH in Hr. apply send_order_cases in Hs.
    destruct Hs as [(_ & -> & _)|(_ & -> & _)]; [exact Hr|].
    destruct Hr as (-> & -> & -> & -> & -> & ->). apply add_pending_frame.
Qed.

(* a Failed broker forwards nothing *)
Lemma send_orders_failed qk (b : broker F) os b' evs fw :
  b_failed b = true -> send_orders qk b os = Ok (b', evs, fw) -> b' = b /\ fw = [].
Proof.
  intros Hf. revert b' evs fw. induction os as [|o r IH]; intros b' evs fw H.
  - cbn in H. inversion H; subst. split; reflexivity.
  - apply send_orders_cons in H. destruct H as (b1 & ev1 & fw1 & evs2 & fw2 & Hs & Hr & -> & ->).
    apply send_order_cases in Hs. rewrite (gate_failed b o qk Hf) in Hs.
    destruct Hs as [(_ & -> & _ & ->)|(G & _)]; [|discriminate].
    apply IH in Hr. destruct Hr as [-> ->]. split; reflexivity.
Qed.

(* shapes: everything liquidation / rebalance / check do after booking is a run of send_order *)
Lemma liq_failure_frame qk (b : broker F) c :
  b_holdings (liq_failure qk b c) = b_holdings b /\ b_pending (liq_failure qk b c) = b_pending b /\
  b_log (liq_failure qk b c) = b_log b /\ b_quotes (liq_failure qk b c) = b_quotes b /\
  b_failed (liq_failure qk b c) = b_failed b /\ b_costs (liq_failure qk b c) = b_costs b.
Proof.
  unfold liq_failure, debit. destruct (q_liq_fail_debit qk); [|repeat split; reflexivity].
  destruct (c >? b_cash b); repeat split; reflexivity.
Qed.

Lemma liq_failure_clean (b : broker F) c : liq_failure clean b c = b.
Proof. reflexivity. Qed.

Lemma liq_shape qk (b : broker F) c ord b' ev fw :
  withdraw_cash_with_liquidation qk b c ord = Ok (b', ev, fw) ->
  (b' = liq_failure qk b c /\ ev = WithdrawFailure c /\ fw = []) \/
  (exists sells evs, send_orders qk b sells = Ok (b', evs, fw) /\ ev = WithdrawSuccess c).
Proof.
  unfold withdraw_cash_with_liquidation. intros H.
  destruct (negb (is_order_of ord (b_holdings b))); [discriminate|].
  destruct (c >? liquidation_value b ord).
  - inversion H; subst. left. repeat split; reflexivity.
  - destruct (liq_loop qk b ord c []) as [[ts sells]|s|]; cbn [bind] in H; try discriminate.
    destruct (ts ==? fzero).
    + destruct (send_orders qk b sells) as [[[b1 evs1] fw1]|s|] eqn:Hs; cbn [bind] in H; try discriminate.
      inversion H; subst. right. eauto.
    + inversion H; subst. left. repeat split; reflexivity.
Qed.

Lemma liq_frame qk (b : broker F) c ord b' ev fw :
  withdraw_cash_with_liquidation qk b c ord = Ok (b', ev, fw) ->
  b_holdings b' = b_holdings b /\ b_log b' = b_log b /\ b_quotes b' = b_quotes b /\
  b_failed b' = b_failed b /\ b_costs b' = b_costs b.
Proof.
  intros H. apply liq_shape in H. destruct H as [(-> & _ & _)|(sells & evs & Hs & _)].
  - destruct (liq_failure_frame qk b c) as (? & ? & ? & ? & ? & ?). auto.
  - apply send_orders_cash in Hs. destruct Hs as (? & ? & ? & ? & ? & ?). auto.
Qed.

Lemma liq_clean_sends (b : broker F) c ord b' ev fw :
  withdraw_cash_with_liquidation clean b c ord = Ok (b', ev, fw) ->
  exists sells evs, send_orders clean b sells = Ok (b', evs, fw).
Proof.
  intros H. apply liq_shape in H. destruct H as [(-> & _ & ->)|(sells & evs & Hs & _)].
  - exists [], []. reflexivity.
  - eauto.
Qed.

Lemma liquidation_cash_clean (b : broker F) c ord b' ev fw :
  withdraw_cash_with_liquidation clean b c ord = Ok (b', ev, fw) ->
  b_cash b' = b_cash b /\ b_holdings b' = b_holdings b /\ b_log b' = b_log b /\ b_failed b' = b_failed b.
Proof.
  intros H. apply liq_clean_sends in H. destruct H as (sells & evs & Hs).
  apply send_orders_cash in Hs. destruct Hs as (? & ? & ? & ? & ? & ?). auto.
Qed.

Lemma rebalance_shape qk (b : broker F) ord b' fw :
  rebalance_cash qk b ord = Ok (b', fw) ->
  (b' = b /\ fw = []) \/
  (exists c b1 ev, withdraw_cash_with_liquidation qk b c ord = Ok (b1, ev, fw) /\
                   (b' = b1 \/ b' = set_failed b1)).
Proof.
  unfold rebalance_cash. intros H. destruct (b_cash b <? fzero).
  - match type of H with bind ?w _ = _ => destruct w as [[[b1 ev] fw1]|s|] eqn:Hw end;
      cbn [bind] in H; try discriminate.
    right. exists (b_cash b * - fone + fofZ 1000), b1, ev.
    destruct ev; inversion H; subst; auto.
  - inversion H; subst. auto.
Qed.

Lemma rebalance_clean_sends (b : broker F) ord b' fw :
  rebalance_cash clean b ord = Ok (b', fw) ->
  exists sells evs b1, send_orders clean b sells = Ok (b1, evs, fw) /\ (b' = b1 \/ b' = set_failed b1).
Proof.
  intros H. apply rebalance_shape in H. destruct H as [(-> & ->)|(c & b1 & ev & Hw & Hb)].
  - exists [], [], b. split; [reflexivity|auto].
  - apply liq_clean_sends in Hw. destruct Hw as (sells & evs & Hs). eauto.
Qed.

Lemma rebalance_cash_clean (b : broker F) ord b' fw :
  rebalance_cash clean b ord = Ok (b', fw) ->
  b_cash b' = b_cash b /\ b_holdings b' = b_holdings b /\ b_log b' = b_log b.
Proof.
  intros H. apply rebalance_clean_sends in H. destruct H as (sells & evs & b1 & Hs & Hb).
  apply send_orders_cash in Hs. destruct Hs as (? & ? & ? & ? & ? & ?).
  destruct Hb as [->| ->]; auto.
Qed.

(* the state after the client calls of a tick are booked *)
Definition booked (b : broker F) (resp : option (list (trade F) * list (string * quote F))) : broker F :=
  match resp with
  | Some (trades, row) => fold_left book_trade trades (update_quotes b row)
  | None => b
  end.

Lemma check_shape qk (b : broker F) resp ord b' fw :
  check qk b resp ord = Ok (b', fw) ->
  (b' = booked b resp /\ fw = []) \/ rebalance_cash qk (booked b resp) ord = Ok (b', fw).
Proof.
  unfold check. fold (booked b resp). destruct (b_cash (booked b resp) <? fzero); intros H; auto.
  inversion H; subst. auto.
Qed.

Lemma check_clean_sends (b : broker F) resp ord b' fw :
  check clean b resp ord = Ok (b', fw) ->
  exists sells evs b1, send_orders clean (booked b resp) sells = Ok (b1, evs, fw) /\
                       (b' = b1 \/ b' = set_failed b1).
Proof.
  intros H. apply check_shape in H. destruct H as [(-> & ->)|H].
  - exists [], [], (booked b resp). split; [reflexivity|auto].
  - now apply rebalance_clean_sends in H.
Qed.

Lemma deposit_frame (b : broker F) c :
  b_holdings (fst (deposit_cash b c)) = b_holdings b /\ b_pending (fst (deposit_cash b c)) = b_pending b /\
  b_log (fst (deposit_cash b c)) = b_log b /\ b_failed (fst (deposit_cash b c)) = b_failed b.
Proof. unfold deposit_cash. destruct (b_failed b) eqn:Hf; cbn; auto. Qed.

Lemma withdraw_frame (b : broker F) c :
  b_holdings (fst (withdraw_cash b c)) = b_holdings b /\ b_pending (fst (withdraw_cash b c)) = b_pending b /\
  b_log (fst (withdraw_cash b c)) = b_log b /\ b_failed (fst (withdraw_cash b c)) = b_failed b.
Proof.
  unfold withdraw_cash, debit. destruct (b_failed b) eqn:Hf; cbn; auto.
  destruct (c >? b_cash b); cbn; auto.
Qed.

Lemma bstep_deposit qk (b : broker F) c b' ev fw :
  bstep qk b (OpDeposit c) = Ok (b', ev, fw) ->
  b' = fst (deposit_cash b c) /\ ev = EvCash (snd (deposit_cash b c)) /\ fw = [].
Proof. cbn [bstep]. destruct (deposit_cash b c) as [b1 e]. intros H. inversion H; subst. auto. Qed.

Lemma bstep_withdraw qk (b : broker F) c b' ev fw :
  bstep qk b (OpWithdraw c) = Ok (b', ev, fw) ->
  b' = fst (withdraw_cash b c) /\ ev = EvCash (snd (withdraw_cash b c)) /\ fw = [].
Proof. cbn [bstep]. destruct (withdraw_cash b c) as [b1 e]. intros H. inversion H; subst. auto. Qed.

Lemma bstep_liq qk (b : broker F) c ord b' ev fw :
  bstep qk b (OpLiq c ord) = Ok (b', ev, fw) ->
  exists e, withdraw_cash_with_liquidation qk b c ord = Ok (b', e, fw) /\ ev = EvCash e.
Proof.
  cbn [bstep]. intros H.
  destruct (withdraw_cash_with_liquidation qk b c ord) as [[[b1 e] fw1]|s|]; cbn [bind] in H; try discriminate.
  inversion H; subst. eauto.
Qed.

Lemma bstep_send qk (b : broker F) x b' ev fw :
  bstep qk b (OpSend x) = Ok (b', ev, fw) ->
  exists e, send_order qk b x = Ok (b', e, fw) /\ ev = EvOrder e.
Proof.
  cbn [bstep]. intros H.
  destruct (send_order qk b x) as [[[b1 e] fw1]|s|]; cbn [bind] in H; try discriminate.
  inversion H; subst. eauto.
Qed.

Lemma bstep_check qk (b : broker F) resp ord b' ev fw :
  bstep qk b (OpCheck resp ord) = Ok (b', ev, fw) ->
  check qk b resp ord = Ok (b', fw) /\ ev = EvNone.
Proof.
  cbn [bstep]. intros H.
  destruct (check qk b resp ord) as [[b1 fw1]|s|]; cbn [bind] in H; try discriminate.
  inversion H; subst. eauto.
Qed.

Lemma update_quotes_frame (b : broker F) row :
  b_cash (update_quotes b row) = b_cash b /\ b_holdings (update_quotes b row) = b_holdings b /\
  b_pending (update_quotes b row) = b_pending b /\ b_log (update_quotes b row) = b_log b /\
  b_failed (update_quotes b row) = b_failed b.
Proof. repeat split; reflexivity. Qed.

Lemma check_cash_clean (b : broker F) resp ord b' fw :
  check clean b resp ord = Ok (b', fw) ->
  b_cash b' = b_cash (booked b resp) /\ b_holdings b' = b_holdings (booked b resp) /\
  b_log b' = b_log (booked b resp).
Proof.
  intros H. apply check_shape in H. destruct H as [(-> & _)|H]; [auto|].
  now apply rebalance_cash_clean in H.
Qed.

(* the step law of C04 *)
Lemma step_cash_exact (b : broker F) (o : bop F) b' ev fw :
  bstep clean b o = Ok (b', ev, fw) ->
  b_cash b' =
  match o with
  | OpDeposit c => if b_failed b then b_cash b else c + b_cash b
  | OpWithdraw c => if b_failed b then b_cash b else if c >? b_cash b then b_cash b else b_cash b - c
  | OpLiq _ _ | OpSend _ => b_cash b
  | OpCheck (Some (ts, _)) _ => cash_after_trades (b_cash b) ts
  | OpCheck None _ => b_cash b
  end.
Proof.
  intros H. destruct o as [c|c|c ord|x|resp ord].
  - apply bstep_deposit in H. destruct H as (-> & _ & _). unfold deposit_cash.
    destruct (b_failed b); reflexivity.
  - apply bstep_withdraw in H. destruct H as (-> & _ & _). unfold withdraw_cash, debit.
    destruct (b_failed b); [reflexivity|]. destruct (c >? b_cash b); reflexivity.
  - apply bstep_liq in H. destruct H as (e & H & _). now apply liquidation_cash_clean in H.
  - apply bstep_send in H. destruct H as (e & H & _). apply send_order_cases in H.
    destruct H as [(_ & -> & _)|(_ & -> & _)]; reflexivity.
  - apply bstep_check in H. destruct H as (H & _). apply check_cash_clean in H.
    destruct H as (-> & _). destruct resp as [[ts row]|]; cbn [booked]; [|reflexivity].
    now rewrite book_trades_cash.
Qed.

(* events tell the truth about deposits and withdrawals *)
Lemma step_event_exact (b : broker F) (o : bop F) b' ev fw :
  bstep clean b o = Ok (b', ev, fw) ->
  match o, ev with
  | OpDeposit c, EvCash (DepositSuccess x) => x = c /\ b_failed b = false
  | OpDeposit c, EvCash (OperationFailure x) => x = c /\ b_failed b = true /\ b' = b
  | OpWithdraw c, EvCash (WithdrawSuccess x) => x = c /\ b_failed b = false /\ (c >? b_cash b) = false
  | OpWithdraw c, EvCash (WithdrawFailure x) => x = c /\ b_failed b = false /\ (c >? b_cash b) = true /\ b' = b
  | OpWithdraw c, EvCash (OperationFailure x) => x = c /\ b_failed b = true /\ b' = b
  | OpDeposit _, _ | OpWithdraw _, _ => False
  | _, _ => True
  end.
Proof.
  intros H. destruct o as [c|c|c ord|x|resp ord].
  - apply bstep_deposit in H. destruct H as (-> & -> & _). unfold deposit_cash.
    destruct (b_failed b); cbn; auto.
  - apply bstep_withdraw in H. destruct H as (-> & -> & _). unfold withdraw_cash.
    destruct (b_failed b); cbn; auto. destruct (c >? b_cash b) eqn:Hc; cbn; auto.
  - destruct ev as [[]| |]; exact I.
  - destruct ev as [[]| |]; exact I.
  - destruct ev as [[]| |]; exact I.
Qed.

(* ---- C05: log and holdings/pending step laws ---- *)
Lemma book_trade_log (b : broker F) t : b_log (book_trade b t) = b_log b ++ [t].
Proof. unfold book_trade. destruct (t_side t); reflexivity. Qed.

Lemma book_trades_log (b : broker F) ts : b_log (fold_left book_trade ts b) = b_log b ++ ts.
Proof.
  revert b. induction ts as [|t ts IH]; intros b; cbn [fold_left].
  - now rewrite app_nil_r.
  - rewrite IH, book_trade_log, <- app_assoc. reflexivity.
Qed.

Lemma book_trade_failed (b : broker F) t : b_failed (book_trade b t) = b_failed b.
Proof. unfold book_trade. destruct (t_side t); reflexivity. Qed.

Lemma book_trades_failed (b : broker F) ts : b_failed (fold_left book_trade ts b) = b_failed b.
Proof.
  revert b. induction ts as [|t ts IH]; intros b; cbn [fold_left]; [reflexivity|].
  now rewrite IH, book_trade_failed.
Qed.

Lemma booked_failed (b : broker F) resp : b_failed (booked b resp) = b_failed b.
Proof. destruct resp as [[ts row]|]; cbn [booked]; [|reflexivity]. now rewrite book_trades_failed. Qed.

Lemma step_log_exact (b : broker F) (o : bop F) b' ev fw :
  bstep clean b o = Ok (b', ev, fw) ->
  b_log b' = match o with OpCheck (Some (ts, _)) _ => b_log b ++ ts | _ => b_log b end.
Proof.
  intros H. destruct o as [c|c|c ord|x|resp ord].
  - apply bstep_deposit in H. destruct H as (-> & _ & _). apply deposit_frame.
  - apply bstep_withdraw in H. destruct H as (-> & _ & _). apply withdraw_frame.
  - apply bstep_liq in H. destruct H as (e & H & _). now apply liquidation_cash_clean in H.
  - apply bstep_send in H. destruct H as (e & H & _). apply send_order_cases in H.
    destruct H as [(_ & -> & _)|(_ & -> & _)]; reflexivity.
  - apply bstep_check in H. destruct H as (H & _). apply check_cash_clean in H.
    destruct H as (_ & _ & ->). destruct resp as [[ts row]|]; cbn [booked]; [|reflexivity].
    now rewrite book_trades_log.
Qed.

(* operations other than check leave holdings alone; send_order/liquidation/rebalance only ever touch pending *)
Lemma step_holdings_frame (b : broker F) (o : bop F) b' ev fw :
  bstep clean b o = Ok (b', ev, fw) ->
  match o with OpCheck (Some _) _ => True | _ => b_holdings b' = b_holdings b end.
Proof.
  intros H. destruct o as [c|c|c ord|x|resp ord].
  - apply bstep_deposit in H. destruct H as (-> & _ & _). apply deposit_frame.
  - apply bstep_withdraw in H. destruct H as (-> & _ & _). apply withdraw_frame.
  - apply bstep_liq in H. destruct H as (e & H & _). now apply liquidation_cash_clean in H.
  - apply bstep_send in H. destruct H as (e & H & _). apply send_order_cases in H.
    destruct H as [(_ & -> & _)|(_ & -> & _)]; reflexivity.
  - destruct resp as [p|]; [exact I|].
    apply bstep_check in H. destruct H as (H & _). apply check_cash_clean in H.
    destruct H as (_ & -> & _). reflexivity.
Qed.

(* ---- C09: Failed is absorbing; refusals are inert ---- *)
Lemma rebalance_failed_mono qk (b : broker F) ord b' fw :
  rebalance_cash qk b ord = Ok (b', fw) -> b_failed b = true -> b_failed b' = true.
Proof.
  intros H Hf. apply rebalance_shape in H. destruct H as [(-> & _)|(c & b1 & ev & Hw & Hb)]; [assumption|].
  apply liq_frame in Hw. destruct Hw as (_ & _ & _ & Hf1 & _).
  destruct Hb as [->| ->]; [congruence|reflexivity].
Qed.

Lemma failed_absorbing qk (b : broker F) (o : bop F) b' ev fw :
  b_failed b = true -> bstep qk b o = Ok (b', ev, fw) -> b_failed b' = true.
Proof.
  intros Hf H. destruct o as [c|c|c ord|x|resp ord].
  - apply bstep_deposit in H. destruct H as (-> & _ & _).
    destruct (deposit_frame b c) as (_ & _ & _ & ->). assumption.
  - apply bstep_withdraw in H. destruct H as (-> & _ & _).
    destruct (withdraw_frame b c) as (_ & _ & _ & ->). assumption.
  - apply bstep_liq in H. destruct H as (e & H & _). apply liq_frame in H.
    destruct H as (_ & _ & _ & -> & _). assumption.
  - apply bstep_send in H. destruct H as (e & H & _). apply send_order_cases in H.
    destruct H as [(_ & -> & _)|(_ & -> & _)]; assumption.
  - apply bstep_check in H. destruct H as (H & _). apply check_shape in H.
    destruct H as [(-> & _)|H].
    + now rewrite booked_failed.
    + apply rebalance_failed_mono in H; [assumption|]. now rewrite booked_failed.
Qed.

Lemma failed_refuses qk (b : broker F) :
  b_failed b = true ->
  (forall c, deposit_cash b c = (b, OperationFailure c)) /\
  (forall c, withdraw_cash b c = (b, OperationFailure c)) /\
  (forall o, send_order qk b o = Ok (b, OrderInvalid o, [])).
Proof.
  intros Hf. repeat split; intros x.
  - unfold deposit_cash. now rewrite Hf.
  - unfold withdraw_cash. now rewrite Hf.
  - unfold send_order. now rewrite (gate_failed b x qk Hf).
Qed.

(* …while fills in flight are still booked exactly as in Ready *)
Lemma failed_check_books (b : broker F) ts row ord b' fw :
  b_failed b = true -> check clean b (Some (ts, row)) ord = Ok (b', fw) ->
  b_cash b' = cash_after_trades (b_cash b) ts /\
  b_holdings b' = b_holdings (fold_left book_trade ts (update_quotes b row)) /\
  b_log b' = b_log b ++ ts /\ fw = [].
Proof.
  intros Hf H. pose proof (check_cash_clean _ _ _ _ _ H) as (Hc & Hh & Hl).
  cbn [booked] in Hc, Hh, Hl. rewrite book_trades_cash in Hc. rewrite book_trades_log in Hl.
  repeat split; try assumption.
  apply check_clean_sends in H. destruct H as (sells & evs & b1 & Hs & _).
  apply send_orders_failed in Hs; [tauto|]. now rewrite booked_failed.
Qed.

(* only the reconciliation of a tick can enter Failed *)
Lemma failed_only_in_check (b : broker F) (o : bop F) b' ev fw :
  b_failed b = false -> bstep clean b o = Ok (b', ev, fw) -> b_failed b' = true ->
  exists resp ord, o = OpCheck resp ord.
Proof.
  intros Hf H Hf'. destruct o as [c|c|c ord|x|resp ord]; [exfalso..|eauto].
  - apply bstep_deposit in H. destruct H as (-> & _ & _).
    destruct (deposit_frame b c) as (_ & _ & _ & E). congruence.
  - apply bstep_withdraw in H. destruct H as (-> & _ & _).
    destruct (withdraw_frame b c) as (_ & _ & _ & E). congruence.
  - apply bstep_liq in H. destruct H as (e & H & _). apply liq_frame in H.
    destruct H as (_ & _ & _ & E & _). congruence.
  - apply bstep_send in H. destruct H as (e & H & _). apply send_order_cases in H.
    destruct H as [(_ & -> & _)|(_ & -> & _)]; cbn in Hf'; congruence.
Qed.
(* every clean step = (cash op | booking of the tick's trades), then a run of send_order, then
   possibly the transition to Failed *)
Definition pre_state (b : broker F) (o : bop F) : broker F :=
  match o with
  | OpDeposit c => fst (deposit_cash b c)
  | OpWithdraw c => fst (withdraw_cash b c)
  | OpLiq _ _ | OpSend _ => b
  | OpCheck resp _ => booked b resp
  end.

Definition trades_of (o : bop F) : list (trade F) :=
  match o with OpCheck (Some (ts, _)) _ => ts | _ => [] end.

Lemma bstep_clean_sends (b : broker F) o b' ev fw :
  bstep clean b o = Ok (b', ev, fw) ->
  exists sells evs b1, send_orders clean (pre_state b o) sells = Ok (b1, evs, fw) /\
                       (b' = b1 \/ b' = set_failed b1).
Proof.
  intros H. destruct o as [c|c|c ord|x|resp ord]; cbn [pre_state].
  - apply bstep_deposit in H. destruct H as (-> & _ & ->).
    exists [], [], (fst (deposit_cash b c)). split; [reflexivity|auto].
  - apply bstep_withdraw in H. destruct H as (-> & _ & ->).
    exists [], [], (fst (withdraw_cash b c)). split; [reflexivity|auto].
  - apply bstep_liq in H. destruct H as (e & H & _). apply liq_clean_sends in H.
    destruct H as (sells & evs & Hs). exists sells, evs, b'. split; [exact Hs|auto].
  - apply bstep_send in H. destruct H as (e & H & _).
    exists [x], [e], b'. split; [|auto]. cbn [send_orders]. rewrite H. cbn [bind].
    now rewrite app_nil_r.
  - apply bstep_check in H. destruct H as (H & _). now apply check_clean_sends in H.
Qed.
End AnyNum.

(* ============================ (B) at F := R ============================ *)
Section AtR.
Local Existing Instance RNum.
Local Open Scope R_scope.

Definition hget (m : smap R) (s : string) : R := match sget m s with Some x => x | None => 0 end.
Definition signed_qty (s : string) (t : trade R) : R :=
  if String.eqb (t_symbol t) s then (match t_side t with Buy => t_quantity t | Sell => - t_quantity t end) else 0.
Definition signed_value (t : trade R) : R :=
  match t_side t with Buy => - t_value t | Sell => t_value t end.
Definition sumR {A} (f : A -> R) (l : list A) : R := fold_right (fun a acc => f a + acc) 0 l.

Lemma sumR_nil {A} (f : A -> R) : sumR f [] = 0.
Proof. reflexivity. Qed.
Lemma sumR_cons {A} (f : A -> R) a l : sumR f (a :: l) = f a + sumR f l.
Proof. reflexivity. Qed.
Lemma sumR_app {A} (f : A -> R) l1 l2 : sumR f (l1 ++ l2) = sumR f l1 + sumR f l2.
Proof.
  induction l1 as [|a l1 IH]; cbn [app]; rewrite ?sumR_nil, ?sumR_cons; [lra|rewrite IH; lra].
Qed.

(* C04 [R]: cash after booking trades = cash - buys + sells *)
Lemma cash_after_trades_sum c ts : cash_after_trades c ts = c + sumR signed_value ts.
Proof.
  unfold cash_after_trades. revert c. induction ts as [|t ts IH]; intros c; cbn [fold_left].
  - rewrite sumR_nil. lra.
  - rewrite IH, sumR_cons. unfold signed_value. destruct (t_side t); cbn [fadd fsub RNum]; lra.
Qed.

(* the ledger delta each operation is entitled to *)
Definition ledger_delta (b : broker R) (o : bop R) : R :=
  match o with
  | OpDeposit c => if b_failed b then 0 else c
  | OpWithdraw c => if b_failed b then 0 else if Rlt_bool (b_cash b) c then 0 else - c
  | OpCheck (Some (ts, _)) _ => sumR signed_value ts
  | _ => 0
  end.
Fixpoint ledger (b : broker R) (ops : list (bop R)) : R :=
  match ops with
  | [] => 0
  | o :: r => ledger_delta b o +
              match bstep clean b o with Ok (b1, _, _) => ledger b1 r | _ => 0 end
  end.

Lemma brun_cons qk (b : broker R) o r b' evs :
  brun qk b (o :: r) = Ok (b', evs) ->
  exists b1 e fw evs2, bstep qk b o = Ok (b1, e, fw) /\ brun qk b1 r = Ok (b', evs2) /\
                       evs = (e, fw) :: evs2.
Proof.
  cbn [brun]. intros H.
  destruct (bstep qk b o) as [[[b1 e] fw]|s|] eqn:Hs; cbn [bind] in H; try discriminate.
  destruct (brun qk b1 r) as [[b2 evs2]|s|] eqn:Hr; cbn [bind] in H; try discriminate.
  inversion H; subst. do 4 eexists. repeat split; eauto.
Qed.

(* C04 ledger over ALL histories: cash = initial cash + deposits - withdrawals - buys + sells *)
Lemma cash_ledger (b : broker R) ops b' evs :
  brun clean b ops = Ok (b', evs) -> b_cash b' = b_cash b + ledger b ops.
Proof.
  revert b b' evs. induction ops as [|o r IH]; intros b b' evs H.
  - cbn in H. inversion H; subst. cbn [ledger]. lra.
  - apply brun_cons in H. destruct H as (b1 & e & fw & evs2 & Hs & Hr & ->).
    apply IH in Hr. cbn [ledger]. rewrite Hs, Hr.
    rewrite (step_cash_exact _ _ _ _ _ Hs).
    destruct o as [c|c|c ord|x|[[ts row]|] ord]; cbn [ledger_delta].
    + destruct (b_failed b); cbn [fadd RNum]; lra.
    + destruct (b_failed b); [lra|]. cbn [fltb fsub RNum]. destruct (Rlt_bool (b_cash b) c); lra.
    + lra.
    + lra.
    + rewrite cash_after_trades_sum. lra.
    + lra.
Qed.

(* with the recorded defect q_liq_fail_debit, a failed liquidation request not exceeding cash debits
   it: witness (R): deposit 100, request 50 with no positions *)
Definition liq_debit : quirks := mkQuirks false false false false false false false false false false true false.
Lemma c04_refuted_q_liq_fail_debit :
  let b0 := mkBroker 100 [] [] [] [] [] false in
  exists b', withdraw_cash_with_liquidation liq_debit b0 50 [] = Ok (b', WithdrawFailure 50, []) /\ b_cash b' = 50.
Proof.
  intros b0.
  assert (H1 : Rlt_bool 100 50 = false) by (apply Rlt_bool_false; lra).
  assert (H2 : Req_bool 50 0 = false) by (apply Req_bool_false; lra).
  exists (mkBroker (100 - 50) [] [] [] [] [] false). split; [|cbn [b_cash]; lra].
  unfold withdraw_cash_with_liquidation, liquidation_value, liq_failure, debit, b0.
  cbn -[Rlt_bool Req_bool IZR Rminus]. rewrite H1. cbn -[Rlt_bool Req_bool IZR Rminus].
  rewrite H2. reflexivity.
Qed.

(* C05 [R]: holdings = bought - sold, no zero entries, pending = accepted - executed *)
Definition no_zero (m : smap R) : Prop := Forall (fun kv => snd kv <> 0) m.
Definition keys_nodup {A} (m : smap A) : Prop := NoDup (map fst m).

Lemma hget_sset_same m k a : hget (sset m k a) k = a.
Proof. unfold hget. now rewrite sget_sset_same. Qed.
Lemma hget_sset_other m k a s : s <> k -> hget (sset m k a) s = hget m s.
Proof. intros H. unfold hget. now rewrite sget_sset_other. Qed.
Lemma hget_sremove_same m k : keys_nodup m -> hget (sremove m k) k = 0.
Proof. intros H. unfold hget. now rewrite sget_sremove_same. Qed.
Lemma hget_sremove_other m k s : s <> k -> hget (sremove m k) s = hget m s.
Proof. intros H. unfold hget. now rewrite sget_sremove_other. Qed.

(* the update idiom of book_trade: store the new value, or drop the entry when it is zero *)
Definition supd (m : smap R) (k : string) (v : R) : smap R :=
  if Req_bool v 0 then sremove m k else sset m k v.

Lemma hget_supd m k v s : keys_nodup m -> hget (supd m k v) s = if String.eqb k s then v else hget m s.
Proof.
  intros Hnd. unfold supd. destruct (String.eqb k s) eqn:E.
  - apply String.eqb_eq in E. subst s. destruct (Req_bool_spec v 0) as [Hv|Hv].
    + rewrite hget_sremove_same by assumption. lra.
    + apply hget_sset_same.
  - apply String.eqb_neq in E. assert (s <> k) by congruence.
    destruct (Req_bool v 0); [now apply hget_sremove_other|now apply hget_sset_other].
Qed.

Lemma supd_nodup m k v : keys_nodup m -> keys_nodup (supd m k v).
Proof.
  unfold supd, keys_nodup. intros H. destruct (Req_bool v 0); [now apply nodup_sremove|now apply nodup_sset].
Qed.

Lemma supd_no_zero m k v : no_zero m -> no_zero (supd m k v).
Proof.
  unfold supd, no_zero. intros H. destruct (Req_bool_spec v 0) as [Hv|Hv].
  - now apply forall_sremove.
  - apply forall_sset; assumption.
Qed.

Lemma book_trade_holdings_eq (b : broker R) t :
  b_holdings (book_trade b t) =
  supd (b_holdings b) (t_symbol t)
       (match t_side t with
        | Buy => hget (b_holdings b) (t_symbol t) + t_quantity t
        | Sell => hget (b_holdings b) (t_symbol t) - t_quantity t
        end).
Proof. unfold book_trade, supd, hget. destruct (t_side t); reflexivity. Qed.

Lemma book_trade_pending_eq (b : broker R) t :
  b_pending (book_trade b t) =
  supd (b_pending b) (t_symbol t)
       (match t_side t with
        | Buy => hget (b_pending b) (t_symbol t) - t_quantity t
        | Sell => hget (b_pending b) (t_symbol t) + t_quantity t
        end).
Proof. unfold book_trade, supd, hget. destruct (t_side t); reflexivity. Qed.

Lemma book_trade_holdings (b : broker R) t s :
  keys_nodup (b_holdings b) ->
  hget (b_holdings (book_trade b t)) s = hget (b_holdings b) s + signed_qty s t.
Proof.
  intros Hnd. rewrite book_trade_holdings_eq, hget_supd by assumption. unfold signed_qty.
  destruct (String.eqb (t_symbol t) s) eqn:E.
  - apply String.eqb_eq in E. subst s. destruct (t_side t); lra.
  - lra.
Qed.

Lemma book_trade_pending (b : broker R) t s :
  keys_nodup (b_pending b) ->
  hget (b_pending (book_trade b t)) s = hget (b_pending b) s - signed_qty s t.
Proof.
  intros Hnd. rewrite book_trade_pending_eq, hget_supd by assumption. unfold signed_qty.
  destruct (String.eqb (t_symbol t) s) eqn:E.
  - apply String.eqb_eq in E. subst s. destruct (t_side t); lra.
  - lra.
Qed.

Lemma book_trade_nodup (b : broker R) t :
  keys_nodup (b_holdings b) -> keys_nodup (b_pending b) ->
  keys_nodup (b_holdings (book_trade b t)) /\ keys_nodup (b_pending (book_trade b t)).
Proof.
  intros Hh Hp. rewrite book_trade_holdings_eq, book_trade_pending_eq.
  split; now apply supd_nodup.
Qed.

Lemma book_trade_no_zero (b : broker R) t :
  keys_nodup (b_holdings b) -> keys_nodup (b_pending b) -> no_zero (b_holdings b) ->
  no_zero (b_holdings (book_trade b t)) /\ keys_nodup (b_holdings (book_trade b t)) /\
  keys_nodup (b_pending (book_trade b t)).
Proof.
  intros Hh Hp Hz. destruct (book_trade_nodup b t Hh Hp) as [H1 H2].
  repeat split; try assumption. rewrite book_trade_holdings_eq. now apply supd_no_zero.
Qed.

Lemma book_trades_nodup (b : broker R) ts :
  keys_nodup (b_holdings b) -> keys_nodup (b_pending b) ->
  keys_nodup (b_holdings (fold_left book_trade ts b)) /\ keys_nodup (b_pending (fold_left book_trade ts b)) /\
  (no_zero (b_holdings b) -> no_zero (b_holdings (fold_left book_trade ts b))).
Proof.
  revert b. induction ts as [|t ts IH]; intros b Hh Hp; cbn [fold_left]; [auto|].
  destruct (book_trade_nodup b t Hh Hp) as [H1 H2].
  destruct (IH _ H1 H2) as (H3 & H4 & H5). repeat split; try assumption.
  intros Hz. apply H5. now apply book_trade_no_zero.
Qed.

Lemma book_trades_holdings (b : broker R) ts s :
  keys_nodup (b_holdings b) -> keys_nodup (b_pending b) ->
  hget (b_holdings (fold_left book_trade ts b)) s = hget (b_holdings b) s + sumR (signed_qty s) ts /\
  hget (b_pending (fold_left book_trade ts b)) s = hget (b_pending b) s - sumR (signed_qty s) ts.
Proof.
  revert b. induction ts as [|t ts IH]; intros b Hh Hp; cbn [fold_left].
  - rewrite sumR_nil. split; lra.
  - destruct (book_trade_nodup b t Hh Hp) as [H1 H2].
    destruct (IH _ H1 H2) as [-> ->].
    rewrite book_trade_holdings, book_trade_pending, sumR_cons by assumption. split; lra.
Qed.

Lemma add_pending_eq (b : broker R) o :
  b_pending (add_pending b o) =
  sset (b_pending b) (uo_symbol o) (hget (b_pending b) (uo_symbol o) + order_effect o).
Proof.
  unfold add_pending, hget. cbn [b_pending set_pending].
  destruct (sget (b_pending b) (uo_symbol o)); cbn [fadd RNum]; [reflexivity|].
  f_equal. lra.
Qed.

Lemma add_pending_effect (b : broker R) o s :
  keys_nodup (b_pending b) ->
  hget (b_pending (add_pending b o)) s =
  hget (b_pending b) s + (if String.eqb (uo_symbol o) s then order_effect o else 0).
Proof.
  intros _. rewrite add_pending_eq. destruct (String.eqb (uo_symbol o) s) eqn:E.
  - apply String.eqb_eq in E. subst s. now rewrite hget_sset_same.
  - apply String.eqb_neq in E. rewrite hget_sset_other by congruence. lra.
Qed.

Lemma add_pending_nodup (b : broker R) o :
  keys_nodup (b_pending b) -> keys_nodup (b_pending (add_pending b o)).
Proof. intros H. rewrite add_pending_eq. now apply nodup_sset. Qed.

(* signed quantity of an order handed to the client, per symbol *)
Definition oeff (s : string) (o : uorder R) : R :=
  if String.eqb (uo_symbol o) s then order_effect o else 0.

Lemma send_orders_pending qk (b : broker R) os b' evs fw :
  send_orders qk b os = Ok (b', evs, fw) -> keys_nodup (b_pending b) ->
  keys_nodup (b_pending b') /\
  forall s, hget (b_pending b') s = hget (b_pending b) s + sumR (oeff s) fw.
Proof.
  revert b b' evs fw. induction os as [|o r IH]; intros b b' evs fw H Hp.
  - cbn in H. inversion H; subst. split; [assumption|]. intros s. rewrite sumR_nil. lra.
  - apply send_orders_cons in H. destruct H as (b1 & ev1 & fw1 & evs2 & fw2 & Hs & Hr & -> & ->).
    apply send_order_cases in Hs.
    destruct Hs as [(_ & -> & _ & ->)|(_ & -> & _ & ->)].
    + destruct (IH _ _ _ _ Hr Hp) as [H1 H2]. split; [assumption|]. intros s. rewrite H2. cbn [app]. lra.
    + destruct (IH _ _ _ _ Hr (add_pending_nodup b o Hp)) as [H1 H2]. split; [assumption|].
      intros s. rewrite H2, add_pending_effect by assumption. cbn [app]. rewrite sumR_cons.
      unfold oeff at 2. lra.
Qed.

(* the invariant of one clean step *)
Lemma pre_state_inv (b : broker R) o :
  keys_nodup (b_holdings b) -> keys_nodup (b_pending b) ->
  keys_nodup (b_holdings (pre_state b o)) /\ keys_nodup (b_pending (pre_state b o)) /\
  (no_zero (b_holdings b) -> no_zero (b_holdings (pre_state b o))) /\
  b_log (pre_state b o) = b_log b ++ trades_of o /\
  forall s, hget (b_holdings (pre_state b o)) s = hget (b_holdings b) s + sumR (signed_qty s) (trades_of o) /\
            hget (b_pending (pre_state b o)) s = hget (b_pending b) s - sumR (signed_qty s) (trades_of o).
Proof.
  intros Hh Hp.
  assert (Hsame : forall b0 : broker R,
            b_holdings b0 = b_holdings b -> b_pending b0 = b_pending b -> b_log b0 = b_log b ->
            keys_nodup (b_holdings b0) /\ keys_nodup (b_pending b0) /\
            (no_zero (b_holdings b) -> no_zero (b_holdings b0)) /\
            b_log b0 = b_log b ++ [] /\
            forall s, hget (b_holdings b0) s = hget (b_holdings b) s + sumR (signed_qty s) [] /\
                      hget (b_pending b0) s = hget (b_pending b) s - sumR (signed_qty s) []).
  { intros b0 -> -> ->. rewrite app_nil_r. repeat split; try assumption; try (rewrite sumR_nil; lra); auto. }
  destruct o as [c|c|c ord|x|[[ts row]|] ord]; cbn [pre_state trades_of booked].
  - destruct (deposit_frame b c) as (? & ? & ? & _). now apply Hsame.
  - destruct (withdraw_frame b c) as (? & ? & ? & _). now apply Hsame.
  - now apply Hsame.
  - now apply Hsame.
  - destruct (book_trades_nodup (update_quotes b row) ts Hh Hp) as (H1 & H2 & H3).
    repeat split; try assumption.
    + now rewrite book_trades_log.
    + now destruct (book_trades_holdings (update_quotes b row) ts s Hh Hp).
    + now destruct (book_trades_holdings (update_quotes b row) ts s Hh Hp).
  - now apply Hsame.
Qed.

Lemma step_inv (b : broker R) o b' ev fw :
  bstep clean b o = Ok (b', ev, fw) ->
  keys_nodup (b_holdings b) -> keys_nodup (b_pending b) ->
  keys_nodup (b_holdings b') /\ keys_nodup (b_pending b') /\
  (no_zero (b_holdings b) -> no_zero (b_holdings b')) /\
  b_log b' = b_log b ++ trades_of o /\
  forall s, hget (b_holdings b') s = hget (b_holdings b) s + sumR (signed_qty s) (trades_of o) /\
            hget (b_pending b') s = hget (b_pending b) s - sumR (signed_qty s) (trades_of o)
                                    + sumR (oeff s) fw.
Proof.
  intros H Hh Hp. apply bstep_clean_sends in H. destruct H as (sells & evs & b1 & Hs & Hb).
  destruct (pre_state_inv b o Hh Hp) as (H1 & H2 & H3 & H4 & H5).
  destruct (send_orders_pending _ _ _ _ _ _ Hs H2) as [H6 H7].
  apply send_orders_cash in Hs. destruct Hs as (_ & Eh & El & _).
  assert (E : b_holdings b' = b_holdings b1 /\ b_pending b' = b_pending b1 /\ b_log b' = b_log b1)
    by (destruct Hb as [->| ->]; repeat split; reflexivity).
  destruct E as (-> & -> & ->). rewrite Eh, El.
  repeat split; try assumption.
  - apply H5.
  - rewrite H7. destruct (H5 s) as [_ ->]. reflexivity.
Qed.

Lemma handed_cons (e : bev R) (fw : list (uorder R)) evs :
  flat_map snd ((e, fw) :: evs) = fw ++ flat_map snd evs.
Proof. reflexivity. Qed.

Lemma brun_inv (b : broker R) ops b' evs :
  brun clean b ops = Ok (b', evs) ->
  keys_nodup (b_holdings b) -> keys_nodup (b_pending b) -> no_zero (b_holdings b) ->
  keys_nodup (b_holdings b') /\ keys_nodup (b_pending b') /\ no_zero (b_holdings b') /\
  exists ts, b_log b' = b_log b ++ ts /\
    forall s, hget (b_holdings b') s = hget (b_holdings b) s + sumR (signed_qty s) ts /\
              hget (b_pending b') s = hget (b_pending b) s - sumR (signed_qty s) ts
                                      + sumR (oeff s) (flat_map snd evs).
Proof.
  revert b b' evs. induction ops as [|o r IH]; intros b b' evs H Hh Hp Hz.
  - cbn in H. inversion H; subst. repeat split; try assumption. exists []. rewrite app_nil_r.
    split; [reflexivity|]. intros s. cbn [flat_map]. rewrite !sumR_nil. split; lra.
  - apply brun_cons in H. destruct H as (b1 & e & fw & evs2 & Hs & Hr & ->).
    destruct (step_inv _ _ _ _ _ Hs Hh Hp) as (H1 & H2 & H3 & H4 & H5).
    destruct (IH _ _ _ Hr H1 H2 (H3 Hz)) as (K1 & K2 & K3 & ts & K4 & K5).
    repeat split; try assumption. exists (trades_of o ++ ts). split.
    + rewrite K4, H4, app_assoc. reflexivity.
    + intros s. destruct (K5 s) as [-> ->]. destruct (H5 s) as [-> ->].
      rewrite handed_cons, !sumR_app. split; lra.
Qed.

(* over all histories from a fresh broker: holdings(s) = signed quantity of all logged trades of s;
   the log is the concatenation of all trade lists returned; no zero position is stored *)
Lemma holdings_reconcile costs quotes ops b' evs s :
  brun clean (broker_init costs quotes) ops = Ok (b', evs) ->
  hget (b_holdings b') s = sumR (signed_qty s) (b_log b') /\ no_zero (b_holdings b') /\
  keys_nodup (b_holdings b') /\ keys_nodup (b_pending b').
Proof.
  intros H. apply brun_inv in H; [|cbn; constructor ..].
  destruct H as (K1 & K2 & K3 & ts & K4 & K5). repeat split; try assumption.
  destruct (K5 s) as [-> _]. rewrite K4. unfold broker_init, hget. cbn [b_log b_holdings sget app]. lra.
Qed.

(* pending(s) = signed quantity of the orders handed to the client - signed quantity executed *)
Definition handed (evs : list (bev R * list (uorder R))) : list (uorder R) := flat_map snd evs.
Lemma pending_reconcile costs quotes ops b' evs s :
  brun clean (broker_init costs quotes) ops = Ok (b', evs) ->
  hget (b_pending b') s =
  sumR (fun o => if String.eqb (uo_symbol o) s then order_effect o else 0) (handed evs)
  - sumR (signed_qty s) (b_log b').
Proof.
  intros H. apply brun_inv in H; [|cbn; constructor ..].
  destruct H as (K1 & K2 & K3 & ts & K4 & K5).
  destruct (K5 s) as [_ ->]. rewrite K4. unfold handed. fold (oeff s).
  unfold broker_init, hget. cbn [b_log b_pending sget app]. lra.
Qed.

(* holdings-with-pending is the sum of the two, absent = 0 *)
Lemma with_pending_sum (b : broker R) s :
  holdings_with_pending b s =
  match sget (b_holdings b) s, sget (b_pending b) s with
  | None, None => None
  | _, _ => Some (hget (b_holdings b) s + hget (b_pending b) s)
  end.
Proof.
  unfold holdings_with_pending, hget.
  destruct (sget (b_holdings b) s), (sget (b_pending b) s); cbn [fadd RNum]; try reflexivity; f_equal; lra.
Qed.
End AtR.
