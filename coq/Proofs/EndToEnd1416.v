(* EndToEnd1416.v — C14 x C16 composed: the performance report of a strategy run.
   At F := R, clean: on a dataset with constant zero-spread prices the report of a run shows exactly zero
   performance (zero returns, total return, CAGR, volatility, drawdown, Sharpe): trading alone creates no
   performance, whatever the weights, costs, hash orders and sort oracles. *)
From Coq Require Import ZArith NArith List Bool String Reals Lra Lia Permutation Sorted Floats.
From Flocq Require Import Raux.
From Alator Require Import Model.Num Model.Quirks Model.Cost Model.Exchange Model.Uist Model.Server
  Model.Broker Model.Perf Model.Strategy
  Proofs.ServerProofs Proofs.BrokerLedgerProofs Proofs.BrokerLiqProofs Proofs.UistProofs
  Proofs.ExchangeProofs Proofs.ExchangeCorollaries Proofs.PerfProofs Proofs.StrategyProofs Proofs.EndToEnd16
  Proofs.EndToEndExamples.
Import ListNotations.
(* Proofs.EndToEndExamples opens string_scope globally *)
Local Open Scope list_scope.

(* StaticWeightStrategy::perf(freq) = PerformanceCalculator::calculate(freq, &self.history), daily data *)
Definition st_perf {F : Type} {NF : Num F} (qk : quirks) (s : strategy F) : res (output F) :=
  calculate qk (st_history s).

(* ====================== (A) every Num F: what a run records besides values ====================== *)
Section AnyNum.
Context {F : Type} {NF : Num F}.

(* one update of the composition is one update of the strategy *)
Lemma sys_update_strat qk (y : sys F) perm ord y' :
  sys_update qk y perm ord = Ok y' ->
  exists resp now fw, st_update qk (sy_strat y) resp now ord = Ok (sy_strat y', fw).
Proof.
  unfold sys_update. intros H.
  destruct (usstep qk (sy_app y) (STick (sy_id y) perm)) as [a1 rt].
  destruct (usstep qk a1 (SFetch (sy_id y))) as [a2 rf].
  destruct (usstep qk a2 (SNow (sy_id y))) as [a3 rn].
  destruct rt as [r| | | | | |]; try discriminate;
    (destruct rn as [| | | | |[[now h]|]|]; try discriminate;
     match type of H with bind ?u _ = _ => destruct u as [[s' fw]|e|] eqn:Hu end;
     cbn [bind] in H; try discriminate;
     inversion H; subst y'; cbn [sy_strat]; eauto).
Qed.

(* one update: the net cash flow is untouched and the one new snapshot carries it, with zero inflation *)
Lemma sys_update_ncf qk (y : sys F) perm ord y' :
  sys_update qk y perm ord = Ok y' ->
  st_ncf (sy_strat y') = st_ncf (sy_strat y) /\
  exists sn, st_history (sy_strat y') = st_history (sy_strat y) ++ [sn] /\
             sn_ncf sn = st_ncf (sy_strat y) /\ sn_infl sn = fzero.
Proof.
  intros H. destruct (sys_update_strat qk y perm ord y' H) as (resp & now & fw & Hu).
  apply st_update_snapshot in Hu. destruct Hu as (Hh & Hn & _).
  split; [exact Hn|]. eexists. split; [exact Hh|]. split; reflexivity.
Qed.

(* the whole run: [sys_run] never changes net_cash_flow; every snapshot it records carries it *)
Lemma sys_run_ncf qk fuel : forall (y : sys F) perms ords i y' n,
  sys_run qk fuel y perms ords i = Ok (y', n) ->
  st_ncf (sy_strat y') = st_ncf (sy_strat y) /\
  exists new, st_history (sy_strat y') = st_history (sy_strat y) ++ new /\
              Forall (fun sn => sn_ncf sn = st_ncf (sy_strat y) /\ sn_infl sn = fzero) new.
Proof.
  induction fuel as [|fuel IH]; intros y perms ords i y' n H.
  - cbn [sys_run] in H. discriminate.
  - cbn [sys_run] in H.
    destruct (sys_has_next qk y) as [[|]|]; try discriminate.
    + destruct (sys_update qk y (perms i) (ords i)) as [y1|e|] eqn:Hu; cbn [bind] in H; try discriminate.
      destruct (sys_update_ncf qk y _ _ y1 Hu) as (Hn1 & sn & Hh1 & Hs1 & Hi1).
      destruct (IH y1 perms ords (S i) y' n H) as (Hn & new & Hh & Hall).
      split; [rewrite Hn; exact Hn1|]. exists (sn :: new).
      split; [rewrite Hh, Hh1, <- app_assoc; reflexivity|].
      constructor; [split; assumption|]. rewrite <- Hn1. exact Hall.
    + inversion H; subst y' n. split; [reflexivity|]. exists [].
      split; [rewrite app_nil_r; reflexivity | constructor].
Qed.

End AnyNum.

(* ====================== (B) at F := R: the report of a flat history ====================== *)
Section AtR.
Local Existing Instance RNum.
Local Open Scope R_scope.

(* ---- lists of one repeated element ---- *)
Lemma map_const_repeat {A B} (f : A -> B) (b : B) (l : list A) :
  Forall (fun a => f a = b) l -> map f l = repeat b (List.length l).
Proof.
  induction 1 as [|a l Ha _ IH]; cbn [map List.length repeat]; [reflexivity|].
  rewrite Ha, IH. reflexivity.
Qed.

Lemma ncf_diffs_repeat (m : R) k : ncf_diffs m (repeat m k) = repeat 0 k.
Proof.
  induction k as [|k IH]; cbn [repeat ncf_diffs]; [reflexivity|].
  rewrite IH. rn. f_equal. lra.
Qed.

(* the cash flows of a constant cumulative net cash flow are all zero *)
Lemma cash_flows_flat (m : R) k : cash_flows_of (repeat m (S k)) = repeat 0 (S k).
Proof. cbn [repeat cash_flows_of]. rewrite ncf_diffs_repeat. reflexivity. Qed.

(* also for c = 0: the code returns 0.0 when the capital of the period is zero *)
Lemma period_return_flat (c : R) : period_return c c 0 0 = 0.
Proof.
  destruct (Req_dec c 0) as [Hc|Hc].
  - apply period_return_z. lra.
  - rewrite period_return_nz by lra. field. lra.
Qed.

Lemma zip3_repeat (a b c : R) k : zip3 (repeat a k) (repeat b k) (repeat c k) = repeat (a, b, c) k.
Proof. induction k as [|k IH]; cbn [repeat zip3]; [reflexivity|]. rewrite IH. reflexivity. Qed.

Lemma returns_from_flat (c : R) k : returns_from c (repeat (c, 0, 0) k) false = repeat 0 k.
Proof.
  induction k as [|k IH]; cbn [repeat returns_from]; [reflexivity|].
  rewrite IH, period_return_flat. reflexivity.
Qed.

(* constant value, no flows, no inflation: every period return is zero *)
Lemma get_returns_flat (c : R) k :
  get_returns (repeat c (S k)) (repeat 0 (S k)) (repeat 0 (S k)) false = repeat 0 k.
Proof.
  cbn [repeat get_returns]. rewrite zip3_repeat. apply returns_from_flat.
Qed.

Lemma map_repeat {A B} (f : A -> B) a k : map f (repeat a k) = repeat (f a) k.
Proof. induction k as [|k IH]; cbn [repeat map]; [reflexivity|]. rewrite IH. reflexivity. Qed.

Lemma get_log_returns_flat (c : R) k :
  get_returns (repeat c (S k)) (repeat 0 (S k)) (repeat 0 (S k)) true = repeat 0 k.
Proof.
  rewrite log_returns_are_logs, get_returns_flat.
  rewrite map_repeat. f_equal. rewrite Rplus_0_r. exact ln_1.
Qed.

Lemma sumR_zeros k : sumR (repeat 0 k) = 0.
Proof. induction k as [|k IH]; cbn [repeat sumR fold_right]; [reflexivity|]. fold (sumR (repeat 0 k)). rewrite IH. lra. Qed.

(* ---- the statistics of all-zero returns ---- *)
Lemma portfolio_return_zeros k : get_portfolio_return (repeat 0 k) = 0.
Proof. unfold get_portfolio_return. rn. rewrite fsum_sumR, sumR_zeros, exp_0. lra. Qed.

Lemma Rpowf_one (y : R) : Rpowf 1 y = 1.
Proof.
  unfold Rpowf. destruct (Req_EM_T y 2) as [_|_]; [lra|].
  unfold Rpower. rewrite ln_1, Rmult_0_r. exact exp_0.
Qed.

Lemma cagr_zeros k (n : Z) : get_cagr (repeat 0 k) n = 0.
Proof.
  unfold get_cagr, annualize_returns. rewrite portfolio_return_zeros. rn.
  rewrite Rplus_0_r, Rpowf_one. lra.
Qed.

Lemma var_zeros k : var (repeat 0 k) = 0.
Proof.
  rewrite var_spec_gen, sumR_zeros, map_repeat.
  replace ((0 - 0 / INR (List.length (repeat 0 k))) ^ 2) with 0.
  - rewrite sumR_zeros. unfold Rdiv. lra.
  - unfold Rdiv. cbn [pow]. lra.
Qed.

Lemma vol_zeros k : get_vol (repeat 0 k) = 0.
Proof.
  unfold get_vol, annualize_volatility, vol. rewrite var_zeros. rn. rewrite sqrt_0. lra.
Qed.

Lemma sharpe_zeros k j (n : Z) : get_sharpe (repeat 0 k) (repeat 0 j) n = 0.
Proof.
  rewrite sharpe_spec, vol_zeros, cagr_zeros.
  destruct (Req_bool_spec 0 0) as [_|N]; [reflexivity | contradiction N; reflexivity].
Qed.

Lemma fold_max_zeros k : fold_max 0 (repeat 0 k) = Some 0.
Proof.
  induction k as [|k IH]; cbn [repeat fold_max]; [reflexivity|].
  rewrite comparable_R. cbn [negb]. rn. rewrite Rlt_bool_false by lra. exact IH.
Qed.

Lemma fold_min_zeros k : fold_min 0 (repeat 0 k) = Some 0.
Proof.
  induction k as [|k IH]; cbn [repeat fold_min]; [reflexivity|].
  rewrite comparable_R. cbn [negb]. rn. rewrite Rlt_bool_false by lra. exact IH.
Qed.

(* the compounded index of zero returns stays at its start *)
Lemma index_from_zeros (v : R) k : index_from v (repeat 0 k) = repeat v k.
Proof.
  induction k as [|k IH]; cbn [repeat index_from]; [reflexivity|]. rn.
  replace (v * (1 + 0)) with v by lra. rewrite IH. reflexivity.
Qed.

(* the scan over a constant positive path after its first element: nothing changes *)
Lemma dd_scan_const (v : R) k : forall pos,
  dd_scan (mkDD 0 v 0 v 0 0 0) pos (repeat v k) = mkDD 0 v 0 v 0 0 0.
Proof.
  induction k as [|k IH]; intros pos; cbn [repeat dd_scan]; [reflexivity|].
  assert (E : dd_step (mkDD 0 v 0 v 0 0 0) pos v = mkDD 0 v 0 v 0 0 0).
  { unfold dd_step. cbn [dd_peak dd_trough]. rn. rewrite !Rlt_bool_false by lra. reflexivity. }
  rewrite E. apply IH.
Qed.

(* zero drawdown, located at the first position (with or without the last-positions defect) *)
Lemma get_maxdd_zeros qk k : get_maxdd qk (repeat 0 k) = (0, 0%nat, 0%nat).
Proof.
  unfold get_maxdd, index_of, maxdd. rewrite index_from_zeros. cbn [dd_scan].
  assert (E : dd_step dd_init 0 (fofZ 100000) = mkDD 0 (fofZ 100000) 0 (fofZ 100000) 0 0 0).
  { unfold dd_step, dd_init. cbn [dd_max dd_peak dd_peak_pos dd_trough dd_trough_pos dd_start dd_end]. rn.
    rewrite Rlt_bool_true by lra. reflexivity. }
  rewrite E, dd_scan_const.
  destruct (q_maxdd_last_positions qk); reflexivity.
Qed.

Lemma rev_head_last {A} (l : list A) x t d : rev l = x :: t -> List.last l d = x.
Proof.
  intros H. apply (f_equal (@rev A)) in H. rewrite rev_involutive in H. subst l.
  cbn [rev]. apply last_last.
Qed.

(* (P1) the report of a flat history: at least two snapshots, all worth the same c (zero included: the code returns
   0.0 for a period whose capital is zero), all carrying the same cumulative net cash flow m, no inflation.  Holds for every valuation of the defects (the only one
   [calculate] reads moves the drawdown positions, and here both candidates are position 0). *)
Theorem calculate_flat (qk : quirks) (states : list (snapshot R)) (c m : R) (n : nat) :
  List.length states = n -> (2 <= n)%nat ->
  Forall (fun sn => sn_value sn = c /\ sn_ncf sn = m /\ sn_infl sn = 0) states ->
  exists out,
    calculate qk states = Ok out /\
    o_returns out = repeat 0 (n - 1) /\
    o_ret out = 0 /\ o_cagr out = 0 /\ o_vol out = 0 /\ o_mdd out = 0 /\ o_sharpe out = 0 /\
    o_best out = 0 /\ o_worst out = 0 /\
    o_values out = repeat c n /\
    o_dates out = map sn_date states /\
    o_cash_flows out = repeat 0 n /\
    hd_error (map sn_date states) = Some (o_first_date out) /\
    o_last_date out = List.last (map sn_date states) (o_first_date out) /\
    o_dd_start_date out = o_first_date out /\ o_dd_end_date out = o_first_date out.
Proof.
  intros Hlen Hn Hall.
  assert (Hv : map sn_value states = repeat c n).
  { rewrite <- Hlen. apply map_const_repeat. eapply Forall_impl; [|exact Hall]. intros a H; exact (proj1 H). }
  assert (Hm : map sn_ncf states = repeat m n).
  { rewrite <- Hlen. apply map_const_repeat. eapply Forall_impl; [|exact Hall]. intros a H; exact (proj1 (proj2 H)). }
  assert (Hi : map sn_infl states = repeat 0 n).
  { rewrite <- Hlen. apply map_const_repeat. eapply Forall_impl; [|exact Hall]. intros a H; exact (proj2 (proj2 H)). }
  destruct n as [|[|k]]; [lia|lia|]. clear Hn.
  unfold calculate. cbv zeta.
  rewrite Hv, Hm, Hi, cash_flows_flat, get_returns_flat, get_log_returns_flat.
  rewrite get_maxdd_zeros.
  destruct states as [|s0 rest]; [discriminate Hlen|].
  cbn [map nth_error]. cbn [repeat].
  rewrite fold_max_zeros, fold_min_zeros.
  destruct (rev (sn_date s0 :: map sn_date rest)) as [|lst ds'] eqn:Hrev.
  { apply (f_equal (@List.length Z)) in Hrev. rewrite rev_length in Hrev. discriminate Hrev. }
  eexists. split; [reflexivity|].
  cbn [o_ret o_cagr o_vol o_mdd o_sharpe o_returns o_best o_worst o_dd_start_date o_dd_end_date o_dates
       o_values o_cash_flows o_first_date o_last_date hd_error].
  change (0 :: repeat 0 k) with (repeat 0 (S k)).
  rewrite portfolio_return_zeros, cagr_zeros, vol_zeros, sharpe_zeros.
  replace (S (S k) - 1)%nat with (S k) by lia.
  repeat split; try reflexivity.
  symmetry. exact (rev_head_last _ _ _ _ Hrev).
Qed.

(* ---- (P3) fewer than two snapshots: [calculate_panics_below_two] (Props/C14.v: c14_needs_two) ---- *)
Theorem calculate_fewer_than_two_panics (qk : quirks) (states : list (snapshot R)) :
  (List.length states < 2)%nat -> exists s, calculate qk states = Panic s.
Proof. exact (calculate_panics_below_two qk states). Qed.

(* ---- the run from a fresh start: what it records, without any premise on prices ---- *)
Lemma init_ncf costs q0 ws (c : R) ord0 s1 fw :
  st_init clean (mkStrategy (broker_init costs q0) ws 0 []) c ord0 = Ok (s1, fw) ->
  st_ncf s1 = c /\ st_history s1 = [].
Proof.
  intros H. pose proof (st_init_history _ _ _ _ _ _ H) as [Hh _]. split; [|exact Hh].
  apply st_init_shape in H. destruct H as (b2 & _ & ->). cbn [st_ncf].
  rewrite st_deposit_ncf. cbn [st_brkr broker_init b_failed st_ncf]. rn. lra.
Qed.

Lemma forward_start (a : uapp (F:=R)) id b d fw :
  SInv a -> nlookup (backtests a) id = Some b -> slookup (datasets a) (bt_dataset b) = Some d ->
  clock_ok d b 0 ->
  exists b', SInv (forward clean a id fw) /\
             nlookup (backtests (forward clean a id fw)) id = Some b' /\
             slookup (datasets (forward clean a id fw)) (bt_dataset b') = Some d /\ clock_ok d b' 0.
Proof.
  intros Hs Hb Hd Hc. destruct (forward_gen a id fw id Hs) as (Hp & Hs' & Hds').
  rewrite Hb in Hp. cbn [option_map] in Hp.
  destruct (nlookup (backtests (forward clean a id fw)) id) as [b'|]; [|discriminate].
  cbn [option_map] in Hp.
  assert (E : bproj b' = bproj b) by congruence.
  exists b'. split; [exact Hs'|]. split; [reflexivity|]. split.
  - rewrite Hds'. replace (bt_dataset b') with (bt_dataset b); [exact Hd|].
    unfold bproj in E. congruence.
  - exact (clock_ok_proj d b b' 0%nat E Hc).
Qed.

(* dates: the list d_2 … d_N, d_N *)
Definition shifted_dates (l : list Z) : list Z := tl l ++ [List.last l 0%Z].

Lemma nth_error_last_cons (t : list Z) : forall x d, nth_error (x :: t) (List.length t) = Some (List.last (x :: t) d).
Proof.
  induction t as [|y t IH]; intros x d; [reflexivity|].
  cbn [List.length nth_error]. rewrite (IH y d). reflexivity.
Qed.

Lemma shifted_dates_nth (l : list Z) m :
  (m < List.length l)%nat ->
  nth_error (shifted_dates l) m = nth_error l (Nat.min (m + 1) (List.length l - 1)).
Proof.
  unfold shifted_dates. destruct l as [|x t]; [cbn [List.length]; lia|].
  cbn [tl List.length]. intros Hm.
  replace (S (List.length t) - 1)%nat with (List.length t) by lia.
  destruct (Nat.eq_dec m (List.length t)) as [E|E].
  - subst m. rewrite nth_error_app2 by lia. rewrite Nat.sub_diag. cbn [nth_error].
    replace (Nat.min (List.length t + 1) (List.length t)) with (List.length t) by lia.
    symmetry. apply nth_error_last_cons.
  - rewrite nth_error_app1 by lia.
    replace (Nat.min (m + 1) (List.length t)) with (S m) by lia. reflexivity.
Qed.

Lemma shifted_dates_length (l : list Z) : l <> [] -> List.length (shifted_dates l) = List.length l.
Proof.
  unfold shifted_dates. destruct l as [|x t]; [contradiction|]. intros _.
  rewrite app_length. cbn [tl List.length]. lia.
Qed.

Lemma nth_error_eq_lists {A} : forall (l1 l2 : list A),
  List.length l1 = List.length l2 ->
  (forall m, (m < List.length l1)%nat -> nth_error l1 m = nth_error l2 m) -> l1 = l2.
Proof.
  induction l1 as [|x l1 IH]; intros [|y l2] Hl H; try discriminate Hl; [reflexivity|].
  cbn [List.length] in *. f_equal.
  - specialize (H 0%nat ltac:(lia)). cbn [nth_error] in H. congruence.
  - apply IH; [lia|]. intros m Hm. exact (H (S m) ltac:(lia)).
Qed.

Lemma last_in_cons (t : list Z) : forall x d, In (List.last (x :: t) d) (x :: t).
Proof.
  induction t as [|y t IH]; intros x d; [left; reflexivity|].
  right. exact (IH y d).
Qed.

Lemma shifted_sorted_cons (t : list Z) : forall x d,
  StronglySorted Z.le (x :: t) -> StronglySorted Z.le (t ++ [List.last (x :: t) d]).
Proof.
  induction t as [|y t IH]; intros x d H.
  - cbn [Datatypes.app List.last]. constructor; constructor.
  - inversion H as [|x0 l0 Hss Hall]; subst.
    change (List.last (x :: y :: t) d) with (List.last (y :: t) d).
    cbn [Datatypes.app]. constructor; [exact (IH y d Hss)|].
    inversion Hss as [|y0 l1 _ Hally]; subst.
    apply Forall_app. split; [exact Hally|]. constructor; [|constructor].
    destruct (last_in_cons t y d) as [E|Hin]; [rewrite <- E; lia|].
    rewrite Forall_forall in Hally. exact (Hally _ Hin).
Qed.

(* non-decreasing dataset dates give non-decreasing snapshot dates (the last one is repeated) *)
Lemma shifted_dates_sorted (l : list Z) : StronglySorted Z.le l -> StronglySorted Z.le (shifted_dates l).
Proof.
  unfold shifted_dates. destruct l as [|x t]; intros H.
  - cbn [tl List.last Datatypes.app]. constructor; constructor.
  - cbn [tl]. exact (shifted_sorted_cons t x 0%Z H).
Qed.

Lemma lt_sorted_le (l : list Z) : StronglySorted Z.lt l -> StronglySorted Z.le l.
Proof.
  induction 1 as [|x l _ IH Hall]; constructor; [exact IH|].
  eapply Forall_impl; [|exact Hall]. intros y Hy. cbv beta in Hy. lia.
Qed.

(* a run() from a fresh backtest and a strategy with an empty history: N snapshots dated d_2 … d_N, d_N *)
Lemma run_dates (y : sys R) b d fuel perms ords y' n :
  SInv (sy_app y) -> nlookup (backtests (sy_app y)) (sy_id y) = Some b ->
  slookup (datasets (sy_app y)) (bt_dataset b) = Some d -> clock_ok d b 0 ->
  st_history (sy_strat y) = [] ->
  sys_run clean fuel y perms ords 0 = Ok (y', n) ->
  ds_dates d <> [] /\
  List.length (st_history (sy_strat y')) = List.length (ds_dates d) /\
  map sn_date (st_history (sy_strat y')) = shifted_dates (ds_dates d).
Proof.
  intros Hs Hb Hd Hc Hh Hrun.
  assert (Hne : ds_dates d <> []).
  { destruct Hc as [_ Hg]. unfold get_date in Hg. intros E. rewrite E in Hg.
    destruct (Nat.min 0 (List.length (@nil Z) - 1)); discriminate Hg. }
  destruct (sys_run_count fuel y perms ords 0%nat y' n b d 0%nat Hs Hb Hd Hc (Nat.le_0_l _) Hrun)
    as (_ & Hlen & Hm).
  rewrite Hh in Hlen, Hm. cbn [List.length Nat.add] in Hlen, Hm. rewrite Nat.sub_0_r in Hlen, Hm.
  split; [exact Hne|]. split; [exact Hlen|].
  apply nth_error_eq_lists.
  - rewrite map_length, shifted_dates_length by exact Hne. exact Hlen.
  - intros m Hlt. rewrite map_length, Hlen in Hlt.
    destruct (Hm m Hlt) as (sn & dt & H1 & H2 & H3).
    rewrite (shifted_dates_nth _ _ Hlt), H2.
    rewrite nth_error_map, H1. cbn [option_map]. rewrite H3. reflexivity.
Qed.

(* (P2) END TO END: a strategy over a broker that has seen the first date's quotes, init(c) (any c), run() on a
   dataset of N >= 2 dates with constant zero-spread prices, then perf(): the report shows N - 1 zero returns, zero
   total return, CAGR, volatility, drawdown, Sharpe, best and worst; N values c; zero cash flows; the snapshot dates
   d_2 … d_N, d_N — whatever the weights, costs, hash orders and sort oracles. *)
Theorem strategy_perf_constant_prices :
  forall (price : string -> R) (a : uapp (F:=R)) id b d costs q0 ws c ord0 s1 fw fuel perms ords y' n,
    SInv a -> nlookup (backtests a) id = Some b -> slookup (datasets a) (bt_dataset b) = Some d ->
    clock_ok d b 0 -> bt_exch b = exch_init -> dataset_const price d ->
    quotes_const price q0 ->
    let s0 := mkStrategy (broker_init costs q0) ws 0 [] in
    st_init clean s0 c ord0 = Ok (s1, fw) ->
    sys_run clean fuel (mkSys s1 (forward clean a id fw) id) perms ords 0 = Ok (y', n) ->
    (2 <= List.length (ds_dates d))%nat ->
    let N := List.length (ds_dates d) in
    exists out,
      st_perf clean (sy_strat y') = Ok out /\
      o_returns out = repeat 0 (N - 1) /\
      o_ret out = 0 /\ o_cagr out = 0 /\ o_vol out = 0 /\ o_mdd out = 0 /\ o_sharpe out = 0 /\
      o_best out = 0 /\ o_worst out = 0 /\
      o_values out = repeat c N /\
      o_cash_flows out = repeat 0 N /\
      o_dates out = shifted_dates (ds_dates d) /\
      nth_error (ds_dates d) 1 = Some (o_first_date out) /\
      o_last_date out = List.last (ds_dates d) 0%Z /\
      o_dd_start_date out = o_first_date out /\ o_dd_end_date out = o_first_date out.
Proof.
  intros price a id b d costs q0 ws c ord0 s1 fw fuel perms ords y' n Hs Hb Hd Hc Hx Hdc Hq0 s0 Hi Hrun
         HN N.
  destruct (c16_constant_prices_end_to_end price a id b d costs q0 ws c ord0 s1 fw fuel perms ords y' n
              Hs Hb Hd Hc Hx Hdc Hq0 Hi Hrun) as (_ & Hlen & Hval).
  destruct (init_ncf costs q0 ws c ord0 s1 fw Hi) as [Hncf Hh1].
  destruct (sys_run_ncf clean fuel _ perms ords 0%nat y' n Hrun) as (_ & new & Hnew & Hnall).
  cbn [sy_strat] in Hnew, Hnall. rewrite Hh1 in Hnew. cbn [Datatypes.app] in Hnew. rewrite Hncf in Hnall.
  destruct (forward_start a id b d fw Hs Hb Hd Hc) as (b' & Hs' & Hb' & Hd' & Hc').
  destruct (run_dates (mkSys s1 (forward clean a id fw) id) b' d fuel perms ords y' n Hs' Hb' Hd' Hc' Hh1 Hrun)
    as (Hne & _ & Hdates).
  assert (Hall : Forall (fun sn => sn_value sn = c /\ sn_ncf sn = c /\ sn_infl sn = 0)
                        (st_history (sy_strat y'))).
  { rewrite Forall_forall in Hval. rewrite Hnew in *. rewrite Forall_forall in Hnall.
    apply Forall_forall. intros sn Hin. split; [exact (Hval sn Hin) | exact (Hnall sn Hin)]. }
  destruct (calculate_flat clean (st_history (sy_strat y')) c c N Hlen HN Hall)
    as (out & Hcalc & H1 & H2 & H3 & H4 & H5 & H6 & H7 & H8 & H9 & H10 & H11 & H12 & H13 & H14 & H15).
  rewrite Hdates in H10, H12, H13.
  exists out. unfold st_perf.
  split; [exact Hcalc|]. split; [exact H1|]. split; [exact H2|]. split; [exact H3|]. split; [exact H4|].
  split; [exact H5|]. split; [exact H6|]. split; [exact H7|]. split; [exact H8|]. split; [exact H9|].
  split; [exact H11|]. split; [exact H10|]. split; [|split; [|split; assumption]].
  - rewrite <- H12. pose proof (shifted_dates_nth (ds_dates d) 0%nat ltac:(lia)) as E.
    replace (Nat.min (0 + 1) (List.length (ds_dates d) - 1)) with 1%nat in E by lia.
    rewrite <- E. destruct (shifted_dates (ds_dates d)); reflexivity.
  - rewrite H13. unfold shifted_dates. apply last_last.
Qed.

(* (P3 for the strategy) perf() after a run over a dataset with fewer than two dates (i.e. exactly one: a
   backtest exists only on a non-empty dataset) panics: one update, one snapshot, no return to take the best of.
   No premise on prices, weights or the deposit; any valuation [qk] of the report's defect. *)
Theorem strategy_perf_one_date_panics :
  forall (qk : quirks) (a : uapp (F:=R)) id b d costs q0 ws c ord0 s1 fw fuel perms ords y' n,
    SInv a -> nlookup (backtests a) id = Some b -> slookup (datasets a) (bt_dataset b) = Some d ->
    clock_ok d b 0 ->
    let s0 := mkStrategy (broker_init costs q0) ws 0 [] in
    st_init clean s0 c ord0 = Ok (s1, fw) ->
    sys_run clean fuel (mkSys s1 (forward clean a id fw) id) perms ords 0 = Ok (y', n) ->
    (List.length (ds_dates d) < 2)%nat ->
    List.length (st_history (sy_strat y')) = 1%nat /\
    exists s, st_perf qk (sy_strat y') = Panic s.
Proof.
  intros qk a id b d costs q0 ws c ord0 s1 fw fuel perms ords y' n Hs Hb Hd Hc s0 Hi Hrun HN.
  destruct (init_ncf costs q0 ws c ord0 s1 fw Hi) as [_ Hh1].
  destruct (forward_start a id b d fw Hs Hb Hd Hc) as (b' & Hs' & Hb' & Hd' & Hc').
  destruct (run_dates (mkSys s1 (forward clean a id fw) id) b' d fuel perms ords y' n Hs' Hb' Hd' Hc' Hh1 Hrun)
    as (Hne & Hlen & _).
  assert (H1 : List.length (ds_dates d) = 1%nat).
  { destruct (ds_dates d) as [|x t]; [contradiction|]. cbn [List.length] in *. lia. }
  split; [lia|]. unfold st_perf. apply calculate_fewer_than_two_panics. lia.
Qed.

(* (P4) the dates of the report: whenever perf() returns after a run from a fresh start (no premise on prices), its
   date vector is the clock dates after each tick, d_2 … d_N, d_N; non-decreasing when the dataset's dates are
   (in particular when they are strictly increasing, as for every dataset loaded in date order) *)
Theorem strategy_perf_dates :
  forall (qk : quirks) (a : uapp (F:=R)) id b d costs q0 ws c ord0 s1 fw fuel perms ords y' n out,
    SInv a -> nlookup (backtests a) id = Some b -> slookup (datasets a) (bt_dataset b) = Some d ->
    clock_ok d b 0 ->
    let s0 := mkStrategy (broker_init costs q0) ws 0 [] in
    st_init clean s0 c ord0 = Ok (s1, fw) ->
    sys_run clean fuel (mkSys s1 (forward clean a id fw) id) perms ords 0 = Ok (y', n) ->
    st_perf qk (sy_strat y') = Ok out ->
    o_dates out = shifted_dates (ds_dates d) /\
    List.length (o_dates out) = List.length (ds_dates d) /\
    (forall m, (m < List.length (ds_dates d))%nat ->
       nth_error (o_dates out) m = nth_error (ds_dates d) (Nat.min (m + 1) (List.length (ds_dates d) - 1))) /\
    o_last_date out = List.last (ds_dates d) 0%Z /\
    (StronglySorted Z.le (ds_dates d) -> StronglySorted Z.le (o_dates out)) /\
    (StronglySorted Z.lt (ds_dates d) -> StronglySorted Z.le (o_dates out)).
Proof.
  intros qk a id b d costs q0 ws c ord0 s1 fw fuel perms ords y' n out Hs Hb Hd Hc s0 Hi Hrun Hperf.
  destruct (init_ncf costs q0 ws c ord0 s1 fw Hi) as [_ Hh1].
  destruct (forward_start a id b d fw Hs Hb Hd Hc) as (b' & Hs' & Hb' & Hd' & Hc').
  destruct (run_dates (mkSys s1 (forward clean a id fw) id) b' d fuel perms ords y' n Hs' Hb' Hd' Hc' Hh1 Hrun)
    as (Hne & Hlen & Hdates).
  unfold st_perf in Hperf. apply calculate_Ok_inv in Hperf. cbv zeta in Hperf.
  destruct Hperf as (p0 & p1 & _ & _ & _ & _ & _ & _ & Hod & _ & _ & [t Hlast]).
  rewrite Hdates in Hod, Hlast.
  assert (Hsort : StronglySorted Z.le (ds_dates d) -> StronglySorted Z.le (o_dates out)).
  { intros H. rewrite Hod. apply shifted_dates_sorted. exact H. }
  split; [exact Hod|]. split; [rewrite Hod; apply shifted_dates_length; exact Hne|].
  split; [intros m Hm; rewrite Hod; apply shifted_dates_nth; exact Hm|].
  split.
  - pose proof (rev_head_last _ _ _ 0%Z Hlast) as E. rewrite <- E. unfold shifted_dates. apply last_last.
  - split; [exact Hsort|]. intros H. apply Hsort. apply lt_sorted_le. exact H.
Qed.

End AtR.

(* ====================== (C) observed at the IEEE instance ====================== *)
(* the 3-date constant-price run of Proofs/EndToEndExamples.v (deposit 1000, 1 % costs, weights 0.5 / 0.25, a gap
   on date 2), then perf() with the four libm values it asks for: ln 1 = 0, exp 0 = 1, powf(1, 365/3) = 1 and
   powf(0, 2) = 0 (the squared deviations) — all exact in every libm *)
Definition ex_libm : libm_table :=
  [(LmLn, 1%float, 0%float, 0%float);
   (LmExp, 0%float, 0%float, 1%float);
   (LmPow, 1%float, PrimFloat.div 365%float 3%float, 1%float);
   (LmPow, 0%float, 2%float, 0%float)].

Definition ex_perf : res (output float) :=
  bind EndToEndExamples.ex_start (fun y0 =>
  bind (EndToEndExamples.try_update y0) (fun y1 =>
  bind (EndToEndExamples.try_update y1) (fun y2 =>
  bind (EndToEndExamples.try_update y2) (fun y3 =>
    @st_perf float (FloatNum ex_libm) clean (sy_strat y3))))).

Example strategy_perf_observed_at_floats :
  ex_perf =
  Ok (mkOutput 0%float 0%float 0%float 0%float 0%float
        [1000%float; 1000%float; 1000%float] [0%float; 0%float] [2%Z; 3%Z; 3%Z]
        [0%float; 0%float; 0%float] 2%Z 3%Z 2%Z 2%Z 0%float 0%float).
Proof. vm_compute. reflexivity. Qed.

Print Assumptions calculate_flat.
Print Assumptions strategy_perf_constant_prices.
Print Assumptions calculate_fewer_than_two_panics.
Print Assumptions strategy_perf_one_date_panics.
Print Assumptions strategy_perf_dates.
Print Assumptions strategy_perf_observed_at_floats.
