"""C08 — backtest ids and isolation. Theorems: Props/C08.v; slice: server steps."""
import server


def run(res, tier, seed, replay):
    return server.run_property(res, "C08", tier, seed, replay, ["C08"])
