(* GenEquiv.v — the tie by translation, cost slice (C13).

   Gen/CostGen.v is written by tools/rs2v.py from the text of example_clients/alator/src/broker/mod.rs on every run
   (BrokerCost::{calc, trade_impact, trade_impact_total}, Portfolio::{calculate_trade_costs, calc_trade_impact}).
   This file, hand-written once and compiled after it on every run, proves each generated definition equal to the
   hand-written model of Model/Cost.v for all inputs and for EVERY number class [Num F] — the IEEE instance and the
   reals alike. A change of the Rust text that changes the meaning makes this file fail to compile.

   Not part of _CoqProject (the main build must not depend on /repo): driver/common.py's tie_by_translation compiles
   Gen/CostGen.v and this file into work/gen/. The scripts are short and do not depend on the names the Rust code
   gives its locals: unfold, split on the cost kind (and the side), compute. *)
From Coq Require Import List Bool.
From Alator Require Import Model.Num Model.Cost.
From Alator Require Gen.CostGen.
Import ListNotations.

(* two folds with pointwise equal step functions *)
Lemma fold_left_pointwise : forall (A B : Type) (f g : A -> B -> A) (l : list B) (a : A),
  (forall a b, f a b = g a b) -> fold_left f l a = fold_left g l a.
Proof.
  intros A B f g l. induction l as [|b l IH]; intros a H; simpl.
  - reflexivity.
  - rewrite H. apply IH. exact H.
Qed.

(* BrokerCost::calc *)
Lemma gen_cost_calc_eq : forall (F : Type) (NF : Num F) (c : cost F) (qty value : F),
  CostGen.cost_calc c qty value = Cost.cost_calc c qty value.
Proof. intros; destruct c; reflexivity. Qed.

(* BrokerCost::trade_impact *)
Lemma gen_trade_impact_eq : forall (F : Type) (NF : Num F) (c : cost F) (budget price : F) (is_buy : bool),
  CostGen.trade_impact c budget price is_buy = Cost.trade_impact c budget price is_buy.
Proof. intros; destruct c; destruct is_buy; reflexivity. Qed.

(* BrokerCost::trade_impact_total *)
Lemma gen_trade_impact_total_eq : forall (F : Type) (NF : Num F) (cs : list (cost F)) (budget price : F) (is_buy : bool),
  CostGen.trade_impact_total cs budget price is_buy = Cost.trade_impact_total cs budget price is_buy.
Proof.
  intros. unfold CostGen.trade_impact_total, Cost.trade_impact_total. cbv zeta.
  apply fold_left_pointwise. intros a c. apply gen_trade_impact_eq.
Qed.

(* Portfolio::calculate_trade_costs (the broker's cost list is the parameter [cs]) *)
Lemma gen_calculate_trade_costs_eq : forall (F : Type) (NF : Num F) (cs : list (cost F)) (qty value : F),
  CostGen.calculate_trade_costs cs qty value = Cost.calculate_trade_costs cs qty value.
Proof.
  intros. unfold CostGen.calculate_trade_costs, Cost.calculate_trade_costs. cbv zeta.
  apply fold_left_pointwise. intros a c. rewrite gen_cost_calc_eq. reflexivity.
Qed.

(* Portfolio::calc_trade_impact: the model has no separate definition, it uses trade_impact_total on the cost list *)
Lemma gen_calc_trade_impact_eq : forall (F : Type) (NF : Num F) (cs : list (cost F)) (budget price : F) (is_buy : bool),
  CostGen.calc_trade_impact cs budget price is_buy = Cost.trade_impact_total cs budget price is_buy.
Proof. intros. unfold CostGen.calc_trade_impact. apply gen_trade_impact_total_eq. Qed.

(* what the theorems of Props/C13.v speak about, restated for the generated definitions: sizing by the translated code *)
Lemma gen_sized_shares_eq : forall (F : Type) (NF : Num F) (cs : list (cost F)) (budget price : F) (is_buy : bool),
  (let r := CostGen.calc_trade_impact cs budget price is_buy in ffloor (fdiv (fst r) (snd r)))
  = Cost.sized_shares cs budget price is_buy.
Proof. intros. cbv zeta. rewrite gen_calc_trade_impact_eq. reflexivity. Qed.

Print Assumptions gen_cost_calc_eq.
Print Assumptions gen_trade_impact_eq.
Print Assumptions gen_trade_impact_total_eq.
Print Assumptions gen_calculate_trade_costs_eq.
Print Assumptions gen_calc_trade_impact_eq.
Print Assumptions gen_sized_shares_eq.
