(* C14 — returns, compounding and annualised statistics follow their definitions. Statements only; all at the real-number instance of the model (ln, exp, x^y, sqrt are the mathematical functions); the same definitions run at the IEEE instance with the platform's libm values and are compared bit-for-bit. *)
From Coq Require Import ZArith NArith List Bool String Reals.
From Flocq Require Import Raux.
From Alator Require Import Model.Num Model.Quirks Model.Broker Model.Perf Proofs.PerfProofs.
Import ListNotations.
Local Existing Instance RNum.
Local Open Scope R_scope.

(* Each period return r satisfies value_next = (value_prev + net cash flow of the period) x (1 + r) x (1 + inflation). *)
Theorem c14_period :
  forall start end_ cf infl : R,
         start + cf <> 0 ->
         1 + infl <> 0 ->
         end_ = (start + cf) * (1 + period_return start end_ cf infl) * (1 + infl).
Proof. exact @period_identity. Qed.

(* n snapshots give n-1 returns … *)
Theorem c14_returns_length :
  forall (values cfs infls : list R) (is_log : bool),
         Datatypes.length cfs = Datatypes.length values ->
         Datatypes.length infls = Datatypes.length values ->
         Datatypes.length (get_returns values cfs infls is_log) =
         (Datatypes.length values - 1)%nat.
Proof. exact @get_returns_length. Qed.

(* … and entry i is the return of the period ending at snapshot i+1, from value i, value i+1 and the cash flow / inflation recorded at i+1. *)
Theorem c14_returns_alignment :
  forall (values cfs infls : list R) (i : nat) (v0 v1 cf infl : R),
         Datatypes.length cfs = Datatypes.length values ->
         Datatypes.length infls = Datatypes.length values ->
         nth_error values i = Some v0 ->
         nth_error values (S i) = Some v1 ->
         nth_error cfs (S i) = Some cf ->
         nth_error infls (S i) = Some infl ->
         nth_error (get_returns values cfs infls false) i = Some (period_return v0 v1 cf infl).
Proof. exact @get_returns_nth. Qed.

(* The log returns are ln(1 + r) of the returns. *)
Theorem c14_log_returns :
  forall values cfs infls : list R,
         get_returns values cfs infls true =
         map (fun r : R => ln (1 + r)) (get_returns values cfs infls false).
Proof. exact @log_returns_are_logs. Qed.

(* The cash-flow vector has one entry per snapshot … *)
Theorem c14_cash_flows_length :
  forall ncfs : list R,
         ncfs <> [] -> Datatypes.length (cash_flows_of ncfs) = Datatypes.length ncfs.
Proof. exact @cash_flows_length. Qed.

(* … each the difference of the cumulative net cash flow (the first is 0). *)
Theorem c14_cash_flows :
  forall (ncfs : list R) (i : nat) (a b : R),
         nth_error ncfs i = Some a ->
         nth_error ncfs (S i) = Some b -> nth_error (cash_flows_of ncfs) (S i) = Some (b - a).
Proof. exact @cash_flows_nth. Qed.

(* Total return is the compounded product of (1 + r) minus 1 (for returns above -100 %) … *)
Theorem c14_total :
  forall rets : list R,
         Forall (fun r : R => 0 < 1 + r) rets ->
         get_portfolio_return (map (fun r : R => ln (1 + r)) rets) =
         prodR (map (fun r : R => 1 + r) rets) - 1.
Proof. exact @total_return_product. Qed.

(* … which is last/first - 1 without flows and inflation. *)
Theorem c14_total_no_flows :
  forall (v0 : R) (vs : list R),
         Forall (fun v : R => 0 < v) (v0 :: vs) ->
         prodR
           (map (fun r : R => 1 + r) (returns_from v0 (map (fun v : R => (v, 0, 0)) vs) false)) =
         last vs v0 / v0.
Proof. exact @no_flow_product. Qed.

(* best is the largest period return … *)
Theorem c14_best :
  forall (r0 : R) (rr : list R),
         exists m : R,
           fold_max r0 rr = Some m /\
           In m (r0 :: rr) /\ (forall x : R, In x (r0 :: rr) -> x <= m).
Proof. exact @fold_max_spec. Qed.

(* … worst the smallest. *)
Theorem c14_worst :
  forall (r0 : R) (rr : list R),
         exists m : R,
           fold_min r0 rr = Some m /\
           In m (r0 :: rr) /\ (forall x : R, In x (r0 :: rr) -> m <= x).
Proof. exact @fold_min_spec. Qed.

(* The variance is the population variance … *)
Theorem c14_var :
  forall rets : list R,
         rets <> [] ->
         var rets =
         sumR (map (fun r : R => (r - sumR rets / INR (Datatypes.length rets)) ^ 2) rets) /
         INR (Datatypes.length rets).
Proof. exact @var_spec. Qed.

(* … volatility is sqrt(252) x the population standard deviation. *)
Theorem c14_vol :
  forall rets : list R,
         rets <> [] ->
         get_vol rets =
         sqrt 252 *
         sqrt
           (sumR (map (fun r : R => (r - sumR rets / INR (Datatypes.length rets)) ^ 2) rets) /
            INR (Datatypes.length rets)).
Proof. exact @vol_spec. Qed.

(* CAGR is (1 + total)^(365/n) - 1 for n snapshots. *)
Theorem c14_cagr :
  forall (log_rets : list R) (n : Z),
         (0 < n)%Z ->
         get_cagr log_rets n = Rpower (1 + get_portfolio_return log_rets) (365 / IZR n) - 1.
Proof. exact @cagr_spec. Qed.

(* Sharpe is CAGR / volatility (CAGR when volatility is 0). *)
Theorem c14_sharpe :
  forall (rets log_rets : list R) (n : Z),
         get_sharpe rets log_rets n =
         (if Req_bool (get_vol rets) 0
          then get_cagr log_rets n
          else get_cagr log_rets n / get_vol rets).
Proof. exact @sharpe_spec. Qed.

(* Every return is unchanged when all values and cash flows are multiplied by the same non-zero constant … *)
Theorem c14_scale_returns :
  forall (c : R) (states : list (snapshot R)) (is_log : bool),
         c <> 0 ->
         get_returns (map sn_value (map (scale c) states))
           (cash_flows_of (map sn_ncf (map (scale c) states)))
           (map sn_infl (map (scale c) states)) is_log =
         get_returns (map sn_value states) (cash_flows_of (map sn_ncf states))
           (map sn_infl states) is_log.
Proof. exact @returns_scale. Qed.

(* … hence every return-based output of calculate is. *)
Theorem c14_scale :
  forall (c : R) (states : list (snapshot R)) (qk : quirks),
         c <> 0 ->
         match calculate qk states with
         | Ok o =>
             match calculate qk (map (scale c) states) with
             | Ok o' =>
                 o_ret o' = o_ret o /\
                 o_cagr o' = o_cagr o /\
                 o_vol o' = o_vol o /\
                 o_mdd o' = o_mdd o /\
                 o_sharpe o' = o_sharpe o /\
                 o_returns o' = o_returns o /\
                 o_best o' = o_best o /\
                 o_worst o' = o_worst o /\
                 o_dd_start_date o' = o_dd_start_date o /\
                 o_dd_end_date o' = o_dd_end_date o /\
                 o_dates o' = o_dates o /\ o_values o' = map (Rmult c) (o_values o)
             | _ => False
             end
         | Panic _ =>
             match calculate qk (map (scale c) states) with
             | Panic _ => True
             | _ => False
             end
         | BadOracle =>
             match calculate qk (map (scale c) states) with
             | BadOracle => True
             | _ => False
             end
         end.
Proof. exact @calculate_scale. Qed.

(* The output vectors align one-to-one with the snapshots; first/last dates are the first/last snapshot dates. *)
Theorem c14_vectors :
  forall (qk : quirks) (states : list (snapshot R)) (out : output R),
         calculate qk states = Ok out ->
         let n := Datatypes.length states in
         (2 <= n)%nat /\
         o_values out = map sn_value states /\
         o_dates out = map sn_date states /\
         Datatypes.length (o_cash_flows out) = n /\
         Datatypes.length (o_returns out) = (n - 1)%nat /\
         nth_error (map sn_date states) 0 = Some (o_first_date out) /\
         nth_error (map sn_date states) (n - 1) = Some (o_last_date out).
Proof. exact @calculate_lengths. Qed.

(* Fewer than two snapshots: the code panics (modelled, excluded from the property by its premise) … *)
Theorem c14_needs_two :
  forall (qk : quirks) (states : list (snapshot R)),
         (Datatypes.length states < 2)%nat -> exists s : string, calculate qk states = Panic s.
Proof. exact @calculate_panics_below_two. Qed.

(* … and with at least two it never does (over R: no NaN). *)
Theorem c14_total_function :
  forall (qk : quirks) (states : list (snapshot R)),
         (2 <= Datatypes.length states)%nat ->
         exists out : output R, calculate qk states = Ok out.
Proof. exact @calculate_ok. Qed.

Print Assumptions c14_period.
Print Assumptions c14_returns_length.
Print Assumptions c14_returns_alignment.
Print Assumptions c14_log_returns.
Print Assumptions c14_cash_flows_length.
Print Assumptions c14_cash_flows.
Print Assumptions c14_total.
Print Assumptions c14_total_no_flows.
Print Assumptions c14_best.
Print Assumptions c14_worst.
Print Assumptions c14_var.
Print Assumptions c14_vol.
Print Assumptions c14_cagr.
Print Assumptions c14_sharpe.
Print Assumptions c14_scale_returns.
Print Assumptions c14_scale.
Print Assumptions c14_vectors.
Print Assumptions c14_needs_two.
Print Assumptions c14_total_function.
