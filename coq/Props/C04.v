(* C04 — broker cash = external cash flows + proceeds of executed trades. Statements only. Step laws hold for every Num F (IEEE instance included, exact); the ledger over all histories is at F := R. *)
From Coq Require Import ZArith NArith List Bool String Permutation Reals.
From Flocq Require Import Raux.
From Alator Require Import Model.Num Model.Quirks Model.Cost Model.Exchange Model.Uist Model.Broker
  Proofs.CostProofs Proofs.BrokerLedgerProofs.
Import ListNotations.
Local Existing Instance RNum.
Local Open Scope R_scope.

(* Per operation (every Num F): cash' is exactly cash + x for a successful deposit, cash - x for a successful withdrawal, the fold of -value (buy) / +value (sell) over the returned trades, each once, in order, for check — and unchanged for send_order, for a liquidation request whatever its outcome, and for everything refused. *)
Theorem c04_step_cash_exact :
  forall (F : Type) (NF : Num F) (b : broker F) (o : bop F) (b' : broker F) 
           (ev : bev F) (fw : list (uorder F)),
         bstep clean b o = Ok (b', ev, fw) ->
         b_cash b' =
         match o with
         | OpDeposit c => if b_failed b then b_cash b else (c + b_cash b)%num
         | OpWithdraw c =>
             if b_failed b
             then b_cash b
             else if (b_cash b <? c)%num then b_cash b else (b_cash b - c)%num
         | OpCheck (Some (ts, _)) _ => cash_after_trades (b_cash b) ts
         | _ => b_cash b
         end.
Proof. exact @step_cash_exact. Qed.

(* Events tell the truth: a deposit/withdrawal event is Success exactly when Ready (and, for withdrawals, covered by cash); refusals leave the whole state unchanged. *)
Theorem c04_step_event_exact :
  forall (F : Type) (NF : Num F) (b : broker F) (o : bop F) (b' : broker F) 
           (ev : bev F) (fw : list (uorder F)),
         bstep clean b o = Ok (b', ev, fw) ->
         match o with
         | OpDeposit c =>
             match ev with
             | EvCash (DepositSuccess x) => x = c /\ b_failed b = false
             | EvCash (OperationFailure x) => x = c /\ b_failed b = true /\ b' = b
             | _ => False
             end
         | OpWithdraw c =>
             match ev with
             | EvCash (WithdrawSuccess x) =>
                 x = c /\ b_failed b = false /\ (b_cash b <? c)%num = false
             | EvCash (WithdrawFailure x) =>
                 x = c /\ b_failed b = false /\ (b_cash b <? c)%num = true /\ b' = b
             | EvCash (OperationFailure x) => x = c /\ b_failed b = true /\ b' = b
             | _ => False
             end
         | _ => True
         end.
Proof. exact @step_event_exact. Qed.

(* Booking trades moves cash by exactly their signed values, in order (every Num F). *)
Theorem c04_trades_cash :
  forall (F : Type) (NF : Num F) (b : broker F) (ts : list (trade F)),
         b_cash (fold_left book_trade ts b) = cash_after_trades (b_cash b) ts.
Proof. exact @book_trades_cash. Qed.

(* Submitting orders (accepted or refused) never moves cash, holdings, log, quotes or state (any quirk valuation). *)
Theorem c04_send_orders_inert :
  forall (F : Type) (NF : Num F) (qk : quirks) (b : broker F) 
           (os : list (uorder F)) (b' : broker F) (evs : list (order_event F))
           (fw : list (uorder F)),
         send_orders qk b os = Ok (b', evs, fw) ->
         b_cash b' = b_cash b /\
         b_holdings b' = b_holdings b /\
         b_log b' = b_log b /\
         b_quotes b' = b_quotes b /\ b_failed b' = b_failed b /\ b_costs b' = b_costs b.
Proof. exact @send_orders_cash. Qed.

(* A liquidation request — for more or less than the available cash, successful or not — never moves cash by itself. *)
Theorem c04_liquidation_inert :
  forall (F : Type) (NF : Num F) (b : broker F) (c : F) (ord : list string)
           (b' : broker F) (ev : cash_event F) (fw : list (uorder F)),
         withdraw_cash_with_liquidation clean b c ord = Ok (b', ev, fw) ->
         b_cash b' = b_cash b /\
         b_holdings b' = b_holdings b /\ b_log b' = b_log b /\ b_failed b' = b_failed b.
Proof. exact @liquidation_cash_clean. Qed.

(* Automatic cash rebalancing never moves cash by itself. *)
Theorem c04_rebalance_inert :
  forall (F : Type) (NF : Num F) (b : broker F) (ord : list string) 
           (b' : broker F) (fw : list (uorder F)),
         rebalance_cash clean b ord = Ok (b', fw) ->
         b_cash b' = b_cash b /\ b_holdings b' = b_holdings b /\ b_log b' = b_log b.
Proof. exact @rebalance_cash_clean. Qed.

(* [R] cash after booking = cash - buys + sells. *)
Theorem c04_trades_sum :
  forall (c : R) (ts : list (trade R)), cash_after_trades c ts = c + sumR signed_value ts.
Proof. exact @cash_after_trades_sum. Qed.

(* [R] Over ALL histories: cash = initial cash + successful deposits - successful withdrawals - value of every buy + value of every sell executed, each once. *)
Theorem c04_ledger :
  forall (b : broker R) (ops : list (bop R)) (b' : broker R)
           (evs : list (bev R * list (uorder R))),
         brun clean b ops = Ok (b', evs) -> b_cash b' = b_cash b + ledger b ops.
Proof. exact @cash_ledger. Qed.

(* KNOWN FINDING (open): the code as it is debits a failed liquidation request that does not exceed cash — deposit 100, request 50 with no positions: WithdrawFailure(50) yet cash 50. *)
Theorem c04_refuted_q_liq_fail_debit :
  let b0 :=
           {|
             b_cash := 100;
             b_holdings := [];
             b_pending := [];
             b_quotes := [];
             b_log := [];
             b_costs := [];
             b_failed := false
           |} in
         exists b' : broker R,
           withdraw_cash_with_liquidation liq_debit b0 50 [] = Ok (b', WithdrawFailure 50, []) /\
           b_cash b' = 50.
Proof. exact @c04_refuted_q_liq_fail_debit. Qed.

Print Assumptions c04_step_cash_exact.
Print Assumptions c04_step_event_exact.
Print Assumptions c04_trades_cash.
Print Assumptions c04_send_orders_inert.
Print Assumptions c04_liquidation_inert.
Print Assumptions c04_rebalance_inert.
Print Assumptions c04_trades_sum.
Print Assumptions c04_ledger.
Print Assumptions c04_refuted_q_liq_fail_debit.
