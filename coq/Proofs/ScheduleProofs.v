(* ScheduleProofs.v — C19 *)
From Coq Require Import ZArith List Bool Lia.
From Alator Require Import Model.Schedule Proofs.ScheduleSweep.
Import ListNotations.
Local Open Scope Z_scope.

Lemma zrange_In n : forall s d, In d (zrange n s) <-> s <= d < s + Z.of_nat n.
Proof.
  induction n as [|n IH]; intros s d; cbn [zrange].
  - simpl. lia.
  - cbn [In]. rewrite IH. lia.
Qed.

(* The answer depends only on the calendar day. *)
Lemma day_of_ts_shift t i : day_of_ts (t + i * 86400) = day_of_ts t + i.
Proof. unfold day_of_ts. rewrite Z.div_add by lia. reflexivity. Qed.

Lemma lbd_by_day t : lbd_should_trade t = lbd_should_trade_day (day_of_ts t).
Proof.
  unfold lbd_should_trade, lbd_should_trade_day, lbd_look, lbd_look_day,
    ts_day, ts_month, ts_weekend.
  rewrite !day_of_ts_shift. reflexivity.
Qed.

Lemma lbd_date_only t t' : day_of_ts t = day_of_ts t' -> lbd_should_trade t = lbd_should_trade t'.
Proof. intros H. rewrite !lbd_by_day, H. reflexivity. Qed.

Lemma lbd_spec_day d :
  0 <= d < supported_days -> lbd_should_trade_day d = spec_last_business_day d.
Proof.
  intros Hd. pose proof spec_sweep as H. rewrite forallb_forall in H.
  specialize (H d). apply eqb_prop. apply H. apply zrange_In.
  rewrite Z2Nat.id by (unfold supported_days; lia). lia.
Qed.

Lemma lbd_spec t :
  0 <= t < supported_days * 86400 ->
  lbd_should_trade t = spec_last_business_day (day_of_ts t).
Proof.
  intros Ht. rewrite lbd_by_day. apply lbd_spec_day.
  unfold day_of_ts. split.
  - apply Z.div_pos; lia.
  - apply Z.div_lt_upper_bound; lia.
Qed.

(* Prop-level reading of the specification *)
Lemma spec_last_business_day_iff d :
  spec_last_business_day d = true <->
  (is_weekend d = false /\
   forall k, 1 <= k <= days_in_month (year_of d) (month_of d) - dom_of d ->
             is_weekend (d + k) = true).
Proof.
  unfold spec_last_business_day, year_of, month_of, dom_of.
  destruct (civil_from_days d) as [[y m] dd]. cbn [fst snd].
  rewrite andb_true_iff, negb_true_iff, forallb_forall.
  split; intros [Hw H]; split; try exact Hw.
  - intros k Hk. apply H. apply zrange_In. lia.
  - intros k Hk. apply zrange_In in Hk. apply H. lia.
Qed.

Lemma iter_succ_r {A} (f : A -> A) k x : Nat.iter (S k) f x = Nat.iter k f (f x).
Proof. induction k as [|k IH]; [reflexivity|]. simpl in *. rewrite IH. reflexivity. Qed.

(* the calendar the model uses is the Gregorian one, day by day *)
Lemma calendar_agrees_nth n : forall d c,
  calendar_agrees n d c = true ->
  forall k, (k < n)%nat -> civil_from_days (d + Z.of_nat k) = Nat.iter k next_ymd c.
Proof.
  induction n as [|n IH]; intros d c H k Hk; [lia|].
  cbn [calendar_agrees] in H. apply andb_true_iff in H as [H0 H1].
  destruct k as [|k].
  - simpl. rewrite Z.add_0_r.
    destruct (civil_from_days d) as [[y m] dd], c as [[y' m'] dd'].
    unfold ymd_eqb in H0. rewrite !andb_true_iff, !Z.eqb_eq in H0.
    destruct H0 as [[-> ->] ->]. reflexivity.
  - replace (d + Z.of_nat (S k)) with (d + 1 + Z.of_nat k) by lia.
    rewrite (IH _ _ H1 k ltac:(lia)). rewrite iter_succ_r. reflexivity.
Qed.

Lemma civil_is_gregorian d :
  0 <= d < supported_days ->
  civil_from_days d = Nat.iter (Z.to_nat d) next_ymd (1970, 1, 1).
Proof.
  intros Hd. pose proof (calendar_agrees_nth _ _ _ calendar_sweep (Z.to_nat d)) as H.
  rewrite Z2Nat.id in H by lia. simpl in H. apply H.
  unfold supported_days in *. lia.
Qed.
