(* Schedule.v — schedule/mod.rs (LastBusinessDayTradingSchedule, DefaultTradingSchedule) and the
   part of broker::DateTime it uses (day, month, weekday of a UTC unix timestamp, as computed by
   the `time` crate). Definitions only. *)
From Coq Require Import ZArith List Bool.
Import ListNotations.
Local Open Scope Z_scope.

(* days since 1970-01-01 of a unix timestamp (UTC; floor division) *)
Definition day_of_ts (t : Z) : Z := t / 86400.

(* Proleptic Gregorian calendar: (year, month 1..12, day 1..31) of a day number. *)
Definition civil_from_days (d : Z) : Z * Z * Z :=
  let z := d + 719468 in
  let era := z / 146097 in
  let doe := z - era * 146097 in
  let yoe := (doe - doe / 1460 + doe / 36524 - doe / 146096) / 365 in
  let y := yoe + era * 400 in
  let doy := doe - (365 * yoe + yoe / 4 - yoe / 100) in
  let mp := (5 * doy + 2) / 153 in
  let dd := doy - (153 * mp + 2) / 5 + 1 in
  let m := if mp <? 10 then mp + 3 else mp - 9 in
  (if m <=? 2 then y + 1 else y, m, dd).

Definition year_of (d : Z) : Z := fst (fst (civil_from_days d)).
Definition month_of (d : Z) : Z := snd (fst (civil_from_days d)).
Definition dom_of (d : Z) : Z := snd (civil_from_days d).

(* 0 = Sunday … 6 = Saturday; 1970-01-01 was a Thursday *)
Definition weekday_of (d : Z) : Z := (d + 4) mod 7.
Definition is_weekend (d : Z) : bool := (weekday_of d =? 0) || (weekday_of d =? 6).

(* DateTime::day / month / weekday on a timestamp *)
Definition ts_day (t : Z) : Z := dom_of (day_of_ts t).
Definition ts_month (t : Z) : Z := month_of (day_of_ts t).
Definition ts_weekend (t : Z) : bool := is_weekend (day_of_ts t).

(* LastBusinessDayTradingSchedule::should_trade, transcribed *)
Definition lbd_look (t : Z) (i : Z) : bool :=
  (* true = `continue`, false = `return false` *)
  let t' := t + i * 86400 in
  if ts_weekend t' then true
  else if ts_month t' =? ts_month t then false else true.

Definition lbd_should_trade (t : Z) : bool :=
  if ts_day t <? 28 - 7 then false
  else if ts_weekend t then false
  else lbd_look t 1 && lbd_look t 2 && lbd_look t 3.

Definition default_should_trade (t : Z) : bool := true.

(* ---- an independent description of the calendar and of "last business day" --------------- *)

Definition is_leap (y : Z) : bool :=
  (y mod 4 =? 0) && (negb (y mod 100 =? 0) || (y mod 400 =? 0)).

Definition days_in_month (y m : Z) : Z :=
  if m =? 2 then (if is_leap y then 29 else 28)
  else if (m =? 4) || (m =? 6) || (m =? 9) || (m =? 11) then 30 else 31.

(* the day after (y, m, d) *)
Definition next_ymd (c : Z * Z * Z) : Z * Z * Z :=
  let '(y, m, d) := c in
  if d <? days_in_month y m then (y, m, d + 1)
  else if m <? 12 then (y, m + 1, 1) else (y + 1, 1, 1).

Definition ymd_eqb (a b : Z * Z * Z) : bool :=
  let '(y, m, d) := a in let '(y', m', d') := b in (y =? y') && (m =? m') && (d =? d').

(* walk [n] days from day [d] (whose date is [c]) and check Hinnant's formula on each *)
Fixpoint calendar_agrees (n : nat) (d : Z) (c : Z * Z * Z) : bool :=
  match n with
  | O => true
  | S n' => ymd_eqb (civil_from_days d) c && calendar_agrees n' (d + 1) (next_ymd c)
  end.

Fixpoint zrange (n : nat) (s : Z) : list Z :=
  match n with O => [] | S n' => s :: zrange n' (s + 1) end.

(* "d is Monday–Friday and no later day of the same calendar month is": if d is day [dd] of a
   month with [L] days, the later days of that month are d+1 … d+(L-dd). *)
Definition spec_last_business_day (d : Z) : bool :=
  let '(y, m, dd) := civil_from_days d in
  negb (is_weekend d)
  && forallb (fun k => is_weekend (d + k)) (zrange (Z.to_nat (days_in_month y m - dd)) 1).

(* number of days from 1970-01-01 up to and including 2199-12-31 *)
Definition supported_days : Z := 84006.

(* one full period of the Gregorian calendar: 400 years = 146 097 days = 20 871 weeks *)
Definition cycle_days : Z := 146097.
