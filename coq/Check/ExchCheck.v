(* ExchCheck.v — step-wise (re-synchronising) comparison of the exchange models with observed
   transitions of UistV1 / JuraV1. Each observed step carries the implementation's own pre-state. *)
From Coq Require Import ZArith NArith List Bool String Floats.
From Alator Require Import Model.Num Model.Quirks Model.Sort Model.Exchange Model.Uist Model.Jura Check.Eqb
  Check.SortCheck.
Import ListNotations.

Local Instance FN : Num float := FloatNum [].

(* aspects (bits of the mismatch mask) *)
Definition A_KIND := 0%N.      (* ok / panic / sort oracle rejected *)
Definition A_FILLS := 1%N.     (* fills returned by the tick, in order *)
Definition A_ADMITTED := 2%N.  (* admitted batch with ids, in order *)
Definition A_TRIGGERED := 3%N. (* ids of trigger children *)
Definition A_BOOK := 4%N.      (* resting book after the step *)
Definition A_BUFFER := 5%N.
Definition A_NEXTID := 6%N.
Definition A_LOG := 7%N.
Definition A_SORT := 8%N.      (* the admitted batch is exactly what Model/Sort.v's transcription of the standard
                                  library's stable sort (insertion sort up to 20, driftsort above) makes of the
                                  buffer with the exchange's first-argument-only comparator *)

Definition A_INV := 9%N.       (* the observed state satisfies the invariant every reachable state of the model has
                                  (Proofs/ExchangeProofs.v Inv: book strictly sorted by id, all ids below the counter) —
                                  the premise of the per-tick theorems; an observed state outside it is a state of the
                                  code the theorems do not speak about *)

Fixpoint sorted_lt (l : list N) : bool :=
  match l with
  | a :: ((b :: _) as r) => N.ltb a b && sorted_lt r
  | _ => true
  end.
Definition inv_b {O T} (s : exch O T) : bool :=
  sorted_lt (ids (book s)) && forallb (fun i => N.ltb i (next_id s)) (ids (book s)).

Definition otype_eqb (a b : otype) : bool :=
  match a, b with
  | MarketSell, MarketSell | MarketBuy, MarketBuy | LimitSell, LimitSell
  | LimitBuy, LimitBuy | StopSell, StopSell | StopBuy, StopBuy => true
  | _, _ => false
  end.
Definition side_eqb (a b : side) : bool :=
  match a, b with Buy, Buy | Sell, Sell => true | _, _ => false end.

Definition uorder_eqb (a b : uorder float) : bool :=
  otype_eqb (uo_type a) (uo_type b) && String.eqb (uo_symbol a) (uo_symbol b)
  && feq (uo_shares a) (uo_shares b) && opt_eqb feq (uo_price a) (uo_price b).

Definition trade_eqb (a b : trade float) : bool :=
  String.eqb (t_symbol a) (t_symbol b) && feq (t_value a) (t_value b)
  && feq (t_quantity a) (t_quantity b) && Z.eqb (t_date a) (t_date b)
  && side_eqb (t_side a) (t_side b).

Definition entry_eqb {O} (e : O -> O -> bool) (a b : entry O) : bool :=
  N.eqb (e_id a) (e_id b) && e (e_ord a) (e_ord b) && Bool.eqb (e_flag a) (e_flag b).

(* what the harness observed a step to return *)
Inductive obs (O T : Type) :=
| ObsUnit
| ObsTick (fills : list T) (admitted : list (N * O)) (triggered : list N)
| ObsPanic.
Arguments ObsUnit {O T}.
Arguments ObsTick {O T}.
Arguments ObsPanic {O T}.

Section Generic.
Context {O T : Type} (oeq : O -> O -> bool) (teq : T -> T -> bool).

Definition exch_mask (m s : exch O T) : N :=
  N.lor (bit A_BOOK (list_eqb (entry_eqb oeq) (book m) (book s)))
  (N.lor (bit A_BUFFER (list_eqb oeq (buffer m) (buffer s)))
  (N.lor (bit A_NEXTID (N.eqb (next_id m) (next_id s)))
         (bit A_LOG (list_eqb teq (xlog m) (xlog s))))).

Definition out_mask (m : out O T) (o : obs O T) : N :=
  match m, o with
  | OutUnit, ObsUnit => 0%N
  | OutPanic, ObsPanic => 0%N
  | OutTick fl adm trig, ObsTick fl' adm' trig' =>
      N.lor (bit A_FILLS (list_eqb teq (map snd fl) fl'))
      (N.lor (bit A_ADMITTED (list_eqb (pair_eqb N.eqb oeq) adm adm'))
             (bit A_TRIGGERED (list_eqb N.eqb trig trig')))
  | _, _ => bit A_KIND false
  end.

End Generic.

(* exact order of admission: [sz] is size_of::<Order>() as the harness observed it (it selects the scratch size and
   small-sort path of driftsort) *)
Definition sort_mask {O T} (oeq : O -> O -> bool) (sz : N) (is_sell : O -> bool) (pre : exch O T) (o : op O (quote float))
  (ob : obs O T) : N :=
  match o, ob with
  | Tick _ _, ObsTick _ adm _ => bit A_SORT (std_perm_ok oeq sz is_sell (buffer pre) (map snd adm))
  | _, _ => 0%N
  end.

Record ustep := mkUStep {
  us_pre : uexch float; us_op : uop float; us_obs : obs (uorder float) (trade float);
  us_post : uexch float }.

Definition ustep_mask (st : ustep) : N :=
  let '(m, o) := uist_step (us_pre st) (us_op st) in
  match us_obs st with
  | ObsPanic => out_mask uorder_eqb trade_eqb o (us_obs st)   (* state after a panic is not compared *)
  | _ => N.lor (out_mask uorder_eqb trade_eqb o (us_obs st)) (exch_mask uorder_eqb trade_eqb m (us_post st))
  end.

Definition ustep_mask_sz (sz : N) (st : ustep) : N :=
  N.lor (N.lor (ustep_mask st) (sort_mask uorder_eqb sz uist_is_sell (us_pre st) (us_op st) (us_obs st)))
        (bit A_INV (inv_b (us_pre st) && match us_obs st with ObsPanic => true | _ => inv_b (us_post st) end)).

(* ---- Jura ---- *)

Definition tif_eqb (a b : tif) : bool :=
  match a, b with Alo, Alo | Ioc, Ioc | Gtc, Gtc => true | _, _ => false end.
Definition tpsl_eqb (a b : tpsl) : bool :=
  match a, b with Tp, Tp | Sl, Sl => true | _, _ => false end.
Definition jtype_eqb (a b : jtype float) : bool :=
  match a, b with
  | JLimit t, JLimit t' => tif_eqb t t'
  | JTrigger p m k, JTrigger p' m' k' => feq p p' && Bool.eqb m m' && tpsl_eqb k k'
  | _, _ => false
  end.
Definition jorder_eqb (a b : jorder float) : bool :=
  N.eqb (jo_asset a) (jo_asset b) && Bool.eqb (jo_is_buy a) (jo_is_buy b)
  && opt_eqb feq (jo_limit_px a) (jo_limit_px b) && opt_eqb feq (jo_sz a) (jo_sz b)
  && Bool.eqb (jo_reduce_only a) (jo_reduce_only b)
  && opt_eqb String.eqb (jo_cloid a) (jo_cloid b) && jtype_eqb (jo_type a) (jo_type b).
Definition fill_eqb (a b : fill float) : bool :=
  String.eqb (f_coin a) (f_coin b) && N.eqb (f_oid a) (f_oid b) && feq (f_px a) (f_px b)
  && Bool.eqb (f_side_ask a) (f_side_ask b) && feq (f_sz a) (f_sz b) && Z.eqb (f_time a) (f_time b).

Record jstep := mkJStep {
  js_pre : jexch float; js_op : jop float; js_obs : obs (jorder float) (fill float);
  js_post : jexch float }.

Definition jstep_mask (qk : quirks) (st : jstep) : N :=
  let '(m, o) := jura_step qk (js_pre st) (js_op st) in
  match js_obs st with
  | ObsPanic => out_mask jorder_eqb fill_eqb o (js_obs st)
  | _ => N.lor (out_mask jorder_eqb fill_eqb o (js_obs st)) (exch_mask jorder_eqb fill_eqb m (js_post st))
  end.

Definition jstep_mask_sz (qk : quirks) (sz : N) (st : jstep) : N :=
  N.lor (N.lor (jstep_mask qk st) (sort_mask jorder_eqb sz jura_is_sell (js_pre st) (js_op st) (js_obs st)))
        (bit A_INV (inv_b (js_pre st) && match js_obs st with ObsPanic => true | _ => inv_b (js_post st) end)).
