"""C15 — perf slice; see driver/perf.py and Props/C15.v"""
import perf
from common import tie_by_translation


def run(res, tier, seed, replay):
    # the second tie (DESIGN 8.8): CalculationAlgos::maxdd translated from the source text of this run and proved equal
    # to Model/Perf.v's maxdd (repaired valuation) for every Num F; never an alarm by itself, the correspondence decides
    tie_by_translation(res, "perf", "GenEquivPerf")
    return perf.run_property(res, "C15", tier, seed, replay, ["C15", "C15float"])
