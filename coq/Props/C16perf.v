(* C16 x C14 composed, [R]: the performance report of a strategy run (StaticWeightStrategy::perf = PerformanceCalculator::calculate over the recorded history; `st_perf`). Trading alone shows up as exactly zero performance. `shifted_dates l` = d_2 … d_N, d_N (the clock after each tick). Statements only. *)
From Coq Require Import ZArith NArith List Bool String Permutation Sorted Reals Floats.
From Flocq Require Import Raux.
From Alator Require Import Model.Num Model.Quirks Model.Cost Model.Exchange Model.Uist Model.Server Model.Broker
  Model.Perf Model.Strategy Model.BrokerSys Proofs.ServerProofs Proofs.ExchangeProofs Proofs.BrokerLedgerProofs
  Proofs.BrokerLiqProofs Proofs.EndToEnd05 Proofs.EndToEnd04 Proofs.EndToEndExamples Proofs.StrategyProofs Proofs.EndToEnd16 Proofs.EndToEnd1416.
Import ListNotations.
Local Open Scope list_scope.

(* Any history of n >= 2 snapshots with one constant value, one constant cumulative cash flow and no inflation: all returns 0, total return, CAGR, volatility, drawdown, Sharpe, best and worst all 0, values / dates / cash flows aligned one-to-one, drawdown dates = first date. *)
Theorem c16p_calculate_flat :
  forall (qk : quirks) (states : list (snapshot R)) (c m : R) (n : nat),
         @Datatypes.length (snapshot R) states = n ->
         2 <= n ->
         @Forall (snapshot R)
           (fun sn : snapshot R => @sn_value R sn = c /\ @sn_ncf R sn = m /\ @sn_infl R sn = 0%R)
           states ->
         exists out : output R,
           @calculate R RNum qk states = @Ok (output R) out /\
           @o_returns R out = @repeat R 0%R (n - 1) /\
           @o_ret R out = 0%R /\
           @o_cagr R out = 0%R /\
           @o_vol R out = 0%R /\
           @o_mdd R out = 0%R /\
           @o_sharpe R out = 0%R /\
           @o_best R out = 0%R /\
           @o_worst R out = 0%R /\
           @o_values R out = @repeat R c n /\
           @o_dates R out = @map (snapshot R) Z (@sn_date R) states /\
           @o_cash_flows R out = @repeat R 0%R n /\
           @hd_error Z (@map (snapshot R) Z (@sn_date R) states) = @Some Z (@o_first_date R out) /\
           @o_last_date R out =
           @List.last Z (@map (snapshot R) Z (@sn_date R) states) (@o_first_date R out) /\
           @o_dd_start_date R out = @o_first_date R out /\
           @o_dd_end_date R out = @o_first_date R out.
Proof. exact @calculate_flat. Qed.

(* END TO END: init(c) then run() on a dataset of N >= 2 dates with constant zero-spread prices, any weights, costs, hash orders and sort oracles: perf() reports N values all c, N-1 returns all 0, zero total return, CAGR, volatility, drawdown and Sharpe, and the dates are the clock dates after each tick. *)
Theorem c16p_constant_prices :
  forall (price : string -> R) (a : @uapp R) (id : N) (b : backtest (uexch R))
           (d : dataset (quotes (quote R))) (costs : list (cost R)) (q0 : smap (quote R))
           (ws : list (string * R)) (c : R) (ord0 : list string) (s1 : strategy R)
           (fw : list (uorder R)) (fuel : nat) (perms : nat -> list nat)
           (ords : nat -> list string) (y' : sys R) (n : nat),
         @SInv (uexch R) (quotes (quote R)) a ->
         @nlookup (backtest (uexch R)) (@backtests (uexch R) (quotes (quote R)) a) id =
         @Some (backtest (uexch R)) b ->
         @slookup (dataset (quotes (quote R))) (@datasets (uexch R) (quotes (quote R)) a)
           (@bt_dataset (uexch R) b) = @Some (dataset (quotes (quote R))) d ->
         @clock_ok (uexch R) (quotes (quote R)) d b 0 ->
         @bt_exch (uexch R) b = @exch_init (uorder R) (trade R) ->
         dataset_const price d ->
         quotes_const price q0 ->
         let s0 :=
           {|
             st_brkr := @broker_init R RNum costs q0;
             st_weights := ws;
             st_ncf := 0%R;
             st_history := []
           |} in
         @st_init R RNum clean s0 c ord0 = @Ok (strategy R * list (uorder R)) (s1, fw) ->
         @sys_run R RNum clean fuel
           {| sy_strat := s1; sy_app := @forward R RNum clean a id fw; sy_id := id |} perms ords
           0 = @Ok (sys R * nat) (y', n) ->
         2 <= @Datatypes.length Z (@ds_dates (quotes (quote R)) d) ->
         let N := @Datatypes.length Z (@ds_dates (quotes (quote R)) d) in
         exists out : output R,
           @st_perf R RNum clean (@sy_strat R y') = @Ok (output R) out /\
           @o_returns R out = @repeat R 0%R (N - 1) /\
           @o_ret R out = 0%R /\
           @o_cagr R out = 0%R /\
           @o_vol R out = 0%R /\
           @o_mdd R out = 0%R /\
           @o_sharpe R out = 0%R /\
           @o_best R out = 0%R /\
           @o_worst R out = 0%R /\
           @o_values R out = @repeat R c N /\
           @o_cash_flows R out = @repeat R 0%R N /\
           @o_dates R out = shifted_dates (@ds_dates (quotes (quote R)) d) /\
           @nth_error Z (@ds_dates (quotes (quote R)) d) 1 = @Some Z (@o_first_date R out) /\
           @o_last_date R out = @List.last Z (@ds_dates (quotes (quote R)) d) 0%Z /\
           @o_dd_start_date R out = @o_first_date R out /\
           @o_dd_end_date R out = @o_first_date R out.
Proof. exact @strategy_perf_constant_prices. Qed.

(* For ANY prices: the report's dates are d_2 … d_N, d_N — one per update, non-decreasing for a dataset with increasing dates. *)
Theorem c16p_dates :
  forall (qk : quirks) (a : @uapp R) (id : N) (b : backtest (uexch R))
           (d : dataset (quotes (quote R))) (costs : list (cost R)) (q0 : smap (quote R))
           (ws : list (string * R)) (c : R) (ord0 : list string) (s1 : strategy R)
           (fw : list (uorder R)) (fuel : nat) (perms : nat -> list nat)
           (ords : nat -> list string) (y' : sys R) (n : nat) (out : output R),
         @SInv (uexch R) (quotes (quote R)) a ->
         @nlookup (backtest (uexch R)) (@backtests (uexch R) (quotes (quote R)) a) id =
         @Some (backtest (uexch R)) b ->
         @slookup (dataset (quotes (quote R))) (@datasets (uexch R) (quotes (quote R)) a)
           (@bt_dataset (uexch R) b) = @Some (dataset (quotes (quote R))) d ->
         @clock_ok (uexch R) (quotes (quote R)) d b 0 ->
         let s0 :=
           {|
             st_brkr := @broker_init R RNum costs q0;
             st_weights := ws;
             st_ncf := 0%R;
             st_history := []
           |} in
         @st_init R RNum clean s0 c ord0 = @Ok (strategy R * list (uorder R)) (s1, fw) ->
         @sys_run R RNum clean fuel
           {| sy_strat := s1; sy_app := @forward R RNum clean a id fw; sy_id := id |} perms ords
           0 = @Ok (sys R * nat) (y', n) ->
         @st_perf R RNum qk (@sy_strat R y') = @Ok (output R) out ->
         @o_dates R out = shifted_dates (@ds_dates (quotes (quote R)) d) /\
         @Datatypes.length Z (@o_dates R out) =
         @Datatypes.length Z (@ds_dates (quotes (quote R)) d) /\
         (forall m : nat,
          m < @Datatypes.length Z (@ds_dates (quotes (quote R)) d) ->
          @nth_error Z (@o_dates R out) m =
          @nth_error Z (@ds_dates (quotes (quote R)) d)
            (Nat.min (m + 1) (@Datatypes.length Z (@ds_dates (quotes (quote R)) d) - 1))) /\
         @o_last_date R out = @List.last Z (@ds_dates (quotes (quote R)) d) 0%Z /\
         (@StronglySorted Z Z.le (@ds_dates (quotes (quote R)) d) ->
          @StronglySorted Z Z.le (@o_dates R out)) /\
         (@StronglySorted Z Z.lt (@ds_dates (quotes (quote R)) d) ->
          @StronglySorted Z Z.le (@o_dates R out)).
Proof. exact @strategy_perf_dates. Qed.

(* A run over a one-date dataset records one snapshot and perf() panics (fewer than two snapshots: modelled, excluded by C14's premise). *)
Theorem c16p_one_date_panics :
  forall (qk : quirks) (a : @uapp R) (id : N) (b : backtest (uexch R))
           (d : dataset (quotes (quote R))) (costs : list (cost R)) (q0 : smap (quote R))
           (ws : list (string * R)) (c : R) (ord0 : list string) (s1 : strategy R)
           (fw : list (uorder R)) (fuel : nat) (perms : nat -> list nat)
           (ords : nat -> list string) (y' : sys R) (n : nat),
         @SInv (uexch R) (quotes (quote R)) a ->
         @nlookup (backtest (uexch R)) (@backtests (uexch R) (quotes (quote R)) a) id =
         @Some (backtest (uexch R)) b ->
         @slookup (dataset (quotes (quote R))) (@datasets (uexch R) (quotes (quote R)) a)
           (@bt_dataset (uexch R) b) = @Some (dataset (quotes (quote R))) d ->
         @clock_ok (uexch R) (quotes (quote R)) d b 0 ->
         let s0 :=
           {|
             st_brkr := @broker_init R RNum costs q0;
             st_weights := ws;
             st_ncf := 0%R;
             st_history := []
           |} in
         @st_init R RNum clean s0 c ord0 = @Ok (strategy R * list (uorder R)) (s1, fw) ->
         @sys_run R RNum clean fuel
           {| sy_strat := s1; sy_app := @forward R RNum clean a id fw; sy_id := id |} perms ords
           0 = @Ok (sys R * nat) (y', n) ->
         @Datatypes.length Z (@ds_dates (quotes (quote R)) d) < 2 ->
         @Datatypes.length (snapshot R) (@st_history R (@sy_strat R y')) = 1 /\
         (exists s : string, @st_perf R RNum qk (@sy_strat R y') = @Panic (output R) s).
Proof. exact @strategy_perf_one_date_panics. Qed.

(* Non-vacuity, kernel-evaluated at the IEEE instance (libm values supplied as a table): the 3-date constant-price run of c16_end_to_end_example reports values 1000, 1000, 1000, returns 0, 0 and zero statistics. *)
Theorem c16p_example :
  ex_perf =
         @Ok (output float)
           {|
             o_ret := 0%float;
             o_cagr := 0%float;
             o_vol := 0%float;
             o_mdd := 0%float;
             o_sharpe := 0%float;
             o_values := [1000%float; 1000%float; 1000%float];
             o_returns := [0%float; 0%float];
             o_dates := [2%Z; 3%Z; 3%Z];
             o_cash_flows := [0%float; 0%float; 0%float];
             o_first_date := 2;
             o_last_date := 3;
             o_dd_start_date := 2;
             o_dd_end_date := 2;
             o_best := 0%float;
             o_worst := 0%float
           |}.
Proof. exact @strategy_perf_observed_at_floats. Qed.

Print Assumptions c16p_calculate_flat.
Print Assumptions c16p_constant_prices.
Print Assumptions c16p_dates.
Print Assumptions c16p_one_date_panics.
Print Assumptions c16p_example.
