(* C18 over WHOLE HISTORIES of the Jura exchange (every Num F, defect-free valuation, axiom-free). Alongside the real run a ghost count is kept per resting order — the number of ticks since its admission on which its asset was quoted (Proofs/EndToEnd18.v: seen, seen_tick, grun; defined independently of the exchange's own attempted_execution flag and of the decision function; grun_outputs shows the ghost does not change the run). `trace ops` is the run from the empty exchange. *)
From Coq Require Import ZArith NArith List Bool String Permutation Sorted Floats.
From Alator Require Import Model.Num Model.Quirks Model.Exchange Model.Uist Model.Jura Model.Server
  Proofs.ListAux Proofs.ExchangeProofs Proofs.UistProofs Proofs.JuraProofs Proofs.ExchangeCorollaries
  Proofs.ServerProofs Proofs.EndToEnd18.
Import ListNotations.
Local Open Scope num_scope.

(* The ghost bookkeeping does not change the run: the outputs along the trace are the outputs of the run. *)
Theorem c18h_ghost_is_inert :
  forall (F : Type) (NF : Num F) (s : jexch F) (g : seen) (ops : list (jop F)),
         map el_out (grun s g ops) = snd (jura_run clean s ops).
Proof. exact @grun_outputs. Qed.

(* In every state of every history an IOC order is flagged exactly when it has already met a quoted tick, and it never survives a second one. *)
Theorem c18h_flag_is_seen :
  forall (F : Type) (NF : Num F) (ops : list (jop F)) (el : elt) (e : entry (jorder F)),
         In el (trace ops) ->
         In e (book (el_st el)) ->
         jo_type (e_ord e) = JLimit Ioc ->
         (e_flag e = true <-> 1 <= seen_get (el_gh el) (e_id e)) /\
         seen_get (el_gh el) (e_id e) <= 1.
Proof. exact @ioc_flag_is_seen_init. Qed.

(* An IOC fill happens only on the FIRST tick since admission that quotes its asset, under the slippage condition (buy: ask <= limit x 1.1, at the ask; sell: bid >= limit x 0.9, at the bid), and carries id, asset, size and the quote's price and date. *)
Theorem c18h_ioc_fills_only_at_first_quoted_tick :
  forall (F : Type) (NF : Num F) (ops : list (jop F)) (s : jexch F) 
           (g : seen) (qs : quotes (quote F)) (perm : list nat) (fl : list (N * fill F))
           (adm : list (N * jorder F)) (trig : list N) (i : N) (f : fill F)
           (e : entry (jorder F)),
         In (s, g, Tick qs perm, OutTick fl adm trig) (trace ops) ->
         In (i, f) fl ->
         In e (book s) ->
         e_id e = i ->
         jo_type (e_ord e) = JLimit Ioc ->
         seen_get g i = 0 /\
         (exists (q : quote F) (price sz : F),
            lookup qs (N_to_string (jo_asset (e_ord e))) = Some q /\
            jo_limit_px (e_ord e) = Some price /\
            jo_sz (e_ord e) = Some sz /\
            ioc_cond (e_ord e) price q = true /\ f = fill_at i (e_ord e) sz q).
Proof. exact @ioc_fills_only_at_first_quoted_tick_init. Qed.

(* On that first quoted tick it either fills and is gone for good, or is marked, rests flagged, and no later tick fills it … *)
Theorem c18h_ioc_first_quoted_tick_fate :
  forall (F : Type) (NF : Num F) (ops : list (jop F)) (pre : list elt) 
           (s : jexch F) (g : seen) (qs : quotes (quote F)) (perm : list nat)
           (fl : list (N * fill F)) (adm : list (N * jorder F)) (trig : list N) 
           (post : list elt) (e : entry (jorder F)) (q : quote F),
         grun exch_init [] ops = pre ++ (s, g, Tick qs perm, OutTick fl adm trig) :: post ->
         In e (book s) ->
         jo_type (e_ord e) = JLimit Ioc ->
         seen_get g (e_id e) = 0 ->
         lookup qs (N_to_string (jo_asset (e_ord e))) = Some q ->
         let s' := fst (jura_tick clean s qs perm) in
         exists price : F,
           jo_limit_px (e_ord e) = Some price /\
           (if ioc_cond (e_ord e) price q
            then
             (exists sz : F,
                jo_sz (e_ord e) = Some sz /\ In (e_id e, fill_at (e_id e) (e_ord e) sz q) fl) /\
             ~ In (e_id e) (ids (book s')) /\
             (forall el : elt,
              In el post ->
              ~ In (e_id e) (ids (book (el_st el))) /\ ~ In (e_id e) (fill_ids (el_out el)))
            else
             ~ In (e_id e) (map fst fl) /\
             In (mark e) (book s') /\
             seen_get (seen_tick g s qs) (e_id e) = 1 /\
             (forall el : elt,
              In el post ->
              ~ In (e_id e) (fill_ids (el_out el)) /\
              (forall e' : entry (jorder F),
               In e' (book (el_st el)) -> e_id e' = e_id e -> e' = mark e))).
Proof. exact @ioc_first_quoted_tick_fate_init. Qed.

(* … and the next tick that quotes its asset drops it without a fill, for good. *)
Theorem c18h_ioc_dropped_at_second_quoted_tick :
  forall (F : Type) (NF : Num F) (ops : list (jop F)) (pre : list elt) 
           (s : jexch F) (g : seen) (qs : quotes (quote F)) (perm : list nat)
           (fl : list (N * fill F)) (adm : list (N * jorder F)) (trig : list N) 
           (post : list elt) (e : entry (jorder F)),
         grun exch_init [] ops = pre ++ (s, g, Tick qs perm, OutTick fl adm trig) :: post ->
         In e (book s) ->
         jo_type (e_ord e) = JLimit Ioc ->
         1 <= seen_get g (e_id e) ->
         quoted qs (e_ord e) = true ->
         ~ In (e_id e) (map fst fl) /\
         ~ In (e_id e) (ids (book (fst (jura_tick clean s qs perm)))) /\
         (forall el : elt,
          In el post ->
          ~ In (e_id e) (ids (book (el_st el))) /\ ~ In (e_id e) (fill_ids (el_out el))).
Proof. exact @ioc_dropped_at_second_quoted_tick_init. Qed.

(* After any tick that quoted its asset an IOC order never fills at a later point of the history. *)
Theorem c18h_ioc_never_fills_later :
  forall (F : Type) (NF : Num F) (ops : list (jop F)) (pre : list elt) 
           (s : jexch F) (g : seen) (qs : quotes (quote F)) (perm : list nat)
           (fl : list (N * fill F)) (adm : list (N * jorder F)) (trig : list N) 
           (post : list elt) (e : entry (jorder F)),
         trace ops = pre ++ (s, g, Tick qs perm, OutTick fl adm trig) :: post ->
         In e (book s) ->
         jo_type (e_ord e) = JLimit Ioc ->
         quoted qs (e_ord e) = true ->
         forall el : elt, In el post -> ~ In (e_id e) (fill_ids (el_out el)).
Proof. exact @ioc_never_fills_later_init. Qed.

(* A trigger order never fills — not before, at, or after any point of any history at which it is known as a trigger order. *)
Theorem c18h_trigger_never_fills :
  forall (F : Type) (NF : Num F) (ops : list (jop F)) (el1 el2 : elt) (i : N),
         In el1 (trace ops) ->
         known_trigger el1 i -> In el2 (trace ops) -> ~ In i (fill_ids (el_out el2)).
Proof. exact @trigger_never_fills_history_init. Qed.

(* A child announced by a tick has a fresh id, is not among that tick's fills nor any earlier ones, rests unflagged afterwards with its parent's asset, side, limit and size (IOC if market else GTC), its parent is gone, its own quoted-tick count starts at 0, and any fill of it happens strictly later. *)
Theorem c18h_trigger_child_next_tick :
  forall (F : Type) (NF : Num F) (ops : list (jop F)) (pre : list elt) 
           (s : jexch F) (g : seen) (qs : quotes (quote F)) (perm : list nat)
           (fl : list (N * fill F)) (adm : list (N * jorder F)) (trig : list N) 
           (post : list elt) (c : N),
         grun exch_init [] ops = pre ++ (s, g, Tick qs perm, OutTick fl adm trig) :: post ->
         In c trig ->
         let s' := fst (jura_tick clean s qs perm) in
         ~ In c (map fst fl) /\
         (forall el : elt, In el pre -> ~ In c (fill_ids (el_out el))) /\
         (forall el : elt,
          In el (grun exch_init [] ops) -> In c (fill_ids (el_out el)) -> In el post) /\
         (next_id s <= c < next_id s')%N /\
         (exists (p : entry (jorder F)) (q : quote F) (tp : F) (m : bool) 
          (k : tpsl),
            In p (book s) /\
            jo_type (e_ord p) = JTrigger tp m k /\
            lookup qs (N_to_string (jo_asset (e_ord p))) = Some q /\
            ShouldFire (jo_is_buy (e_ord p)) k tp q /\
            ~ In (e_id p) (ids (book s')) /\
            (let ce :=
               {|
                 e_id := c;
                 e_ord := trigger_child (e_ord p) (if m then Ioc else Gtc);
                 e_flag := false
               |} in
             In ce (book s') /\
             (forall e' : entry (jorder F), In e' (book s') -> e_id e' = c -> e' = ce) /\
             jo_type (e_ord ce) = JLimit (if m then Ioc else Gtc) /\
             jo_asset (e_ord ce) = jo_asset (e_ord p) /\
             jo_is_buy (e_ord ce) = jo_is_buy (e_ord p) /\
             jo_limit_px (e_ord ce) = jo_limit_px (e_ord p) /\ jo_sz (e_ord ce) = jo_sz (e_ord p))) /\
         seen_get (seen_tick g s qs) c = 0.
Proof. exact @trigger_child_next_tick_init. Qed.

(* A GTC limit rests unchanged through every stretch of history in which it is not cancelled and its price condition never holds on a quoted tick, and on the next tick fills (at the ask / bid) exactly if ask <= limit (buy) / bid >= limit (sell). *)
Theorem c18h_gtc_rests_until_crossed :
  forall (F : Type) (NF : Num F) (ops : list (jop F)) (pre mid : list elt) 
           (s : jexch F) (g : seen) (qs : quotes (quote F)) (perm : list nat)
           (fl : list (N * fill F)) (adm : list (N * jorder F)) (trig : list N) 
           (post : list elt) (e : entry (jorder F)),
         let this := (s, g, Tick qs perm, OutTick fl adm trig) in
         grun exch_init [] ops = pre ++ mid ++ this :: post ->
         In e (book (el_st (hd this mid))) ->
         jo_type (e_ord e) = JLimit Gtc ->
         Forall (leaves_alone e) mid ->
         (forall el : elt,
          In el mid -> In e (book (el_st el)) /\ ~ In (e_id e) (fill_ids (el_out el))) /\
         In e (book s) /\ gtc_fate (fst (jura_tick clean s qs perm)) fl qs e.
Proof. exact @gtc_rests_until_crossed_init. Qed.

(* Non-vacuity: a 7-operation history on the IEEE instance — an order that rests unquoted, is marked, then dropped; another that fills on its first quoted tick. *)
Theorem c18h_example :
  @map (@elt float) (list (N * bool) * list nat * option (list (N * float)))
           (fun el : @elt float =>
            (@map (entry (jorder float)) (N * bool)
               (fun e : entry (jorder float) =>
                (@e_id (jorder float) e, @e_flag (jorder float) e))
               (@book (jorder float) (fill float) (@el_st float el)),
             @map (entry (jorder float)) nat
               (fun e : entry (jorder float) =>
                seen_get (@el_gh float el) (@e_id (jorder float) e))
               (@book (jorder float) (fill float) (@el_st float el)),
             match @el_out float el with
             | OutTick fl _ _ =>
                 @Some (list (N * float))
                   (@map (N * fill float) (N * float)
                      (fun p : N * fill float =>
                       (@fst N (fill float) p, @f_px float (@snd N (fill float) p))) fl)
             | _ => @None (list (N * float))
             end)) (@trace float FNj history18) =
         [([], [], @None (list (N * float))); ([], [], @Some (list (N * float)) []);
          ([(0%N, false)], [0], @Some (list (N * float)) []);
          ([(0%N, false)], [0], @Some (list (N * float)) []);
          ([(0%N, true)], [1], @None (list (N * float)));
          ([(0%N, true)], [1], @Some (list (N * float)) []);
          ([(1%N, false)], [0], @Some (list (N * float)) [(1%N, 105%float)])].
Proof. exact @history18_trace. Qed.

Print Assumptions c18h_ghost_is_inert.
Print Assumptions c18h_flag_is_seen.
Print Assumptions c18h_ioc_fills_only_at_first_quoted_tick.
Print Assumptions c18h_ioc_first_quoted_tick_fate.
Print Assumptions c18h_ioc_dropped_at_second_quoted_tick.
Print Assumptions c18h_ioc_never_fills_later.
Print Assumptions c18h_trigger_never_fills.
Print Assumptions c18h_trigger_child_next_tick.
Print Assumptions c18h_gtc_rests_until_crossed.
Print Assumptions c18h_example.
