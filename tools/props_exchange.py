import sys, os
sys.path.insert(0, os.path.dirname(os.path.abspath(__file__)))
from genprops import gen

IMP = """From Coq Require Import ZArith NArith List Bool String Permutation Sorted Floats.
From Alator Require Import Model.Num Model.Quirks Model.Exchange Model.Uist Model.Jura Model.Server
  Proofs.ListAux Proofs.ExchangeProofs Proofs.UistProofs Proofs.JuraProofs Proofs.ExchangeCorollaries
  Proofs.ServerProofs.
Import ListNotations."""

gen("C01", "C01 — no look-ahead: an order never fills on the tick that admits it. Statements only; the skeleton "
    "theorems hold for EVERY decision function (hence for both exchanges and all order types) and every "
    "number type; the server theorems for every exchange. Proofs in Proofs/.", IMP, [
    ("c01_fills_only_from_resting_book", "tick_fills_old",
     "Every fill of a tick belongs to an order that was resting BEFORE the tick (its id is below the id counter "
     "at tick entry), whose symbol is quoted on this tick, and is the value the decision function computes from "
     "that order and that tick's quote for that symbol — nothing else. Orders admitted by the tick, and trigger "
     "children created by it, get ids at or above the counter, so none of them can be among the fills. Fills are "
     "in book order."),
    ("c01_fills_independent_of_buffer", "tick_fills_indep_buffer",
     "The fills of a tick do not depend on what is in the buffer (the orders submitted since the last tick)."),
    ("c01_admitted_rest_after_tick", "tick_admitted_rest",
     "An order admitted by a tick is resting, untried, after it — it was in the buffer, has no fill on this tick."),
    ("c01_unquoted_keeps_resting", "tick_unquoted_rests",
     "A resting order whose symbol has no quote on a tick keeps resting unchanged and has no fill: its earliest "
     "possible fill is the next tick that carries a quote for its symbol."),
    ("c01_every_reachable_state_invariant", "reachable_inv",
     "The invariant the above needs (book sorted by id, all ids below the counter) holds in every state reachable "
     "by any interleaving of insert / delete / tick."),
    ("c01_server_tick_uses_row_of_clock_date", "tick1_spec",
     "Server: a tick of a backtest that has done k ticks matches orders against exactly the row of the date the "
     "clock shows, then advances the clock by one position (has_next iff k+1 < N)."),
    ("c01_server_clock_after_history", "clock_run",
     "Server: after any history the clock of a backtest has advanced by exactly the number of its successful ticks."),
    ("c01_increasing_dates", "increasing_nth",
     "With strictly increasing dates a later clock position shows a strictly later date: an order submitted while "
     "the clock shows position k is admitted by the tick matching row k and can fill at the earliest on the tick "
     "matching row k+1, whose quotes (carrying their row's date) are dated strictly later."),
    ("c01_refuted_q_jura_pos_stuck", "c07_refuted_q_jura_pos_stuck",
     "With the Jura clock defect (pos never stored) the clock parks on the second date: ticks keep matching the same "
     "row, so an order submitted there fills dated that same date."),
])

gen("C03", "C03 — orders fill at most once; none is lost, duplicated or resurrected. Statements only; for EVERY "
    "decision function (both exchanges), every number type, all operation sequences of any length.", IMP, [
    ("c03_tick_master", "tick_spec",
     "What a successful tick does: the sorted buffer is a permutation of the buffer (every order inserted since the "
     "last tick is reported admitted exactly once), ids are consecutive from the counter — trigger children first, "
     "then the batch — the new book is the surviving resting orders followed by children and batch, the buffer is "
     "empty afterwards, the log grows by exactly the fills."),
    ("c03_ids_strictly_increasing", "assigned_sorted",
     "All ids ever assigned along any history (batch orders and trigger children) are strictly increasing in "
     "assignment order — in particular pairwise distinct — and at or above the counter of the starting state."),
    ("c03_conservation", "conservation",
     "At every moment: the ids handed out so far (0 .. counter-1) are exactly the resting ids plus the ids removed "
     "so far (filled, expired, triggered, cancelled) — as multisets, so nothing is lost or duplicated."),
    ("c03_no_id_fills_twice", "fills_nodup",
     "Over a whole history no id appears in two fills (nor twice in one tick)."),
    ("c03_removed_never_returns", "dead_never_resting",
     "An id that has been removed (filled, expired, triggered or cancelled) is never resting again."),
    ("c03_entry_fate", "tick_entry_fate",
     "Per resting order and tick: it stays (possibly marked), or leaves with exactly one fill, or leaves without a "
     "fill (expired / triggered, the child resting with a fresh id)."),
    ("c03_cancel_exact", "delete_spec",
     "Cancelling removes exactly the resting orders matching (asset, id) — at most one — and touches nothing else."),
    ("c03_cancel_unknown_noop", "delete_first_nomatch",
     "Cancelling an id that matches no resting order (unknown, stale, still in the buffer, wrong asset) is a no-op."),
    ("c03_insert_only_buffers", "insert_spec",
     "Inserting only appends to the buffer."),
])

gen("C17", "C17 — sells before buys: batch ordering and time priority. Statements only; for EVERY decision "
    "function (both exchanges) and every batch size. The sort of the buffer is an oracle argument `perm`; the "
    "theorems hold for every perm the model accepts (a permutation of the buffer whose result has every "
    "sell-side order before every buy-side order). What is proved about the standard library's sort_by itself is "
    "in Props/C17sort.v when present; otherwise that specification is validated by test on every run.", IMP, [
    ("c17_admission", "tick_spec",
     "The admitted list is the sorted buffer, numbered consecutively from the counter (after trigger children); "
     "admitted = submitted as multisets."),
    ("c17_sells_get_smaller_ids", "sells_first_ids",
     "Within a batch every sell-side order receives a smaller id than every buy-side order."),
    ("c17_ids_grow_with_admission", "assigned_sorted",
     "Over the life of the exchange ids grow strictly with admission order."),
    ("c17_fills_in_book_order", "tick_fills_old",
     "Fills of a tick are reported in book (id) order — so the sells of any batch execute before its buys."),
    ("c17_book_sorted_always", "reachable_inv",
     "The book of every reachable state is sorted by id."),
])
