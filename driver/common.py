"""Shared machinery of the checks: float transport, Gallina printing, running the Rust harness,
running coqc on generated case files, proof-obligation checking, evidence and verdicts."""
import concurrent.futures
import hashlib
import json
import math
import os
import re
import shutil
import struct
import subprocess
import sys
import time

VERIF = os.path.dirname(os.path.dirname(os.path.abspath(__file__)))
COQ = os.path.join(VERIF, "coq")
HARNESS = os.path.join(VERIF, "harness")
WORK = os.path.join(VERIF, "work")
# runs against a deliberately changed /repo (tools/seed*.py) must not overwrite the committed evidence
EVIDENCE = os.environ.get("VERIF_EVIDENCE_DIR") or os.path.join(VERIF, "evidence")
CORPUS = os.path.join(VERIF, "corpus")
REPO = "/repo"
NPROC = 16

ENV = dict(os.environ, CARGO_NET_OFFLINE="true")

# ------------------------------------------------------------------------------------------------
# source drift: how much of the implementation differs from the tree the committed evidence was produced on


def _norm_source(txt):
    """Comments and whitespace do not change behaviour; everything else may."""
    txt = re.sub(r"/\*.*?\*/", "", txt, flags=re.S)
    out = []
    for line in txt.split("\n"):
        line = re.sub(r"//.*$", "", line) if '"' not in line else line
        line = line.strip()
        if line:
            out.append(re.sub(r"\s+", " ", line))
    return "\n".join(out)


SOURCE_ROOTS = ("rotala/src", "rotala/Cargo.toml", "example_clients/alator/src", "example_clients/alator/Cargo.toml",
                "Cargo.toml")


def source_fingerprint():
    """{relative path: sha256 of the comment- and whitespace-normalised text} over the crates' sources."""
    fp = {}
    for root in SOURCE_ROOTS:
        p = os.path.join(REPO, root)
        files = [p] if os.path.isfile(p) else sorted(
            os.path.join(d, f) for d, _, fs in os.walk(p) for f in fs if f.endswith(".rs"))
        for f in files:
            try:
                txt = open(f, errors="replace").read()
            except OSError:
                continue
            txt = _norm_source(txt) if f.endswith(".rs") else txt
            fp[os.path.relpath(f, REPO)] = hashlib.sha256(txt.encode()).hexdigest()
    return fp


def source_drift():
    """Files whose normalised text differs from source_fingerprint.json (committed; written only by
    tools/fingerprint.py, never by a check)."""
    try:
        rec = json.load(open(os.path.join(VERIF, "source_fingerprint.json")))["files"]
    except (OSError, ValueError, KeyError):
        return None
    now = source_fingerprint()
    return sorted(k for k in set(rec) | set(now) if rec.get(k) != now.get(k))


_DRIFT = "unset"


def drift():
    global _DRIFT
    if _DRIFT == "unset":
        _DRIFT = source_drift()
    return _DRIFT


def scale():
    """The quick tier explores more when the implementation is not the tree the theorems were last tied to:
    a changed source is exactly the situation the correspondence exists for."""
    if os.environ.get("VERIF_SCALE"):
        return max(1, int(os.environ["VERIF_SCALE"]))
    d = drift()
    return 4 if d else 1


def tier_size(tier, quick, thorough):
    return thorough if tier == "thorough" else min(thorough, quick * scale())


# ------------------------------------------------------------------------------------------------
# floats


def f2b(x):
    return struct.unpack("<Q", struct.pack("<d", float(x)))[0]


def b2f(b):
    return struct.unpack("<d", struct.pack("<Q", int(b)))[0]


def show_f(b):
    """bits -> readable python float (for evidence samples)"""
    x = b2f(b)
    if math.isnan(x):
        return "NaN"
    if math.isinf(x):
        return "inf" if x > 0 else "-inf"
    return x


# ------------------------------------------------------------------------------------------------
# Gallina printing


def gf(bits):
    """bit pattern -> Gallina primitive float literal (exact: hexadecimal)"""
    x = b2f(bits)
    if math.isnan(x):
        return "nan"
    if math.isinf(x):
        return "infinity" if x > 0 else "neg_infinity"
    h = x.hex()
    neg = h.startswith("-")
    if neg:
        h = h[1:]
    # 0x1.8000000000000p+3 -> trim zeros of the mantissa for brevity
    m = re.match(r"0x([01])\.([0-9a-f]+)p([+-]\d+)", h)
    lead, frac, exp = m.group(1), m.group(2).rstrip("0"), m.group(3)
    lit = "0x%s%sp%s" % (lead, ("." + frac) if frac else "", exp)
    if lead == "0" and not frac:
        lit = "0"
    return "(-%s)%%float" % lit if neg else "%s%%float" % lit


def gz(n):
    return "(%d)%%Z" % n


def gn(n):
    assert n >= 0
    return "%d%%N" % n


def gs(s):
    assert '"' not in s
    return '"%s"%%string' % s


def gb(x):
    return "true" if x else "false"


def gl(items):
    return "[" + "; ".join(items) + "]"


def go(x, enc):
    return "None" if x is None else "(Some %s)" % enc(x)


def gt(*items):
    return "(" + ", ".join(items) + ")"


def gc(name, *args):
    """constructor / function application"""
    if not args:
        return name
    return "(" + name + " " + " ".join(args) + ")"


# ------------------------------------------------------------------------------------------------
# processes


def sh(cmd, cwd=None, timeout=1800, env=None, check=False):
    p = subprocess.run(cmd, cwd=cwd, shell=isinstance(cmd, str), stdout=subprocess.PIPE,
                       stderr=subprocess.STDOUT, timeout=timeout, env=env or ENV, text=True)
    if check and p.returncode != 0:
        raise RuntimeError("command failed (%d): %s\n%s" % (p.returncode, cmd, p.stdout[-4000:]))
    return p.returncode, p.stdout


_harness_built = False


def build_harness():
    """(Re)build the harness against /repo's current working tree, hooks on."""
    global _harness_built
    if _harness_built:
        return
    if os.path.exists(os.path.join(REPO, "Cargo.lock")):  # git-ignored in /repo: a checkout without it uses the recorded copy
        shutil.copy(os.path.join(REPO, "Cargo.lock"), os.path.join(HARNESS, "Cargo.lock"))
    elif not os.path.exists(os.path.join(HARNESS, "Cargo.lock")):
        shutil.copy(os.path.join(HARNESS, "Cargo.lock.base"), os.path.join(HARNESS, "Cargo.lock"))
    rc, out = sh("cargo build --offline 2>&1", cwd=HARNESS, timeout=1500)
    if rc != 0:
        raise RuntimeError("harness build failed (does /repo still compile with the 'verif' "
                           "feature?):\n" + out[-6000:])
    _harness_built = True


def workdir(name):
    d = os.path.join(WORK, name)
    os.makedirs(d, exist_ok=True)
    return d


def run_harness(component, scenarios, wd, tag="x"):
    """Run the real code on the scenarios; returns the list of traces (one per scenario)."""
    build_harness()
    inp = os.path.join(wd, "in_%s_%s.json" % (component, tag))
    outp = os.path.join(wd, "out_%s_%s.json" % (component, tag))
    with open(inp, "w") as f:
        json.dump(scenarios, f)
    exe = os.path.join(HARNESS, "target", "debug", "verif-harness")
    p = subprocess.run([exe, component, inp, outp], stdout=subprocess.DEVNULL,
                       stderr=subprocess.PIPE, timeout=1500, text=True)
    if p.returncode != 0:
        raise RuntimeError("harness failed on %s: %s" % (component, p.stderr[-3000:]))
    with open(outp) as f:
        return json.load(f)


def run_harness_sharded(component, scenarios, wd, shards=NPROC):
    build_harness()
    if len(scenarios) < 4 * shards:
        return run_harness(component, scenarios, wd)
    chunks = [scenarios[i::shards] for i in range(shards)]
    with concurrent.futures.ThreadPoolExecutor(shards) as ex:
        outs = list(ex.map(lambda kc: run_harness(component, kc[1], wd, "s%d" % kc[0]),
                           enumerate(chunks)))
    res = [None] * len(scenarios)
    for k, o in enumerate(outs):
        for j, t in enumerate(o):
            res[k + j * shards] = t
    return res


# ------------------------------------------------------------------------------------------------
# Coq


def make_coq():
    """Full .vo build of the development (no-op when up to date)."""
    if not os.path.exists(os.path.join(COQ, "Makefile")):
        sh("coq_makefile -f _CoqProject -o Makefile", cwd=COQ, check=True)
    rc, out = sh("make -j%d 2>&1" % NPROC, cwd=COQ, timeout=3000)
    return rc, out


FORBIDDEN = re.compile(
    r"\b(Admitted|admit|Axiom|Axioms|Parameter|Parameters|Conjecture|Conjectures|Hypothesis|"
    r"Hypotheses|Variable|Variables|Admit Obligations|bypass_check|Unset Guard Checking|"
    r"Unset Positivity Checking|Unset Universe Checking|type-in-type|impredicative-set)\b")

# axioms of the standard library that theorems at F := R may depend on (named in the trusted base)
ALLOWED_AXIOMS = {
    "ClassicalDedekindReals.sig_forall_dec",
    "ClassicalDedekindReals.sig_not_dec",
    "FunctionalExtensionality.functional_extensionality_dep",
    "Classical_Prop.classic",
}

# specification axioms the standard library declares for its primitive floats (Floats.FloatAxioms) and 63-bit
# integers (Numbers.Cyclic.Int63.Uint63): used only by the IEEE whole-share exactness theorems (Props/C05float.v,
# through Flocq's IEEE754.PrimFloat bridge). Print Assumptions prints them with or without their module prefix
# depending on what is imported, so both forms are listed.
_FLOAT_SPECS = ["add_spec", "sub_spec", "eqb_spec", "opp_spec", "of_uint63_spec", "Prim2SF_valid", "SF2Prim_Prim2SF",
                "Prim2SF_SF2Prim", "mul_spec", "div_spec", "ltb_spec", "leb_spec", "compare_spec", "abs_spec"]
_UINT63_SPECS = ["add_spec", "sub_spec", "lsl_spec", "lsr_spec", "lor_spec", "land_spec", "ltb_spec", "leb_spec",
                 "eqb_refl", "eqb_correct", "of_to_Z", "mul_spec"]
STDLIB_SPEC_AXIOMS = set(_FLOAT_SPECS) | {"FloatAxioms." + n for n in _FLOAT_SPECS} | \
    {"Uint63." + n for n in _UINT63_SPECS} | {"Uint63Axioms." + n for n in _UINT63_SPECS}
ALLOWED_AXIOMS |= STDLIB_SPEC_AXIOMS

# primitives that Print Assumptions lists for developments using primitive floats/ints: part of
# the kernel, not axioms of this development
PRIMITIVE_PREFIXES = ("PrimFloat.", "PrimInt63.", "Uint63.", "FloatOps.", "FloatAxioms.",
                      "SpecFloat.", "PrimString.", "Sint63.", "FloatClass.")


def strip_comments(src):
    out, depth, i = [], 0, 0
    while i < len(src):
        if src.startswith("(*", i):
            depth += 1
            i += 2
        elif src.startswith("*)", i) and depth > 0:
            depth -= 1
            i += 2
        else:
            if depth == 0:
                out.append(src[i])
            i += 1
    return "".join(out)


def forbidden_tokens():
    hits = []
    for root, _, files in os.walk(COQ):
        for fn in files:
            if fn.endswith(".v"):
                p = os.path.join(root, fn)
                src = strip_comments(open(p).read())
                # Section variables are legitimate: Variable(s)/Hypothesis(es) are allowed inside a Section and
                # nowhere else (outside one they declare axioms)
                depth = 0
                opened = []
                for ln, line in enumerate(src.split("\n"), 1):
                    ms = re.match(r"\s*Section\s+([\w']+)\s*\.", line)
                    if ms:
                        opened.append(ms.group(1))
                    me = re.match(r"\s*End\s+([\w']+)\s*\.", line)
                    if me and opened and opened[-1] == me.group(1):
                        opened.pop()
                    for m in FORBIDDEN.finditer(line):
                        if opened and m.group(0) in ("Variable", "Variables", "Hypothesis", "Hypotheses"):
                            continue
                        hits.append("%s:%d: %s" % (os.path.relpath(p, COQ), ln, m.group(0)))
    return hits


def parse_print_assumptions(out):
    """-> list of (closed: bool, axioms: [names]) in order of the Print Assumptions commands"""
    res = []
    blocks = re.split(r"(?m)^(?=Closed under the global context|Axioms:)", out)
    for b in blocks:
        if b.startswith("Closed under the global context"):
            res.append((True, []))
        elif b.startswith("Axioms:"):
            body = b[len("Axioms:"):]
            names = []
            for m in re.finditer(r"(?ms)^([A-Za-z_][\w.']*)\s*:\s*(.*?)(?=^[A-Za-z_][\w.']*\s*:|\Z)", body):
                name, typ = m.group(1), " ".join(m.group(2).split())
                toks = set(re.findall(r"[\w.']+", typ))
                prim_types = {"float", "PrimFloat.float", "int", "PrimInt63.int", "bool", "float_comparison",
                              "comparison", "Set", "float_class", "PrimFloat.float_class", "Z", "prod"}
                if toks and toks <= prim_types:
                    continue      # a primitive of the kernel (native float / int), not an axiom of ours
                names.append(name)
            res.append((False, names))
    return res


def check_obligations(prop_files):
    """Build the development, re-check the property files, collect theorem names and axioms.
    Returns dict(ok, obligations, discharged, theorems, axioms, problems, checker_cmd)."""
    problems = []
    rc, out = make_coq()
    if rc != 0:
        problems.append("make failed:\n" + out[-3000:])
    hits = forbidden_tokens()
    if hits:
        problems.append("forbidden tokens: " + "; ".join(hits[:10]))
    theorems, axioms = [], set()
    discharged = 0
    for pf in prop_files:
        path = os.path.join(COQ, "Props", pf + ".v")
        src = strip_comments(open(path).read())
        names = re.findall(r"(?m)^\s*(?:Theorem|Corollary)\s+([\w']+)", src)
        pa = re.findall(r"(?m)^\s*Print Assumptions\s+([\w']+)\s*\.", src)
        missing = [n for n in names if n not in pa]
        if missing:
            problems.append("%s: no Print Assumptions for %s" % (pf, missing))
        vo = path[:-2] + ".vo"
        if os.path.exists(vo):
            os.remove(vo)
        rc2, out2 = sh("coqc -Q . Alator Props/%s.v 2>&1" % pf, cwd=COQ, timeout=900)
        if rc2 != 0:
            problems.append("%s does not check:\n%s" % (pf, out2[-3000:]))
            theorems += names
            continue
        res = parse_print_assumptions(out2)
        if len(res) != len(pa):
            problems.append("%s: %d Print Assumptions commands, %d outputs" % (pf, len(pa), len(res)))
        for name, (closed, ax) in zip(pa, res):
            bad = [a for a in ax if a not in ALLOWED_AXIOMS and not a.startswith(PRIMITIVE_PREFIXES)]
            axioms.update(a for a in ax if a in ALLOWED_AXIOMS)
            if bad:
                problems.append("%s.%s depends on non-allow-listed axioms %s" % (pf, name, bad))
            elif name in names:
                discharged += 1
        theorems += names
    return dict(ok=not problems, obligations=len(theorems), discharged=discharged if not problems else min(discharged, max(0, len(theorems) - 1)),
                theorems=theorems, axioms=sorted(axioms), problems=problems,
                checker_cmd="cd /verif/coq && make -j16 && coqc -Q . Alator Props/{%s}.v  (Coq 8.16.1 kernel; Print Assumptions allow-list; forbidden-token grep)" % ",".join(prop_files))


CASE_HEADER = """From Coq Require Import ZArith List Bool String Floats.
Import ListNotations.
Open Scope string_scope.
"""


def run_coq_file(path, timeout=1500):
    rc, out = sh(["coqc", "-noglob", "-Q", COQ, "Alator", path], cwd=os.path.dirname(path),
                 timeout=timeout)
    return rc, out


def parse_failing(out):
    """Output of `Eval vm_compute in (failing …)` : list N  -> [ints]; None if unparsable."""
    m = re.search(r"=\s*(\[.*?\])\s*:\s*list\s+N", out, re.S)
    if not m:
        return None
    return [int(x) for x in re.findall(r"\d+", m.group(1).replace("%N", ""))]


def eval_cases(wd, name, imports, case_terms, checker, defs="", shards=NPROC, per_shard_min=8):
    """case_terms: list of Gallina terms (one per case). Evaluates `checker term : bool` for every
    case inside Coq (vm_compute) and returns the sorted list of failing case indices."""
    n = len(case_terms)
    if n == 0:
        return []
    k = max(1, min(shards, n // per_shard_min or 1))
    jobs = []
    for sidx in range(k):
        idxs = list(range(sidx, n, k))
        body = [CASE_HEADER, imports, defs,
                "Definition cases := [\n" +
                ";\n".join("(%s, %s)" % (gn(i), case_terms[i]) for i in idxs) + "].",
                "Eval vm_compute in (map fst (filter (fun c => negb (%s (snd c))) cases))." % checker]
        path = os.path.join(wd, "cases_%s_%d.v" % (name, sidx))
        with open(path, "w") as f:
            f.write("\n".join(body) + "\n")
        jobs.append(path)
    failing = []
    with concurrent.futures.ThreadPoolExecutor(k) as ex:
        for path, (rc, out) in zip(jobs, ex.map(run_coq_file, jobs)):
            if rc != 0:
                raise RuntimeError("coqc failed on %s:\n%s" % (path, out[-3000:]))
            r = parse_failing(out)
            if r is None:
                raise RuntimeError("cannot parse coqc output for %s:\n%s" % (path, out[-2000:]))
            failing += r
    return sorted(failing)


def eval_term(wd, name, imports, term, defs=""):
    """Evaluate one term by vm_compute and return Coq's printed answer (for diagnostics)."""
    path = os.path.join(wd, "eval_%s.v" % name)
    with open(path, "w") as f:
        f.write("\n".join([CASE_HEADER, imports, defs, "Eval vm_compute in (%s)." % term]) + "\n")
    rc, out = run_coq_file(path)
    return out.strip()


# ------------------------------------------------------------------------------------------------
# known findings


def known_findings():
    """-> (open: list of dict(property, flag, text), fixed: list of str)"""
    opens, fixed = [], []
    p = os.path.join(VERIF, "known_findings.txt")
    if os.path.exists(p):
        for line in open(p):
            line = line.strip()
            if line.startswith("open:"):
                m = re.match(r"open:\s*property=(\S+)\s+flag=(\S+)\s+(.*)", line)
                if m:
                    opens.append(dict(property=m.group(1), flag=m.group(2), text=m.group(3)))
            elif line.startswith("fixed:"):
                fixed.append(line)
    return opens, fixed


# ------------------------------------------------------------------------------------------------
# evidence / verdict

TRUSTED_BASE = [
    "Coq 8.16.1 kernel incl. its vm_compute machine and primitive float/int implementations (no native_compute)",
    "hand-written Gallina model in /verif/coq/Model, tied to /repo only by the correspondence check of this run (differential testing on generated traces: a sample, not a proof)",
    "Rust harness /verif/harness (drives the real crates, records traces), Python driver /verif/driver (generators, trace-to-Gallina printer, float transport as bit patterns)",
    "no extraction is used",
]


class ImplementationPanic(Exception):
    """the code under test panicked outside any step (while the harness was setting a scenario up through the crate's own
    constructors): not a fault of the machinery — the scenario is the failing input"""
    def __init__(self, message, scenario, where):
        super().__init__(message)
        self.scenario, self.where = scenario, where


class Result:
    def __init__(self, prop, tier, seed):
        self.prop, self.tier, self.seed = prop, tier, seed
        self.t0 = time.time()
        self.violations = []      # list of (replay_path, suffix)
        self.known = []           # KNOWN-FINDING lines
        self.coverage = {}
        self.assumptions = []
        self.notes = []
        self.diagnosis = {}       # extra diagnosis copied into every replay object (tie_by_translation when it failed)

    def violation(self, replay_obj, tag, no_input=False):
        if self.diagnosis and isinstance(replay_obj, dict):
            replay_obj = dict(replay_obj, extra_diagnosis=self.diagnosis)
        d = workdir("replays")
        path = os.path.join(d, "%s_%s.json" % (self.prop, tag))
        n = 1
        while any(path == p for p, _ in self.violations):
            n += 1
            path = os.path.join(d, "%s_%s_%d.json" % (self.prop, tag, n))
        with open(path, "w") as f:
            json.dump(replay_obj, f, indent=1, default=str)
        self.violations.append((path, no_input))

    def finish(self, obligations, level="proof"):
        cov = dict(self.coverage)
        cov.setdefault("evaluations", 0)
        cov.setdefault("distinct_nontrivial", 0)
        cov.setdefault("rule", "")
        cov.setdefault("samples", [])
        cov["obligations"] = obligations["obligations"]
        cov["discharged"] = obligations["discharged"]
        cov["checker_cmd"] = obligations["checker_cmd"]
        cov["theorems"] = obligations["theorems"]
        cov["axioms_reported_by_print_assumptions"] = obligations["axioms"]
        tb = list(TRUSTED_BASE)
        if obligations["axioms"]:
            tb.append("standard-library axioms (none declared here): " + ", ".join(obligations["axioms"]))
        cov["trusted_base"] = tb
        cov["notes"] = self.notes
        cov["source_drift"] = drift()
        cov["quick_scale"] = scale()
        ev = dict(property_id=self.prop, tier=self.tier, seed=self.seed, level=level, coverage=cov,
                  assumptions=self.assumptions, wall_s=round(time.time() - self.t0, 2),
                  violations=len(self.violations))
        os.makedirs(EVIDENCE, exist_ok=True)
        with open(os.path.join(EVIDENCE, self.prop + ".json"), "w") as f:
            json.dump(ev, f, indent=1, default=str)
        for k in self.known:
            print(k)
        for path, no_input in self.violations:
            print("VIOLATION property=%s replay=%s%s" % (self.prop, path,
                                                        " no-failing-input-found" if no_input else ""))
        sys.stdout.flush()
        return 1 if self.violations else 0


# module prefixes whose axioms coqchk may report for this development: the standard library's primitive floats and
# 63-bit integers (their specifications are axioms of the library), its real numbers and classical logic. Nothing
# under Alator.* (this development) and nothing else.
COQCHK_ALLOWED_PREFIXES = ("Coq.Floats.", "Coq.Numbers.Cyclic.Int63.", "Coq.Reals.", "Coq.Logic.", "Coq.setoid_ring.",
                           "Coq.Strings.PrimString", "Coq.Array.")


def run_coqchk(prop_files):
    """coqchk: re-check the compiled property files and everything they depend on with the independent checker.
    -> dict(ok, axioms, problems, cmd)"""
    if not prop_files:
        return dict(ok=True, axioms=[], problems=[], cmd="(no property file)")
    mods = " ".join("Alator.Props.%s" % pf for pf in prop_files)
    cmd = "coqchk -silent -o -Q . Alator %s" % mods
    rc, out = sh(cmd + " 2>&1", cwd=COQ, timeout=3000)
    problems = []
    if rc != 0:
        problems.append("coqchk failed:\n" + out[-2000:])
    axioms = []
    sect = None
    for line in out.split("\n"):
        t = line.strip()
        if t.startswith("* "):
            sect = t
            for key in ("type-in-type", "unsafe (co)fixpoints", "positivity is assumed"):
                if key in t and not t.endswith("<none>"):
                    problems.append("coqchk: " + t)
            continue
        if sect and sect.startswith("* Axioms") and t and not t.startswith("*"):
            axioms.append(t)
    bad = [a for a in axioms if not a.startswith(COQCHK_ALLOWED_PREFIXES)]
    if bad:
        problems.append("coqchk reports axioms outside the standard library's floats / ints / reals / logic: %s" % bad[:10])
    return dict(ok=not problems, axioms=axioms, problems=problems, cmd="cd /verif/coq && " + cmd)


def obligations_or_violation(res, prop_files):
    ob = check_obligations(prop_files)
    if not ob["ok"]:
        res.violation(dict(kind="proof-obligation", problems=ob["problems"],
                           theorem_files=prop_files), "proof", no_input=True)
    elif res.tier == "thorough" and prop_files:
        ck = run_coqchk(prop_files)
        res.coverage["coqchk"] = dict(cmd=ck["cmd"], ok=ck["ok"], axioms_of_all_loaded_libraries=len(ck["axioms"]),
                                      axioms_by_library=sorted({".".join(a.split(".")[:3]) for a in ck["axioms"]}))
        if not ck["ok"]:
            res.violation(dict(kind="proof-obligation", problems=ck["problems"], theorem_files=prop_files,
                               checker="coqchk"), "coqchk", no_input=True)
    return ob


# ------------------------------------------------------------------------------------------------
# the second tie: translation of the source text (DESIGN 8.8)

GEN = os.path.join(WORK, "gen")


def _first_coq_error(out, src):
    """`File "..", line N, ..: Error: ...` of coqc as one line, prefixed with the lemma the line belongs to."""
    m = re.search(r'File "([^"]+)", line (\d+), characters [\d-]+:\s*Error:\s*(.*)', out, re.S)
    if not m:
        return " ".join(out.split())[:300] or "coqc failed without output"
    lemma = ""
    try:
        head = open(m.group(1) if os.path.isabs(m.group(1)) else src).read().split("\n")[:int(m.group(2))]
        names = re.findall(r"(?m)^\s*(?:Lemma|Definition)\s+([\w']+)", "\n".join(head))
        lemma = (names[-1] + ", ") if names else ""
    except OSError:
        pass
    msg = " ".join(m.group(3).split())
    core = re.search(r"(Unable to unify|The term|The reference|Cannot|No matching|Tactic failure|Found no subterm|"
                     r"Unknown|Illegal|Syntax error).*", msg)      # without the `In environment ...` preamble
    return "%s%s line %s: %s" % (lemma, os.path.relpath(src, COQ), m.group(2), (core.group(0) if core else msg)[:400])


def tie_by_translation(res, target, equiv):
    """Regenerate coq/Gen/<Target>Gen.v from /repo's source text (tools/rs2v.py) and have Coq prove it equal to the
    hand-written model (coq/Check/<equiv>.v), for every Num F. Both files are compiled into work/gen/ and are not part of
    _CoqProject, so a change of /repo never invalidates the main build. Writes res.coverage["tie_by_translation"].
    NEVER a violation by itself: when the translator meets something outside its subset, or the equivalence stops
    proving, the sampling correspondence decides exactly as without this step; a failed equivalence is kept in
    res.diagnosis and lands in the replay object of whatever the correspondence then reports."""
    t0 = time.time()
    status, diag = None, None
    try:
        make_coq()
        os.makedirs(GEN, exist_ok=True)
        gdir = os.path.join(COQ, "Gen")
        rc, out = sh([sys.executable, os.path.join(VERIF, "tools", "rs2v.py"), "--target", target, "--repo", REPO,
                      "--out", gdir], timeout=120)
        said = [ln for ln in out.split("\n") if ln.startswith("rs2v: ")]
        if rc != 0 or not out.strip():
            status = "translator: " + (said[0][len("rs2v: "):] if said else "internal error: " + " ".join(out.split())[-300:])
        else:
            info = json.loads(out.strip().split("\n")[-1])
            eq = os.path.join(COQ, "Check", equiv + ".v")
            for src in (info["out"], eq):
                vo = os.path.join(GEN, os.path.basename(src)[:-2] + ".vo")
                if os.path.exists(vo):
                    os.remove(vo)
                rc, out = sh(["coqc", "-noglob", "-Q", COQ, "Alator", "-Q", GEN, "Alator.Gen", "-o", vo, src], timeout=300)
                if rc != 0:
                    status = "equivalence no longer proves: " + _first_coq_error(out, src)
                    break
            else:
                asked = len(re.findall(r"(?m)^\s*Print Assumptions", strip_comments(open(eq).read())))
                if out.count("Closed under the global context") != asked or "Axioms:" in out:
                    status = "equivalence no longer proves: %s depends on axioms: %s" % (equiv, " ".join(out.split())[:300])
            src_rel = os.path.relpath(info["source"], REPO)
            if status is None:
                status = "proved: Gen.{%s} = Model.{%s} for every Num F (regenerated from %s at this run)" % (
                    ", ".join(g for g, _ in info["pairs"]), ", ".join(m for _, m in info["pairs"]), src_rel)
                res.coverage["tie_by_translation_lemmas"] = re.findall(r"(?m)^\s*Lemma\s+(gen_[\w']+)", open(eq).read())
            else:
                diag = dict(finding=status, source=src_rel, generated_file=info["out"], equivalence_file=eq,
                            generated=open(info["out"]).read())
    except Exception as e:       # a timeout, a missing tool: still not an alarm
        status = "equivalence no longer proves: the step itself failed (%r)" % (e,)
    res.coverage["tie_by_translation"] = status
    res.coverage["tie_by_translation_s"] = round(time.time() - t0, 2)
    if not status.startswith("proved"):
        res.diagnosis["tie_by_translation"] = diag or dict(finding=status)
        res.notes.append("tie by translation: %s — no alarm by itself, the sampling correspondence decides as without "
                         "this step" % status)
    return status


def load_corpus(prop):
    d = os.path.join(CORPUS, prop)
    out = []
    if os.path.isdir(d):
        for fn in sorted(os.listdir(d)):
            if fn.endswith(".json"):
                obj = json.load(open(os.path.join(d, fn)))
                out.append(obj["scenario"] if isinstance(obj, dict) and "scenario" in obj else obj)
    return out


def parse_triples(out):
    m = re.search(r"=\s*(\[.*?\])\s*:\s*list\s*\(N\s*\*\s*N\s*\*\s*N\)", out, re.S)
    if not m:
        return None
    nums = [int(x) for x in re.findall(r"\d+", m.group(1).replace("%N", ""))]
    return [tuple(nums[i:i + 3]) for i in range(0, len(nums), 3)]


def eval_steps(wd, name, imports, scenarios_terms, checker, defs="", shards=NPROC, timeout=1500, sc_defs=None):
    """scenarios_terms: list (one per scenario) of lists of Gallina step terms.
    `checker : step -> N` returns a mismatch mask (0 = agrees).
    Returns list of (scenario index, step index, mask) for the mismatching steps."""
    n = len(scenarios_terms)
    if n == 0:
        return []
    # balance shards by number of steps
    order = sorted(range(n), key=lambda i: -len(scenarios_terms[i]))
    k = max(1, min(shards, n))
    buckets = [[] for _ in range(k)]
    loads = [0] * k
    for i in order:
        j = loads.index(min(loads))
        buckets[j].append(i)
        loads[j] += len(scenarios_terms[i]) + 1
    jobs = []
    for sidx, idxs in enumerate(buckets):
        if not idxs:
            continue
        body = [CASE_HEADER, imports, defs]
        if sc_defs:
            body += [sc_defs[i] for i in idxs]
        body.append("Definition cases := [")
        body.append(";\n".join("(%s, [\n  %s])" % (gn(i), ";\n  ".join(scenarios_terms[i])) for i in idxs))
        body.append("].")
        body.append("Eval vm_compute in (failing_steps (%s) cases)." % checker)
        path = os.path.join(wd, "steps_%s_%d.v" % (name, sidx))
        with open(path, "w") as f:
            f.write("\n".join(body) + "\n")
        jobs.append(path)
    res = []
    with concurrent.futures.ThreadPoolExecutor(len(jobs)) as ex:
        for path, (rc, out) in zip(jobs, ex.map(lambda p: run_coq_file(p, timeout), jobs)):
            if rc != 0:
                raise RuntimeError("coqc failed on %s:\n%s" % (path, out[-3000:]))
            r = parse_triples(out)
            if r is None:
                raise RuntimeError("cannot parse coqc output for %s:\n%s" % (path, out[-2000:]))
            res += r
    return sorted(res)


VALUATION_SEARCH_BUDGET_S = 60

QUIRK_FLAGS = ["q_init_no_bump", "q_jura_pos_stuck", "q_jura_sell_triggers_inverted", "q_send_dropped_future",
               "q_limit_panics", "q_liq_ceil_precedence", "q_diff_break", "q_diff_direction_flip",
               "q_strategy_ncf_self_add", "q_maxdd_last_positions", "q_liq_fail_debit",
               "q_jura_http_drops_triggered"]


def g_quirks(on=()):
    for f in on:
        assert f in QUIRK_FLAGS, f
    return "(mkQuirks %s)" % " ".join(gb(f in on) for f in QUIRK_FLAGS)


# which property each quirk flag refutes (flag on => the listed properties' theorems are refuted)
REFUTES = {
    "q_init_no_bump": ["C08"],
    "q_jura_pos_stuck": ["C07", "C01"],
    "q_jura_sell_triggers_inverted": ["C18"],
    "q_send_dropped_future": ["C06"],
    "q_limit_panics": ["C06"],
    "q_liq_ceil_precedence": ["C10"],
    "q_diff_break": ["C12"],
    "q_diff_direction_flip": ["C12"],
    "q_strategy_ncf_self_add": ["C16"],
    "q_maxdd_last_positions": ["C15"],
    "q_liq_fail_debit": ["C04"],
    "q_jura_http_drops_triggered": ["C20"],
}


def find_valuation(eval_fn, relevant, base):
    """eval_fn(frozenset of flags on) -> list of mismatches.  Tries the base valuation, then single
    flips of the relevant flags, then pairs.  -> (matched valuation or None, mismatches under base)"""
    base = frozenset(base)
    m0 = eval_fn(base)
    if not m0:
        return base, m0
    import itertools
    # single flips always (a recorded finding repaired, a repaired defect back); combinations of two or three only
    # while the search stays cheap: when no valuation is found the property is "not shown" either way and the time is
    # better spent on the search for a failing input
    t0 = time.time()
    for r in (1, 2, 3):
        for combo in itertools.combinations(relevant, r):
            if r > 1 and time.time() - t0 > VALUATION_SEARCH_BUDGET_S:
                return None, m0
            v = base.symmetric_difference(combo)
            if not eval_fn(v):
                return v, m0
    return None, m0


def slice_verdict(res, prop, *, eval_fn, relevant, scenarios, traces_steps, oracle, run_witness,
                  component, theorem_hint, shrink=None):
    """Common verdict logic (DESIGN 2.4).
    eval_fn(valuation) -> mismatches [(sc, step, mask)] already projected for this property.
    oracle(scenario, steps) -> failure description or None  (direct reading of the property).
    run_witness(scenario) -> steps   (runs a stored scenario on the real code)."""
    opens, _fixed = known_findings()
    open_flags = [o["flag"] for o in opens]
    base = [f for f in open_flags if f in relevant]
    val, m0 = find_valuation(eval_fn, relevant, base)
    res.coverage["quirk_valuation_matched"] = sorted(val) if val is not None else None
    res.coverage["correspondence_mismatches_under_recorded_valuation"] = len(m0)
    refuting = [] if val is None else [f for f in val if prop in REFUTES.get(f, []) and f not in open_flags]
    # open known findings that concern this property: re-execute the stored witness, report, pass
    for o in opens:
        if o["property"] == prop:
            w = load_witness(prop, o["flag"])
            note = ""
            if w is not None and oracle is not None:
                st = run_witness(w)
                try:
                    f = oracle(w, st, include_known=True)     # the reading that does not skip recorded findings
                except TypeError:
                    f = oracle(w, st)
                note = " (witness re-executed on the real code: %s)" % ("still fails" if f else "NO LONGER FAILS")
            res.known.append("KNOWN-FINDING: property=%s %s%s" % (prop, o["text"], note))
    if val is not None and not refuting:
        if m0:
            res.notes.append("code matches the model under valuation %s (not the recorded one); the property's "
                             "theorems hold for that valuation too" % sorted(val))
        return
    # the property is not shown: search for a concrete failing input
    cands = []
    for f in (refuting or []):
        w = load_witness(prop, f)
        if w is not None:
            cands.append((w, run_witness(w), "stored witness of %s" % f))
    for (sc, step, mask) in m0[:50]:
        cands.append((scenarios[sc], traces_steps[sc], "mismatching scenario %d" % sc))
    seen = set()
    for i in range(len(scenarios)):
        cands.append((scenarios[i], traces_steps[i], "scenario %d" % i))
    found = None
    if oracle is not None:
        for sc, st, why in cands:
            k = id(sc)
            if k in seen:
                continue
            seen.add(k)
            f = oracle(sc, st)
            if f:
                found = (sc, st, why, f)
                break
    broken = dict(
        matched_valuation=sorted(val) if val is not None else None,
        refuted_by_flags=refuting,
        theorem=theorem_hint,
        first_mismatches=[dict(scenario=a, step=b, aspects=c) for a, b, c in m0[:5]],
    )
    if found:
        sc, st, why, f = found
        if shrink:
            sc, f = shrink(sc, f)
        res.violation(dict(kind="property-fails-on-implementation", component=component, found_in=why,
                           failure=f, scenario=sc, correspondence=broken), "violation")
    else:
        i = m0[0][0] if m0 else 0
        res.violation(dict(kind="correspondence-or-refuted-theorem", component=component,
                           no_longer_checks=broken, scenario=scenarios[i] if scenarios else None),
                      "unproved", no_input=True)


def load_witness(prop, flag):
    p = os.path.join(CORPUS, prop, "witness_%s.json" % flag)
    if os.path.exists(p):
        return json.load(open(p))["scenario"]
    return None
