(* BrokerSys.v — the composition broker + eager client + Uist server + Uist exchange for an arbitrary client of the
   broker (any order type, deposits, withdrawals, liquidations, checks) — Model/Strategy.v's composition without the
   strategy on top. One backtest [bs_id] of the app belongs to this broker. Definitions only. *)
From Coq Require Import ZArith NArith List Bool String.
From Alator Require Import Model.Num Model.Quirks Model.Cost Model.Exchange Model.Uist Model.Server Model.Broker
  Model.Strategy.
Import ListNotations.

Section BrokerSys.
Context {F : Type} {NF : Num F}.
Context (qk : quirks).

Record bsys := mkBSys { bs_brkr : broker F; bs_app : uapp (F:=F); bs_id : N }.

Inductive bsop :=
| BSDeposit (c : F)
| BSWithdraw (c : F)
| BSLiq (c : F) (ord : list string)                (* withdraw_cash_with_liquidation; ord: holdings iteration order *)
| BSSend (o : uorder F)                            (* send_order *)
| BSCheck (perm : list nat) (ord : list string).   (* check(): tick, fetch_quotes, reconcile, rebalance_cash *)

(* what the client calls of one check() returned *)
Definition check_resp (a : uapp (F:=F)) (id : N) (perm : list nat)
  : uapp (F:=F) * option (list (trade F) * list (string * quote F)) * bool :=
  let '(a1, rt) := usstep qk a (STick id perm) in
  let '(a2, rf) := usstep qk a1 (SFetch id) in
  let resp := match rt, rf with
              | RTick (Some (_, (trades, _))), RFetch (Some row) => Some (trades, row)
              | _, _ => None
              end in
  (a2, resp, match rt with RPanic => true | _ => false end).

Definition bs_step (y : bsys) (o : bsop) : res bsys :=
  let id := bs_id y in
  match o with
  | BSDeposit c => Ok (mkBSys (fst (deposit_cash (bs_brkr y) c)) (bs_app y) id)
  | BSWithdraw c => Ok (mkBSys (fst (withdraw_cash (bs_brkr y) c)) (bs_app y) id)
  | BSLiq c ord =>
      bind (withdraw_cash_with_liquidation qk (bs_brkr y) c ord) (fun '(b', _, fw) =>
      Ok (mkBSys b' (forward qk (bs_app y) id fw) id))
  | BSSend x =>
      bind (send_order qk (bs_brkr y) x) (fun '(b', _, fw) =>
      Ok (mkBSys b' (forward qk (bs_app y) id fw) id))
  | BSCheck perm ord =>
      let '(a2, resp, panicked) := check_resp (bs_app y) id perm in
      if panicked then Panic "exchange tick panicked or sort oracle rejected"
      else bind (check qk (bs_brkr y) resp ord) (fun '(b', fw) =>
           Ok (mkBSys b' (forward qk a2 id fw) id))
  end.

Fixpoint bs_run (y : bsys) (ops : list bsop) : res bsys :=
  match ops with
  | [] => Ok y
  | o :: r => bind (bs_step y o) (fun y' => bs_run y' r)
  end.

(* the orders of this broker that the exchange still holds: resting book, then the buffer *)
Definition outstanding (y : bsys) : list (uorder F) :=
  match nlookup (backtests (bs_app y)) (bs_id y) with
  | Some b => map (@e_ord (uorder F)) (book (bt_exch b)) ++ buffer (bt_exch b)
  | None => []
  end.

End BrokerSys.

Arguments bsys F : clear implicits.
Arguments bsop F : clear implicits.
