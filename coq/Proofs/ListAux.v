(* ListAux.v — generic list facts used by ExchangeProofs.v. Proofs only, no axioms. *)
From Coq Require Import ZArith NArith List Bool Lia Permutation Sorted.
Import ListNotations.

Section ListAux.
Context {A B : Type}.

Lemma filter_filter (f g : A -> bool) (l : list A) :
  filter f (filter g l) = filter (fun x => g x && f x) l.
Proof.
  induction l as [|a l IH]; [reflexivity|].
  cbn [filter]. destruct (g a) eqn:Hg; cbn [andb filter].
  - destruct (f a); rewrite IH; reflexivity.
  - exact IH.
Qed.

Lemma filter_map_comm (f : A -> B) (p : B -> bool) (l : list A) :
  filter p (map f l) = map f (filter (fun x => p (f x)) l).
Proof.
  induction l as [|a l IH]; [reflexivity|].
  cbn [map filter]. destruct (p (f a)); cbn [map]; rewrite IH; reflexivity.
Qed.

Lemma filter_all_true (p : A -> bool) (l : list A) :
  (forall x, In x l -> p x = true) -> filter p l = l.
Proof.
  induction l as [|a l IH]; intros H; [reflexivity|].
  cbn [filter]. rewrite (H a (or_introl eq_refl)). f_equal.
  apply IH. intros x Hx. apply H. right. exact Hx.
Qed.

Lemma filter_partition_perm (p : A -> bool) (l : list A) :
  Permutation (filter p l ++ filter (fun x => negb (p x)) l) l.
Proof.
  induction l as [|a l IH]; [constructor|].
  cbn [filter]. destruct (p a); cbn [negb app].
  - constructor. exact IH.
  - apply Permutation_sym, Permutation_cons_app, Permutation_sym, IH.
Qed.

Lemma map_inj_in (f : A -> B) (l : list A) (x y : A) :
  NoDup (map f l) -> In x l -> In y l -> f x = f y -> x = y.
Proof.
  induction l as [|a l IH]; intros Hnd Hx Hy Hf; [destruct Hx|].
  cbn [map] in Hnd. inversion Hnd as [|? ? Hnin Hnd']; subst.
  destruct Hx as [Hx|Hx]; destruct Hy as [Hy|Hy].
  - congruence.
  - subst a. exfalso. apply Hnin. rewrite Hf. apply in_map. exact Hy.
  - subst a. exfalso. apply Hnin. rewrite <- Hf. apply in_map. exact Hx.
  - apply IH; assumption.
Qed.

Lemma flat_map_map {C : Type} (g : A -> B) (f : B -> list C) (l : list A) :
  flat_map f (map g l) = flat_map (fun x => f (g x)) l.
Proof.
  induction l as [|a l IH]; [reflexivity|]. cbn [map flat_map]. rewrite IH. reflexivity.
Qed.

Lemma map_flat_map {C : Type} (g : B -> C) (f : A -> list B) (l : list A) :
  map g (flat_map f l) = flat_map (fun x => map g (f x)) l.
Proof.
  induction l as [|a l IH]; [reflexivity|]. cbn [flat_map]. rewrite map_app, IH. reflexivity.
Qed.

Lemma flat_map_ext_in {C : Type} (f g : A -> list C) (l : list A) :
  (forall x, In x l -> f x = g x) -> flat_map f l = flat_map g l.
Proof.
  induction l as [|a l IH]; intros H; [reflexivity|].
  cbn [flat_map]. rewrite (H a (or_introl eq_refl)). f_equal.
  apply IH. intros x Hx. apply H. right. exact Hx.
Qed.

(* ---- StronglySorted ---- *)
Lemma SSorted_app (R : A -> A -> Prop) (l1 l2 : list A) :
  StronglySorted R l1 -> StronglySorted R l2 ->
  (forall x y, In x l1 -> In y l2 -> R x y) -> StronglySorted R (l1 ++ l2).
Proof.
  induction l1 as [|a l1 IH]; intros H1 H2 H; [exact H2|].
  inversion H1 as [|? ? Hs Hf]; subst. cbn [app]. constructor.
  - apply IH; [exact Hs|exact H2|]. intros x y Hx Hy. apply H; [right; exact Hx|exact Hy].
  - apply Forall_app. split; [exact Hf|].
    apply Forall_forall. intros y Hy. apply H; [left; reflexivity|exact Hy].
Qed.

Lemma SSorted_map_filter (R : B -> B -> Prop) (f : A -> B) (p : A -> bool) (l : list A) :
  StronglySorted R (map f l) -> StronglySorted R (map f (filter p l)).
Proof.
  induction l as [|a l IH]; intros H; [constructor|].
  cbn [map] in H. inversion H as [|? ? Hs Hf]; subst.
  cbn [filter]. destruct (p a); [|apply IH; exact Hs].
  cbn [map]. constructor; [apply IH; exact Hs|].
  apply Forall_forall. intros y Hy.
  apply in_map_iff in Hy. destruct Hy as [x [Hxy Hx]]. apply filter_In in Hx.
  rewrite Forall_forall in Hf. apply Hf. rewrite <- Hxy. apply in_map. apply Hx.
Qed.

Lemma NoDup_map_filter (f : A -> B) (p : A -> bool) (l : list A) :
  NoDup (map f l) -> NoDup (map f (filter p l)).
Proof.
  induction l as [|a l IH]; intros H; [constructor|].
  cbn [map] in H. inversion H as [|? ? Hnin Hnd]; subst.
  cbn [filter]. destruct (p a); [|apply IH; exact Hnd].
  cbn [map]. constructor; [|apply IH; exact Hnd].
  intro Hin. apply Hnin.
  apply in_map_iff in Hin. destruct Hin as [x [Hxy Hx]]. apply filter_In in Hx.
  rewrite <- Hxy. apply in_map. apply Hx.
Qed.

(* ---- subsequences ---- *)
Inductive sublist : list A -> list A -> Prop :=
| sl_nil : sublist [] []
| sl_skip x l1 l2 : sublist l1 l2 -> sublist l1 (x :: l2)
| sl_cons x l1 l2 : sublist l1 l2 -> sublist (x :: l1) (x :: l2).

Lemma sublist_refl (l : list A) : sublist l l.
Proof. induction l; constructor; assumption. Qed.

Lemma sublist_nil_l (l : list A) : sublist [] l.
Proof. induction l; constructor; assumption. Qed.

Lemma sublist_app (l1 l2 m1 m2 : list A) :
  sublist l1 l2 -> sublist m1 m2 -> sublist (l1 ++ m1) (l2 ++ m2).
Proof.
  intros H1 H2. induction H1; cbn [app]; [exact H2| |]; constructor; assumption.
Qed.

Lemma sublist_In (l1 l2 : list A) (x : A) : sublist l1 l2 -> In x l1 -> In x l2.
Proof.
  intros H. induction H as [|y l1 l2 H IH|y l1 l2 H IH]; intros Hx.
  - exact Hx.
  - right. apply IH. exact Hx.
  - destruct Hx as [Hx|Hx]; [left; exact Hx|right; apply IH; exact Hx].
Qed.

Lemma sublist_NoDup (l1 l2 : list A) : sublist l1 l2 -> NoDup l2 -> NoDup l1.
Proof.
  intros H. induction H as [|y l1 l2 H IH|y l1 l2 H IH]; intros Hnd.
  - constructor.
  - inversion Hnd; subst. apply IH. assumption.
  - inversion Hnd as [|? ? Hnin Hnd']; subst. constructor.
    + intro Hin. apply Hnin. eapply sublist_In; eassumption.
    + apply IH. exact Hnd'.
Qed.

Lemma SSorted_sublist (R : A -> A -> Prop) (l1 l2 : list A) :
  sublist l1 l2 -> StronglySorted R l2 -> StronglySorted R l1.
Proof.
  intros H. induction H as [|y l1 l2 H IH|y l1 l2 H IH]; intros Hs.
  - constructor.
  - inversion Hs; subst. apply IH. assumption.
  - inversion Hs as [|? ? Hs' Hf]; subst. constructor; [apply IH; exact Hs'|].
    rewrite Forall_forall in *. intros x Hx. apply Hf. eapply sublist_In; eassumption.
Qed.

End ListAux.

Lemma sublist_map_filter {A B : Type} (f : A -> B) (p q : A -> bool) (l : list A) :
  (forall x, In x l -> p x = true -> q x = true) ->
  sublist (map f (filter p l)) (map f (filter q l)).
Proof.
  induction l as [|a l IH]; intros H; [constructor|].
  assert (IH' : sublist (map f (filter p l)) (map f (filter q l))).
  { apply IH. intros x Hx. apply H. right. exact Hx. }
  cbn [filter]. destruct (p a) eqn:Hp.
  - rewrite (H a (or_introl eq_refl) Hp). cbn [map]. apply sl_cons. exact IH'.
  - destruct (q a); cbn [map]; [apply sl_skip|]; exact IH'.
Qed.

Lemma SSorted_lt_NoDup (l : list N) : StronglySorted N.lt l -> NoDup l.
Proof.
  intros H. induction H as [|a l Hs IH Hf]; constructor; [|exact IH].
  intro Hin. rewrite Forall_forall in Hf. specialize (Hf a Hin). lia.
Qed.

Lemma NoDup_app_disjoint {A : Type} (l1 l2 : list A) (x : A) :
  NoDup (l1 ++ l2) -> In x l1 -> In x l2 -> False.
Proof.
  induction l1 as [|a l1 IH]; intros Hnd H1 H2; [destruct H1|].
  cbn [app] in Hnd. inversion Hnd as [|? ? Hnin Hnd']; subst.
  destruct H1 as [H1|H1].
  - subst a. apply Hnin. apply in_or_app. right. exact H2.
  - apply IH; assumption.
Qed.

Lemma NoDup_app_r {A : Type} (l1 l2 : list A) : NoDup (l1 ++ l2) -> NoDup l2.
Proof.
  induction l1 as [|a l1 IH]; intros H; [exact H|].
  cbn [app] in H. inversion H; subst. apply IH. assumption.
Qed.

(* seq with an offset *)
Lemma seq_offset (a k : nat) : seq a k = map (fun j => (a + j)%nat) (seq 0 k).
Proof.
  revert a. induction k as [|k IH]; intros a; [reflexivity|].
  cbn [seq map]. f_equal; [lia|].
  rewrite <- (seq_shift k 0), map_map. rewrite (IH (S a)).
  apply map_ext. intros j. lia.
Qed.
