"""C15 — perf slice; see driver/perf.py and Props/C15.v"""
import perf


def run(res, tier, seed, replay):
    return perf.run_property(res, "C15", tier, seed, replay, ["C15", "C15float"])
