use serde_json::{json, Value};

/// f64 -> its bit pattern (floats cross the JSON boundary as u64 so nothing is rounded)
pub fn fb(x: f64) -> Value {
    Value::from(x.to_bits())
}

pub fn bf(v: &Value) -> f64 {
    f64::from_bits(v.as_u64().expect("float bits"))
}

pub fn opt_fb(x: Option<f64>) -> Value {
    match x {
        Some(x) => fb(x),
        None => Value::Null,
    }
}

pub fn opt_bf(v: &Value) -> Option<f64> {
    if v.is_null() {
        None
    } else {
        Some(bf(v))
    }
}

pub fn s(v: &Value) -> String {
    v.as_str().expect("string").to_string()
}

pub fn u(v: &Value) -> u64 {
    v.as_u64().expect("u64")
}

pub fn i(v: &Value) -> i64 {
    v.as_i64().expect("i64")
}

pub fn b(v: &Value) -> bool {
    v.as_bool().expect("bool")
}

pub fn arr(v: &Value) -> &Vec<Value> {
    v.as_array().expect("array")
}

/// run a closure, turning a panic into Err(message)
pub fn catch<T>(f: impl FnOnce() -> T) -> Result<T, String> {
    match std::panic::catch_unwind(std::panic::AssertUnwindSafe(f)) {
        Ok(v) => Ok(v),
        Err(e) => {
            let msg = if let Some(s) = e.downcast_ref::<&str>() {
                s.to_string()
            } else if let Some(s) = e.downcast_ref::<String>() {
                s.clone()
            } else {
                "panic".to_string()
            };
            Err(msg)
        }
    }
}

pub fn panic_json(msg: &str) -> Value {
    json!({ "panic": msg })
}

/// Drive a future to completion by polling it with a no-op waker (every future in the harness is
/// ready after finitely many polls). Deliberately not futures::executor::block_on: the code under
/// test calls that itself (Clock::now, send_order) and futures executors must not be nested.
pub fn drive<F: std::future::Future>(f: F) -> F::Output {
    use std::task::{Context, Poll};
    let waker = futures::task::noop_waker();
    let mut cx = Context::from_waker(&waker);
    let mut f = std::pin::pin!(f);
    for _ in 0..1_000_000 {
        if let Poll::Ready(v) = f.as_mut().poll(&mut cx) {
            return v;
        }
    }
    panic!("future did not complete");
}

/// await a future, turning a panic inside it into Err(message)
pub async fn catch_async<T>(f: impl std::future::Future<Output = T>) -> Result<T, String> {
    use futures::FutureExt;
    match std::panic::AssertUnwindSafe(f).catch_unwind().await {
        Ok(v) => Ok(v),
        Err(e) => Err(if let Some(s) = e.downcast_ref::<&str>() {
            s.to_string()
        } else if let Some(s) = e.downcast_ref::<String>() {
            s.clone()
        } else {
            "panic".to_string()
        }),
    }
}
