(* C02 — Uist fills honour limit/stop conditions and use the correct side of the quote. Statements only. Every statement is for every number type F with operations Num F: no law of arithmetic is assumed, so they hold of the IEEE instance that is compared bit-for-bit with the code (NaNs included). *)
From Coq Require Import ZArith NArith List Bool String Permutation Sorted Floats.
From Alator Require Import Model.Num Model.Quirks Model.Exchange Model.Uist Model.Jura Model.Server
  Proofs.ListAux Proofs.ExchangeProofs Proofs.UistProofs Proofs.JuraProofs Proofs.ExchangeCorollaries
  Proofs.ServerProofs.
Import ListNotations.
Local Open Scope num_scope.

(* A resting order whose symbol is quoted fires iff the property's condition holds (ShouldFill, written independently: market always; limit buy ask <= limit; limit sell bid >= limit; stop buy ask >= stop; stop sell bid <= stop). *)
Theorem c02_fires_iff :
  forall (F : Type) (NF : Num F) (o : uorder F) (q : quote F),
         well_formed o -> uist_fires o q = true <-> ShouldFill (uo_type o) (uo_price o) q.
Proof. exact @uist_fires_iff. Qed.

(* Buys fill at that tick's ask and sells at its bid, for exactly the ordered quantity, value = price x quantity, dated by the quote. *)
Theorem c02_trade_fields :
  forall (F : Type) (NF : Num F) (o : uorder F) (q : quote F),
         let t := uist_trade o q in
         t_symbol t = uo_symbol o /\
         t_quantity t = uo_shares o /\
         t_date t = q_date q /\
         (otype_is_sell (uo_type o) = false ->
          t_side t = Buy /\ t_value t = q_ask q * uo_shares o) /\
         (otype_is_sell (uo_type o) = true ->
          t_side t = Sell /\ t_value t = q_bid q * uo_shares o).
Proof. exact @uist_trade_fields. Qed.

(* The decision is fill-or-rest: nothing else ever happens to a Uist order. *)
Theorem c02_fill_or_rest :
  forall (F : Type) (NF : Num F) (e : entry (uorder F)) (q : quote F),
         uist_fires (e_ord e) q = true /\ uist_decide e q = AFill (uist_trade (e_ord e) q) \/
         uist_fires (e_ord e) q = false /\ uist_decide e q = ARest.
Proof. exact @uist_decide_cases. Qed.

(* A whole tick: the fills are exactly one per firing resting order, in book order; the orders that did not fire (condition not met, or no quote for their symbol on this tick) keep resting unchanged, in order, followed by the admitted batch; Uist never creates trigger children. *)
Theorem c02_tick :
  forall (F : Type) (NF : Num F) (s : uexch F) (qs : quotes (quote F)) 
           (perm : list nat) (s' : uexch F) (fl : list (N * trade F)) 
           (adm : list (N * uorder F)) (trig : list N),
         Inv s ->
         uist_tick s qs perm = (s', OutTick fl adm trig) ->
         fl = flat_map (utrade qs) (book s) /\
         trig = [] /\
         book s' =
         filter (fun e : entry (uorder F) => negb (ufires qs e)) (book s) ++ map fresh_entry adm /\
         map snd adm = match apply_perm (buffer s) perm with
                       | Some l => l
                       | None => []
                       end.
Proof. exact @uist_tick_spec. Qed.

(* A Uist tick never panics, whatever the orders and quotes. *)
Theorem c02_never_panics :
  forall (F : Type) (NF : Num F) (s : uexch F) (qs : quotes (quote F)) (perm : list nat),
         snd (uist_tick s qs perm) <> OutPanic.
Proof. exact @uist_tick_no_panic. Qed.

(* Outside the property's domain, recorded: a deserialised order with price = null — limit-sell / stop-buy always fire, limit-buy / stop-sell never do (Rust orders None below Some). *)
Theorem c02_null_price :
  forall (F : Type) (NF : Num F) (o : uorder F) (q : quote F),
         uo_price o = None ->
         uist_fires o q = match uo_type o with
                          | LimitBuy | StopSell => false
                          | _ => true
                          end.
Proof. exact @uist_null_price. Qed.

Print Assumptions c02_fires_iff.
Print Assumptions c02_trade_fields.
Print Assumptions c02_fill_or_rest.
Print Assumptions c02_tick.
Print Assumptions c02_never_panics.
Print Assumptions c02_null_price.
