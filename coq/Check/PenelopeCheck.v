(* PenelopeCheck.v — the dataset the real Penelope built from a loading script (read back through its own
   accessors get_date / get_quotes / has_next) against Model/Penelope.v's [load] of the same script. *)
From Coq Require Import ZArith NArith List Bool String Floats.
From Alator Require Import Model.Num Model.Exchange Model.Uist Model.Server Model.Penelope
  Check.Eqb Check.ServerCheck.
Import ListNotations.

Definition P_DATES := 12%N.   Definition P_ROWS := 13%N.   Definition P_HASNEXT := 14%N.

(* maps compared as maps: same size, every observed binding is the model's binding *)
Definition row_map_eqb (o m : row) : bool :=
  Nat.eqb (List.length o) (List.length m)
  && forallb (fun kq => match lookup m (fst kq) with
                        | Some q => quote_eqb q (snd kq)
                        | None => false
                        end) o.

Definition rows_map_eqb (o m : list (Z * row)) : bool :=
  Nat.eqb (List.length o) (List.length m)
  && forallb (fun dr => match zlookup m (fst dr) with
                        | Some r => row_map_eqb (snd dr) r
                        | None => false
                        end) o.

Record pstep := mkPStep {
  ps_calls : list (float * float * Z * string);
  ps_obs : dataset row;
  ps_hn_at_len : bool;        (* has_next(len) as observed *)
  ps_hn_before_len : bool;    (* has_next(len-1) as observed (true for an empty dataset by convention) *)
}.

Definition pstep_mask (st : pstep) : N :=
  let m := load (ps_calls st) in
  let n := List.length (ds_dates m) in
  N.lor (bit P_DATES (list_eqb Z.eqb (ds_dates m) (ds_dates (ps_obs st))))
  (N.lor (bit P_ROWS (rows_map_eqb (ds_rows (ps_obs st)) (ds_rows m)))
         (bit P_HASNEXT (Bool.eqb (has_next m n) (ps_hn_at_len st)
                         && Bool.eqb (match n with O => true | S k => has_next m k end) (ps_hn_before_len st)))).
