(* C04 END TO END over the composition broker + eager client + Uist server + Uist exchange for an arbitrary client (Model/BrokerSys.v), with 'the trades the exchange has executed for it' read as the exchange's OWN trade log of the broker's backtest. [R]. *)
From Coq Require Import ZArith NArith List Bool String Reals.
From Flocq Require Import Raux.
From Alator Require Import Model.Num Model.Quirks Model.Cost Model.Exchange Model.Uist Model.Server Model.Broker
  Model.Strategy Model.BrokerSys Proofs.ServerProofs Proofs.ExchangeProofs Proofs.BrokerLedgerProofs Proofs.EndToEnd05
  Proofs.EndToEnd04.
Import ListNotations.
Local Existing Instance RNum.

(* One operation of the composition is, on the broker, exactly one broker operation of Model/Broker.v (the model compared with the code), with the responses supplied by the server. *)
Theorem c04s_step_is_broker_step :
  forall (qk : quirks) (y : bsys R) (o : bsop R) (y' : bsys R),
         bs_step qk y o = Ok y' ->
         exists (ev : bev R) (fw : list (uorder R)),
           bstep qk (bs_brkr y) (bs_bop y o) = Ok (bs_brkr y', ev, fw).
Proof. exact @bs_step_is_bstep. Qed.

(* Defect-free valuation, every history from a fresh backtest: cash = initial cash + accepted deposits - successful withdrawals - value of every buy + value of every sell in the exchange's log, each trade once. *)
Theorem c04s_cash_from_exchange_log :
  forall (a : uapp) (id : N) (b : backtest (uexch R)) (d : dataset (quotes (quote R)))
           (brk : broker R) (ops : list (bsop R)) (y' : bsys R),
         SInv a ->
         nlookup (backtests a) id = Some b ->
         slookup (datasets a) (bt_dataset b) = Some d ->
         clock_ok d b 0 ->
         bt_exch b = exch_init ->
         rows_total d ->
         let y0 := {| bs_brkr := brk; bs_app := a; bs_id := id |} in
         bs_run clean y0 ops = Ok y' ->
         exists b' : backtest (uexch R),
           nlookup (backtests (bs_app y')) (bs_id y') = Some b' /\
           b_cash (bs_brkr y') =
           (b_cash brk + bs_deposited clean y0 ops - bs_withdrawn clean y0 ops -
            sumR buy_value (xlog (bt_exch b')) + sumR sell_value (xlog (bt_exch b')))%R.
Proof. exact @c04_cash_from_exchange_log. Qed.

(* The code as it is (recorded finding q_liq_fail_debit on): the same law with one extra term, the forced debits of failed liquidation requests that did not exceed cash — the exact size of the open finding. *)
Theorem c04s_cash_from_exchange_log_as_is :
  forall (a : uapp) (id : N) (b : backtest (uexch R)) (d : dataset (quotes (quote R)))
           (brk : broker R) (ops : list (bsop R)) (y' : bsys R),
         SInv a ->
         nlookup (backtests a) id = Some b ->
         slookup (datasets a) (bt_dataset b) = Some d ->
         clock_ok d b 0 ->
         bt_exch b = exch_init ->
         rows_total d ->
         let y0 := {| bs_brkr := brk; bs_app := a; bs_id := id |} in
         bs_run liq_debit y0 ops = Ok y' ->
         exists b' : backtest (uexch R),
           nlookup (backtests (bs_app y')) (bs_id y') = Some b' /\
           b_cash (bs_brkr y') =
           (b_cash brk + bs_deposited liq_debit y0 ops - bs_withdrawn liq_debit y0 ops -
            bs_forced_debits liq_debit y0 ops - sumR buy_value (xlog (bt_exch b')) +
            sumR sell_value (xlog (bt_exch b')))%R.
Proof. exact @c04_cash_from_exchange_log_as_is. Qed.

(* That term vanishes without the defect. *)
Theorem c04s_no_forced_debits_when_clean :
  forall qk : quirks,
         q_liq_fail_debit qk = false ->
         forall (ops : list (bsop R)) (y : bsys R), bs_forced_debits qk y ops = 0%R.
Proof. exact @bs_forced_debits_none. Qed.

Print Assumptions c04s_step_is_broker_step.
Print Assumptions c04s_cash_from_exchange_log.
Print Assumptions c04s_cash_from_exchange_log_as_is.
Print Assumptions c04s_no_forced_debits_when_clean.
