(* C16's last clause AT THE IEEE binary64 INSTANCE, for whole-unit prices: trading alone creates no value, bit for bit. Statements only. `int_float x n`: the binary64 x is finite and equals the integer n. `zp s` is the (integer) constant price of symbol s, at least 1. `wrel b zc zh` ties a float broker to integer cash zc and integer holdings zh (quotes constant at zp, bid = ask); `zworth = zc + sum qty x price` is the integer worth, `zgross` its absolute-value analogue; `finv` is the system invariant (wrel + every resting / buffered order of this broker is integer-valued unless non-finite); `small y` bounds the magnitudes in state y (a computable sum of |cash|, |holdings| x price and twice the volume of the orders the exchange holds) by 2^53; `run_small` asks this of every state an update of the run starts from. Costs never reach cash — they only decide WHICH integer share count is ordered — so whatever rounding happens in the sizing, worth is conserved exactly. Depends on the specification axioms the standard library declares for primitive floats / 63-bit integers and the classical reals (Flocq). *)
From Coq Require Import ZArith NArith List Bool String Floats Reals.
From Flocq Require Import Core.Raux IEEE754.BinarySingleNaN IEEE754.PrimFloat.
From Alator Require Import Model.Num Model.Quirks Model.Cost Model.Exchange Model.Uist Model.Server Model.Broker
  Model.Perf Model.Strategy Proofs.ServerProofs Proofs.BrokerLedgerProofs Proofs.FloatExact Proofs.FloatCash
  Proofs.EndToEndExamples Proofs.FloatWorth Proofs.FloatWorthSys.
Import ListNotations.
Local Open Scope list_scope.

(* f64::floor as modelled (the 2^52 construction) returns, for every finite x, the float of the mathematical floor: share counts that come out of the sizing are integer-valued. *)
Theorem c16f_floor_is_integer :
  forall x : float, ffin x -> int_float (float_floor x) (Zfloor (FR x)).
Proof. exact @float_floor_int. Qed.

(* One fill at the constant price: cash and the position move by exactly quantity x price (the float product is exact), the entry is dropped at zero, and the integer worth is UNCHANGED. *)
Theorem c16f_fill_conserves_worth :
  forall (tbl : libm_table) (zp : string -> Z) (b : broker float) 
           (zc : Z) (zh : smap Z) (t : trade float) (q : Z),
         wrel zp b zc zh ->
         trade_const zp t q ->
         @sget (quote float) (@b_quotes float b) (@t_symbol float t) <> @None (quote float) ->
         (Z.abs (zp (@t_symbol float t) * q) < 2 ^ 53)%Z ->
         (Z.abs (zfill_c zp zc t q) < 2 ^ 53)%Z ->
         (Z.abs (zcur zh (@t_symbol float t) + zdelta t q) < 2 ^ 53)%Z ->
         wrel zp (@book_trade float (FloatNum tbl) b t) (zfill_c zp zc t q) (zfill_h zh t q) /\
         zworth zp (zfill_c zp zc t q) (zfill_h zh t q) = zworth zp zc zh.
Proof. exact @book_trade_wrel. Qed.

(* The broker's total value, for ANY iteration order of the holdings, is the float of the integer worth (integer sums below 2^53 are exact, hence order-independent). *)
Theorem c16f_total_value :
  forall (tbl : libm_table) (zp : string -> Z),
         (forall s : string, (1 <= zp s)%Z) ->
         forall (b : broker float) (zc : Z) (zh : smap Z) (ord : list string),
         wrel zp b zc zh ->
         @is_order_of float ord (@b_holdings float b) = true ->
         (zgross zp zc zh < 2 ^ 53)%Z ->
         int_float (@total_value float (FloatNum tbl) b ord) (zworth zp zc zh).
Proof. exact @total_value_wrel. Qed.

(* A whole check() — booking what the tick returned, then whatever the cash rebalancing does — conserves the integer worth and forwards only integer-valued orders. *)
Theorem c16f_check :
  forall (tbl : libm_table) (zp : string -> Z),
         (forall s : string, (1 <= zp s)%Z) ->
         forall (b : broker float) (zc : Z) (zh : smap Z)
           (resp : option (list (trade float) * list (string * quote float))) 
           (ord : list string) (b' : broker float) (fw : list (uorder float)),
         wrel zp b zc zh ->
         fresp_ok zp b resp ->
         (zgross zp zc zh + 2 * fresp_vol zp resp < 2 ^ 53)%Z ->
         @check float (FloatNum tbl) clean b resp ord =
         @Ok (broker float * list (uorder float)) (b', fw) ->
         exists (zc' : Z) (zh' : smap Z),
           wrel zp b' zc' zh' /\
           zworth zp zc' zh' = zworth zp zc zh /\
           (zgross zp zc' zh' <= zgross zp zc zh + 2 * fresp_vol zp resp)%Z /\
           @qincl (quote float) (@b_quotes float b) (@b_quotes float b') /\
           @Forall (uorder float) (order_ok b') fw.
Proof. exact @check_wrel. Qed.

(* One update of the full composition (tick, fetch, reconcile, rebalance toward the weights, snapshot): the invariant is kept, worth is conserved, and the snapshot's value is the float of the worth. *)
Theorem c16f_update :
  forall (tbl : libm_table) (zp : string -> Z),
         (forall s : string, (1 <= zp s)%Z) ->
         forall (y : sys float) (perm : list nat) (ord : list string) 
           (y' : sys float) (zc : Z) (zh : smap Z),
         finv zp y zc zh ->
         small zp y ->
         @sys_update float (FloatNum tbl) clean y perm ord = @Ok (sys float) y' ->
         exists (zc' : Z) (zh' : smap Z),
           finv zp y' zc' zh' /\
           zworth zp zc' zh' = zworth zp zc zh /\
           (exists sn : snapshot float,
              @st_history float (@sy_strat float y') =
              @st_history float (@sy_strat float y) ++ [sn] /\
              int_float (@sn_value float sn) (zworth zp zc zh)).
Proof. exact @sys_update_wrel. Qed.

(* END TO END: init(c) with an integer-valued deposit, run() on N dates with integer constant zero-spread prices, any weights, costs, hash orders and sort oracles: exactly N updates, N snapshots, and EVERY snapshot's value EQUALS c as a float — under the run-level magnitude premise run_small. *)
Theorem c16f_end_to_end :
  forall (tbl : libm_table) (zp : string -> Z),
         (forall s : string, (1 <= zp s)%Z) ->
         forall (a : @uapp float) (id : N) (b : backtest (uexch float))
           (d : dataset (quotes (quote float))) (costs : list (cost float))
           (q0 : smap (quote float)) (ws : list (string * float)) (c : float) 
           (zc0 : Z) (ord0 : list string) (s1 : strategy float) (fw : list (uorder float))
           (fuel : nat) (perms : nat -> list nat) (ords : nat -> list string) 
           (y' : sys float) (n : nat),
         @SInv (uexch float) (quotes (quote float)) a ->
         @nlookup (backtest (uexch float)) (@backtests (uexch float) (quotes (quote float)) a) id =
         @Some (backtest (uexch float)) b ->
         @slookup (dataset (quotes (quote float)))
           (@datasets (uexch float) (quotes (quote float)) a) (@bt_dataset (uexch float) b) =
         @Some (dataset (quotes (quote float))) d ->
         @clock_ok (uexch float) (quotes (quote float)) d b 0 ->
         @bt_exch (uexch float) b = @exch_init (uorder float) (trade float) ->
         fdataset_const zp d ->
         fquotes_const zp q0 ->
         int_float c zc0 ->
         let s0 :=
           {|
             st_brkr := @broker_init float (FloatNum tbl) costs q0;
             st_weights := ws;
             st_ncf := @fzero float (FloatNum tbl);
             st_history := []
           |} in
         let y0 :=
           {|
             sy_strat := s1; sy_app := @forward float (FloatNum tbl) clean a id fw; sy_id := id
           |} in
         @st_init float (FloatNum tbl) clean s0 c ord0 =
         @Ok (strategy float * list (uorder float)) (s1, fw) ->
         @sys_run float (FloatNum tbl) clean fuel y0 perms ords 0 = @Ok (sys float * nat) (y', n) ->
         run_small tbl zp fuel y0 perms ords 0 ->
         n = @Datatypes.length Z (@ds_dates (quotes (quote float)) d) /\
         @Datatypes.length (snapshot float) (@st_history float (@sy_strat float y')) =
         @Datatypes.length Z (@ds_dates (quotes (quote float)) d) /\
         @Forall (snapshot float) (fun sn : snapshot float => @sn_value float sn = c)
           (@st_history float (@sy_strat float y')).
Proof. exact @float_c16_constant_prices_end_to_end. Qed.

(* Non-vacuity: the kernel-evaluated 3-date run of c16_end_to_end_example meets every premise (run_small by computation) — three snapshots, each exactly 1000. *)
Theorem c16f_example :
  @Datatypes.length (snapshot float) (@st_history float (@sy_strat float ex_y3)) = 3 /\
         @Forall (snapshot float) (fun sn : snapshot float => @sn_value float sn = 1000%float)
           (@st_history float (@sy_strat float ex_y3)).
Proof. exact @float_c16_example_instance. Qed.

(* The magnitude premise cannot be replaced by a bound on the deposit and the prices alone: a weight of -2^50 makes the strategy sell short 2^50-odd shares (a sale of a symbol not held passes the gate whatever its size) and a later snapshot reads 1024 for a deposit of 1000 — rounding at 2^60. *)
Theorem c16f_premise_needed_short_sale :
  ce_init_ok (-1125899906842624) = true /\
         ce_returns (-1125899906842624) = @Some nat 3 /\
         ce_buffered (-1125899906842624) = [11258999068426240%float] /\
         ce_values (-1125899906842624) = [1000%float; 1000%float; 1024%float] /\
         ~ run_small [] ex_zp 10 (ce_y0 (-1125899906842624)) ce_perms ce_ords 0.
Proof. exact @float_c16_counterexample_short_sale. Qed.

(* … and a weight of -2^1023 puts an order for infinitely many shares on the exchange; the last snapshot is NaN. *)
Theorem c16f_premise_needed_infinite_order :
  ce_buffered (-8.9884656743115795e+307) = [infinity] /\
         ce_returns (-8.9884656743115795e+307) = @Some nat 3 /\
         match ce_values (-8.9884656743115795e+307) with
         | [] => False
         | [v1] => False
         | [v1; v2] => False
         | [v1; v2; v3] => v1 = 1000%float /\ v2 = 1000%float /\ PrimFloat.is_nan v3 = true
         | v1 :: v2 :: v3 :: _ :: _ => False
         end.
Proof. exact @float_c16_counterexample_infinite_order. Qed.

Print Assumptions c16f_floor_is_integer.
Print Assumptions c16f_fill_conserves_worth.
Print Assumptions c16f_total_value.
Print Assumptions c16f_check.
Print Assumptions c16f_update.
Print Assumptions c16f_end_to_end.
Print Assumptions c16f_example.
Print Assumptions c16f_premise_needed_short_sale.
Print Assumptions c16f_premise_needed_infinite_order.
