#!/bin/sh
# tools/seed_round3.sh Cxx [extra props…] — confirm and test both round-3 changes (G, H) of one property; the confirmation
# in the scratch worktree runs concurrently with other properties', the run of our checks against /repo is serialised by
# tools/seed.py's lock on /tmp/repo.lock.
p=$1; shift
for lab in G H; do
  SEED_WT=/tmp/seed3_$p python3 /verif/tools/seed.py $p $lab "$@" > /tmp/q/seed_${p}_$lab.log 2>&1
done
