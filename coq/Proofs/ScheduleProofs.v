(* ScheduleProofs.v — C19 *)
From Coq Require Import ZArith List Bool Lia.
From Alator Require Import Model.Schedule Proofs.ScheduleSweep.
Import ListNotations.
Local Open Scope Z_scope.

Lemma zrange_In n : forall s d, In d (zrange n s) <-> s <= d < s + Z.of_nat n.
Proof.
  induction n as [|n IH]; intros s d; cbn [zrange].
  - simpl. lia.
  - cbn [In]. rewrite IH. lia.
Qed.

(* The answer depends only on the calendar day. *)
Lemma day_of_ts_shift t i : day_of_ts (t + i * 86400) = day_of_ts t + i.
Proof. unfold day_of_ts. rewrite Z.div_add by lia. reflexivity. Qed.

Lemma lbd_by_day t : lbd_should_trade t = lbd_should_trade_day (day_of_ts t).
Proof.
  unfold lbd_should_trade, lbd_should_trade_day, lbd_look, lbd_look_day,
    ts_day, ts_month, ts_weekend.
  rewrite !day_of_ts_shift. reflexivity.
Qed.

Lemma lbd_date_only t t' : day_of_ts t = day_of_ts t' -> lbd_should_trade t = lbd_should_trade t'.
Proof. intros H. rewrite !lbd_by_day, H. reflexivity. Qed.

(* ---- periodicity: 400 Gregorian years are 146 097 days, a whole number of weeks ---------------------- *)


Lemma civil_shift d :
  civil_from_days (d + cycle_days) =
  let '(y, m, dd) := civil_from_days d in (y + 400, m, dd).
Proof.
  unfold civil_from_days, cycle_days.
  replace (d + 146097 + 719468) with (d + 719468 + 1 * 146097) by lia.
  rewrite Z.div_add by lia.
  set (z := d + 719468). set (era := z / 146097).
  replace (z + 1 * 146097 - (era + 1) * 146097) with (z - era * 146097) by lia.
  set (doe := z - era * 146097).
  set (yoe := (doe - doe / 1460 + doe / 36524 - doe / 146096) / 365).
  set (doy := doe - (365 * yoe + yoe / 4 - yoe / 100)).
  set (mp := (5 * doy + 2) / 153).
  cbv zeta.
  destruct ((if mp <? 10 then mp + 3 else mp - 9) <=? 2); f_equal; f_equal; lia.
Qed.

Lemma weekday_shift d : weekday_of (d + cycle_days) = weekday_of d.
Proof.
  unfold weekday_of, cycle_days. replace (d + 146097 + 4) with (d + 4 + 20871 * 7) by lia.
  apply Z_mod_plus_full.
Qed.

Lemma weekend_shift d : is_weekend (d + cycle_days) = is_weekend d.
Proof. unfold is_weekend. rewrite weekday_shift. reflexivity. Qed.

Lemma month_shift d : month_of (d + cycle_days) = month_of d.
Proof. unfold month_of. rewrite civil_shift. destruct (civil_from_days d) as [[y m] dd]. reflexivity. Qed.

Lemma dom_shift d : dom_of (d + cycle_days) = dom_of d.
Proof. unfold dom_of. rewrite civil_shift. destruct (civil_from_days d) as [[y m] dd]. reflexivity. Qed.

Lemma year_shift d : year_of (d + cycle_days) = year_of d + 400.
Proof. unfold year_of. rewrite civil_shift. destruct (civil_from_days d) as [[y m] dd]. reflexivity. Qed.

Lemma leap_shift y : is_leap (y + 400) = is_leap y.
Proof.
  unfold is_leap.
  replace (y + 400) with (y + 100 * 4) at 1 by lia. rewrite Z_mod_plus_full.
  replace (y + 400) with (y + 4 * 100) at 1 by lia. rewrite Z_mod_plus_full.
  replace (y + 400) with (y + 1 * 400) by lia. rewrite Z_mod_plus_full. reflexivity.
Qed.

Lemma dim_shift y m : days_in_month (y + 400) m = days_in_month y m.
Proof. unfold days_in_month. rewrite leap_shift. reflexivity. Qed.

Lemma zrange_shift n : forall s c, map (fun k => k + c) (zrange n s) = zrange n (s + c).
Proof.
  induction n as [|n IH]; intros s c; cbn [zrange map]; [reflexivity|].
  f_equal. rewrite IH. f_equal. lia.
Qed.

Lemma lbd_day_shift d : lbd_should_trade_day (d + cycle_days) = lbd_should_trade_day d.
Proof.
  unfold lbd_should_trade_day, lbd_look_day.
  rewrite dom_shift, weekend_shift, month_shift.
  replace (d + cycle_days + 1) with (d + 1 + cycle_days) by lia.
  replace (d + cycle_days + 2) with (d + 2 + cycle_days) by lia.
  replace (d + cycle_days + 3) with (d + 3 + cycle_days) by lia.
  rewrite !weekend_shift, !month_shift. reflexivity.
Qed.

Lemma spec_shift d : spec_last_business_day (d + cycle_days) = spec_last_business_day d.
Proof.
  unfold spec_last_business_day. rewrite civil_shift.
  destruct (civil_from_days d) as [[y m] dd]. rewrite weekend_shift, dim_shift. f_equal.
  induction (zrange (Z.to_nat (days_in_month y m - dd)) 1) as [|k l IHl]; cbn [forallb]; [reflexivity|].
  rewrite IHl. f_equal.
  replace (d + cycle_days + k) with (d + k + cycle_days) by lia. apply weekend_shift.
Qed.

(* a function of the day number that is invariant under a shift by one period is determined by its values on
   one period *)
Lemma periodic_k {A} (f : Z -> A) :
  (forall d, f (d + cycle_days) = f d) -> forall k d, f (d + k * cycle_days) = f d.
Proof.
  intros Hp k. induction k as [|k IH|k IH] using Z.peano_ind; intros d.
  - f_equal. lia.
  - replace (d + Z.succ k * cycle_days) with (d + k * cycle_days + cycle_days) by lia.
    rewrite Hp. apply IH.
  - rewrite <- (Hp (d + Z.pred k * cycle_days)).
    replace (d + Z.pred k * cycle_days + cycle_days) with (d + k * cycle_days) by lia. apply IH.
Qed.

Lemma periodic_reduce {A} (f : Z -> A) :
  (forall d, f (d + cycle_days) = f d) -> forall d, f d = f (d mod cycle_days).
Proof.
  intros Hp d. rewrite <- (periodic_k f Hp (d / cycle_days) (d mod cycle_days)).
  f_equal. pose proof (Z.div_mod d cycle_days ltac:(unfold cycle_days; lia)). lia.
Qed.

(* the schedule agrees with the specification on EVERY day *)
Lemma lbd_spec_day d : lbd_should_trade_day d = spec_last_business_day d.
Proof.
  apply eqb_prop.
  rewrite (periodic_reduce (fun d => Bool.eqb (lbd_should_trade_day d) (spec_last_business_day d))).
  - pose proof spec_sweep as H. rewrite forallb_forall in H. apply H. apply zrange_In.
    pose proof (Z.mod_pos_bound d cycle_days ltac:(unfold cycle_days; lia)).
    rewrite Z2Nat.id by (unfold cycle_days; lia). lia.
  - intros d0. rewrite lbd_day_shift, spec_shift. reflexivity.
Qed.

Lemma lbd_spec t : lbd_should_trade t = spec_last_business_day (day_of_ts t).
Proof. rewrite lbd_by_day. apply lbd_spec_day. Qed.

(* Prop-level reading of the specification *)
Lemma spec_last_business_day_iff d :
  spec_last_business_day d = true <->
  (is_weekend d = false /\
   forall k, 1 <= k <= days_in_month (year_of d) (month_of d) - dom_of d ->
             is_weekend (d + k) = true).
Proof.
  unfold spec_last_business_day, year_of, month_of, dom_of.
  destruct (civil_from_days d) as [[y m] dd]. cbn [fst snd].
  rewrite andb_true_iff, negb_true_iff, forallb_forall.
  split; intros [Hw H]; split; try exact Hw.
  - intros k Hk. apply H. apply zrange_In. lia.
  - intros k Hk. apply zrange_In in Hk. apply H. lia.
Qed.

Lemma iter_succ_r {A} (f : A -> A) k x : Nat.iter (S k) f x = Nat.iter k f (f x).
Proof. induction k as [|k IH]; [reflexivity|]. simpl in *. rewrite IH. reflexivity. Qed.

(* the calendar the model uses is the Gregorian one, day by day *)
Lemma calendar_agrees_nth n : forall d c,
  calendar_agrees n d c = true ->
  forall k, (k < n)%nat -> civil_from_days (d + Z.of_nat k) = Nat.iter k next_ymd c.
Proof.
  induction n as [|n IH]; intros d c H k Hk; [lia|].
  cbn [calendar_agrees] in H. apply andb_true_iff in H as [H0 H1].
  destruct k as [|k].
  - simpl. rewrite Z.add_0_r.
    destruct (civil_from_days d) as [[y m] dd], c as [[y' m'] dd'].
    unfold ymd_eqb in H0. rewrite !andb_true_iff, !Z.eqb_eq in H0.
    destruct H0 as [[-> ->] ->]. reflexivity.
  - replace (d + Z.of_nat (S k)) with (d + 1 + Z.of_nat k) by lia.
    rewrite (IH _ _ H1 k ltac:(lia)). rewrite iter_succ_r. reflexivity.
Qed.

Lemma ymd_eqb_refl c : ymd_eqb c c = true.
Proof. destruct c as [[y m] dd]. unfold ymd_eqb. rewrite !Z.eqb_refl. reflexivity. Qed.

(* next_ymd commutes with a shift by 400 years *)
Lemma next_ymd_shift y m dd :
  next_ymd (y + 400, m, dd) = let '(y', m', dd') := next_ymd (y, m, dd) in (y' + 400, m', dd').
Proof.
  unfold next_ymd. rewrite dim_shift.
  destruct (dd <? days_in_month y m); [reflexivity|].
  destruct (m <? 12); [reflexivity|]. f_equal. f_equal. lia.
Qed.

(* the model's calendar is the proleptic Gregorian calendar on EVERY day: 1970-01-01 is day 0 and each day's
   date is the successor (days_in_month / leap-year rule) of the previous day's *)
Lemma civil_epoch : civil_from_days 0 = (1970, 1, 1).
Proof. reflexivity. Qed.

Lemma civil_next d : civil_from_days (d + 1) = next_ymd (civil_from_days d).
Proof.
  apply (f_equal (fun b => b)).
  assert (Hp : forall d0, ymd_eqb (civil_from_days (d0 + cycle_days + 1)) (next_ymd (civil_from_days (d0 + cycle_days)))
                          = ymd_eqb (civil_from_days (d0 + 1)) (next_ymd (civil_from_days d0))).
  { intros d0. replace (d0 + cycle_days + 1) with (d0 + 1 + cycle_days) by lia. rewrite !civil_shift.
    destruct (civil_from_days (d0 + 1)) as [[y1 m1] dd1]. destruct (civil_from_days d0) as [[y m] dd].
    rewrite next_ymd_shift. destruct (next_ymd (y, m, dd)) as [[y' m'] dd']. unfold ymd_eqb.
    f_equal. f_equal. apply eq_true_iff_eq. rewrite !Z.eqb_eq. lia. }
  assert (Hall : ymd_eqb (civil_from_days (d + 1)) (next_ymd (civil_from_days d)) = true).
  { rewrite (periodic_reduce (fun d => ymd_eqb (civil_from_days (d + 1)) (next_ymd (civil_from_days d))) Hp).
    set (r := d mod cycle_days).
    pose proof (Z.mod_pos_bound d cycle_days ltac:(unfold cycle_days; lia)) as Hr. fold r in Hr.
    pose proof (calendar_agrees_nth _ _ _ calendar_sweep) as H.
    pose proof (H (Z.to_nat r) ltac:(unfold cycle_days in *; lia)) as H0.
    pose proof (H (S (Z.to_nat r)) ltac:(unfold cycle_days in *; lia)) as H1.
    rewrite Z.add_0_l, Z2Nat.id in H0 by lia.
    rewrite Z.add_0_l, Nat2Z.inj_succ, Z2Nat.id in H1 by lia.
    replace (Z.succ r) with (r + 1) in H1 by lia.
    rewrite H1, H0. cbn [Nat.iter]. apply ymd_eqb_refl. }
  destruct (civil_from_days (d + 1)) as [[y1 m1] dd1]. destruct (next_ymd (civil_from_days d)) as [[y m] dd].
  unfold ymd_eqb in Hall. rewrite !andb_true_iff, !Z.eqb_eq in Hall. destruct Hall as [[-> ->] ->]. reflexivity.
Qed.

Lemma civil_is_gregorian d :
  0 <= d -> civil_from_days d = Nat.iter (Z.to_nat d) next_ymd (1970, 1, 1).
Proof.
  intros Hd. rewrite <- (Z2Nat.id d Hd) at 1. induction (Z.to_nat d) as [|n IH]; [reflexivity|].
  rewrite Nat2Z.inj_succ. replace (Z.succ (Z.of_nat n)) with (Z.of_nat n + 1) by lia.
  rewrite civil_next, IH. reflexivity.
Qed.
