(* C05 at the IEEE instance, whole shares — the case the property names. Statements only. `int_float x n` says the binary64 value x is finite and equals the integer n (Flocq's B2R of Coq's primitive float). No rounding anywhere: for whole-share quantities whose running totals stay below 2^53 the float holdings the code computes ARE bought minus sold, and a flat position is absent. Depends on the specification axioms the standard library declares for its primitive floats / 63-bit integers (FloatAxioms.*_spec, Uint63.*_spec) and on the classical real-number axioms (through Flocq). *)
From Coq Require Import ZArith NArith List Bool String Floats.
From Flocq Require Import IEEE754.BinarySingleNaN IEEE754.PrimFloat.
From Alator Require Import Model.Num Model.Quirks Model.Cost Model.Exchange Model.Uist Model.Broker
  Proofs.BrokerLedgerProofs Proofs.FloatExact.
Import ListNotations.

(* binary64 addition of integer-valued floats is exact when the result is below 2^53 in magnitude … *)
Theorem c05f_add_exact :
  forall (x y : float) (a b : Z),
         int_float x a ->
         int_float y b -> (Z.abs (a + b) < 2 ^ 53)%Z -> int_float (x + y) (a + b).
Proof. exact @add_int_exact_strong. Qed.

(* … so is subtraction … *)
Theorem c05f_sub_exact :
  forall (x y : float) (a b : Z),
         int_float x a ->
         int_float y b -> (Z.abs (a - b) < 2 ^ 53)%Z -> int_float (x - y) (a - b).
Proof. exact @sub_int_exact_strong. Qed.

(* … and the `== 0.0` test that decides whether an entry is dropped agrees with the integer test. *)
Theorem c05f_eqb_zero :
  forall (x : float) (n : Z), int_float x n -> (x =? 0)%float = (n =? 0)%Z.
Proof. exact @eqb_zero_int. Qed.

(* Whole-share quantities exist: the float of an integer below 2^53 is that integer. *)
Theorem c05f_ofZ :
  forall n : Z, (Z.abs n < 2 ^ 53)%Z -> int_float (float_ofZ n) n.
Proof. exact @int_float_ofZ. Qed.

(* One booked trade: float holdings and pending move exactly as the integer model's (add or subtract the quantity, drop the entry when it becomes 0). *)
Theorem c05f_book_trade :
  forall (tbl : libm_table) (b : broker float) (t : trade float) (q : Z) (hz pz : smap Z),
         hrel (@b_holdings float b) hz ->
         hrel (@b_pending float b) pz ->
         int_float (@t_quantity float t) q ->
         (Z.abs (zcur hz (@t_symbol float t) + zdelta t q) < 2 ^ 53)%Z ->
         (Z.abs (zcur pz (@t_symbol float t) - zdelta t q) < 2 ^ 53)%Z ->
         hrel (@b_holdings float (@book_trade float (FloatNum tbl) b t))
           (zupd hz (@t_symbol float t) (zdelta t q)) /\
         hrel (@b_pending float (@book_trade float (FloatNum tbl) b t))
           (zupd pz (@t_symbol float t) (- zdelta t q)).
Proof. exact @book_trade_holdings_exact. Qed.

(* Any list of trades with whole-share quantities, running totals below 2^53: after booking them the float holdings and pending exposure are, key by key and in the same order, the images of the integer model's. *)
Theorem c05f_history :
  forall (tbl : libm_table) (tqs : list (trade float * Z)) (b : broker float)
           (hz pz : smap Z),
         hrel (@b_holdings float b) hz ->
         hrel (@b_pending float b) pz ->
         whole tqs ->
         bounded hz pz tqs ->
         hrel
           (@b_holdings float
              (@fold_left (broker float) (trade float) (@book_trade float (FloatNum tbl))
                 (@map (trade float * Z) (trade float) (@fst (trade float) Z) tqs) b))
           (zrun_h hz tqs) /\
         hrel
           (@b_pending float
              (@fold_left (broker float) (trade float) (@book_trade float (FloatNum tbl))
                 (@map (trade float * Z) (trade float) (@fst (trade float) Z) tqs) b))
           (zrun_p pz tqs).
Proof. exact @holdings_whole_shares_exact. Qed.

(* The integer model from an empty book: holdings(s) = bought - sold over the trades of s, no zero entry, keys unique … *)
Theorem c05f_integer_ledger :
  forall tqs : list (trade float * Z),
         let hz := zrun_h [] tqs in
         (forall s : string, zcur hz s = bought_minus_sold s tqs) /\
         @Forall (string * Z) (fun kv : string * Z => @snd string Z kv <> 0%Z) hz /\
         @NoDup string (@map (string * Z) string (@fst string Z) hz).
Proof. exact @zholdings_ledger. Qed.

(* … and pending likewise with the opposite sign. *)
Theorem c05f_integer_pending_ledger :
  forall tqs : list (trade float * Z),
         let pz := zrun_p [] tqs in
         (forall s : string, zcur pz s = @zsum (trade float * Z) tq_key tq_pdelta s tqs) /\
         @Forall (string * Z) (fun kv : string * Z => @snd string Z kv <> 0%Z) pz /\
         @NoDup string (@map (string * Z) string (@fst string Z) pz).
Proof. exact @zpending_ledger. Qed.

(* HEADLINE: a broker starting with no holdings and no pending exposure, any trades with whole-share quantities of total volume below 2^53: for every symbol the float holding is exactly bought minus sold (an integer-valued float), and the symbol is absent exactly when that is 0. *)
Theorem c05f_holdings_are_bought_minus_sold :
  forall (tbl : libm_table) (b : broker float) (tqs : list (trade float * Z)),
         @b_holdings float b = [] ->
         @b_pending float b = [] ->
         whole tqs ->
         (volume tqs < 2 ^ 53)%Z ->
         forall s : string,
         match
           @sget float
             (@b_holdings float
                (@fold_left (broker float) (trade float) (@book_trade float (FloatNum tbl))
                   (@map (trade float * Z) (trade float) (@fst (trade float) Z) tqs) b)) s
         with
         | Some x => int_float x (bought_minus_sold s tqs) /\ bought_minus_sold s tqs <> 0%Z
         | None => bought_minus_sold s tqs = 0%Z
         end.
Proof. exact @float_holdings_exact_of_volume. Qed.

(* Non-vacuity: buy 10, sell 4, sell 6 of ABC from an empty broker — evaluated and instantiated. *)
Theorem c05f_example :
  forall s : string,
         match
           @sget float
             (@b_holdings float
                (@fold_left (broker float) (trade float) (@book_trade float (FloatNum []))
                   (@map (trade float * Z) (trade float) (@fst (trade float) Z) ex_tqs) ex_b0)) s
         with
         | Some x =>
             int_float x (bought_minus_sold s ex_tqs) /\ bought_minus_sold s ex_tqs <> 0%Z
         | None => bought_minus_sold s ex_tqs = 0%Z
         end.
Proof. exact @ex_headline_instance. Qed.

Print Assumptions c05f_add_exact.
Print Assumptions c05f_sub_exact.
Print Assumptions c05f_eqb_zero.
Print Assumptions c05f_ofZ.
Print Assumptions c05f_book_trade.
Print Assumptions c05f_history.
Print Assumptions c05f_integer_ledger.
Print Assumptions c05f_integer_pending_ledger.
Print Assumptions c05f_holdings_are_bought_minus_sold.
Print Assumptions c05f_example.
