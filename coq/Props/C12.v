(* C12 — rebalancing orders move each holding toward its target, within budget. Statements only. [R]-theorems are about the model's definitions at the real-number instance (the same definitions are compared bit-for-bit with the code at the IEEE instance); the two shape theorems hold for every Num F. *)
From Coq Require Import ZArith NArith List Bool String Permutation Reals.
From Flocq Require Import Raux.
From Alator Require Import Model.Num Model.Quirks Model.Cost Model.Exchange Model.Uist Model.Broker
  Proofs.CostProofs Proofs.DiffProofs.
Import ListNotations.
Local Existing Instance RNum.
Local Open Scope R_scope.

(* The result is literally sells ++ buys: all sells precede all buys; buys are market buys, sells market sells (every Num F, any quirk valuation). *)
Theorem c12_sells_first_shape :
  forall (F : Type) (NF : Num F) (qk : quirks) (b : broker F) 
           (ws : list (string * F)) (ord : list string) (os : list (uorder F)),
         diff_orders qk b ws ord = Ok os ->
         exists buys sells : list (uorder F),
           diff_loop qk b (liquidation_value b ord) ws = (buys, sells) /\
           os = sells ++ buys /\
           Forall (fun o : uorder F => uo_type o = MarketBuy /\ uo_price o = None) buys /\
           Forall (fun o : uorder F => uo_type o = MarketSell /\ uo_price o = None) sells.
Proof. exact @diff_orders_shape. Qed.

(* At most one order per target symbol, only for symbols of the weight map that have a quote (every Num F). *)
Theorem c12_one_order_per_quoted_target :
  forall (F : Type) (NF : Num F) (qk : quirks) (b : broker F) 
           (total : F) (ws : list (string * F)) (buys sells : list (uorder F)),
         NoDup (map fst ws) ->
         diff_loop qk b total ws = (buys, sells) ->
         NoDup (map uo_symbol (sells ++ buys)) /\
         (forall o : uorder F,
          In o (sells ++ buys) ->
          In (uo_symbol o) (map fst ws) /\ sget (b_quotes b) (uo_symbol o) <> None).
Proof. exact @diff_loop_symbols. Qed.

(* `wanted` — the property's per-symbol demand, written independently of the loop: nothing for an unquoted symbol or a zero gap; a market buy of n = floor(net budget / net price) shares when the position is worth less than weight x total and n >= 1; a market sell likewise when it is worth more; nothing when n < 1 — is total … *)
Theorem c12_wanted_total :
  forall (b : broker R) (total : R) (s : string) (w : R),
         exists r : option (uorder R), wanted b total s w r.
Proof. exact @wanted_total. Qed.

(* … and functional. *)
Theorem c12_wanted_functional :
  forall (b : broker R) (total : R) (s : string) (w : R) (r1 r2 : option (uorder R)),
         wanted b total s w r1 -> wanted b total s w r2 -> r1 = r2.
Proof. exact @wanted_functional. Qed.

(* [R] The orders produced are exactly the wanted ones: one per target symbol that wants one, nothing else — never zero-sized, never in the opposite direction. *)
Theorem c12_per_symbol :
  forall (b : broker R) (total : R) (ws : list (string * R))
           (buys sells : list (uorder R)),
         NoDup (map fst ws) ->
         diff_loop clean b total ws = (buys, sells) ->
         forall o : uorder R,
         In o (sells ++ buys) <->
         (exists w : R, In (uo_symbol o, w) ws /\ wanted b total (uo_symbol o) w (Some o)).
Proof. exact @diff_loop_spec. Qed.

(* [R] For two enumerations of the same weight map the buys are permutations of one another, and so are the sells … *)
Theorem c12_order_independent_loop :
  forall (b : broker R) (total : R) (ws ws' : list (string * R))
           (buys sells buys' sells' : list (uorder R)),
         NoDup (map fst ws) ->
         Permutation ws ws' ->
         diff_loop clean b total ws = (buys, sells) ->
         diff_loop clean b total ws' = (buys', sells') ->
         Permutation buys buys' /\ Permutation sells sells'.
Proof. exact @diff_loop_perm. Qed.

(* [R] … and so is the whole result, for any two iteration orders of the weights map and of the holdings map. *)
Theorem c12_order_independent :
  forall (b : broker R) (ws ws' : list (string * R)) (ord ord' : list string)
           (os os' : list (uorder R)),
         NoDup (map fst ws) ->
         Permutation ws ws' ->
         Permutation ord ord' ->
         diff_orders clean b ws ord = Ok os ->
         diff_orders clean b ws' ord' = Ok os' -> Permutation os os'.
Proof. exact @diff_orders_perm. Qed.

(* Refuted for the code as it was: `break` on a zero gap — a zero-weight symbol first in iteration order suppresses the order for a later symbol. *)
Theorem c12_refuted_q_diff_break :
  let b :=
           {|
             b_cash := 1000;
             b_holdings := [];
             b_pending := [];
             b_quotes :=
               [("ABC"%string, {| q_bid := 10; q_ask := 10; q_date := 1; q_symbol := "ABC" |});
                ("BCD"%string, {| q_bid := 10; q_ask := 10; q_date := 1; q_symbol := "BCD" |})];
             b_log := [];
             b_costs := [];
             b_failed := false
           |} in
         diff_loop break_defect b 1000 [("ABC"%string, 0); ("BCD"%string, 1 / 2)] = ([], []) /\
         (exists o : uorder R,
            diff_loop clean b 1000 [("ABC"%string, 0); ("BCD"%string, 1 / 2)] = ([o], []) /\
            uo_shares o = 50).
Proof. exact @c12_refuted_q_diff_break. Qed.

(* Refuted for the code as it was: with a flat fee of 10 and a gap of +1 the negative floor turned a (too small) buy into a MarketSell. *)
Theorem c12_refuted_q_diff_direction_flip :
  let b :=
           {|
             b_cash := 1;
             b_holdings := [];
             b_pending := [];
             b_quotes :=
               [("ABC"%string, {| q_bid := 10; q_ask := 10; q_date := 1; q_symbol := "ABC" |})];
             b_log := [];
             b_costs := [Flat 10];
             b_failed := false
           |} in
         (exists o : uorder R,
            diff_loop flip_defect b 1 [("ABC"%string, 1)] = ([], [o]) /\ uo_type o = MarketSell) /\
         diff_loop clean b 1 [("ABC"%string, 1)] = ([], []).
Proof. exact @c12_refuted_q_diff_direction_flip. Qed.

Print Assumptions c12_sells_first_shape.
Print Assumptions c12_one_order_per_quoted_target.
Print Assumptions c12_wanted_total.
Print Assumptions c12_wanted_functional.
Print Assumptions c12_per_symbol.
Print Assumptions c12_order_independent_loop.
Print Assumptions c12_order_independent.
Print Assumptions c12_refuted_q_diff_break.
Print Assumptions c12_refuted_q_diff_direction_flip.
